(* C03 — lemmas about the builder model: key lists, the flattened content
   model, fuel, and "the object built for a type mirrors the type". *)
From Coq Require Import ZifyBool ZifyNat ZifyN.
From SV Require Import Lib.Base Fam.Schema C03.Model C03.Spec.

(* ------------------------------------------------------------------ *)
(* boolean equalities                                                  *)
(* ------------------------------------------------------------------ *)
Lemma key_eqb_refl_l k : key_eqb k k = true.
Proof. destruct k as [n b]. unfold key_eqb. cbn. rewrite N.eqb_refl. destruct b; reflexivity. Qed.

Lemma key_eqb_eq_l a b : key_eqb a b = true <-> a = b.
Proof.
  destruct a as [n1 b1], b as [n2 b2]. unfold key_eqb. cbn. split.
  - intro H. apply andb_true_iff in H as [H1 H2]. apply N.eqb_eq in H1. apply eqb_prop in H2. congruence.
  - intro H. inversion H; subst. rewrite N.eqb_refl. destruct b2; reflexivity.
Qed.

Lemma key_eqb_sym_l a b : key_eqb a b = key_eqb b a.
Proof.
  destruct (key_eqb a b) eqn:E.
  - apply key_eqb_eq_l in E. subst. symmetry. apply key_eqb_refl_l.
  - destruct (key_eqb b a) eqn:E2; auto. apply key_eqb_eq_l in E2. subst. rewrite key_eqb_refl_l in E. discriminate.
Qed.

Lemma qn_eqb_eq_l a b : qn_eqb a b = true <-> a = b.
Proof.
  destruct a as [x1 y1], b as [x2 y2]. unfold qn_eqb. cbn. split.
  - intro H. apply andb_true_iff in H as [H1 H2]. apply N.eqb_eq in H1. apply N.eqb_eq in H2. congruence.
  - intro H. inversion H; subst. rewrite !N.eqb_refl. reflexivity.
Qed.

Lemma tref_eqb_eq_l a b : tref_eqb a b = true <-> a = b.
Proof.
  destruct a, b; cbn; split; intro H; try congruence; try discriminate.
  - apply andb_true_iff in H as [H1 H2]. apply N.eqb_eq in H1. apply N.eqb_eq in H2. congruence.
  - inversion H; subst. rewrite !N.eqb_refl. reflexivity.
Qed.

Lemma opt_N_eqb_eq a b : opt_eqb N.eqb a b = true <-> a = b.
Proof.
  destruct a, b; cbn; split; intro H; try congruence; try discriminate.
  - apply N.eqb_eq in H. congruence.
  - inversion H. apply N.eqb_refl.
Qed.

Lemma edecl_eqb_eq_l a b : edecl_eqb a b = true <-> a = b.
Proof.
  destruct a, b. unfold edecl_eqb. cbn. split.
  - intro H. rewrite !andb_true_iff in H. destruct H as [[[[[[[H1 H2] H3] H4] H5] H6] H7] H8].
    apply N.eqb_eq in H1. apply N.eqb_eq in H2. apply eqb_prop in H3. apply tref_eqb_eq_l in H4.
    apply eqb_prop in H5. apply eqb_prop in H6. apply eqb_prop in H7. apply opt_N_eqb_eq in H8.
    congruence.
  - intro H. inversion H; subst. rewrite !N.eqb_refl, !eqb_reflx.
    replace (tref_eqb e_type0 e_type0) with true by (symmetry; apply tref_eqb_eq_l; reflexivity).
    replace (opt_eqb N.eqb e_default0 e_default0) with true by (symmetry; apply opt_N_eqb_eq; reflexivity).
    reflexivity.
Qed.

Lemma hid_eqb_eq_l a b : hid_eqb a b = true <-> a = b.
Proof.
  destruct a as [[o1 i1] d1], b as [[o2 i2] d2]. unfold hid_eqb. cbn. split.
  - intro H. apply andb_true_iff in H as [H H3]. apply andb_true_iff in H as [H1 H2].
    apply qn_eqb_eq_l in H1. apply Nat.eqb_eq in H2. apply edecl_eqb_eq_l in H3. congruence.
  - intro H. inversion H; subst.
    replace (qn_eqb o2 o2) with true by (symmetry; apply qn_eqb_eq_l; reflexivity).
    rewrite Nat.eqb_refl.
    replace (edecl_eqb d2 d2) with true by (symmetry; apply edecl_eqb_eq_l; reflexivity).
    reflexivity.
Qed.

Lemma hid_in_In h l : hid_in h l = true <-> In h l.
Proof.
  unfold hid_in. rewrite existsb_exists. split.
  - intros [x [Hx He]]. apply hid_eqb_eq_l in He. subst. exact Hx.
  - intro H. exists h. split; auto. apply hid_eqb_eq_l. reflexivity.
Qed.

(* ------------------------------------------------------------------ *)
(* key lists                                                           *)
(* ------------------------------------------------------------------ *)
Lemma get_set_key k k' v l :
  get_key k (set_key k' v l) = if key_eqb k k' then Some v else get_key k l.
Proof.
  induction l as [|[k0 v0] l IH]; cbn.
  - rewrite (key_eqb_sym_l k k'). destruct (key_eqb k' k) eqn:E; reflexivity.
  - destruct (key_eqb k' k0) eqn:E0; cbn.
    + apply key_eqb_eq_l in E0. subst k0. destruct (key_eqb k k'); reflexivity.
    + destruct (key_eqb k k0) eqn:E1.
      * destruct (key_eqb k k') eqn:E2; auto.
        apply key_eqb_eq_l in E1. apply key_eqb_eq_l in E2. subst. rewrite key_eqb_refl_l in E0. discriminate.
      * exact IH.
Qed.

Lemma keys_set_key k v l k0 :
  In k0 (map fst (set_key k v l)) -> k0 = k \/ In k0 (map fst l).
Proof.
  induction l as [|[k1 v1] l IH]; cbn.
  - intros [H|[]]; auto.
  - destruct (key_eqb k k1) eqn:E; cbn.
    + intros [H|H]; auto.
    + intros [H|H]; auto. destruct (IH H); auto.
Qed.

Lemma nodup_app_l {A} (a b : list A) x : NoDup (a ++ b) -> In x a -> ~ In x b.
Proof.
  induction a as [|y a IH]; cbn; intros Hn Hi; [contradiction|].
  inversion Hn; subst. destruct Hi as [->|Hi].
  - intro Hb. apply H1. apply in_or_app. right. exact Hb.
  - apply IH; assumption.
Qed.

Lemma nodup_app_r {A} (a b : list A) : NoDup (a ++ b) -> NoDup b.
Proof. induction a; cbn; intro H; auto. inversion H; auto. Qed.

Lemma nodup_app_left {A} (a b : list A) : NoDup (a ++ b) -> NoDup a.
Proof.
  induction a as [|y a IH]; cbn; intro H; [constructor|].
  inversion H; subst. constructor.
  - intro Hi. apply H2. apply in_or_app. left. exact Hi.
  - apply IH. exact H3.
Qed.

(* ------------------------------------------------------------------ *)
(* what a built object iterates as                                     *)
(* ------------------------------------------------------------------ *)
Definition item_keys (it : fitem) : list key :=
  match it with
  | FE _ _ d _ _ => [(e_name d, false)]
  | FW => []
  | FA a => [(a_name a, true)]
  end.

Lemma ordering_flat items : ordering items = flat_map item_keys items.
Proof. reflexivity. Qed.

Lemma ordering_app a b : ordering (a ++ b) = ordering a ++ ordering b.
Proof. unfold ordering. apply flat_map_app. Qed.

Definition attr_entry (a : adecl) : key * pv :=
  ((a_name a, true), PStr (match a_default a with Some t => t | None => 0%N end)).

Definition emit_attr (it : fitem) : option (key * pv) :=
  match it with FA a => Some (attr_entry a) | _ => None end.

(* the last value an emission function gives key k along a list of items *)
Fixpoint lk (em : fitem -> option (key * pv)) (k : key) (items : list fitem) : option pv :=
  match items with
  | [] => None
  | it :: r =>
      match lk em k r with
      | Some v => Some v
      | None => match em it with
                | Some (k', v) => if key_eqb k k' then Some v else None
                | None => None
                end
      end
  end.

Lemma lk_app em k a b :
  lk em k (a ++ b) = match lk em k b with Some v => Some v | None => lk em k a end.
Proof.
  induction a as [|it a IH]; cbn.
  - destruct (lk em k b); reflexivity.
  - rewrite IH. destruct (lk em k b); reflexivity.
Qed.

Definition keys_sound (em : fitem -> option (key * pv)) : Prop :=
  forall it k v, em it = Some (k, v) -> In k (item_keys it).

Lemma lk_none em k items :
  keys_sound em -> ~ In k (ordering items) -> lk em k items = None.
Proof.
  intros Hs. induction items as [|it r IH]; cbn; intro Hn; auto.
  rewrite ordering_flat in Hn. cbn in Hn.
  rewrite IH by (intro Hi; apply Hn; apply in_or_app; right; exact Hi).
  destruct (em it) as [[k' v]|] eqn:E; auto.
  destruct (key_eqb k k') eqn:Ek; auto. apply key_eqb_eq_l in Ek. subst k'.
  exfalso. apply Hn. apply in_or_app. left. eapply Hs; eauto.
Qed.

Lemma add_attrs_get k items data :
  get_key k (add_attrs items data) =
  match lk emit_attr k items with Some v => Some v | None => get_key k data end.
Proof.
  revert data. induction items as [|it r IH]; intro data; cbn; auto.
  destruct it as [o i d ch op| |a]; cbn.
  - rewrite IH. destruct (lk emit_attr k r); reflexivity.
  - rewrite IH. destruct (lk emit_attr k r); reflexivity.
  - rewrite IH. destruct (lk emit_attr k r); auto.
    rewrite get_set_key. unfold attr_entry. destruct (key_eqb k (a_name a, true)); reflexivity.
Qed.

Section Emit.
Variable W : wsdl.
Variable rec : list hid -> ctype -> keylist.
Variable hist : list hid.

Lemma process_all_get k items data :
  get_key k (process_all W rec hist items data) =
  match lk (member_value W rec hist) k items with Some v => Some v | None => get_key k data end.
Proof.
  revert data. induction items as [|it r IH]; intro data; cbn; auto.
  rewrite IH. destruct (lk (member_value W rec hist) k r); auto.
  unfold process_with. destruct (member_value W rec hist it) as [[k' v]|]; auto.
  rewrite get_set_key. destruct (key_eqb k k'); reflexivity.
Qed.

Lemma member_value_key it k v :
  member_value W rec hist it = Some (k, v) -> k = match it with FE _ _ d _ _ => (e_name d, false) | _ => k end.
Proof.
  destruct it as [o i d ch op| |a]; cbn; auto.
  destruct ch; [discriminate|]. destruct (hid_in (o, i, d) hist); [discriminate|].
  destruct (e_multi d); [intro H; inversion H; reflexivity|].
  destruct (resolve_type W (e_type d)) as [|t|n vals].
  - intro H; inversion H; reflexivity.
  - destruct (all_items W t); [intro H; inversion H; reflexivity|].
    destruct (e_opt d); intro H; inversion H; reflexivity.
  - destruct vals; [intro H; inversion H; reflexivity|].
    destruct (e_opt d); intro H; inversion H; reflexivity.
Qed.

Arguments member_value : simpl never.

Lemma member_value_sound : keys_sound (member_value W rec hist).
Proof.
  intros it k v H. pose proof (member_value_key it k v H) as Hk.
  destruct it as [o i d ch op| |a]; cbn in *; try discriminate. left. symmetry. exact Hk.
Qed.

Lemma emit_attr_sound : keys_sound emit_attr.
Proof.
  intros it k v H. destruct it; cbn in *; try discriminate. inversion H. left. reflexivity.
Qed.

(* what one item contributes to the iteration of the finished object *)
Definition emit (it : fitem) : list (key * pv) :=
  match it with
  | FA a => [attr_entry a]
  | _ => match member_value W rec hist it with Some kv => [kv] | None => [] end
  end.

Definition built (items : list fitem) : keylist :=
  process_all W rec hist items (add_attrs items []).

Lemma built_get k items :
  get_key k (built items) =
  match lk (member_value W rec hist) k items with
  | Some v => Some v
  | None => lk emit_attr k items
  end.
Proof.
  unfold built. rewrite process_all_get, add_attrs_get. cbn.
  destruct (lk (member_value W rec hist) k items); auto. destruct (lk emit_attr k items); reflexivity.
Qed.

Lemma lk_unique em k pre it post :
  keys_sound em -> ~ In k (ordering pre) -> ~ In k (ordering post) ->
  lk em k (pre ++ it :: post) =
  match em it with Some (k', v) => if key_eqb k k' then Some v else None | None => None end.
Proof.
  intros Hs Hpre Hpost. rewrite lk_app. cbn. rewrite (lk_none em k post Hs Hpost).
  destruct (em it) as [[k' v]|].
  - destruct (key_eqb k k'); auto. apply lk_none; auto.
  - apply lk_none; auto.
Qed.

Lemma iter_built_gen pre items :
  NoDup (ordering (pre ++ items)) ->
  flat_map (fun k => match get_key k (built (pre ++ items)) with Some v => [(k, v)] | None => [] end)
           (ordering items)
  = flat_map emit items.
Proof.
  revert pre. induction items as [|it r IH]; intros pre Hn; auto.
  change (ordering (it :: r)) with (item_keys it ++ ordering r). rewrite flat_map_app.
  change (flat_map emit (it :: r)) with (emit it ++ flat_map emit r).
  assert (Hr : flat_map (fun k => match get_key k (built (pre ++ it :: r)) with Some v => [(k, v)] | None => [] end)
                        (ordering r) = flat_map emit r).
  { specialize (IH (pre ++ [it])). rewrite <- app_assoc in IH. cbn in IH. apply IH. exact Hn. }
  rewrite Hr. f_equal.
  rewrite ordering_app in Hn. change (ordering (it :: r)) with (item_keys it ++ ordering r) in Hn.
  assert (Hk : forall k, In k (item_keys it) -> ~ In k (ordering pre) /\ ~ In k (ordering r)).
  { intros k Hk. split.
    - intro Hp. eapply (nodup_app_l (ordering pre)); eauto. apply in_or_app. left. exact Hk.
    - apply nodup_app_r in Hn. eapply nodup_app_l; eauto. }
  destruct it as [o i d ch op| |a]; cbn [item_keys flat_map emit app].
  - destruct (Hk (e_name d, false) (or_introl eq_refl)) as [Hp Hq].
    rewrite built_get. rewrite (lk_unique _ _ pre _ r member_value_sound Hp Hq).
    rewrite (lk_unique _ _ pre _ r emit_attr_sound Hp Hq). cbn [emit_attr].
    destruct (member_value W rec hist (FE o i d ch op)) as [[k' v]|] eqn:E; auto.
    pose proof (member_value_key _ _ _ E) as Hk'. cbn in Hk'. subst k'.
    rewrite key_eqb_refl_l. reflexivity.
  - reflexivity.
  - destruct (Hk (a_name a, true) (or_introl eq_refl)) as [Hp Hq].
    rewrite built_get. rewrite (lk_unique _ _ pre _ r member_value_sound Hp Hq).
    rewrite (lk_unique _ _ pre _ r emit_attr_sound Hp Hq). cbn [emit_attr member_value].
    unfold attr_entry. cbn. rewrite key_eqb_refl_l. reflexivity.
Qed.

Lemma process_all_keys (P : key -> Prop) items :
  (forall it k v, In it items -> member_value W rec hist it = Some (k, v) -> P k) ->
  forall data, (forall k, In k (map fst data) -> P k) ->
  forall k, In k (map fst (process_all W rec hist items data)) -> P k.
Proof.
  induction items as [|it r IH]; intros Hm data Hd k Hk; cbn in Hk; auto.
  eapply IH; [| |exact Hk].
  - intros it' k' v' Hi He. eapply Hm; [right; exact Hi|exact He].
  - intros k' Hk'. unfold process_with in Hk'.
    destruct (member_value W rec hist it) as [[k0 v0]|] eqn:E; auto.
    apply keys_set_key in Hk' as [->|Hk']; auto. eapply Hm; [left; reflexivity|exact E].
Qed.

Lemma add_attrs_keys (P : key -> Prop) items :
  (forall a, In (FA a) items -> P (a_name a, true)) ->
  forall data, (forall k, In k (map fst data) -> P k) ->
  forall k, In k (map fst (add_attrs items data)) -> P k.
Proof.
  induction items as [|it r IH]; intros Hm data Hd k Hk; cbn in Hk; auto.
  destruct it as [o i d ch op| |a].
  - eapply IH; [|exact Hd|exact Hk]. intros a Ha. apply Hm. right. exact Ha.
  - eapply IH; [|exact Hd|exact Hk]. intros a Ha. apply Hm. right. exact Ha.
  - eapply IH; [| |exact Hk].
    + intros a' Ha. apply Hm. right. exact Ha.
    + intros k' Hk'. apply keys_set_key in Hk' as [->|Hk']; auto. apply Hm. left. reflexivity.
Qed.

Lemma in_ordering it items k : In it items -> In k (item_keys it) -> In k (ordering items).
Proof.
  intros Hi Hk. rewrite ordering_flat. apply in_flat_map. exists it. split; assumption.
Qed.

Lemma built_keys items k : In k (map fst (built items)) -> In k (ordering items).
Proof.
  unfold built. apply (process_all_keys (fun k => In k (ordering items))).
  - intros it k' v Hi He. eapply in_ordering; eauto. eapply member_value_sound; eauto.
  - apply (add_attrs_keys (fun k => In k (ordering items))).
    + intros a Ha. eapply in_ordering; eauto. left. reflexivity.
    + intros k' [].
Qed.

Lemma key_in_In k l : key_in k l = true <-> In k l.
Proof.
  unfold key_in. rewrite existsb_exists. split.
  - intros [x [Hx He]]. apply key_eqb_eq_l in He. subst. exact Hx.
  - intro H. exists k. split; auto. apply key_eqb_refl_l.
Qed.

(* sudsobject.Iter over the finished object = the contributions in schema order *)
Lemma iter_built items :
  NoDup (ordering items) ->
  iter_items (ordering items) (built items) = flat_map emit items.
Proof.
  intro Hn. unfold iter_items.
  replace (forallb (fun kv => key_in (fst kv) (ordering items)) (built items)) with true.
  - apply (iter_built_gen [] items). exact Hn.
  - symmetry. apply forallb_forall. intros kv Hkv. apply key_in_In. apply built_keys.
    apply in_map. exact Hkv.
Qed.

End Emit.

Arguments member_value : simpl never.

(* ------------------------------------------------------------------ *)
(* the two flattenings of a content model agree                        *)
(* ------------------------------------------------------------------ *)
Section PInd.
Variable P : particle -> Prop.
Hypothesis HE : forall d, P (PE d).
Hypothesis HA : P PAny.
Hypothesis HC : forall k o kids, Forall P kids -> P (PC k o kids).
Fixpoint particle_ind2 (p : particle) : P p :=
  match p with
  | PE d => HE d
  | PAny => HA
  | PC k o kids =>
      HC k o kids ((fix go (l : list particle) : Forall P l :=
                      match l with
                      | [] => Forall_nil _
                      | q :: l' => Forall_cons _ (particle_ind2 q) (go l')
                      end) kids)
  end.
End PInd.

Definition conv (ch opt : bool) (e : sentry) : option (edecl * bool * bool) :=
  match e with
  | SE d c o => Some (d, ch || c, opt || o)
  | SWild => None
  end.

Lemma flat_p_spec p : forall ch opt, flat_p ch opt p = map (conv ch opt) (s_particle p).
Proof.
  induction p as [d| |k o kids IH] using particle_ind2; intros ch opt.
  - cbn. rewrite !orb_false_r. reflexivity.
  - reflexivity.
  - cbn [flat_p s_particle]. rewrite map_map.
    induction IH as [|q l Hq Hl IHl]; [reflexivity|].
    rewrite Hq, IHl. rewrite map_app. f_equal.
    apply map_ext. intros [d c o'|]; cbn; [|reflexivity].
    destruct k, ch, c, opt, o, o'; reflexivity.
Qed.

Definition entry_of (it : fitem) : list sentry :=
  match it with
  | FE _ _ d ch op => [SE d ch op]
  | FW => [SWild]
  | FA _ => []
  end.

Definition attr_of_item (it : fitem) : list adecl :=
  match it with FA a => [a] | _ => [] end.

Definition back (x : option (edecl * bool * bool)) : list sentry :=
  match x with Some (d, ch, op) => [SE d ch op] | None => [SWild] end.

Lemma number_entries q i l : flat_map entry_of (number q i l) = flat_map back l.
Proof.
  revert i. induction l as [|[[[d ch] op]|] l IH]; intro i; cbn; auto; rewrite IH; reflexivity.
Qed.

Lemma number_attrs q i l : flat_map attr_of_item (number q i l) = [].
Proof.
  revert i. induction l as [|[[[d ch] op]|] l IH]; intro i; cbn; auto.
Qed.

Lemma back_conv l : flat_map back (map (conv false false) l) = l.
Proof. induction l as [|[d c o|] l IH]; cbn; auto; rewrite IH; reflexivity. Qed.

Lemma flat_content_entries ps : flat_map back (flat_content ps) = flat_map s_particle ps.
Proof.
  unfold flat_content. induction ps as [|p ps IH]; cbn; auto.
  rewrite flat_map_app, IH, flat_p_spec, back_conv. reflexivity.
Qed.

Lemma own_entries t : flat_map entry_of (own_items t) = flat_map s_particle (c_content t).
Proof.
  unfold own_items. rewrite flat_map_app, number_entries, flat_content_entries.
  replace (flat_map entry_of (map FA (c_attrs t))) with (@nil sentry).
  - apply app_nil_r.
  - induction (c_attrs t); cbn; auto.
Qed.

Lemma own_attrs t : flat_map attr_of_item (own_items t) = c_attrs t.
Proof.
  unfold own_items. rewrite flat_map_app, number_attrs. cbn.
  induction (c_attrs t) as [|a l IH]; cbn; auto. rewrite IH. reflexivity.
Qed.

Lemma flat_map_flat_map {A B C} (f : B -> list C) (g : A -> list B) l :
  flat_map f (flat_map g l) = flat_map (fun x => flat_map f (g x)) l.
Proof. induction l; cbn; auto. rewrite flat_map_app, IHl. reflexivity. Qed.

Lemma exp_members_items W t : exp_members W t = flat_map entry_of (all_items W t).
Proof.
  unfold exp_members, all_items, base_chain. rewrite flat_map_flat_map.
  apply flat_map_ext. intro c. symmetry. apply own_entries.
Qed.

Lemma exp_attrs_items W t : exp_attrs W t = flat_map attr_of_item (all_items W t).
Proof.
  unfold exp_attrs, all_items, base_chain. rewrite flat_map_flat_map.
  apply flat_map_ext. intro c. symmetry. apply own_attrs.
Qed.

(* ------------------------------------------------------------------ *)
(* fuel: the history can only grow within the declarations of W        *)
(* ------------------------------------------------------------------ *)
Definition remaining (W : wsdl) (hist : list hid) : nat :=
  length (filter (fun u => negb (hid_in u hist)) (universe W)).

Lemma filter_length_lt {A} (f g : A -> bool) l x :
  (forall y, g y = true -> f y = true) -> In x l -> f x = true -> g x = false ->
  length (filter g l) < length (filter f l).
Proof.
  intros Himp. induction l as [|y l IH]; cbn; intros Hi Hf Hg; [contradiction|].
  assert (Hle : length (filter g l) <= length (filter f l)).
  { clear -Himp. induction l as [|z l IH]; cbn; auto.
    destruct (g z) eqn:Eg.
    - rewrite (Himp z Eg). cbn. lia.
    - destruct (f z); cbn; lia. }
  destruct Hi as [->|Hi].
  - rewrite Hf, Hg. cbn. lia.
  - specialize (IH Hi Hf Hg). destruct (g y) eqn:Eg.
    + rewrite (Himp y Eg). cbn. lia.
    + destruct (f y); cbn; lia.
Qed.

Lemma remaining_cons W h hist :
  In h (universe W) -> hid_in h hist = false -> remaining W (h :: hist) < remaining W hist.
Proof.
  intros Hi Hh. unfold remaining. apply (filter_length_lt _ _ _ h); auto.
  - intros y Hy. cbn in Hy. rewrite negb_orb in Hy. apply andb_true_iff in Hy as [_ Hy]. exact Hy.
  - rewrite Hh. reflexivity.
  - cbn. replace (hid_eqb h h) with true by (symmetry; apply hid_eqb_eq_l; reflexivity). reflexivity.
Qed.

Lemma remaining_le W hist : remaining W hist <= length (universe W).
Proof.
  unfold remaining. induction (universe W) as [|u l IH]; cbn; auto.
  destruct (negb (hid_in u hist)); cbn; lia.
Qed.

Lemma find_type_in S q t : find_type S q = Some t -> In t S.
Proof. unfold find_type. intro H. apply find_some in H. tauto. Qed.

Lemma chain_in S n t : In t S -> forall c, In c (chain S n t) -> In c S.
Proof.
  revert t. induction n as [|n IH]; intros t Ht c Hc; cbn in Hc.
  - destruct Hc as [<-|[]]. exact Ht.
  - destruct (c_base t) as [b|].
    + destruct (find_type S b) as [bt|] eqn:E.
      * apply in_app_or in Hc as [Hc|[<-|[]]]; auto. eapply IH; [|exact Hc]. eapply find_type_in; eauto.
      * destruct Hc as [<-|[]]. exact Ht.
    + destruct Hc as [<-|[]]. exact Ht.
Qed.

Lemma item_in_universe W t o i d ch op :
  In t (w_types W) -> In (FE o i d ch op) (all_items W t) -> In (o, i, d) (universe W).
Proof.
  intros Ht Hi. unfold all_items in Hi. apply in_flat_map in Hi as [c [Hc Hi]].
  unfold universe. apply in_flat_map. exists c. split.
  - eapply chain_in; eauto.
  - unfold hids_of. apply in_flat_map. exists (FE o i d ch op). split; auto. left. reflexivity.
Qed.

(* ------------------------------------------------------------------ *)
(* matching the members of a built object                              *)
(* ------------------------------------------------------------------ *)
Section MatchLemmas.
Variable present : sentry -> key -> pv -> bool.
Variable absent : sentry -> bool.

Lemma mm_skip_head e E L :
  absent e = true ->
  (forall k x, In (k, x) L -> snd k = false -> present e k x = false) ->
  match_members present absent (e :: E) L = match_members present absent E L.
Proof.
  intros Ha. induction L as [|[k x] L IH]; intro Hp.
  - cbn. rewrite Ha. reflexivity.
  - cbn [match_members]. destruct (snd k) eqn:Ek.
    + apply IH. intros k' x' Hi. apply Hp. right. exact Hi.
    + cbn [skip_to]. rewrite (Hp k x (or_introl eq_refl) Ek). rewrite Ha. reflexivity.
Qed.

End MatchLemmas.

Section Mirror.
Variable W : wsdl.
Variable rec : list hid -> ctype -> keylist.
Variable hist : list hid.
Variable present : sentry -> key -> pv -> bool.
Variable absent : sentry -> bool.

Definition item_cond (it : fitem) : Prop :=
  match it with
  | FA _ => True
  | FW => absent SWild = true /\ forall k x, present SWild k x = false
  | FE o i d ch op =>
      (forall k x, fst k <> e_name d -> present (SE d ch op) k x = false) /\
      match member_value W rec hist it with
      | Some (k, x) => present (SE d ch op) k x = true
      | None => absent (SE d ch op) = true
      end
  end.

Lemma emit_keys its k x : In (k, x) (flat_map (emit W rec hist) its) -> In k (ordering its).
Proof.
  intro H. apply in_flat_map in H as [it [Hi He]]. eapply in_ordering; eauto.
  destruct it as [o i d ch op| |a]; cbn [emit] in He.
  - destruct (member_value W rec hist (FE o i d ch op)) as [[k' v]|] eqn:E; [|contradiction].
    destruct He as [He|[]]. inversion He; subst. eapply member_value_sound; eauto.
  - contradiction.
  - destruct He as [He|[]]. inversion He. left. reflexivity.
Qed.

Lemma match_items its :
  NoDup (ordering its) -> (forall it, In it its -> item_cond it) ->
  match_members present absent (flat_map entry_of its) (flat_map (emit W rec hist) its) = true.
Proof.
  induction its as [|it r IH]; intros Hn Hc; [reflexivity|].
  change (ordering (it :: r)) with (item_keys it ++ ordering r) in Hn.
  assert (Hr : match_members present absent (flat_map entry_of r) (flat_map (emit W rec hist) r) = true).
  { apply IH; [eapply nodup_app_r; eauto|]. intros it' Hi. apply Hc. right. exact Hi. }
  pose proof (Hc it (or_introl eq_refl)) as Hit.
  destruct it as [o i d ch op| |a]; cbn [flat_map entry_of emit app].
  - destruct Hit as [Hne Hm].
    destruct (member_value W rec hist (FE o i d ch op)) as [[k x]|] eqn:E.
    + pose proof (member_value_key W rec hist _ _ _ E) as Hk. cbn in Hk. subst k.
      cbn [match_members app snd skip_to]. rewrite Hm. exact Hr.
    + cbn [app]. rewrite mm_skip_head; auto.
      intros k x Hi Hs. apply Hne. intro Hk.
      apply emit_keys in Hi. eapply (nodup_app_l (item_keys (FE o i d ch op))); eauto.
      left. destruct k as [kn kb]. cbn in *. subst. reflexivity.
  - destruct Hit as [Ha Hp]. cbn [app]. rewrite mm_skip_head; auto.
  - cbn [app match_members attr_entry snd fst]. exact Hr.
Qed.

Lemma filter_attr_items its :
  filter is_attr_item (flat_map (emit W rec hist) its) = map attr_entry (flat_map attr_of_item its).
Proof.
  induction its as [|it r IH]; [reflexivity|].
  cbn [flat_map]. rewrite filter_app, map_app, IH. f_equal.
  destruct it as [o i d ch op| |a]; cbn; auto.
  destruct (member_value W rec hist (FE o i d ch op)) as [[k x]|] eqn:E; auto.
  pose proof (member_value_key W rec hist _ _ _ E) as Hk. cbn in Hk. subst k. reflexivity.
Qed.

End Mirror.

Lemma attrs_match_entries l : attrs_match l (map attr_entry l) = true.
Proof.
  induction l as [|a l IH]; [reflexivity|]. cbn. rewrite N.eqb_refl, IH.
  unfold attr_value_ok. destruct (a_default a); cbn; rewrite ?N.eqb_refl; reflexivity.
Qed.

(* ------------------------------------------------------------------ *)
(* the object built for a type mirrors the type                        *)
(* ------------------------------------------------------------------ *)
Lemma mirrors_obj W strict path t cls items :
  is_mixed W t = false ->
  mirrors W strict path t (PObj cls items) =
  attrs_match (exp_attrs W t) (filter is_attr_item items) &&
  match_members (fun e k x => value_ok W strict (mirrors W strict) path e k x)
                (absent_ok path) (exp_members W t) items.
Proof. intro H. cbn [mirrors]. rewrite H. reflexivity. Qed.

Lemma mirrors_mixed W strict path t cls r :
  is_mixed W t = true ->
  mirrors W strict path t (PObj cls (((n_value, false), PNone) :: r)) =
  attrs_match (exp_attrs W t) (filter is_attr_item r) &&
  match_members (fun e k x => value_ok W strict (mirrors W strict) path e k x)
                (absent_ok path) (exp_members W t) r.
Proof. intro H. cbn [mirrors]. rewrite H, N.eqb_refl. reflexivity. Qed.

(* a Property: "value", then the attributes, in insertion order *)
Lemma set_key_fresh k v l : ~ In k (map fst l) -> set_key k v l = l ++ [(k, v)].
Proof.
  induction l as [|[k' v'] l IH]; cbn; intro H; auto.
  destruct (key_eqb k k') eqn:E.
  - apply key_eqb_eq_l in E. subst. exfalso. apply H. left. reflexivity.
  - rewrite IH; auto.
Qed.

Definition only_attrs (items : list fitem) : Prop :=
  forall it, In it items -> match it with FA _ => True | _ => False end.

Lemma process_all_attrs W rec hist items data :
  only_attrs items -> process_all W rec hist items data = data.
Proof.
  revert data. induction items as [|it r IH]; intros data H; auto.
  cbn. assert (Hit := H it (or_introl eq_refl)). destruct it; try contradiction.
  unfold process_with. cbn. apply IH. intros x Hx. apply H. right. exact Hx.
Qed.

Lemma add_attrs_fresh items : forall data,
  only_attrs items -> NoDup (ordering items) ->
  (forall k, In k (ordering items) -> ~ In k (map fst data)) ->
  add_attrs items data = data ++ map attr_entry (flat_map attr_of_item items).
Proof.
  induction items as [|it r IH]; intros data Ho Hn Hf; cbn; [rewrite app_nil_r; reflexivity|].
  assert (Hit := Ho it (or_introl eq_refl)). destruct it as [| |a]; try contradiction.
  change (ordering (FA a :: r)) with ((a_name a, true) :: ordering r) in Hn, Hf.
  inversion Hn as [|? ? Hni Hnr]; subst.
  rewrite set_key_fresh by (apply Hf; left; reflexivity).
  rewrite IH.
  - cbn. rewrite <- app_assoc. reflexivity.
  - intros x Hx. apply Ho. right. exact Hx.
  - exact Hnr.
  - intros k Hk Hin. rewrite map_app in Hin. apply in_app_or in Hin as [Hin|[Hin|[]]].
    + eapply Hf; [right; exact Hk|exact Hin].
    + cbn in Hin. subst k. contradiction.
Qed.

Lemma only_attrs_ordering items k : only_attrs items -> In k (ordering items) -> snd k = true.
Proof.
  intros Ho Hk. rewrite ordering_flat in Hk. apply in_flat_map in Hk as [it [Hi Hk]].
  specialize (Ho it Hi). destruct it as [| |a]; try contradiction. destruct Hk as [<-|[]]. reflexivity.
Qed.

Lemma only_attrs_entries items : only_attrs items -> flat_map entry_of items = [].
Proof.
  induction items as [|it r IH]; intro H; auto.
  assert (Hit := H it (or_introl eq_refl)). destruct it; try contradiction. cbn. apply IH.
  intros x Hx. apply H. right. exact Hx.
Qed.

Lemma match_members_attrs present absent l :
  match_members present absent [] (map attr_entry l) = true.
Proof. induction l as [|a l IH]; auto. Qed.

Lemma filter_attr_entries l : filter is_attr_item (map attr_entry l) = map attr_entry l.
Proof. induction l as [|a l IH]; cbn; auto. rewrite IH. reflexivity. Qed.

Lemma nodupb_NoDup l : nodupb l = true -> NoDup l.
Proof.
  induction l as [|k r IH]; cbn; intro H; constructor.
  - apply andb_true_iff in H as [H _]. intro Hi. apply key_in_In in Hi. rewrite Hi in H. discriminate.
  - apply IH. apply andb_true_iff in H as [_ H]. exact H.
Qed.

Lemma wf_names_mixed W t :
  wf_names W = true -> In t (w_types W) -> is_mixed W t = true -> only_attrs (all_items W t).
Proof.
  unfold wf_names, wf_mixed. intros H Hi Hm. apply andb_true_iff in H as [_ H].
  rewrite forallb_forall in H. specialize (H t Hi). rewrite Hm in H. cbn in H.
  rewrite forallb_forall in H. intros it Hit. specialize (H it Hit). destruct it; try discriminate; exact I.
Qed.

Lemma wf_names_nodup W t : wf_names W = true -> In t (w_types W) -> NoDup (ordering (all_items W t)).
Proof.
  unfold wf_names. intros H Hi. apply andb_true_iff in H as [H _]. rewrite forallb_forall in H. apply nodupb_NoDup. apply H. exact Hi.
Qed.

Lemma find_named_complex_in W q t : find_named W q = Some (SComplex t) -> In t (w_types W).
Proof.
  unfold find_named. destruct (find_type (w_types W) q) as [t'|] eqn:E.
  - intro H. inversion H; subst. eapply find_type_in; eauto.
  - destruct (find_simple W q) as [[[ns n] vals]|]; discriminate.
Qed.

Definition inv (hist : list hid) (path : list qn) : Prop :=
  forall h, In h hist ->
    e_multi (snd h) = false /\ e_opt (snd h) = false /\
    exists ns n, e_type (snd h) = TNamed ns n /\ qn_in (ns, n) path = true.

Lemma qn_in_cons q p path : qn_in q path = true -> qn_in q (p :: path) = true.
Proof. unfold qn_in. cbn. intro H. rewrite H. apply orb_true_r. Qed.

Lemma qn_in_head q path : qn_in q (q :: path) = true.
Proof.
  unfold qn_in. cbn. replace (qn_eqb q q) with true by (symmetry; apply qn_eqb_eq_l; reflexivity). reflexivity.
Qed.

Lemma items_nonempty_entries it l :
  flat_map entry_of (it :: l) = [] -> flat_map attr_of_item (it :: l) = [] -> False.
Proof. destruct it; cbn; intros H1 H2; discriminate. Qed.

Lemma value_ok_here W strict sub path d op x :
  value_ok W strict sub path (SE d false op) (e_name d, false) x =
  (if e_multi d then is_plist x
   else if e_opt d then is_pnone x
   else match e_type d with
        | TBuiltin => is_pnone x
        | TNamed ns n =>
            match find_named W (ns, n) with
            | Some (SComplex t') =>
                match exp_members W t', exp_attrs W t' with
                | [], [] => is_pnone x || is_empty_obj x
                | _, _ => sub ((ns, n) :: path) t' x || (is_pnone x && (op || qn_in (ns, n) path))
                end
            | Some (SSimple _ _ vals) =>
                is_pnone x ||
                (negb strict && match vals with [] => false | _ => true end && is_property_none x)
            | _ => is_pnone x
            end
        end).
Proof. unfold value_ok. cbn [negb andb fst]. rewrite N.eqb_refl. reflexivity. Qed.

Lemma members_mirror W strict :
  wf_names W = true -> (strict = false \/ no_enum_members W = true) ->
  forall fuel hist path t cls,
    In t (w_types W) -> inv hist path -> remaining W hist < fuel ->
    mirrors W strict path t
            (PObj cls (iter_items (ordering (all_items W t)) (members W fuel hist t))) = true.
Proof.
  intros Hwf Hs. induction fuel as [|f IH]; intros hist path t cls Ht Hinv Hrem; [lia|].
  pose proof (wf_names_nodup W t Hwf Ht) as Hnd.
  destruct (is_mixed W t) eqn:Emx.
  { (* a simpleContent type: "value", then the attributes *)
    pose proof (wf_names_mixed W t Hwf Ht Emx) as Hoa.
    change (members W (Datatypes.S f) hist t)
      with (process_all W (members W f) hist (all_items W t) (add_attrs (all_items W t) (init_data W t))).
    rewrite process_all_attrs by exact Hoa. unfold init_data. rewrite Emx.
    rewrite add_attrs_fresh; auto.
    2:{ intros k Hk [Hin|[]]. cbn in Hin. subst k.
        apply (only_attrs_ordering _ _ Hoa) in Hk. discriminate. }
    unfold iter_items. cbn [app forallb fst].
    replace (key_in (n_value, false) (ordering (all_items W t))) with false.
    2:{ symmetry. destruct (key_in (n_value, false) (ordering (all_items W t))) eqn:E; auto.
        apply key_in_In in E. apply (only_attrs_ordering _ _ Hoa) in E. discriminate. }
    cbn [andb]. rewrite mirrors_mixed by exact Emx.
    rewrite filter_attr_entries, exp_attrs_items, attrs_match_entries.
    rewrite exp_members_items, (only_attrs_entries _ Hoa). apply match_members_attrs. }
  change (members W (Datatypes.S f) hist t)
    with (process_all W (members W f) hist (all_items W t) (add_attrs (all_items W t) (init_data W t))).
  unfold init_data. rewrite Emx.
  change (process_all W (members W f) hist (all_items W t) (add_attrs (all_items W t) []))
    with (built W (members W f) hist (all_items W t)).
  rewrite iter_built by exact Hnd.
  rewrite mirrors_obj by exact Emx. rewrite filter_attr_items, exp_attrs_items, attrs_match_entries.
  rewrite exp_members_items. cbn [andb]. apply match_items; [exact Hnd|].
  intros it Hit. destruct it as [o i d ch op| |a]; cbn [item_cond]; auto.
  - split.
    + intros k x Hne. unfold value_ok. destruct ch; [reflexivity|]. cbn [negb andb].
      replace (N.eqb (e_name d) (fst k)) with false; [reflexivity|].
      symmetry. apply N.eqb_neq. congruence.
    + unfold member_value. destruct ch; [reflexivity|].
      destruct (hid_in (o, i, d) hist) eqn:Eh.
      { apply hid_in_In in Eh. destruct (Hinv _ Eh) as [Hm [Ho [ns [n [Hty Hq]]]]]. cbn in *.
        unfold absent_ok. rewrite Hm, Ho, Hty, Hq. reflexivity. }
      destruct (e_multi d) eqn:Em.
      { rewrite value_ok_here, Em. reflexivity. }
      unfold resolve_type. destruct (e_type d) as [|ns n] eqn:Ety.
      { rewrite value_ok_here, Em, Ety. destruct (e_opt d); reflexivity. }
      destruct (find_named W (ns, n)) as [[t'|sns sn vals|v|en|a| |bn]|] eqn:Efn;
        try (rewrite value_ok_here, Em, Ety, Efn; destruct (e_opt d); reflexivity).
      * (* a complex type *)
        destruct (all_items W t') as [|it0 its0] eqn:Eit.
        { rewrite value_ok_here, Em, Ety, Efn. destruct (e_opt d); [reflexivity|].
          rewrite exp_members_items, exp_attrs_items, Eit. reflexivity. }
        destruct (e_opt d) eqn:Eo.
        { rewrite value_ok_here, Em, Eo. reflexivity. }
        assert (Hsub : mirrors W strict ((ns, n) :: path) t'
                  (PObj (c_name t') (iter_items (ordering (it0 :: its0))
                                                 (members W f ((o, i, d) :: hist) t'))) = true).
        { rewrite <- Eit. apply IH.
          - eapply find_named_complex_in; eauto.
          - intros h [<-|Hh]; cbn.
            + repeat split; auto. exists ns, n. split; auto. apply qn_in_head.
            + destruct (Hinv h Hh) as [H1 [H2 [ns' [n' [H3 H4]]]]]. repeat split; auto.
              exists ns', n'. split; auto. apply qn_in_cons. exact H4.
          - assert (remaining W ((o, i, d) :: hist) < remaining W hist).
            { apply remaining_cons; auto. eapply item_in_universe; eauto. }
            lia. }
        rewrite value_ok_here, Em, Eo, Ety, Efn.
        rewrite exp_members_items, exp_attrs_items, Eit.
        destruct (flat_map entry_of (it0 :: its0)) eqn:E1.
        { destruct (flat_map attr_of_item (it0 :: its0)) eqn:E2.
          - exfalso. eapply items_nonempty_entries; eauto.
          - apply orb_true_iff. left. exact Hsub. }
        apply orb_true_iff. left. exact Hsub.
      * (* a simple type *)
        destruct vals as [|v vs].
        { rewrite value_ok_here, Em, Ety, Efn. destruct (e_opt d); reflexivity. }
        destruct (e_opt d) eqn:Eo.
        { rewrite value_ok_here, Em, Eo. reflexivity. }
        rewrite value_ok_here, Em, Eo, Ety, Efn.
        destruct Hs as [->|Hg]; [reflexivity|].
        exfalso. unfold no_enum_members in Hg. rewrite forallb_forall in Hg.
        specialize (Hg t Ht). rewrite forallb_forall in Hg. specialize (Hg _ Hit).
        cbn [orb] in Hg. unfold enum_member in Hg. rewrite Em, Eo, Ety, Efn in Hg. discriminate.
Qed.

Lemma inv_nil path : inv [] path.
Proof. intros h []. Qed.

Lemma build_fuel_enough W hist : remaining W hist < build_fuel W.
Proof. unfold build_fuel. pose proof (remaining_le W hist). lia. Qed.

Lemma create_mirrors_type_gen W strict t :
  wf_names W = true -> (strict = false \/ no_enum_members W = true) -> In t (w_types W) ->
  mirrors W strict [qn_of t] t (build_root W (SComplex t)) = true.
Proof.
  intros Hwf Hs Ht. cbn [build_root]. apply members_mirror; auto.
  - apply inv_nil.
  - apply build_fuel_enough.
Qed.

Lemma create_mirrors_type_l W t :
  wf_names W = true -> In t (w_types W) ->
  mirrors W false [qn_of t] t (build_root W (SComplex t)) = true.
Proof. intros. apply create_mirrors_type_gen; auto. Qed.

Lemma members_mirror_lenient W :
  wf_names W = true ->
  forall fuel hist path t cls,
    In t (w_types W) -> inv hist path -> remaining W hist < fuel ->
    mirrors W false path t
            (PObj cls (iter_items (ordering (all_items W t)) (members W fuel hist t))) = true.
Proof. intros H. apply members_mirror; auto. Qed.

(* ------------------------------------------------------------------ *)
(* fuel suffices                                                       *)
(* ------------------------------------------------------------------ *)
Lemma process_all_ext W rec1 rec2 hist items data :
  (forall it, In it items -> member_value W rec1 hist it = member_value W rec2 hist it) ->
  process_all W rec1 hist items data = process_all W rec2 hist items data.
Proof.
  revert data. induction items as [|it r IH]; intros data H; [reflexivity|].
  cbn. unfold process_with. rewrite (H it (or_introl eq_refl)). apply IH.
  intros it' Hi. apply H. right. exact Hi.
Qed.

Lemma resolve_type_complex_in W ty t : resolve_type W ty = RC t -> In t (w_types W).
Proof.
  unfold resolve_type. destruct ty as [|ns n]; [discriminate|].
  destruct (find_named W (ns, n)) as [[t'|sns sn vals|v|en|a| |bn]|] eqn:E; try discriminate.
  intro H. inversion H; subst. eapply find_named_complex_in; eauto.
Qed.

Lemma members_fuel W :
  forall f1 f2 hist t, In t (w_types W) ->
    remaining W hist < f1 -> remaining W hist < f2 ->
    members W f1 hist t = members W f2 hist t.
Proof.
  induction f1 as [|f1 IH]; intros f2 hist t Ht H1 H2; [lia|].
  destruct f2 as [|f2]; [lia|].
  change (members W (Datatypes.S f1) hist t)
    with (process_all W (members W f1) hist (all_items W t) (add_attrs (all_items W t) (init_data W t))).
  change (members W (Datatypes.S f2) hist t)
    with (process_all W (members W f2) hist (all_items W t) (add_attrs (all_items W t) (init_data W t))).
  apply process_all_ext. intros it Hit.
  unfold member_value. destruct it as [o i d ch op| |a]; auto.
  destruct ch; auto. destruct (hid_in (o, i, d) hist) eqn:Eh; auto.
  destruct (e_multi d); auto.
  destruct (resolve_type W (e_type d)) as [|t'|n vals] eqn:Er; auto.
  destruct (all_items W t') as [|it0 its0] eqn:Eit; auto.
  destruct (e_opt d); auto.
  assert (remaining W (((o, i, d) : hid) :: hist) < remaining W hist).
  { apply remaining_cons; auto. eapply item_in_universe; eauto. }
  rewrite (IH f2 (((o, i, d) : hid) :: hist) t'); auto; try lia.
  eapply resolve_type_complex_in; eauto.
Qed.

(* more fuel than build_fuel changes nothing: the cut-off, not the fuel, ends the recursion *)
Lemma build_fuel_sufficient_l W t extra :
  In t (w_types W) ->
  members W (build_fuel W + extra) [] t = members W (build_fuel W) [] t.
Proof.
  intro Ht. apply members_fuel; auto.
  - pose proof (build_fuel_enough W []). lia.
  - apply build_fuel_enough.
Qed.
