(* C03 — the path walk of the model refines what the specification says a
   spelling designates, and create() on any well-formed spelling meets the
   specification. *)
From Coq Require Import ZifyBool ZifyNat ZifyN.
From SV Require Import Lib.Base Fam.Schema C03.Model C03.Spec C03.BuildProofs C03.SplitProofs.

(* ------------------------------------------------------------------ *)
(* the walk, on structured members                                     *)
(* ------------------------------------------------------------------ *)
Fixpoint walk_sp (W : wsdl) (s : sobj) (ms : list member) : lres :=
  match ms with
  | [] => LOk s
  | m :: ms' =>
      match ms' with
      | [] => if m_attr m then attr_of W s (m_name m) else child_of W s (m_name m)
      | _ => match child_of W s (m_name m) with
             | LOk s' => walk_sp W s' ms'
             | r => r
             end
      end
  end.

Lemma name_head_not_at n :
  name_ok n = true -> exists c r, n = c :: r /\ N.eqb c ch_at = false.
Proof.
  intro H. apply name_ok_chars in H as [Hne Hc]. destruct n as [|c r]; [congruence|].
  exists c, r. split; auto. cbn in Hc. apply andb_true_iff in Hc as [Hc _].
  apply name_char_facts in Hc. tauto.
Qed.

Lemma walk_render W ms :
  forallb member_ok ms = true -> attrs_last ms = true ->
  forall s, walk W s (map render_member ms) = walk_sp W s ms.
Proof.
  induction ms as [|m ms' IH]; intros Hm Ha s; [reflexivity|].
  cbn in Hm. apply andb_true_iff in Hm as [Hm0 Hm].
  pose proof (local_part_member m Hm0) as Hl.
  assert (Hn : name_ok (m_name m) = true).
  { unfold member_ok in Hm0. destruct (m_prefix m); [discriminate|exact Hm0]. }
  destruct ms' as [|m2 r].
  - cbn [map walk walk_sp]. rewrite Hl. destruct (m_attr m); cbn [app].
    + replace (N.eqb ch_at ch_at) with true by reflexivity. reflexivity.
    + destruct (name_head_not_at _ Hn) as [c [r [-> Hc]]]. rewrite Hc. reflexivity.
  - assert (Hat : m_attr m = false).
    { cbn in Ha. apply andb_true_iff in Ha as [Ha _]. destruct (m_attr m); [discriminate|reflexivity]. }
    assert (Ha' : attrs_last (m2 :: r) = true).
    { cbn in Ha. apply andb_true_iff in Ha as [_ Ha]. exact Ha. }
    change (map render_member (m :: m2 :: r)) with (render_member m :: render_member m2 :: map render_member r).
    cbn [walk]. rewrite Hl, Hat. cbn [app].
    change (walk_sp W s (m :: m2 :: r)) with
      (match child_of W s (m_name m) with LOk s' => walk_sp W s' (m2 :: r) | r0 => r0 end).
    destruct (child_of W s (m_name m)); auto.
    change (render_member m2 :: map render_member r) with (map render_member (m2 :: r)).
    apply IH; auto.
Qed.

(* find on a rendered spelling = look-up of what its root form means, then the walk *)
Definition find_sp (W : wsdl) (sp : spelling) : fres :=
  match root_uri W (sp_root sp) with
  | None => FNone
  | Some u =>
      match root_lookup W (root_name (sp_root sp)) u with
      | LNone => FNone
      | LTypeNotFound => FTypeNotFound
      | LOk s =>
          match walk_sp W s (sp_members sp) with
          | LNone => FNone
          | LTypeNotFound => FTypeNotFound
          | LOk s' => FOk s'
          end
      end
  end.

Lemma find_path_render W sp :
  wf_spelling sp = true -> find_path W (render sp) = find_sp W sp.
Proof.
  intro H. unfold find_path, find_sp. rewrite (split_wellformed_l sp H).
  unfold wf_spelling in H. apply andb_true_iff in H as [H Ha]. apply andb_true_iff in H as [Hr Hm].
  rewrite (qualify_root_l W _ Hr). destruct (root_uri W (sp_root sp)) as [u|]; auto.
  destruct (root_lookup W (root_name (sp_root sp)) u); auto.
  rewrite walk_render; auto.
Qed.

(* ------------------------------------------------------------------ *)
(* look-ups in the flattened content vs. the content model             *)
(* ------------------------------------------------------------------ *)
Definition sel (nm : name) (e : sentry) : list target :=
  match e with
  | SE d _ _ => if N.eqb (e_name d) nm then [target_of_tref (e_type d)] else []
  | SWild => []
  end.

Lemma sel_none nm items :
  ~ In (nm, false) (ordering items) -> flat_map (sel nm) (flat_map entry_of items) = [].
Proof.
  induction items as [|it r IH]; intro Hn; [reflexivity|].
  change (ordering (it :: r)) with (item_keys it ++ ordering r) in Hn.
  cbn [flat_map]. rewrite flat_map_app.
  rewrite IH by (intro Hi; apply Hn; apply in_or_app; right; exact Hi).
  rewrite app_nil_r. destruct it as [o i d ch op| |a]; cbn; auto.
  destruct (N.eqb (e_name d) nm) eqn:E; auto. apply N.eqb_eq in E. subst.
  exfalso. apply Hn. apply in_or_app. left. left. reflexivity.
Qed.

Lemma get_child_named nm items :
  NoDup (ordering items) ->
  match get_child_item (Some nm) items with
  | Some FW => existsb is_wild (before_named nm (flat_map entry_of items)) = true
  | Some (FE o i d ch op) =>
      In (FE o i d ch op) items /\
      existsb is_wild (before_named nm (flat_map entry_of items)) = false /\
      flat_map (sel nm) (flat_map entry_of items) = [target_of_tref (e_type d)]
  | Some (FA _) => False
  | None =>
      existsb is_wild (before_named nm (flat_map entry_of items)) = false /\
      flat_map (sel nm) (flat_map entry_of items) = []
  end.
Proof.
  induction items as [|it r IH]; intro Hn; [cbn; auto|].
  change (ordering (it :: r)) with (item_keys it ++ ordering r) in Hn.
  pose proof (nodup_app_r _ _ Hn) as Hr. specialize (IH Hr).
  destruct it as [o i d ch op| |a].
  - cbn [get_child_item flat_map entry_of app before_named sentry_named].
    destruct (N.eqb (e_name d) nm) eqn:E.
    + split; [left; reflexivity|]. split; [reflexivity|]. cbn [flat_map sel]. rewrite E.
      rewrite sel_none; [reflexivity|]. apply N.eqb_eq in E. subst.
      eapply nodup_app_l; eauto. left. reflexivity.
    + cbn [existsb is_wild orb flat_map sel]. rewrite E. cbn [app].
      destruct (get_child_item (Some nm) r) as [[o' i' d' ch' op'| |a']|]; auto.
      destruct IH as [H1 H2]. split; auto. right. exact H1.
  - cbn. reflexivity.
  - cbn [get_child_item flat_map entry_of app].
    destruct (get_child_item (Some nm) r) as [[o' i' d' ch' op'| |a']|]; auto.
    destruct IH as [H1 H2]. split; auto. right. exact H1.
Qed.

Lemma get_child_unnamed items :
  match get_child_item None items with
  | Some FW => existsb is_wild (flat_map entry_of items) = true
  | Some _ => False
  | None => existsb is_wild (flat_map entry_of items) = false
  end.
Proof.
  induction items as [|it r IH]; [reflexivity|].
  destruct it as [o i d ch op| |a]; cbn [get_child_item flat_map entry_of app existsb is_wild orb]; auto.
Qed.

Lemma get_attr_named nm items :
  match get_attr_item (Some nm) items with
  | Some a => existsb (fun a => N.eqb (a_name a) nm) (flat_map attr_of_item items) = true
  | None => existsb (fun a => N.eqb (a_name a) nm) (flat_map attr_of_item items) = false
  end.
Proof.
  induction items as [|it r IH]; [reflexivity|].
  destruct it as [o i d ch op| |a]; cbn [get_attr_item flat_map attr_of_item app existsb]; auto.
  destruct (N.eqb (a_name a) nm); cbn; auto.
Qed.

Lemma get_attr_unnamed items : get_attr_item None items = None.
Proof. induction items as [|it r IH]; [reflexivity|]. destruct it; cbn; auto. Qed.

(* ------------------------------------------------------------------ *)
(* schema objects and targets                                          *)
(* ------------------------------------------------------------------ *)
Definition repr (W : wsdl) (s : sobj) (tg : target) : Prop :=
  match s, tg with
  | SComplex t, TgType q => find_named W q = Some (SComplex t)
  | SSimple ns n vals, TgType q => find_named W q = Some (SSimple ns n vals)
  | SElem _, TgLeaf => True
  | SAttr _, TgLeaf => True
  | _, _ => False
  end.

Lemma find_named_forms W q s :
  find_named W q = Some s ->
  (exists t, s = SComplex t) \/ (exists ns n vals, s = SSimple ns n vals).
Proof.
  unfold find_named. destruct (find_type (w_types W) q) as [t|].
  - intro H. inversion H. left. eauto.
  - destruct (find_simple W q) as [[[ns n] vals]|]; [|discriminate].
    intro H. inversion H. right. eauto.
Qed.

Lemma repr_named W q s : find_named W q = Some s -> repr W s (TgType q).
Proof.
  intro H. destruct (find_named_forms W q s H) as [[t ->]|[ns [n [vals ->]]]]; exact H.
Qed.

Lemma resolve_elem_repr W n ty :
  tref_ok W ty = true ->
  exists s, resolve_elem W n ty = Some s /\ repr W s (target_of_tref ty).
Proof.
  destruct ty as [|ns tn]; cbn.
  - intros _. exists (SElem n). split; auto. exact I.
  - unfold is_type. destruct (find_named W (ns, tn)) as [s|] eqn:E; [|discriminate].
    intros _. exists s. split; auto. apply repr_named. exact E.
Qed.

Lemma wf_refs_item W t o i d ch op :
  wf_refs W = true -> In t (w_types W) -> In (FE o i d ch op) (all_items W t) ->
  tref_ok W (e_type d) = true.
Proof.
  unfold wf_refs. intros H Ht Hi. apply andb_true_iff in H as [_ H].
  rewrite forallb_forall in H. specialize (H t Ht). rewrite forallb_forall in H.
  exact (H _ Hi).
Qed.

Definition step_result (W : wsdl) (r : lres) (ts : list target) : Prop :=
  (r = LNone /\ ts = []) \/ (exists s' tg', r = LOk s' /\ ts = [tg'] /\ repr W s' tg').

Lemma child_step W s tg m :
  wf_names W = true -> wf_refs W = true -> repr W s tg -> m_attr m = false ->
  match step W m tg with
  | None => True
  | Some ts => step_result W (child_of W s (m_name m)) ts
  end.
Proof.
  intros Hn Hr Hrep Hat. destruct s as [t|sns sn vals|v|en|a| |bn]; destruct tg as [q|]; cbn in Hrep; try contradiction.
  - (* complex *)
    pose proof (find_named_complex_in W q t Hrep) as Ht.
    unfold step. rewrite Hrep, Hat. unfold child_of.
    rewrite exp_members_items.
    destruct (lookup_name W (m_name m)) as [nm|].
    + pose proof (get_child_named nm (all_items W t) (wf_names_nodup W t Hn Ht)) as H.
      destruct (get_child_item (Some nm) (all_items W t)) as [[o i d ch op| |a]|].
      * destruct H as [Hin [Hw Hs]]. rewrite Hw. cbn [negb].
        fold (sel nm). change (flat_map (fun e : sentry => match e with
                                 | SE d0 _ _ => if N.eqb (e_name d0) nm then [target_of_tref (e_type d0)] else []
                                 | SWild => [] end)) with (flat_map (sel nm)).
        rewrite Hs.
        destruct (resolve_elem_repr W (e_name d) (e_type d) (wf_refs_item W t o i d ch op Hr Ht Hin)) as [s' [Hs' Hrep']].
        rewrite Hs'. right. exists s', (target_of_tref (e_type d)). auto.
      * rewrite H. exact I.
      * contradiction.
      * destruct H as [Hw Hs]. rewrite Hw.
        change (flat_map (fun e : sentry => match e with
                                 | SE d0 _ _ => if N.eqb (e_name d0) nm then [target_of_tref (e_type d0)] else []
                                 | SWild => [] end)) with (flat_map (sel nm)).
        rewrite Hs. left. auto.
    + pose proof (get_child_unnamed (all_items W t)) as H.
      destruct (get_child_item None (all_items W t)) as [[o i d ch op| |a]|]; try contradiction.
      * rewrite H. exact I.
      * rewrite H. left. auto.
  - (* simple *)
    unfold step. rewrite Hrep, Hat. unfold child_of.
    destruct (lookup_name W (m_name m)) as [nm|]; [|left; auto].
    cbn [negb andb]. destruct (existsb (N.eqb nm) vals); [exact I|left; auto].
  - cbn. left. auto.
  - cbn. left. auto.
Qed.

Lemma attr_step W s tg m :
  repr W s tg -> m_attr m = true ->
  match step W m tg with
  | None => True
  | Some ts => step_result W (attr_of W s (m_name m)) ts
  end.
Proof.
  intros Hrep Hat. destruct s as [t|sns sn vals|v|en|a| |bn]; destruct tg as [q|]; cbn in Hrep; try contradiction.
  - unfold step. rewrite Hrep, Hat. unfold attr_of. rewrite exp_attrs_items.
    destruct (lookup_name W (m_name m)) as [nm|].
    + pose proof (get_attr_named nm (all_items W t)) as H.
      destruct (get_attr_item (Some nm) (all_items W t)) as [a|]; rewrite H.
      * right. exists (SAttr a), TgLeaf. repeat split; auto.
      * left. auto.
    + rewrite get_attr_unnamed. left. auto.
  - unfold step. rewrite Hrep, Hat. unfold attr_of.
    destruct (lookup_name W (m_name m)) as [nm|]; left; auto.
  - cbn. left. auto.
  - cbn. left. auto.
Qed.

Lemma step_all_one W m tg : step_all W m [tg] = match step W m tg with Some a => Some a | None => None end.
Proof. cbn. destruct (step W m tg); auto. rewrite app_nil_r. reflexivity. Qed.

Lemma steps_nil W ms :
  forallb member_ok ms = true -> attrs_last ms = true -> steps W ms [] = Some [].
Proof.
  induction ms as [|m r IH]; intros Hm Ha; [reflexivity|].
  cbn in Hm. apply andb_true_iff in Hm as [Hm0 Hm].
  unfold member_ok in Hm0. cbn [steps]. destruct (m_prefix m); [discriminate|].
  destruct r as [|m2 r'].
  - rewrite andb_false_r. reflexivity.
  - cbn in Ha. apply andb_true_iff in Ha as [Ha1 Ha2].
    destruct (m_attr m); [discriminate|]. cbn [andb step_all]. apply IH; auto.
Qed.

Lemma walk_refines W :
  wf_names W = true -> wf_refs W = true ->
  forall ms s tg, repr W s tg -> forallb member_ok ms = true -> attrs_last ms = true ->
  match steps W ms [tg] with
  | None => True
  | Some ts => step_result W (walk_sp W s ms) ts
  end.
Proof.
  intros Hn Hr. induction ms as [|m ms' IH]; intros s tg Hrep Hm Ha.
  - cbn. right. exists s, tg. auto.
  - cbn in Hm. apply andb_true_iff in Hm as [Hm0 Hm].
    assert (Hp : m_prefix m = None).
    { unfold member_ok in Hm0. destruct (m_prefix m); [discriminate|reflexivity]. }
    cbn [steps]. rewrite Hp. destruct ms' as [|m2 r].
    + rewrite andb_false_r. rewrite step_all_one. cbn [walk_sp].
      destruct (m_attr m) eqn:Eat.
      * pose proof (attr_step W s tg m Hrep Eat) as H. destruct (step W m tg); auto.
      * pose proof (child_step W s tg m Hn Hr Hrep Eat) as H. destruct (step W m tg); auto.
    + assert (Hat : m_attr m = false).
      { cbn in Ha. apply andb_true_iff in Ha as [Ha _]. destruct (m_attr m); [discriminate|reflexivity]. }
      assert (Ha' : attrs_last (m2 :: r) = true).
      { cbn in Ha. apply andb_true_iff in Ha as [_ Ha]. exact Ha. }
      rewrite Hat. cbn [andb]. rewrite step_all_one.
      pose proof (child_step W s tg m Hn Hr Hrep Hat) as H.
      change (walk_sp W s (m :: m2 :: r)) with
        (match child_of W s (m_name m) with LOk s' => walk_sp W s' (m2 :: r) | r0 => r0 end).
      destruct (step W m tg) as [ts0|]; [|exact I].
      destruct H as [[H1 H2]|[s' [tg' [H1 [H2 H3]]]]].
      * subst ts0. rewrite H1. rewrite steps_nil; auto. left. auto.
      * subst ts0. rewrite H1. apply IH; auto.
Qed.

(* ------------------------------------------------------------------ *)
(* the last step of create()                                           *)
(* ------------------------------------------------------------------ *)
Definition enum_items (vals : list name) : keylist :=
  fold_left (fun acc x => set_key (x, false) (PStr x) acc) vals [].

Definition finish (W : wsdl) (path : str) (s : sobj) : pv :=
  match s with
  | SSimple _ _ (v :: vs) => PObj (name_or_0 W path) (enum_items (v :: vs))
  | SEnumVal _ => PObj (name_or_0 W path) []
  | _ => build_root W s
  end.

Lemma create_finish W path :
  create W path =
  match find_path W path with
  | FErr => ROther
  | FNone => RTypeNotFound
  | FTypeNotFound => RTypeNotFound
  | FOk s => ROk (finish W path s)
  end.
Proof.
  unfold create, finish. destruct (find_path W path) as [| | |s]; auto.
  destruct s as [t|sns sn vals|v|en|a| |bn]; auto. destruct vals; auto.
Qed.

Definition enum_item_ok (vals : list name) (kv : key * pv) : Prop :=
  exists val, In val vals /\ kv = ((val, false), PStr val).

Lemma set_key_items_ok vals val l :
  In val vals -> Forall (enum_item_ok vals) l ->
  Forall (enum_item_ok vals) (set_key (val, false) (PStr val) l).
Proof.
  intros Hv. induction l as [|[k v] l IH]; intro H.
  - constructor; [|constructor]. exists val. auto.
  - inversion H; subst. cbn. destruct (key_eqb (val, false) k) eqn:E.
    + apply key_eqb_eq_l in E. subst k. constructor; auto. exists val. auto.
    + constructor; auto.
Qed.

Lemma set_key_length k v l : length (set_key k v l) <= Datatypes.S (length l).
Proof.
  induction l as [|[k' v'] l IH]; cbn; auto. destruct (key_eqb k k'); cbn; lia.
Qed.

Lemma enum_fold vals0 vals acc :
  (forall x, In x vals -> In x vals0) -> Forall (enum_item_ok vals0) acc ->
  let items := fold_left (fun acc x => set_key (x, false) (PStr x) acc) vals acc in
  Forall (enum_item_ok vals0) items /\
  length items <= length acc + length vals /\
  (forall k, get_key k items =
             if existsb (fun x => key_eqb k (x, false)) vals then Some (PStr (fst k)) else get_key k acc).
Proof.
  revert acc. induction vals as [|x vals IH]; intros acc Hsub Hacc; cbn.
  - repeat split; auto. lia.
  - assert (Hacc' : Forall (enum_item_ok vals0) (set_key (x, false) (PStr x) acc)).
    { apply set_key_items_ok; auto. apply Hsub. left. reflexivity. }
    destruct (IH (set_key (x, false) (PStr x) acc) (fun y Hy => Hsub y (or_intror Hy)) Hacc') as [H1 [H2 H3]].
    repeat split; auto.
    + pose proof (set_key_length (x, false) (PStr x) acc). lia.
    + intro k. rewrite H3. rewrite get_set_key.
      destruct (existsb (fun x0 => key_eqb k (x0, false)) vals) eqn:E.
      * rewrite orb_true_r. reflexivity.
      * rewrite orb_false_r. destruct (key_eqb k (x, false)) eqn:Ek; auto.
        apply key_eqb_eq_l in Ek. subst k. reflexivity.
Qed.

Lemma get_key_in k v l : get_key k l = Some v -> In (k, v) l.
Proof.
  induction l as [|[k' v'] l IH]; cbn; [discriminate|].
  destruct (key_eqb k k') eqn:E.
  - intro H. inversion H; subst. apply key_eqb_eq_l in E. subst. left. reflexivity.
  - intro H. right. auto.
Qed.

Lemma pv_eqb_str x : pv_eqb (PStr x) (PStr x) = true.
Proof. cbn. apply N.eqb_refl. Qed.

Lemma enum_items_ok c vals : enum_ok vals (PObj c (enum_items vals)) = true.
Proof.
  unfold enum_items.
  destruct (enum_fold vals vals [] (fun x H => H) (Forall_nil _)) as [H1 [H2 H3]].
  cbn zeta in *. unfold enum_ok. rewrite !andb_true_iff. repeat split.
  - apply forallb_forall. intros val Hv. apply existsb_exists.
    exists ((val, false), PStr val). split.
    + apply get_key_in. rewrite H3.
      replace (existsb (fun x => key_eqb (val, false) (x, false)) vals) with true; [reflexivity|].
      symmetry. apply existsb_exists. exists val. split; auto. apply key_eqb_refl_l.
    + cbn [fst snd]. rewrite key_eqb_refl_l, pv_eqb_str. reflexivity.
  - apply forallb_forall. intros it Hit. rewrite Forall_forall in H1.
    destruct (H1 it Hit) as [val [Hv ->]]. apply existsb_exists. exists val. split; auto.
    cbn [fst snd]. rewrite key_eqb_refl_l, pv_eqb_str. reflexivity.
  - apply Nat.leb_le. cbn in H2. exact H2.
Qed.

Lemma find_named_qn W q t : find_named W q = Some (SComplex t) -> qn_of t = q.
Proof.
  unfold find_named. destruct (find_type (w_types W) q) as [t'|] eqn:E.
  - intro H. inversion H; subst. unfold find_type in E. apply find_some in E as [_ E].
    apply qn_eqb_eq_l in E. exact E.
  - destruct (find_simple W q) as [[[ns n] vals]|]; discriminate.
Qed.

Lemma finish_ok W strict path s tg :
  wf_names W = true -> (strict = false \/ no_enum_members W = true) ->
  repr W s tg -> target_ok W strict tg (finish W path s) = true.
Proof.
  intros Hn Hst Hrep. destruct s as [t|sns sn vals|v|en|a| |bn]; destruct tg as [q|]; cbn in Hrep; try contradiction.
  - cbn [finish target_ok]. rewrite Hrep. rewrite <- (find_named_qn W q t Hrep).
    apply create_mirrors_type_gen; auto. eapply find_named_complex_in; eauto.
  - unfold target_ok. rewrite Hrep. destruct vals as [|v vs]; [reflexivity|].
    cbn [finish]. apply enum_items_ok.
  - reflexivity.
  - reflexivity.
Qed.

(* ------------------------------------------------------------------ *)
(* create() on every well-formed spelling meets the specification      *)
(* ------------------------------------------------------------------ *)
Definition des (o : option (list target)) : designation :=
  match o with Some ts => DTargets ts | None => DNoClaim end.

Lemma from_root_ok W strict sp s tg :
  wf_names W = true -> (strict = false \/ no_enum_members W = true) ->
  wf_refs W = true -> wf_spelling sp = true -> repr W s tg ->
  outcome_ok W strict (des (steps W (sp_members sp) [tg]))
    (match walk_sp W s (sp_members sp) with
     | LNone => RTypeNotFound
     | LTypeNotFound => RTypeNotFound
     | LOk s' => ROk (finish W (render sp) s')
     end) = true.
Proof.
  intros Hn Hst Hr Hsp Hrep. unfold wf_spelling in Hsp.
  apply andb_true_iff in Hsp as [Hsp Ha]. apply andb_true_iff in Hsp as [_ Hm].
  pose proof (walk_refines W Hn Hr (sp_members sp) s tg Hrep Hm Ha) as H.
  destruct (steps W (sp_members sp) [tg]) as [ts|]; [|reflexivity].
  destruct H as [[H1 H2]|[s' [tg' [H1 [H2 H3]]]]]; subst ts; rewrite H1; cbn [des outcome_ok].
  - reflexivity.
  - cbn [existsb]. rewrite (finish_ok W strict (render sp) s' tg' Hn Hst H3). reflexivity.
Qed.

Lemma find_filter {A} (f : A -> bool) l :
  find f l = match filter f l with x :: _ => Some x | [] => None end.
Proof. induction l as [|a l IH]; cbn; auto. destruct (f a); auto. Qed.

Lemma wf_refs_elem W e : wf_refs W = true -> In e (w_elems W) -> tref_ok W (snd e) = true.
Proof.
  unfold wf_refs. intros H Hi. apply andb_true_iff in H as [H _]. rewrite forallb_forall in H. auto.
Qed.

Lemma is_builtin_not_w3 n u : starts_with w3_prefix u = false -> is_builtin_ref n u = false.
Proof. unfold is_builtin_ref. intros ->. apply andb_false_r. Qed.

(* the deep search only ever finds a local element of that name and namespace *)
Lemma sentry_named_mark nm k o e : sentry_named nm (mark k o e) = sentry_named nm e.
Proof. destruct e; reflexivity. Qed.

Lemma s_particle_pc_cons k o q l :
  s_particle (PC k o (q :: l)) = map (mark k o) (s_particle q) ++ s_particle (PC k o l).
Proof. cbn [s_particle]. rewrite map_app. reflexivity. Qed.

Lemma existsb_map_mark nm k o l :
  existsb (sentry_named nm) (map (mark k o) l) = existsb (sentry_named nm) l.
Proof. induction l as [|e l IH]; cbn; auto. rewrite sentry_named_mark, IH. reflexivity. Qed.

Lemma local_match_named ns nm d : local_match ns nm d = true -> N.eqb (e_name d) nm = true.
Proof. unfold local_match. intro H. apply andb_true_iff in H. tauto. Qed.

Lemma direct_named_in ns nm k o kids d :
  direct_named ns nm kids = Some d -> existsb (sentry_named nm) (s_particle (PC k o kids)) = true.
Proof.
  induction kids as [|q r IH]; cbn [direct_named]; [discriminate|].
  intro H. rewrite s_particle_pc_cons, existsb_app. destruct q as [d0| |k' o' kids'].
  - destruct (local_match ns nm d0) eqn:E.
    + cbn. rewrite (local_match_named _ _ _ E). reflexivity.
    + rewrite (IH H). apply orb_true_r.
  - rewrite (IH H). apply orb_true_r.
  - rewrite (IH H). apply orb_true_r.
Qed.

Lemma top_find_in ns nm ps : forall seen d,
  top_find ns nm seen ps = Some d -> existsb (sentry_named nm) (flat_map s_particle ps) = true.
Proof.
  induction ps as [|p r IH]; intros seen d H; [discriminate|].
  cbn [flat_map]. rewrite existsb_app. destruct p as [d0| |k o kids]; cbn [top_find] in H.
  - destruct (local_match ns nm d0) eqn:E.
    + cbn. rewrite (local_match_named _ _ _ E). reflexivity.
    + rewrite (IH _ _ H). apply orb_true_r.
  - rewrite (IH _ _ H). apply orb_true_r.
  - destruct seen.
    + rewrite (IH _ _ H). apply orb_true_r.
    + destruct (direct_named ns nm kids) as [d1|] eqn:E.
      * rewrite (direct_named_in ns nm k o kids d1 E). reflexivity.
      * rewrite (IH _ _ H). apply orb_true_r.
Qed.

Lemma deep_find_local W ns nm d : deep_find W ns nm = Some d -> local_named W (ns, nm) = true.
Proof.
  unfold deep_find. intro H. apply first_some_in in H as [q [Hq H]].
  destruct (find_type (w_types W) q) as [t|] eqn:Et; [|discriminate].
  unfold deep_in_type in H.
  destruct (N.eqb (c_ns t) ns && negb (N.eqb (c_name t) nm) &&
            match c_base t with None => true | Some _ => false end) eqn:Ec; [|discriminate].
  apply andb_true_iff in Ec as [Ec _]. apply andb_true_iff in Ec as [Ec _].
  unfold local_named. apply existsb_exists. exists t. split; [eapply find_type_in; eauto|].
  cbn [fst snd]. rewrite Ec. cbn [andb]. eapply top_find_in; eauto.
Qed.

Theorem create_meets_spec_gen W strict sp :
  wf_names W = true -> (strict = false \/ no_enum_members W = true) ->
  wf_refs W = true -> wf_spelling sp = true ->
  spec_check W strict sp (create W (render sp)) = true.
Proof.
  intros Hn Hst Hr Hsp. rewrite create_finish, (find_path_render W sp Hsp).
  unfold spec_check, designate, find_sp, root_targets.
  assert (Hmem : forallb member_ok (sp_members sp) = true /\ attrs_last (sp_members sp) = true).
  { unfold wf_spelling in Hsp. apply andb_true_iff in Hsp as [Hsp Ha].
    apply andb_true_iff in Hsp as [_ Hm]. auto. }
  destruct Hmem as [Hm Ha].
  destruct (root_uri W (sp_root sp)) as [u|]; [|cbn; rewrite steps_nil; auto].
  destruct (starts_with w3_prefix u) eqn:Ew3; [reflexivity|].
  unfold root_lookup. rewrite (is_builtin_not_w3 _ _ Ew3).
  destruct (lookup_uri W u) as [ns|]; [|cbn; rewrite steps_nil; auto].
  destruct (lookup_name W (root_name (sp_root sp))) as [nm|]; [|cbn; rewrite steps_nil; auto].
  unfold find_gelem. rewrite find_filter.
  destruct (filter (fun e => qn_eqb (fst (fst e), snd (fst e)) (ns, nm)) (w_elems W)) as [|[[ens en] ty] rest] eqn:Ef.
  - (* no global element of that name *)
    cbn [map app]. unfold is_type.
    destruct (find_named W (ns, nm)) as [s0|] eqn:Efn.
    + cbn [map existsb]. rewrite orb_false_r.
      pose proof (from_root_ok W strict sp s0 (TgType (ns, nm)) Hn Hst Hr Hsp (repr_named W _ _ Efn)) as H.
      unfold des in H. destruct (steps W (sp_members sp) [TgType (ns, nm)]); auto.
      destruct (walk_sp W s0 (sp_members sp)); exact H.
    + destruct (local_named W (ns, nm)) eqn:El; [reflexivity|].
      destruct (deep_find W ns nm) as [d0|] eqn:Ed.
      { apply deep_find_local in Ed. rewrite Ed in El. discriminate. }
      cbn. rewrite steps_nil; auto.
  - (* a global element: BlindQuery takes it first *)
    assert (Hin : In (ens, en, ty) (w_elems W)).
    { assert (In (ens, en, ty) (filter (fun e => qn_eqb (fst (fst e), snd (fst e)) (ns, nm)) (w_elems W)))
        by (rewrite Ef; left; reflexivity).
      apply filter_In in H. tauto. }
    destruct (resolve_elem_repr W en ty (wf_refs_elem W _ Hr Hin)) as [s0 [Hs0 Hrep0]].
    rewrite Hs0. cbn [map app snd].
    pose proof (from_root_ok W strict sp s0 (target_of_tref ty) Hn Hst Hr Hsp Hrep0) as H.
    remember (map (fun e : nsid * name * tref => target_of_tref (snd e)) rest ++
              (if is_type W (ns, nm) then [TgType (ns, nm)] else [])) as more.
    cbn [map existsb]. apply orb_true_iff. left.
    unfold des in H. destruct (steps W (sp_members sp) [target_of_tref ty]); auto.
    destruct (walk_sp W s0 (sp_members sp)); exact H.
Qed.

Theorem create_meets_spec_l W sp :
  wf_names W = true -> wf_refs W = true -> wf_spelling sp = true ->
  spec_check W false sp (create W (render sp)) = true.
Proof. intros. apply create_meets_spec_gen; auto. Qed.

(* the letter of the text, where no required member has an enumeration type *)
Theorem create_meets_strict_spec_partial_l W sp :
  wf_names W = true -> wf_refs W = true -> no_enum_members W = true -> wf_spelling sp = true ->
  spec_check W true sp (create W (render sp)) = true.
Proof. intros. apply create_meets_spec_gen; auto. Qed.

(* ------------------------------------------------------------------ *)
(* corollaries                                                         *)
(* ------------------------------------------------------------------ *)
Lemma create_unknown_raises_l W sp :
  wf_names W = true -> wf_refs W = true -> wf_spelling sp = true ->
  (forall d, In d (designate W sp) -> d = DTargets []) ->
  create W (render sp) = RTypeNotFound.
Proof.
  intros Hn Hr Hsp Hall. pose proof (create_meets_spec_l W sp Hn Hr Hsp) as H.
  unfold spec_check in H. apply existsb_exists in H as [d [Hd Ho]].
  rewrite (Hall d Hd) in Ho. cbn in Ho. destruct (create W (render sp)); try discriminate. reflexivity.
Qed.

Lemma create_known_l W sp :
  wf_names W = true -> wf_refs W = true -> wf_spelling sp = true ->
  (forall d, In d (designate W sp) -> exists tg ts, d = DTargets (tg :: ts)) ->
  exists v ts tg, create W (render sp) = ROk v /\ In (DTargets ts) (designate W sp) /\
                  In tg ts /\ target_ok W false tg v = true.
Proof.
  intros Hn Hr Hsp Hall. pose proof (create_meets_spec_l W sp Hn Hr Hsp) as H.
  unfold spec_check in H. apply existsb_exists in H as [d [Hd Ho]].
  destruct (Hall d Hd) as [tg [ts ->]]. cbn [outcome_ok] in Ho.
  destruct (create W (render sp)) as [v| |]; try discriminate.
  apply existsb_exists in Ho as [tg' [Ht Hok]]. exists v, (tg :: ts), tg'. auto.
Qed.

Lemma create_never_partial_l W sp v :
  wf_names W = true -> wf_refs W = true -> wf_spelling sp = true ->
  (forall d, In d (designate W sp) -> d <> DNoClaim) ->
  create W (render sp) = ROk v ->
  exists ts tg, In (DTargets ts) (designate W sp) /\ In tg ts /\ target_ok W false tg v = true.
Proof.
  intros Hn Hr Hsp Hall Hc. pose proof (create_meets_spec_l W sp Hn Hr Hsp) as H.
  unfold spec_check in H. apply existsb_exists in H as [d [Hd Ho]]. rewrite Hc in Ho.
  destruct d as [ts|]; cbn in Ho.
  - destruct ts as [|tg ts]; [discriminate|].
    apply existsb_exists in Ho as [tg' [Ht Hok]]. exists (tg :: ts), tg'. auto.
  - exfalso. eapply Hall; eauto.
Qed.

Definition same_members (a b : result) : Prop :=
  match a, b with
  | ROk (PObj _ i1), ROk (PObj _ i2) => i1 = i2
  | RTypeNotFound, RTypeNotFound => True
  | ROther, ROther => True
  | _, _ => False
  end.

Lemma finish_members W p1 p2 s :
  same_members (ROk (finish W p1 s)) (ROk (finish W p2 s)).
Proof.
  destruct s as [t|sns sn vals|v|en|a| |bn]; cbn; auto. destruct vals; cbn; auto.
Qed.

Lemma create_spelling_independent_l W r1 r2 ms :
  wf_spelling (mkSp r1 ms) = true -> wf_spelling (mkSp r2 ms) = true ->
  root_uri W r1 = root_uri W r2 -> root_name r1 = root_name r2 ->
  find_path W (render (mkSp r1 ms)) = find_path W (render (mkSp r2 ms)) /\
  same_members (create W (render (mkSp r1 ms))) (create W (render (mkSp r2 ms))).
Proof.
  intros H1 H2 Hu Hnm.
  assert (Hf : find_path W (render (mkSp r1 ms)) = find_path W (render (mkSp r2 ms))).
  { rewrite !find_path_render by assumption. unfold find_sp. cbn [sp_root sp_members].
    rewrite Hu, Hnm. reflexivity. }
  split; [exact Hf|]. rewrite !create_finish, Hf.
  destruct (find_path W (render (mkSp r2 ms))); cbn; auto. apply finish_members.
Qed.

(* a string no well-formed spelling renders to, accepted all the same *)
Lemma not_rendered path :
  (forall sp, wf_spelling sp = true -> render sp = path ->
              split path = render_root (sp_root sp) :: map render_member (sp_members sp)).
Proof. intros sp H <-. apply split_wellformed_l. exact H. Qed.

(* an undeclared prefix is an unknown name like any other *)
Lemma create_undeclared_prefix_l W p n ms :
  wf_names W = true -> wf_refs W = true -> wf_spelling (mkSp (RPrefixed p n) ms) = true ->
  resolve_prefix W p = None ->
  create W (render (mkSp (RPrefixed p n) ms)) = RTypeNotFound.
Proof.
  intros Hn Hr Hsp Hp. apply create_unknown_raises_l; auto.
  intros d Hd. unfold designate, root_targets in Hd. cbn [sp_root sp_members root_uri] in Hd.
  rewrite Hp in Hd.
  unfold wf_spelling in Hsp. apply andb_true_iff in Hsp as [Hsp Ha]. apply andb_true_iff in Hsp as [_ Hm].
  cbn [sp_members] in Hm, Ha. rewrite steps_nil in Hd by assumption.
  destruct Hd as [<-|[]]. reflexivity.
Qed.

(* every declaration below a choice - directly or inside a nested sequence /
   all / group at any depth - is marked as a choice branch *)
Lemma compound_choice_branch_marked_l o kids e :
  In e (s_particle (PC KChoice o kids)) -> match e with SE _ ch _ => ch = true | SWild => True end.
Proof.
  cbn [s_particle]. intro H. apply in_map_iff in H as [e0 [<- _]].
  destruct e0 as [d ch op|]; cbn; auto. apply orb_true_r.
Qed.

Lemma mark_keeps_choice k o e :
  match e with SE _ ch _ => ch = true | SWild => True end ->
  match mark k o e with SE _ ch _ => ch = true | SWild => True end.
Proof. destruct e as [d ch op|]; cbn; auto. intros ->. reflexivity. Qed.
