(* C03 — "filling such an object and passing it yields the same request as
   passing the equivalent dict": linked to the marshaller model of C01.

   A factory object carries the type it was built from (metadata.sxtype); a
   dict carries none.  In the C01 model that is VObj (Some q) fs against
   VObj None fs.  What factory.create builds is typed with exactly the
   declared types (C03/Props.v: every pre-built child is the object of the
   member's own type), so the clause is: erasing the type marks of a value
   whose marks are the declared types does not change the request.  Proved
   for values of unbounded depth and width.  Only C01's definitions are
   imported here (C03/Model.v re-uses some of their names). *)
From SV Require Import Lib.Base Fam.Schema C01.Marshal C01.Guard C01.MarshalProofs.

(* the equivalent dict: same keys, same leaves, no type marks *)
Fixpoint untype (v : value) : value :=
  match v with
  | VNone => VNone
  | VText t => VText t
  | VList l => VList (map untype l)
  | VObj _ fs =>
      VObj None ((fix go (fs : list field) : list field :=
                    match fs with
                    | [] => []
                    | (k, isattr, x) :: fs' => (k, isattr, untype x) :: go fs'
                    end) fs)
  end.

Fixpoint untype_fields (fs : list field) : list field :=
  match fs with
  | [] => []
  | (k, isattr, x) :: fs' => (k, isattr, untype x) :: untype_fields fs'
  end.

Lemma untype_obj ty fs : untype (VObj ty fs) = VObj None (untype_fields fs).
Proof. reflexivity. Qed.

(* every type mark is the declared type of the member the object sits in *)
Fixpoint exactly_typed (S : schema) (d : edecl) (v : value) {struct v} : bool :=
  match v with
  | VNone => true
  | VText _ => true
  | VList l =>
      (fix all (l : list value) : bool :=
         match l with [] => true | x :: l' => exactly_typed S d x && all l' end) l
  | VObj ty fs =>
      match ty with
      | None => true
      | Some q => match e_type d with
                  | TNamed ns n => qn_eqb q (ns, n)
                  | TBuiltin => false
                  end
      end &&
      match declared_type S d with
      | None => true
      | Some rt =>
          (fix each (fs : list field) : bool :=
             match fs with
             | [] => true
             | (k, isattr, x) :: fs' =>
                 (if isattr then true
                  else match get_child k (flat_elems S rt) with
                       | Some (FE d' _ _) => exactly_typed S d' x
                       | _ => true
                       end) && each fs'
             end) fs
      end
  end.

Fixpoint each_typed (S : schema) (rt : ctype) (fs : list field) : bool :=
  match fs with
  | [] => true
  | (k, isattr, x) :: fs' =>
      (if isattr then true
       else match get_child k (flat_elems S rt) with
            | Some (FE d' _ _) => exactly_typed S d' x
            | _ => true
            end) && each_typed S rt fs'
  end.

Lemma exactly_typed_obj S d ty fs :
  exactly_typed S d (VObj ty fs) =
  match ty with
  | None => true
  | Some q => match e_type d with TNamed ns n => qn_eqb q (ns, n) | TBuiltin => false end
  end &&
  match declared_type S d with
  | None => true
  | Some rt => each_typed S rt fs
  end.
Proof.
  cbn [exactly_typed]. f_equal. destruct (declared_type S d) as [rt|]; [|reflexivity].
  induction fs as [|[[k b] x] fs IH]; [reflexivity|]. cbn [each_typed]. rewrite <- IH. reflexivity.
Qed.

Lemma exactly_typed_list S d l :
  exactly_typed S d (VList l) = forallb (exactly_typed S d) l.
Proof. induction l as [|x l IH]; [reflexivity|]. cbn [forallb]. rewrite <- IH. reflexivity. Qed.

Lemma qn_eqb_true a b : qn_eqb a b = true -> a = b.
Proof.
  destruct a as [x1 y1], b as [x2 y2]. unfold qn_eqb. cbn. intro H.
  apply andb_true_iff in H as [H1 H2]. apply N.eqb_eq in H1. apply N.eqb_eq in H2. congruence.
Qed.

Lemma real_type_exact S d ty :
  match ty with
  | None => true
  | Some q => match e_type d with TNamed ns n => qn_eqb q (ns, n) | TBuiltin => false end
  end = true ->
  real_type S d ty = declared_type S d.
Proof.
  destruct ty as [q|]; [|reflexivity]. unfold real_type, declared_type.
  destruct (e_type d) as [|ns n]; [discriminate|]. intro H. apply qn_eqb_true in H. subst. reflexivity.
Qed.

Lemma keys_untype_fields fs : map fst (untype_fields fs) = map fst fs.
Proof. induction fs as [|[[k b] x] fs IH]; [reflexivity|]. cbn. rewrite IH. reflexivity. Qed.

Lemma attr_contrib_untype me elems attrs k x :
  field_contrib me elems attrs k true (untype x) = field_contrib me elems attrs k true x.
Proof.
  unfold field_contrib. destruct (get_attribute k attrs) as [a|]; [|reflexivity].
  destruct x as [|t|l|ty fs]; try reflexivity.
  - destruct l; reflexivity.
Qed.

Theorem object_vs_dict_request_l : forall S xstq v d anc,
  exactly_typed S d v = true ->
  marshal_elem S xstq d anc (untype v) = marshal_elem S xstq d anc v.
Proof.
  intros S xstq v. induction v as [|t|l IH|ty fs IH] using value_ind'; intros d anc H.
  - reflexivity.
  - reflexivity.
  - cbn [untype]. rewrite !marshal_elem_list. rewrite exactly_typed_list in H.
    rewrite forallb_forall in H. rewrite map_map. f_equal.
    apply map_ext_in. intros x Hx. rewrite Forall_forall in IH. apply IH; auto.
  - rewrite untype_obj, !marshal_elem_obj. rewrite exactly_typed_obj in H.
    apply andb_true_iff in H as [Hty Hf]. rewrite (real_type_exact S d ty Hty).
    cbn [real_type]. destruct (declared_type S d) as [rt|]; [|reflexivity].
    replace (per_field_of (marshal_elem S xstq) (flat_elems S rt) (flat_attrs S rt) (untype_fields fs))
      with (per_field_of (marshal_elem S xstq) (flat_elems S rt) (flat_attrs S rt) fs); [reflexivity|].
    clear Hty. induction fs as [|[[k b] x] fs IHfs]; [reflexivity|].
    inversion IH as [|? ? Hx Hrest]; subst. cbn [each_typed] in Hf.
    apply andb_true_iff in Hf as [Hx' Hf]. cbn [untype_fields per_field_of].
    rewrite <- (IHfs Hrest Hf). f_equal. f_equal.
    destruct b.
    + symmetry. apply attr_contrib_untype.
    + unfold field_contrib. destruct (get_child k (flat_elems S rt)) as [[d' anc' ch|anc']|]; try reflexivity.
      cbn [snd] in Hx. rewrite (Hx d' anc' Hx'). reflexivity.
Qed.
