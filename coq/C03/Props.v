(* C03 — Factory-built objects mirror the schema type they are created from.
   Property theorems only (model: C03/Model.v; specification: C03/Spec.v;
   proofs: C03/BuildProofs.v, C03/SplitProofs.v, C03/PathProofs.v).

   Full statement (kept visible): for EVERY interface W, and every spelling sp
   of the forms the property names (plain, prefixed, {namespace}-qualified,
   dotted path, @attribute last), what the model of factory.create does on the
   TEXT of the spelling is what the specification — a checker of the returned
   object against the flattened content model, written from the property text —
   accepts:  an object mirroring the designated type (members exactly the
   content model in schema order, inherited first; repeating -> []; required
   complex children pre-built recursively until their type recurs; optional ->
   None; choice branches and wildcards absent; _attributes = declared default;
   enumerations = every declared value), and TypeNotFound — never an object —
   for a name that designates nothing.  It holds under two side conditions on
   the interface that every valid XSD meets (member names distinct within a
   type: wf_names; type references resolve: wf_refs) and for the lenient
   reading of the one point on which the unchanged code departs from the letter
   of the text (known finding C03:enum-member-prebuilt-as-property, witness
   strict_reading_refuted): a required member of enumeration type is pre-built
   as a Property {value = None}.  Where no member is of that kind the letter of
   the text holds too (create_meets_strict_spec_partial).  Two defects are
   repaired in /repo and therefore not guarded: "create('T.bogus') returns T"
   and "create('zz:T') raises a bare Exception" (create_unknown_raises,
   create_undeclared_prefix_raises).
   Element refs, named groups, choices with compound branches, anonymous and
   simpleContent types are inside the model and the theorems; a LOCAL element
   name spelled without its path (suds' deep search finds some of them) is
   where the specification makes no claim (deep_search_finds_local_names_only).
   filled_object_vs_dict is the clause "filling such an object and passing it
   yields the same request as passing the equivalent dict", over this model
   and the marshaller model of C01 together.
   Strings that are not spellings ("T..x", "T.") are outside the quantifier;
   the model shows they are still accepted (malformed_path_accepted). *)
From SV Require C01.Marshal.
From SV Require Import Lib.Base Fam.Schema C03.Model C03.Spec C03.BuildProofs C03.SplitProofs C03.PathProofs C03.Link C03.Bridge.

(* 1. the whole of create(): name parsing, look-up, path walk, construction *)
Theorem create_meets_spec : forall W sp,
  wf_names W = true -> wf_refs W = true -> wf_spelling sp = true ->
  spec_check W false sp (create W (render sp)) = true.
Proof. exact create_meets_spec_l. Qed.
Print Assumptions create_meets_spec.

(* the letter of the text (strict = true: a required member of simple type is
   None), guarded by the absence of required enumeration-typed members *)
Theorem create_meets_strict_spec_partial : forall W sp,
  wf_names W = true -> wf_refs W = true -> no_enum_members W = true -> wf_spelling sp = true ->
  spec_check W true sp (create W (render sp)) = true.
Proof. exact create_meets_strict_spec_partial_l. Qed.
Print Assumptions create_meets_strict_spec_partial.

(* 2. construction alone: unbounded nesting, recursion through any cycle of types *)
Theorem create_mirrors_type : forall W t,
  wf_names W = true -> In t (w_types W) ->
  mirrors W false [qn_of t] t (build_root W (SComplex t)) = true.
Proof. exact create_mirrors_type_l. Qed.
Print Assumptions create_mirrors_type.

(* every nested pre-built object too, whatever was cut off above it *)
Theorem member_object_mirrors_type : forall W,
  wf_names W = true ->
  forall fuel hist path t cls,
    In t (w_types W) -> inv hist path -> remaining W hist < fuel ->
    mirrors W false path t
            (PObj cls (iter_items (ordering (all_items W t)) (members W fuel hist t))) = true.
Proof. exact members_mirror_lenient. Qed.
Print Assumptions member_object_mirrors_type.

(* the history cut-off, not the fuel, ends the recursion *)
Theorem build_fuel_sufficient : forall W t extra,
  In t (w_types W) ->
  members W (build_fuel W + extra) [] t = members W (build_fuel W) [] t.
Proof. exact build_fuel_sufficient_l. Qed.
Print Assumptions build_fuel_sufficient.

(* 3. name parsing: the regex takes a rendered spelling apart into its parts,
   whatever the URI between the braces contains (dots, colons, slashes ...) *)
Theorem split_wellformed : forall sp,
  wf_spelling sp = true ->
  split (render sp) = render_root (sp_root sp) :: map render_member (sp_members sp).
Proof. exact split_wellformed_l. Qed.
Print Assumptions split_wellformed.

(* the fuel of the regex model is never the reason for a result *)
Theorem split_fuel_sufficient : forall s extra,
  split_loop (Datatypes.S (length s) + extra) s = split s /\
  m_rest (Datatypes.S (length s) + extra) s = splitp_match s.
Proof. intros s extra. split; [apply split_fuel_sufficient_l|apply m_rest_fuel_ge]. Qed.
Print Assumptions split_fuel_sufficient.

Theorem qualify_spellings : forall W r,
  root_ok r = true ->
  qualify W (render_root r) =
  match root_uri W r with Some u => QOk (root_name r) u | None => QErr end.
Proof. exact qualify_root_l. Qed.
Print Assumptions qualify_spellings.

(* plain / prefixed (any prefix bound to the namespace) / {uri} spellings of one
   name, with the same dotted members, find the same thing and build the same members *)
Theorem create_spelling_independent : forall W r1 r2 ms,
  wf_spelling (mkSp r1 ms) = true -> wf_spelling (mkSp r2 ms) = true ->
  root_uri W r1 = root_uri W r2 -> root_name r1 = root_name r2 ->
  find_path W (render (mkSp r1 ms)) = find_path W (render (mkSp r2 ms)) /\
  same_members (create W (render (mkSp r1 ms))) (create W (render (mkSp r2 ms))).
Proof. exact create_spelling_independent_l. Qed.
Print Assumptions create_spelling_independent.

(* 4. known and unknown names *)
Theorem create_known_name_mirrors : forall W sp,
  wf_names W = true -> wf_refs W = true -> wf_spelling sp = true ->
  (forall d, In d (designate W sp) -> exists tg ts, d = DTargets (tg :: ts)) ->
  exists v ts tg, create W (render sp) = ROk v /\ In (DTargets ts) (designate W sp) /\
                  In tg ts /\ target_ok W false tg v = true.
Proof. exact create_known_l. Qed.
Print Assumptions create_known_name_mirrors.

Theorem create_unknown_raises : forall W sp,
  wf_names W = true -> wf_refs W = true -> wf_spelling sp = true ->
  (forall d, In d (designate W sp) -> d = DTargets []) ->
  create W (render sp) = RTypeNotFound.
Proof. exact create_unknown_raises_l. Qed.
Print Assumptions create_unknown_raises.

(* an undeclared prefix: TypeNotFound like any unknown name (repaired in /repo) *)
Theorem create_undeclared_prefix_raises : forall W p n ms,
  wf_names W = true -> wf_refs W = true -> wf_spelling (mkSp (RPrefixed p n) ms) = true ->
  resolve_prefix W p = None ->
  create W (render (mkSp (RPrefixed p n) ms)) = RTypeNotFound.
Proof. exact create_undeclared_prefix_l. Qed.
Print Assumptions create_undeclared_prefix_raises.

Theorem create_never_partial : forall W sp v,
  wf_names W = true -> wf_refs W = true -> wf_spelling sp = true ->
  (forall d, In d (designate W sp) -> d <> DNoClaim) ->
  create W (render sp) = ROk v ->
  exists ts tg, In (DTargets ts) (designate W sp) /\ In tg ts /\ target_ok W false tg v = true.
Proof. exact create_never_partial_l. Qed.
Print Assumptions create_never_partial.

(* 5. the specification's content model (bottom-up marking of choice / optional
   containers, inherited first) is the flattening the builder iterates *)
Theorem content_model_flattening_agrees : forall W t,
  exp_members W t = flat_map entry_of (all_items W t) /\
  exp_attrs W t = flat_map attr_of_item (all_items W t).
Proof. intros W t. split; [apply exp_members_items|apply exp_attrs_items]. Qed.
Print Assumptions content_model_flattening_agrees.

(* 6. "filling such an object and passing it yields the same request as passing
   the equivalent dict": in the marshaller model of C01 (coq/C01/Marshal.v), a
   value whose type marks are the declared types - what the factory builds -
   and the same value without marks give the same request, at any depth *)
Theorem object_vs_dict_request : forall S xstq v d anc,
  exactly_typed S d v = true ->
  C01.Marshal.marshal_elem S xstq d anc (untype v) = C01.Marshal.marshal_elem S xstq d anc v.
Proof. exact object_vs_dict_request_l. Qed.
Print Assumptions object_vs_dict_request.

(* 7. ONE theorem over both models: the object create() returns for any type of
   any interface (C03 model), filled in any way - every member the factory left
   None / [] / a Property replaced by whatever the caller puts there (any value
   whose own type marks are declared types: text, None, lists, further factory
   objects), pre-built children kept and filled recursively - is an object that
   carries its type, and the marshaller (C01 model) builds the same request from
   it and from the equivalent dict *)
Theorem filled_object_vs_dict : forall W leaf leaf_attr t d xstq anc,
  find_type (w_types W) (qn_of t) = Some t ->
  e_type d = TNamed (c_ns t) (c_name t) ->
  (forall d' x, exactly_typed (w_types W) d' (leaf d' x) = true) ->
  let o := build_root W (SComplex t) in
  let u := fill W leaf leaf_attr t o in
  (exists fs, u = VObj (Some (qn_of t)) fs) /\
  C01.Marshal.marshal_elem (w_types W) xstq d anc (untype u) = C01.Marshal.marshal_elem (w_types W) xstq d anc u.
Proof. exact filled_object_vs_dict_l. Qed.
Print Assumptions filled_object_vs_dict.

(* the type marks fill writes are the ones the Builder sets: the class of every
   pre-built member object is the name of the resolved type of its member *)
Theorem prebuilt_member_carries_declared_type : forall W rec hist it k cls items,
  member_value W rec hist it = Some (k, PObj cls items) ->
  exists o i d ch op,
    it = FE o i d ch op /\
    ((exists t', resolve_type W (e_type d) = RC t' /\ cls = c_name t') \/
     (exists n vals, resolve_type W (e_type d) = RS n vals /\ cls = n)).
Proof. exact prebuilt_member_class. Qed.
Print Assumptions prebuilt_member_carries_declared_type.

(* and whatever object fill is applied to, its marks are declared types *)
Theorem fill_marks_declared_types : forall W leaf leaf_attr,
  (forall d x, exactly_typed (w_types W) d (leaf d x) = true) ->
  forall o t d,
    find_type (w_types W) (qn_of t) = Some t ->
    e_type d = TNamed (c_ns t) (c_name t) ->
    exactly_typed (w_types W) d (fill W leaf leaf_attr t o) = true.
Proof. exact fill_exactly_typed. Qed.
Print Assumptions fill_marks_declared_types.

(* 8. a choice with COMPOUND branches: every declaration below a choice, inside
   a nested sequence / all / group at any depth, is a choice branch for the
   specification (and so must be absent from the created object:
   create_mirrors_type covers such types like any other) *)
Theorem compound_choice_branch_marked : forall o kids e,
  In e (s_particle (PC KChoice o kids)) -> match e with SE _ ch _ => ch = true | SWild => True end.
Proof. exact compound_choice_branch_marked_l. Qed.
Print Assumptions compound_choice_branch_marked.

(* 9. ElementQuery's deep search (a local element name spelled without its
   path) only ever finds a local element of that name: the specification makes
   no claim exactly there *)
Theorem deep_search_finds_local_names_only : forall W ns nm d,
  deep_find W ns nm = Some d -> local_named W (ns, nm) = true.
Proof. exact deep_find_local. Qed.
Print Assumptions deep_search_finds_local_names_only.

(* ------------------------------------------------------------------ *)
(* witnesses                                                           *)
(* ------------------------------------------------------------------ *)
Local Open Scope N_scope.

Definition s_T : str := [84]%N.
Definition s_next : str := [110;101;120;116]%N.
Definition s_c : str := [99]%N.
Definition s_Color : str := [67;111;108;111;114]%N.
Definition s_red : str := [114;101;100]%N.
Definition s_v : str := [118]%N.
Definition s_a1 : str := [97;49]%N.
Definition s_B : str := [66]%N.
Definition s_after : str := [97;102;116;101;114]%N.
Definition s_urn : str := [117;114;110;58;120;46;121]%N.        (* urn:x.y *)
Definition s_t : str := [116]%N.
Definition s_zz : str := [122;122]%N.
Definition s_value : str := [118;97;108;117;101]%N.

(* T = sequence(v : int, next : T, c : Color) + @a1 default "dd";
   B = sequence(any, after : int);  Color = enumeration(red) *)
Definition W_ex : wsdl :=
  mkWsdl
    [mkC 10 1 None
         [PC KSeq false [PE (mkE 15 1 true TBuiltin false false false None);
                         PE (mkE 11 1 true (TNamed 1 10) false false false None);
                         PE (mkE 12 1 true (TNamed 1 13) false false false None)]]
         [mkA 18 false (Some 20%N)];
     mkC 16 1 None
         [PC KSeq false [PAny; PE (mkE 17 1 true TBuiltin false false false None)]] []]
    [(1%N, 13%N, [14%N])]
    []
    s_urn
    [(s_t, s_urn)]
    [(s_urn, 1%N)]
    [(s_T, 10%N); (s_next, 11%N); (s_c, 12%N); (s_Color, 13%N); (s_red, 14%N); (s_v, 15%N);
     (s_B, 16%N); (s_after, 17%N); (s_a1, 18%N); (s_value, 4%N)]
    [] [].

Definition prop_none : pv := PObj 13 [((4%N, false), PNone)].

(* the hypotheses of the theorems are satisfiable and the conclusion is about a real object *)
Example create_meets_spec_nonvacuous :
  wf_names W_ex = true /\ wf_refs W_ex = true /\
  wf_spelling (mkSp (RBraced s_urn s_T) []) = true /\
  designate W_ex (mkSp (RBraced s_urn s_T) []) = [DTargets [TgType (1%N, 10%N)]] /\
  create W_ex (render (mkSp (RBraced s_urn s_T) [])) =
  ROk (PObj 10 [((15%N, false), PNone);
                ((11%N, false), PObj 10 [((15%N, false), PNone); ((12%N, false), prop_none);
                                         ((18%N, true), PStr 20)]);
                ((12%N, false), prop_none);
                ((18%N, true), PStr 20)]).
Proof. vm_compute. repeat split; reflexivity. Qed.

Example spellings_nonvacuous :
  create W_ex (render (mkSp (RPlain s_T) [mkM None false s_next])) =
  create W_ex (render (mkSp (RPrefixed s_t s_T) [mkM None false s_next])) /\
  create W_ex (render (mkSp (RPlain s_T) [mkM None false s_next])) =
  create W_ex (render (mkSp (RBraced s_urn s_T) [])) /\
  create W_ex (render (mkSp (RPlain s_Color) [])) = ROk (PObj 13 [((14%N, false), PStr 14)]) /\
  create W_ex (render (mkSp (RPlain s_T) [mkM None true s_a1])) = ROk (PObj 18 []) /\
  create W_ex (render (mkSp (RPlain s_T) [mkM None false s_zz])) = RTypeNotFound /\
  create W_ex (render (mkSp (RPrefixed s_zz s_T) [])) = RTypeNotFound /\
  designate W_ex (mkSp (RPrefixed s_zz s_T) []) = [DTargets []] /\
  designate W_ex (mkSp (RPlain s_T) [mkM None false s_zz]) = [DTargets []].
Proof. vm_compute. repeat split; reflexivity. Qed.

(* the letter of the text is NOT met by the faithful model where a required
   member has an enumeration type: it is a Property {value = None} instead of
   None (the guard of create_meets_strict_spec_partial is necessary) *)
Theorem strict_reading_refuted :
  exists W sp,
    wf_names W = true /\ wf_refs W = true /\ wf_spelling sp = true /\
    no_enum_members W = false /\
    spec_check W true sp (create W (render sp)) = false.
Proof.
  exists W_ex, (mkSp (RPlain s_T) []).
  vm_compute. repeat split; reflexivity.
Qed.
Print Assumptions strict_reading_refuted.

(* strings that are no spelling are outside the quantifier of the property;
   the model (like the code) still accepts some of them: "T..v" yields T *)
Theorem malformed_path_accepted :
  exists W path v,
    create W path = ROk v /\
    forall sp, wf_spelling sp = true -> render sp <> path.
Proof.
  exists W_ex, (s_T ++ [ch_dot; ch_dot] ++ s_v).
  eexists. split; [vm_compute; reflexivity|].
  intros [r ms] Hwf Hr.
  pose proof (not_rendered _ _ Hwf Hr) as H. cbn [sp_root sp_members] in H.
  assert (Hs : split (s_T ++ [ch_dot; ch_dot] ++ s_v) = [s_T]) by (vm_compute; reflexivity).
  rewrite Hs in H. inversion H as [[H1 H2]].
  destruct ms; [|discriminate].
  unfold render in Hr. cbn [sp_root sp_members flat_map] in Hr. rewrite app_nil_r in Hr.
  rewrite <- H1 in Hr. vm_compute in Hr. discriminate.
Qed.
Print Assumptions malformed_path_accepted.

(* the guard of create_meets_strict_spec_partial is satisfiable: T without its
   enumeration member *)
Definition W_ex2 : wsdl :=
  mkWsdl
    [mkC 10 1 None
         [PC KSeq false [PE (mkE 15 1 true TBuiltin false false false None);
                         PE (mkE 11 1 true (TNamed 1 10) false false false None)]]
         [mkA 18 false (Some 20%N)]]
    [(1%N, 13%N, [14%N])] [] s_urn [(s_t, s_urn)] [(s_urn, 1%N)] (w_names W_ex) [] [].

Example strict_partial_nonvacuous :
  wf_names W_ex2 = true /\ wf_refs W_ex2 = true /\ no_enum_members W_ex2 = true /\
  create W_ex2 (render (mkSp (RPrefixed s_t s_T) [])) =
  ROk (PObj 10 [((15%N, false), PNone);
                ((11%N, false), PObj 10 [((15%N, false), PNone); ((18%N, true), PStr 20)]);
                ((18%N, true), PStr 20)]) /\
  spec_check W_ex2 true (mkSp (RPrefixed s_t s_T) []) (create W_ex2 (render (mkSp (RPrefixed s_t s_T) []))) = true.
Proof. vm_compute. repeat split; reflexivity. Qed.

(* simpleContent, a compound choice, the deep search:
   C = sequence(a, choice(b | sequence(c, d) | all(e)), f);  Money = simpleContent + @cur default;
   Holder = sequence(m : Money);  C is listed in schema.all *)
Definition s_C : str := [67]%N.
Definition s_a : str := [97]%N.
Definition s_cc : str := [99;99]%N.
Definition s_f : str := [102]%N.
Definition s_Money : str := [77]%N.
Definition s_Holder : str := [72]%N.
Definition W_ex3 : wsdl :=
  mkWsdl
    [mkC 30 1 None
         [PC KSeq false [PE (mkE 31 1 true TBuiltin false false false None);
                         PC KChoice false [PE (mkE 32 1 true TBuiltin false false false None);
                                           PC KSeq false [PE (mkE 33 1 true TBuiltin false false false None);
                                                          PE (mkE 34 1 true (TNamed 1 37) false false false None)];
                                           PC KAll false [PE (mkE 35 1 true TBuiltin false false false None)]];
                         PE (mkE 36 1 true TBuiltin false false false None)]] [];
     mkC 37 1 None [] [mkA 38 false (Some 20%N)];
     mkC 39 1 None [PC KSeq false [PE (mkE 40 1 true (TNamed 1 37) false false false None)]] []]
    [] [] s_urn [(s_t, s_urn)] [(s_urn, 1%N)]
    [(s_C, 30%N); (s_a, 31%N); (s_cc, 33%N); (s_f, 36%N); (s_Money, 37%N); (s_Holder, 39%N); (s_value, 4%N)]
    [(1%N, 37%N)] [(1%N, 30%N)].

Example new_constructs_nonvacuous :
  wf_names W_ex3 = true /\ wf_refs W_ex3 = true /\
  (* a simpleContent type: "value", then the attributes *)
  create W_ex3 (render (mkSp (RPlain s_Money) [])) = ROk (PObj 37 [((4%N, false), PNone); ((38%N, true), PStr 20)]) /\
  create W_ex3 (render (mkSp (RPlain s_Holder) [])) =
    ROk (PObj 39 [((40%N, false), PObj 37 [((4%N, false), PNone); ((38%N, true), PStr 20)])]) /\
  (* the compound branches of the choice are not pre-populated *)
  create W_ex3 (render (mkSp (RPlain s_C) [])) = ROk (PObj 30 [((31%N, false), PNone); ((36%N, false), PNone)]) /\
  spec_check W_ex3 true (mkSp (RPlain s_C) []) (create W_ex3 (render (mkSp (RPlain s_C) []))) = true /\
  (* the deep search finds "a" (directly in the first container of C) and not "cc" (nested): no claim either way *)
  create W_ex3 (render (mkSp (RPlain s_a) [])) = ROk (PObj 31 []) /\
  create W_ex3 (render (mkSp (RPlain s_cc) [])) = RTypeNotFound /\
  designate W_ex3 (mkSp (RPlain s_a) []) = [DNoClaim] /\
  designate W_ex3 (mkSp (RPlain s_cc) []) = [DNoClaim].
Proof. vm_compute. repeat split; reflexivity. Qed.

(* the object create() returns for T, filled with texts, as the marshaller sees
   it: the pre-built child carries its type like the object itself *)
Example filled_object_nonvacuous :
  let leaf := fun (_ : edecl) (_ : pv) => VText 7 in
  let u := fill W_ex (fun _ _ => VText 7) (fun _ _ => VText 9)
                (mkC 10 1 None [] []) (PObj 10 []) in
  fill W_ex leaf (fun _ _ => VText 9)
       (match find_type (w_types W_ex) (1, 10) with Some t => t | None => mkC 0 0 None [] [] end)
       (build_root W_ex (match find_named W_ex (1, 10) with Some s => s | None => SAny end)) =
  VObj (Some (1, 10))
       [((15, false), VText 7);
        ((11, false), VObj (Some (1, 10)) [((15, false), VText 7); ((12, false), VText 7); ((18, true), VText 9)]);
        ((12, false), VText 7);
        ((18, true), VText 9)].
Proof. vm_compute. reflexivity. Qed.

(* a typed object nested in a typed object, against the nested dicts *)
Example object_vs_dict_nonvacuous :
  let S := w_types W_ex in
  let d := mkE 11 1 true (TNamed 1 10) false false false None in
  let v := VObj (Some (1, 10)) [((15, false), VText 7);
                                ((11, false), VObj (Some (1, 10)) [((15, false), VText 8)]);
                                ((18, true), VText 9)] in
  exactly_typed S d v = true /\ untype v <> v /\
  exists n, C01.Marshal.marshal_elem S true d false v = MOk [n].
Proof. vm_compute. repeat split; try discriminate. eexists. reflexivity. Qed.

(* a path through a type whose wildcard precedes the named member is captured
   by the wildcard (such schemas violate Unique Particle Attribution): the
   specification makes no claim there *)
Example wildcard_path_outside_claim :
  designate W_ex (mkSp (RPlain s_B) [mkM None false s_after]) = [DNoClaim] /\
  create W_ex (render (mkSp (RPlain s_B) [mkM None false s_after])) = ROk (PObj 0 []).
Proof. vm_compute. split; reflexivity. Qed.
