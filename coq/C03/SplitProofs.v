(* C03 — PathResolver.split / qualify on well-formed spellings: the regex
   model takes a rendered spelling apart into exactly the parts it was
   rendered from, whatever the URI between the braces contains. *)
From Coq Require Import ZifyBool ZifyNat ZifyN.
From SV Require Import Lib.Base Fam.Schema C03.Model C03.Spec.

Definition no_rbrace (t : str) : bool := forallb (fun c => negb (N.eqb c ch_rbrace)) t.
Definition no_dot (t : str) : bool := forallb (fun c => negb (N.eqb c ch_dot)) t.

Definition dot_or_end (t : str) : Prop :=
  match t with [] => True | c :: _ => c = ch_dot end.

Lemma drop_nondot_app n t :
  no_dot n = true -> dot_or_end t -> drop_nondot (n ++ t) = t.
Proof.
  intros Hn Ht. induction n as [|c n IH]; cbn in *.
  - destruct t as [|c t]; auto. cbn in Ht. subst. reflexivity.
  - apply andb_true_iff in Hn as [Hc Hn]. destruct (N.eqb c ch_dot); [discriminate|]. auto.
Qed.

Lemma m_tail_app n t :
  n <> [] -> no_dot n = true -> dot_or_end t -> m_tail (n ++ t) = Some t.
Proof.
  intros Hne Hn Ht. destruct n as [|c n]; [congruence|]. cbn in *.
  apply andb_true_iff in Hn as [Hc Hn]. destruct (N.eqb c ch_dot); [discriminate|].
  rewrite drop_nondot_app; auto.
Qed.

(* a part that does not start with a brace is matched by [^\.]+ alone *)
Lemma m_rest_plain f c n t :
  N.eqb c ch_lbrace = false -> no_dot (c :: n) = true -> dot_or_end t ->
  m_rest (Datatypes.S f) ((c :: n) ++ t) = Some t.
Proof.
  intros Hc Hn Ht. cbn [m_rest app]. rewrite Hc.
  change (c :: n ++ t) with ((c :: n) ++ t). apply m_tail_app; auto. discriminate.
Qed.

Lemma cands_none first t : no_rbrace t = true -> cands_inc first t = [].
Proof.
  revert first. induction t as [|c t IH]; intros first H; cbn in *; auto.
  apply andb_true_iff in H as [Hc H]. destruct (N.eqb c ch_nl); auto.
  destruct (N.eqb c ch_rbrace); [discriminate|]. cbn. apply IH. exact H.
Qed.

Lemma cands_uri u first x :
  forallb uri_char u = true -> (u <> [] \/ first = false) ->
  cands_inc first (u ++ ch_rbrace :: x) = x :: cands_inc false x.
Proof.
  revert first. induction u as [|c u IH]; intros first Hu Hne.
  - destruct Hne as [Hne| ->]; [congruence|]. cbn. reflexivity.
  - cbn in Hu. apply andb_true_iff in Hu as [Hc Hu]. unfold uri_char in Hc.
    rewrite negb_orb in Hc. apply andb_true_iff in Hc as [Hc1 Hc2].
    cbn [app cands_inc]. destruct (N.eqb c ch_nl); [discriminate|].
    destruct (N.eqb c ch_rbrace); [discriminate|]. cbn [andb app].
    apply IH; auto.
Qed.

Lemma name_ok_chars n : name_ok n = true -> n <> [] /\ forallb name_char n = true.
Proof. destruct n; cbn; [discriminate|]. intro H. split; [discriminate|exact H]. Qed.

Lemma name_char_facts c :
  name_char c = true ->
  N.eqb c ch_dot = false /\ N.eqb c ch_colon = false /\ N.eqb c ch_lbrace = false /\
  N.eqb c ch_rbrace = false /\ N.eqb c ch_nl = false /\ N.eqb c ch_at = false.
Proof.
  unfold name_char. rewrite negb_true_iff. rewrite !orb_false_iff. tauto.
Qed.

Lemma name_no_dot n : forallb name_char n = true -> no_dot n = true.
Proof.
  induction n as [|c n IH]; cbn; auto. intro H. apply andb_true_iff in H as [Hc H].
  apply name_char_facts in Hc. destruct Hc as [-> _]. cbn. auto.
Qed.

Lemma name_no_rbrace n : forallb name_char n = true -> no_rbrace n = true.
Proof.
  induction n as [|c n IH]; cbn; auto. intro H. apply andb_true_iff in H as [Hc H].
  apply name_char_facts in Hc. destruct Hc as [_ [_ [_ [-> _]]]]. cbn. auto.
Qed.

Lemma no_rbrace_app a b : no_rbrace (a ++ b) = no_rbrace a && no_rbrace b.
Proof. unfold no_rbrace. apply forallb_app. Qed.

Lemma no_dot_app a b : no_dot (a ++ b) = no_dot a && no_dot b.
Proof. unfold no_dot. apply forallb_app. Qed.

(* ------------------------------------------------------------------ *)
(* one part followed by the rest of a path                             *)
(* ------------------------------------------------------------------ *)
Definition good_part (p : str) : Prop :=
  p <> [] /\
  forall t, no_rbrace t = true -> dot_or_end t -> splitp_match (p ++ t) = Some t.

Lemma good_plain p :
  (match p with c :: _ => N.eqb c ch_lbrace = false | [] => False end) ->
  no_dot p = true -> good_part p.
Proof.
  intros Hh Hd. destruct p as [|c n]; [contradiction|]. split; [discriminate|].
  intros t _ Ht. unfold splitp_match. apply m_rest_plain; auto.
Qed.

Lemma good_name n : name_ok n = true -> good_part n.
Proof.
  intro H. apply name_ok_chars in H as [Hne Hc]. apply good_plain.
  - destruct n as [|c n]; [congruence|]. cbn in Hc. apply andb_true_iff in Hc as [Hc _].
    apply name_char_facts in Hc. tauto.
  - apply name_no_dot. exact Hc.
Qed.

Lemma good_prefixed p n : name_ok p = true -> name_ok n = true -> good_part (p ++ ch_colon :: n).
Proof.
  intros Hp Hn. apply name_ok_chars in Hp as [Hpe Hpc]. apply name_ok_chars in Hn as [Hne Hnc].
  apply good_plain.
  - destruct p as [|c p]; [congruence|]. cbn in Hpc. apply andb_true_iff in Hpc as [Hc _].
    apply name_char_facts in Hc. cbn. tauto.
  - rewrite no_dot_app. rewrite (name_no_dot p Hpc). cbn. apply name_no_dot. exact Hnc.
Qed.

Lemma good_attr n : name_ok n = true -> good_part (ch_at :: n).
Proof.
  intro H. apply name_ok_chars in H as [Hne Hc]. apply good_plain.
  - reflexivity.
  - cbn. apply name_no_dot. exact Hc.
Qed.

Lemma m_rest_brace f r :
  m_rest (Datatypes.S f) (ch_lbrace :: r) =
  match first_some (m_rest f) (rev (cands_inc true r)) with
  | Some z => Some z
  | None => m_tail (ch_lbrace :: r)
  end.
Proof. reflexivity. Qed.

Lemma good_braced u n :
  uri_ok u = true -> name_ok n = true -> good_part (ch_lbrace :: u ++ ch_rbrace :: n).
Proof.
  intros Hu Hn. split; [discriminate|]. intros t Hr Ht.
  apply name_ok_chars in Hn as [Hne Hnc].
  assert (Hue : u <> [] /\ forallb uri_char u = true).
  { destruct u; cbn in Hu; [discriminate|]. split; [discriminate|exact Hu]. }
  destruct Hue as [Hue Huc].
  destruct n as [|c n]; [congruence|].
  unfold splitp_match.
  assert (HL : exists f, length ((ch_lbrace :: u ++ ch_rbrace :: c :: n) ++ t) = Datatypes.S f).
  { cbn [app length]. rewrite !app_length. cbn [length]. eexists. 
    replace (length u + Datatypes.S (Datatypes.S (length n)) + length t)
      with (Datatypes.S (length u + Datatypes.S (length n) + length t)) by lia. reflexivity. }
  destruct HL as [f HL]. rewrite HL. clear HL.
  cbn [app]. rewrite m_rest_brace. rewrite <- app_assoc. cbn [app].
  rewrite cands_uri; auto.
  rewrite cands_none.
  2:{ change (c :: n ++ t) with ((c :: n) ++ t). rewrite no_rbrace_app, (name_no_rbrace _ Hnc). exact Hr. }
  cbn [rev app first_some].
  change (c :: n ++ t) with ((c :: n) ++ t).
  rewrite m_rest_plain; auto.
  - cbn in Hnc. apply andb_true_iff in Hnc as [Hc _]. apply name_char_facts in Hc. tauto.
  - apply name_no_dot. exact Hnc.
Qed.

(* ------------------------------------------------------------------ *)
(* the loop                                                            *)
(* ------------------------------------------------------------------ *)
Fixpoint join_parts (ps : list str) : str :=
  match ps with
  | [] => []
  | p :: r => ch_dot :: p ++ join_parts r
  end.

Lemma firstn_len_app {A} (a b : list A) : firstn (length (a ++ b) - length b) (a ++ b) = a.
Proof.
  rewrite app_length. replace (length a + length b - length b) with (length a) by lia.
  rewrite firstn_app, Nat.sub_diag, firstn_all. cbn. apply app_nil_r.
Qed.

Lemma join_parts_tail ps :
  Forall (fun p => no_rbrace p = true) ps -> no_rbrace (join_parts ps) = true /\ dot_or_end (join_parts ps).
Proof.
  intro H. split.
  - induction H as [|p r Hp Hr IH]; cbn; auto. rewrite no_rbrace_app, Hp, IH. reflexivity.
  - destruct ps; cbn; auto.
Qed.

Lemma split_loop_parts ps :
  Forall good_part ps -> Forall (fun p => no_rbrace p = true) ps ->
  forall fuel p, good_part p -> length ps < fuel ->
  split_loop fuel (p ++ join_parts ps) = p :: ps.
Proof.
  intros Hg Hr. induction Hg as [|q r Hq Hgr IH]; intros fuel p Hp Hf.
  - destruct fuel as [|f]; [cbn in Hf; lia|]. cbn [join_parts split_loop].
    destruct Hp as [Hne Hp]. rewrite (Hp [] eq_refl I).
    rewrite app_nil_r. cbn. rewrite Nat.sub_0_r, firstn_all. reflexivity.
  - destruct fuel as [|f]; [cbn in Hf; lia|]. inversion Hr as [|? ? Hq' Hr']; subst.
    cbn [split_loop]. destruct (join_parts_tail (q :: r) Hr) as [Ht1 Ht2].
    destruct Hp as [Hne Hp]. rewrite (Hp _ Ht1 Ht2).
    rewrite firstn_len_app. cbn [join_parts]. f_equal.
    apply IH; auto. cbn in Hf. lia.
Qed.

Definition part_of_member (m : member) : str := render_member m.

Lemma member_good m : member_ok m = true -> good_part (render_member m) /\ no_rbrace (render_member m) = true.
Proof.
  unfold member_ok, render_member. destruct (m_prefix m); [discriminate|]. intro H. cbn [app].
  pose proof (name_ok_chars _ H) as [Hne Hc].
  destruct (m_attr m); cbn [app].
  - split; [apply good_attr; exact H|]. cbn. apply name_no_rbrace. exact Hc.
  - split; [apply good_name; exact H|]. apply name_no_rbrace. exact Hc.
Qed.

Lemma render_join sp :
  render sp = render_root (sp_root sp) ++ join_parts (map render_member (sp_members sp)).
Proof.
  unfold render. f_equal. induction (sp_members sp) as [|m r IH]; cbn; auto.
  rewrite IH. reflexivity.
Qed.

Lemma root_good r : root_ok r = true -> good_part (render_root r).
Proof.
  destruct r as [n|p n|u n]; cbn; intro H.
  - apply good_name. exact H.
  - apply andb_true_iff in H as [Hp Hn]. apply good_prefixed; auto.
  - apply andb_true_iff in H as [Hu Hn]. apply good_braced; auto.
Qed.

Lemma split_wellformed_l sp :
  wf_spelling sp = true ->
  split (render sp) = render_root (sp_root sp) :: map render_member (sp_members sp).
Proof.
  unfold wf_spelling. intro H. apply andb_true_iff in H as [H _]. apply andb_true_iff in H as [Hr Hm].
  rewrite render_join. unfold split.
  rewrite forallb_forall in Hm.
  apply split_loop_parts.
  - apply Forall_forall. intros p Hp. apply in_map_iff in Hp as [m [<- Hm']].
    apply member_good. apply Hm. exact Hm'.
  - apply Forall_forall. intros p Hp. apply in_map_iff in Hp as [m [<- Hm']].
    apply member_good. apply Hm. exact Hm'.
  - apply root_good. exact Hr.
  - rewrite app_length.
    assert (length (map render_member (sp_members sp)) <= length (join_parts (map render_member (sp_members sp)))).
    { induction (map render_member (sp_members sp)) as [|p r IH]; cbn; auto.
      rewrite app_length. lia. }
    lia.
Qed.

(* ------------------------------------------------------------------ *)
(* qualify                                                             *)
(* ------------------------------------------------------------------ *)
Lemma split_colon_none n : forallb name_char n = true -> split_colon n = None.
Proof.
  induction n as [|c n IH]; cbn; auto. intro H. apply andb_true_iff in H as [Hc H].
  apply name_char_facts in Hc. destruct Hc as [_ [-> _]]. rewrite IH; auto.
Qed.

Lemma split_colon_prefixed p n :
  forallb name_char p = true -> split_colon (p ++ ch_colon :: n) = Some (p, n).
Proof.
  induction p as [|c p IH]; cbn; auto. intro H. apply andb_true_iff in H as [Hc H].
  apply name_char_facts in Hc. destruct Hc as [_ [-> _]]. rewrite IH; auto.
Qed.

Lemma altp_not_braced s :
  (match s with c :: _ => N.eqb c ch_lbrace = false | [] => True end) -> altp s = None.
Proof. destruct s as [|c s]; cbn; auto. intros ->. reflexivity. Qed.

Lemma take_line_name n : forallb name_char n = true -> take_line n = n.
Proof.
  induction n as [|c n IH]; cbn; auto. intro H. apply andb_true_iff in H as [Hc H].
  apply name_char_facts in Hc. destruct Hc as [_ [_ [_ [_ [-> _]]]]]. rewrite IH; auto.
Qed.

Lemma altp_braced u n :
  uri_ok u = true -> name_ok n = true -> altp (ch_lbrace :: u ++ ch_rbrace :: n) = Some (u, n).
Proof.
  intros Hu Hn. apply name_ok_chars in Hn as [Hne Hnc].
  assert (Hue : u <> [] /\ forallb uri_char u = true).
  { destruct u; cbn in Hu; [discriminate|]. split; [discriminate|exact Hu]. }
  destruct Hue as [Hue Huc].
  cbn [altp]. replace (N.eqb ch_lbrace ch_lbrace) with true by reflexivity.
  rewrite cands_uri; auto. rewrite cands_none by (apply name_no_rbrace; exact Hnc).
  cbn [rev app first_some]. destruct n as [|c n]; [congruence|].
  pose proof Hnc as Hnc'. cbn in Hnc'. apply andb_true_iff in Hnc' as [Hc _].
  apply name_char_facts in Hc. destruct Hc as [_ [_ [_ [_ [Hnl _]]]]]. rewrite Hnl.
  rewrite take_line_name by exact Hnc. f_equal. f_equal.
  rewrite app_length. cbn [length].
  replace (length u + Datatypes.S (Datatypes.S (length n)) - Datatypes.S (length n) - 1) with (length u) by lia.
  rewrite firstn_app, Nat.sub_diag, firstn_all. cbn. apply app_nil_r.
Qed.

(* what each root form means, computed by the model from the text *)
Lemma qualify_root_l W r :
  root_ok r = true ->
  qualify W (render_root r) =
  match root_uri W r with
  | Some u => QOk (root_name r) u
  | None => QErr
  end.
Proof.
  destruct r as [n|p n|u n]; cbn [root_ok render_root root_uri root_name]; intro H.
  - apply name_ok_chars in H as [Hne Hc]. unfold qualify.
    rewrite altp_not_braced.
    2:{ destruct n as [|c n]; auto. cbn in Hc. apply andb_true_iff in Hc as [Hc _].
        apply name_char_facts in Hc. tauto. }
    rewrite split_colon_none by exact Hc. reflexivity.
  - apply andb_true_iff in H as [Hp Hn]. apply name_ok_chars in Hp as [Hpe Hpc]. unfold qualify.
    rewrite altp_not_braced.
    2:{ destruct p as [|c p]; [congruence|]. cbn in Hpc. apply andb_true_iff in Hpc as [Hc _].
        apply name_char_facts in Hc. cbn. tauto. }
    rewrite split_colon_prefixed by exact Hpc. destruct (resolve_prefix W p); reflexivity.
  - apply andb_true_iff in H as [Hu Hn]. unfold qualify. rewrite altp_braced; auto.
Qed.

(* later parts: the local name, '@' marking an attribute *)
Lemma local_part_member m :
  member_ok m = true ->
  local_part (render_member m) = (if m_attr m then [ch_at] else []) ++ m_name m.
Proof.
  unfold member_ok, render_member. destruct (m_prefix m); [discriminate|]. intro H. cbn [app].
  apply name_ok_chars in H as [Hne Hc]. unfold local_part.
  destruct (m_attr m); cbn [app split_colon].
  - replace (N.eqb ch_at ch_colon) with false by reflexivity. rewrite split_colon_none; auto.
  - rewrite split_colon_none; auto.
Qed.

(* ------------------------------------------------------------------ *)
(* the fuel of the regex model never runs out                          *)
(* ------------------------------------------------------------------ *)
Lemma cands_shorter first r y : In y (cands_inc first r) -> length y < length r.
Proof.
  revert first. induction r as [|c r IH]; intros first H; cbn in H; [contradiction|].
  destruct (N.eqb c ch_nl); [contradiction|].
  apply in_app_or in H as [H|H].
  - destruct (N.eqb c ch_rbrace && negb first); [|contradiction].
    destruct H as [<-|[]]. cbn. lia.
  - specialize (IH _ H). cbn. lia.
Qed.

Lemma first_some_ext {A B} (f g : A -> option B) l :
  (forall x, In x l -> f x = g x) -> first_some f l = first_some g l.
Proof.
  induction l as [|a l IH]; intro H; [reflexivity|]. cbn.
  rewrite (H a (or_introl eq_refl)). destruct (g a); auto. apply IH. intros x Hx. apply H. right. exact Hx.
Qed.

Lemma m_rest_fuel : forall f l, length l < f -> m_rest f l = m_rest (Datatypes.S f) l.
Proof.
  induction f as [|f IH]; intros l H; [lia|].
  destruct l as [|c r]; [reflexivity|].
  change (m_rest (Datatypes.S f) (c :: r)) with
    (if N.eqb c ch_lbrace then
       match first_some (m_rest f) (rev (cands_inc true r)) with Some z => Some z | None => m_tail (c :: r) end
     else m_tail (c :: r)).
  change (m_rest (Datatypes.S (Datatypes.S f)) (c :: r)) with
    (if N.eqb c ch_lbrace then
       match first_some (m_rest (Datatypes.S f)) (rev (cands_inc true r)) with Some z => Some z | None => m_tail (c :: r) end
     else m_tail (c :: r)).
  destruct (N.eqb c ch_lbrace); [|reflexivity].
  rewrite (first_some_ext (m_rest f) (m_rest (Datatypes.S f))); [reflexivity|].
  intros y Hy. apply IH. apply in_rev in Hy. apply cands_shorter in Hy. cbn in H. lia.
Qed.

Lemma m_rest_fuel_ge l : forall extra,
  m_rest (Datatypes.S (length l) + extra) l = m_rest (Datatypes.S (length l)) l.
Proof.
  induction extra as [|e IH]; [rewrite Nat.add_0_r; reflexivity|].
  rewrite Nat.add_succ_r. rewrite <- m_rest_fuel by lia. exact IH.
Qed.

(* a match always consumes at least one character *)
Lemma drop_nondot_len r : length (drop_nondot r) <= length r.
Proof. induction r as [|c r IH]; cbn; auto. destruct (N.eqb c ch_dot); cbn; lia. Qed.

Lemma m_tail_shorter l rest : m_tail l = Some rest -> length rest < length l.
Proof.
  destruct l as [|c r]; cbn; [discriminate|]. destruct (N.eqb c ch_dot); [discriminate|].
  intro H. inversion H. pose proof (drop_nondot_len r). lia.
Qed.

Lemma first_some_in {A B} (f : A -> option B) l b :
  first_some f l = Some b -> exists a, In a l /\ f a = Some b.
Proof.
  induction l as [|a l IH]; cbn; [discriminate|]. destruct (f a) eqn:E.
  - intro H. inversion H; subst. exists a. auto.
  - intro H. destruct (IH H) as [a' [Ha Hf]]. exists a'. auto.
Qed.

Lemma m_rest_shorter : forall f l rest, m_rest f l = Some rest -> length rest < length l.
Proof.
  induction f as [|f IH]; intros l rest H; [discriminate|].
  destruct l as [|c r]; [discriminate|].
  change (m_rest (Datatypes.S f) (c :: r)) with
    (if N.eqb c ch_lbrace then
       match first_some (m_rest f) (rev (cands_inc true r)) with Some z => Some z | None => m_tail (c :: r) end
     else m_tail (c :: r)) in H.
  destruct (N.eqb c ch_lbrace); [|apply m_tail_shorter; exact H].
  destruct (first_some (m_rest f) (rev (cands_inc true r))) as [z|] eqn:E; [|apply m_tail_shorter; exact H].
  inversion H; subst. apply first_some_in in E as [y [Hy Hz]].
  apply in_rev in Hy. apply cands_shorter in Hy. specialize (IH _ _ Hz). cbn. lia.
Qed.

Lemma split_loop_fuel : forall f l, length l < f -> split_loop f l = split_loop (Datatypes.S f) l.
Proof.
  induction f as [|f IH]; intros l H; [lia|].
  change (split_loop (Datatypes.S f) l) with
    (match splitp_match l with
     | None => []
     | Some rest => firstn (length l - length rest) l ::
                    match rest with [] => [] | _ :: rest' => split_loop f rest' end
     end).
  change (split_loop (Datatypes.S (Datatypes.S f)) l) with
    (match splitp_match l with
     | None => []
     | Some rest => firstn (length l - length rest) l ::
                    match rest with [] => [] | _ :: rest' => split_loop (Datatypes.S f) rest' end
     end).
  destruct (splitp_match l) as [rest|] eqn:E; [|reflexivity].
  f_equal. destruct rest as [|c rest']; [reflexivity|].
  apply IH. unfold splitp_match in E. apply m_rest_shorter in E. cbn in E. lia.
Qed.

(* more fuel than the length of the string changes nothing *)
Lemma split_fuel_sufficient_l s extra :
  split_loop (Datatypes.S (length s) + extra) s = split s.
Proof.
  unfold split. induction extra as [|e IH]; [rewrite Nat.add_0_r; reflexivity|].
  rewrite Nat.add_succ_r. rewrite <- split_loop_fuel by lia. exact IH.
Qed.
