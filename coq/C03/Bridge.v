(* C03 — the bridge between the two models: the object the factory model of
   C03 builds (a [pv]), once filled, as a value of the marshaller model of C01.

   [fill] turns the object returned by create() into what is passed to a
   service method: every member the factory left as None / [] / a Property is
   replaced by what the caller puts there (any C01 value: text, None, a list, a
   further factory object ...), every pre-built child object is kept and filled
   recursively.  A factory object carries the type it was built from
   (metadata.sxtype = the resolved type of the member, whose name is the class
   name the C03 model records): fill marks an object with that type exactly
   when its class is the name of the type the member declares.

   filled_object_vs_dict: for the object create() returns for ANY type of ANY
   interface, filled in ANY such way, the marshaller model of C01 builds the
   same request from the object and from the equivalent dict (the same value
   with every type mark erased). *)
From SV Require Import Lib.Base Fam.Schema C03.Model C03.Spec C03.BuildProofs C03.SplitProofs C03.PathProofs.
From SV Require C01.Marshal C01.Guard C01.MarshalProofs.
From SV Require Import C03.Link.

Module M := SV.C01.Marshal.

(* ------------------------------------------------------------------ *)
(* the two flattenings find the same declaration for a member name     *)
(* ------------------------------------------------------------------ *)
Inductive same_items : list M.fchild -> list fitem -> Prop :=
| si_nil : same_items [] []
| si_attr l1 l2 a : same_items l1 l2 -> same_items l1 (FA a :: l2)
| si_elem l1 l2 d anc ch o i ch' op' : same_items l1 l2 -> same_items (M.FE d anc ch :: l1) (FE o i d ch' op' :: l2)
| si_wild l1 l2 anc : same_items l1 l2 -> same_items (M.FAny anc :: l1) (FW :: l2).

Lemma same_items_app a1 a2 b1 b2 :
  same_items a1 a2 -> same_items b1 b2 -> same_items (a1 ++ b1) (a2 ++ b2).
Proof. intros Ha Hb. induction Ha; cbn; auto; constructor; auto. Qed.

Lemma number_app q i a b : number q i (a ++ b) = number q i a ++ number q (i + length a) b.
Proof.
  revert i. induction a as [|[[[d ch] op]|] a IH]; intro i; cbn.
  - rewrite Nat.add_0_r. reflexivity.
  - rewrite IH. do 3 f_equal. lia.
  - rewrite IH. do 3 f_equal. lia.
Qed.

Lemma same_items_flat_p q p : forall anc ch i,
  same_items (M.flat_p anc ch p) (number q i (flat_p ch anc p)).
Proof.
  induction p as [d| |k o kids IH] using particle_ind2; intros anc ch i.
  - cbn. repeat constructor.
  - cbn. repeat constructor.
  - cbn [M.flat_p flat_p]. revert i. induction IH as [|p l Hp Hl IHl]; intro i.
    + constructor.
    + rewrite number_app. apply same_items_app; auto.
Qed.

Lemma same_items_content q ps : forall i,
  same_items (M.flat_content ps) (number q i (flat_content ps)).
Proof.
  unfold M.flat_content, flat_content. induction ps as [|p ps IH]; intro i; cbn.
  - constructor.
  - rewrite number_app. apply same_items_app; auto. apply same_items_flat_p.
Qed.

Lemma same_items_attrs l : same_items [] (map FA l).
Proof. induction l; cbn; constructor; auto. Qed.

Lemma chain_same S n t : M.chain S n t = chain S n t.
Proof. reflexivity. Qed.

Lemma same_items_type W t : same_items (M.flat_elems (w_types W) t) (all_items W t).
Proof.
  unfold M.flat_elems, all_items, M.chain_of. rewrite chain_same.
  induction (chain (w_types W) (length (w_types W)) t) as [|c cs IH]; cbn.
  - constructor.
  - apply same_items_app; auto. unfold own_items.
    rewrite <- (app_nil_r (M.flat_content (c_content c))).
    apply same_items_app; [apply same_items_content|apply same_items_attrs].
Qed.

Lemma same_items_child n l1 l2 :
  same_items l1 l2 ->
  match M.get_child n l1 with
  | Some (M.FE d _ _) => exists o i ch op, get_child_item (Some n) l2 = Some (FE o i d ch op)
  | _ => True
  end.
Proof.
  intro H. induction H; cbn; auto.
  destruct (N.eqb (e_name d) n); [eauto|exact IHsame_items].
Qed.

(* ------------------------------------------------------------------ *)
(* filling a factory object                                            *)
(* ------------------------------------------------------------------ *)
Section Fill.
Variable W : wsdl.
(* what the caller puts where the factory left None, [] or a Property, and in an attribute *)
Variable leaf : edecl -> pv -> value.
Variable leaf_attr : name -> pv -> value.

Fixpoint fill (t : ctype) (o : pv) {struct o} : value :=
  match o with
  | PObj cls items =>
      VObj (if N.eqb cls (c_name t) then Some (qn_of t) else None)
           (map (fun kx : key * pv =>
                   match kx with
                   | ((n, true), x) => (n, true, leaf_attr n x)
                   | ((n, false), x) =>
                       (n, false,
                        match get_child_item (Some n) (all_items W t) with
                        | Some (FE _ _ d _ _) =>
                            match x, resolve_type W (e_type d) with
                            | PObj _ (_ :: _), RC t' => if is_mixed W t' then leaf d x else fill t' x
                            | _, _ => leaf d x
                            end
                        | _ => VNone
                        end)
                   end) items)
  | _ => VNone
  end.
End Fill.

Section PvInd.
Variable P : pv -> Prop.
Hypothesis HN : P PNone.
Hypothesis HS : forall s, P (PStr s).
Hypothesis HL : P PList.
Hypothesis HO : forall cls items, Forall (fun kx : key * pv => P (snd kx)) items -> P (PObj cls items).
Fixpoint pv_ind2 (v : pv) : P v :=
  match v with
  | PNone => HN
  | PStr s => HS s
  | PList => HL
  | PObj cls items =>
      HO cls items ((fix go (l : keylist) : Forall (fun kx : key * pv => P (snd kx)) l :=
                       match l with
                       | [] => Forall_nil _
                       | kx :: l' =>
                           Forall_cons kx (match kx as k0 return P (snd k0) with (k, x) => pv_ind2 x end) (go l')
                       end) items)
  end.
End PvInd.

Lemma resolve_type_RC W ty t' :
  resolve_type W ty = RC t' ->
  ty = TNamed (c_ns t') (c_name t') /\ find_type (w_types W) (qn_of t') = Some t'.
Proof.
  unfold resolve_type. destruct ty as [|ns n]; [discriminate|].
  destruct (find_named W (ns, n)) as [[t|sns sn vals|v|en|a| |bn]|] eqn:E; try discriminate.
  intro H. inversion H; subst t'. clear H.
  pose proof (find_named_qn W _ _ E) as Hq. unfold qn_of in Hq. inversion Hq; subst.
  split; [reflexivity|]. unfold find_named in E.
  destruct (find_type (w_types W) (c_ns t, c_name t)) as [t2|] eqn:Ef.
  - inversion E; subst. exact Ef.
  - destruct (find_simple W (c_ns t, c_name t)) as [[[a b] c]|]; discriminate.
Qed.

Lemma qn_eqb_refl_l q : qn_eqb q q = true.
Proof. apply qn_eqb_eq_l. reflexivity. Qed.

(* every type mark [fill] writes is the declared type of the member the object sits in *)
Lemma fill_exactly_typed W leaf leaf_attr :
  (forall d x, exactly_typed (w_types W) d (leaf d x) = true) ->
  forall o t d,
    find_type (w_types W) (qn_of t) = Some t ->
    e_type d = TNamed (c_ns t) (c_name t) ->
    exactly_typed (w_types W) d (fill W leaf leaf_attr t o) = true.
Proof.
  intros Hleaf o. induction o as [|s| |cls items IH] using pv_ind2; intros t d Ht Hd; try reflexivity.
  cbn [fill]. rewrite exactly_typed_obj. apply andb_true_iff. split.
  - destruct (N.eqb cls (c_name t)); [|reflexivity]. rewrite Hd. apply qn_eqb_refl_l.
  - unfold M.declared_type. rewrite Hd. unfold qn_of in Ht. rewrite Ht.
    induction IH as [|[[n b] x] l Hx Hl IHl]; [reflexivity|].
    cbn [map each_typed]. destruct b; [exact IHl|]. cbn [each_typed]. rewrite IHl, andb_true_r.
    pose proof (same_items_child n _ _ (same_items_type W t)) as Hc.
    destruct (M.get_child n (M.flat_elems (w_types W) t)) as [[d' anc ch|anc]|]; try reflexivity.
    destruct Hc as [o [i [ch' [op Hc]]]]. rewrite Hc.
    destruct x as [|s| |c2 its2]; try apply Hleaf.
    destruct its2 as [|it2 its2]; [apply Hleaf|].
    destruct (resolve_type W (e_type d')) as [|t'|sn vals] eqn:Er; try apply Hleaf.
    destruct (is_mixed W t'); [apply Hleaf|].
    destruct (resolve_type_RC W _ _ Er) as [Hty Hft]. cbn [snd] in Hx. apply Hx; assumption.
Qed.

(* the class of every object Builder.process pre-builds is the name of the
   resolved type of its member (metadata.sxtype): the marks [fill] writes are
   the ones the Builder sets *)
Lemma prebuilt_member_class W rec hist it k cls items :
  member_value W rec hist it = Some (k, PObj cls items) ->
  exists o i d ch op,
    it = FE o i d ch op /\
    ((exists t', resolve_type W (e_type d) = RC t' /\ cls = c_name t') \/
     (exists n vals, resolve_type W (e_type d) = RS n vals /\ cls = n)).
Proof.
  unfold member_value. destruct it as [o i d ch op| |a]; try discriminate.
  destruct ch; [discriminate|]. destruct (hid_in (o, i, d) hist); [discriminate|].
  destruct (e_multi d); [discriminate|].
  destruct (resolve_type W (e_type d)) as [|t|n vals] eqn:Er; [discriminate| |].
  - destruct (all_items W t); [discriminate|]. destruct (e_opt d); [discriminate|].
    intro H. inversion H; subst. exists o, i, d, false, op. split; auto. left. eauto.
  - destruct vals; [discriminate|]. destruct (e_opt d); [discriminate|].
    intro H. inversion H; subst. exists o, i, d, false, op. split; auto. right. eauto.
Qed.

Theorem filled_object_vs_dict_l : forall W leaf leaf_attr t d xstq anc,
  find_type (w_types W) (qn_of t) = Some t ->
  e_type d = TNamed (c_ns t) (c_name t) ->
  (forall d' x, exactly_typed (w_types W) d' (leaf d' x) = true) ->
  let o := build_root W (SComplex t) in                 (* what factory.create returns for the type *)
  let u := fill W leaf leaf_attr t o in                 (* ... once filled *)
  (exists fs, u = VObj (Some (qn_of t)) fs) /\          (* an object that carries its type *)
  M.marshal_elem (w_types W) xstq d anc (untype u) = M.marshal_elem (w_types W) xstq d anc u.
Proof.
  intros W leaf leaf_attr t d xstq anc Ht Hd Hleaf o u. split.
  - unfold u, o. cbn [build_root fill]. rewrite N.eqb_refl. eexists. reflexivity.
  - apply object_vs_dict_request_l. apply fill_exactly_typed; assumption.
Qed.
