(* C03 — model of suds.client.Factory.create: resolver.PathResolver
   (split / qualify / root / branch / leaf / find), xsd.query.BlindQuery (global
   look-up: built-ins, elements, then types), TypedContent.resolve,
   sxbase.Iter (flattened content incl. Extension.merge order),
   builder.Builder (build / process / add_attributes / skip_child / skip_value /
   ordering) and sudsobject.Object.__setattr__ / sudsobject.Iter, over the
   abstract interface of Fam/Schema.v.  Names in a path are real strings
   (code points); the schema's own names are interned and tied to their text by
   the tables of the [wsdl] record.  Definitions only.

   An element with an inline (anonymous) complexType is an element whose type
   lives in a namespace id that has no URI in [w_uris] (so no spelling can name
   it) and is called like the element (the class name suds gives the object).

   An <element ref=".."/> member is a member with the name, namespace and type
   of the global element; a named group reference stands for its content; a
   simpleContent type is a type listed in [w_mixed] (its object is a Property:
   "value", then the attributes); ElementQuery's deep search is [deep_find].

   Not modelled (never generated, see harness/c03.py): the deep search through
   a named group definition, simpleContent over a user type, a path separator
   other than '.', dangling type references (treated like built-ins). *)
From SV Require Import Lib.Base Fam.Schema Gen.C03Tables.

(* ------------------------------------------------------------------ *)
(* the interface a client was built from                               *)
(* ------------------------------------------------------------------ *)
Record wsdl := mkWsdl {
  w_types : schema;                             (* complex types *)
  w_simple : list (nsid * name * list name);    (* simple types by restriction: enumeration values ([] = none) *)
  w_elems : list (nsid * name * tref);          (* global elements *)
  w_tns : str;                                  (* targetNamespace of wsdl:definitions *)
  w_prefixes : list (str * str);                (* xmlns:p="uri" declarations of the wsdl root *)
  w_uris : list (str * nsid);                   (* text of every namespace id *)
  w_names : list (str * name);                  (* text of every interned name *)
  w_mixed : list qn;                            (* complex types with simpleContent (extension of a built-in) *)
  w_all : list qn                               (* the named types in schema.all: merged in from the schema blocks
                                                   after the first, in merge order (read from the loaded client) *)
}.

Definition ch_lbrace : N := 123.
Definition ch_rbrace : N := 125.
Definition ch_nl : N := 10.
Definition ch_at : N := 64.

(* the text "value" (key of sudsobject.Property), interned 4th by the harness *)
Definition n_value : name := 4%N.

Fixpoint assoc_str {A} (k : str) (l : list (str * A)) : option A :=
  match l with
  | [] => None
  | (k', v) :: l' => if str_eqb k k' then Some v else assoc_str k l'
  end.

Definition lookup_name (W : wsdl) (s : str) : option name := assoc_str s (w_names W).
Definition lookup_uri (W : wsdl) (s : str) : option nsid := assoc_str s (w_uris W).

(* ------------------------------------------------------------------ *)
(* PathResolver.split: the regex ({.+})*[^\.]+ matched repeatedly       *)
(* ------------------------------------------------------------------ *)
(* [^\.]+ : the rest after the longest run of non-dots *)
Fixpoint drop_nondot (l : str) : str :=
  match l with
  | [] => []
  | c :: r => if N.eqb c ch_dot then l else drop_nondot r
  end.

Definition m_tail (l : str) : option str :=
  match l with
  | [] => None
  | c :: r => if N.eqb c ch_dot then None else Some (drop_nondot r)
  end.

(* after an opening brace: every y with r = x ++ "}" ++ y, x non-empty and
   free of newlines ('.' does not match a newline), shortest x first *)
Fixpoint cands_inc (first : bool) (r : str) : list str :=
  match r with
  | [] => []
  | c :: r' =>
      if N.eqb c ch_nl then []
      else (if N.eqb c ch_rbrace && negb first then [r'] else []) ++ cands_inc false r'
  end.

Fixpoint first_some {A B} (f : A -> option B) (l : list A) : option B :=
  match l with
  | [] => None
  | a :: l' => match f a with Some b => Some b | None => first_some f l' end
  end.

(* ({.+})*[^\.]+ anchored at the head of l: the text left after the match.
   Backtracking order of the regex engine: a group iteration with the longest
   .+ first, then shorter ones, then no (further) iteration. *)
Fixpoint m_rest (fuel : nat) (l : str) : option str :=
  match fuel with
  | O => None
  | Datatypes.S f =>
      match l with
      | [] => None
      | c :: r =>
          if N.eqb c ch_lbrace then
            match first_some (m_rest f) (rev (cands_inc true r)) with
            | Some z => Some z
            | None => m_tail l
            end
          else m_tail l
      end
  end.

Definition splitp_match (l : str) : option str := m_rest (Datatypes.S (length l)) l.

(* the loop of split: b = e + 1 skips one character after every match *)
Fixpoint split_loop (fuel : nat) (l : str) : list str :=
  match fuel with
  | O => []
  | Datatypes.S f =>
      match splitp_match l with
      | None => []
      | Some rest =>
          firstn (length l - length rest) l ::
          match rest with
          | [] => []
          | _ :: rest' => split_loop f rest'
          end
      end
  end.

Definition split (s : str) : list str := split_loop (Datatypes.S (length s)) s.

(* ------------------------------------------------------------------ *)
(* PathResolver.qualify                                                 *)
(* ------------------------------------------------------------------ *)
Fixpoint take_line (l : str) : str :=
  match l with
  | [] => []
  | c :: r => if N.eqb c ch_nl then [] else c :: take_line r
  end.

(* altp = ({)(.+)(})(.+) matched at the start: (group 2, group 4) *)
Definition altp (s : str) : option (str * str) :=
  match s with
  | c :: r =>
      if N.eqb c ch_lbrace then
        first_some (fun y => match y with
                             | d :: _ => if N.eqb d ch_nl then None
                                         else Some (firstn (length r - length y - 1) r, take_line y)
                             | [] => None
                             end) (rev (cands_inc true r))
      else None
  | [] => None
  end.

(* sax.splitPrefix: at the first colon *)
Fixpoint split_colon (l : str) : option (str * str) :=
  match l with
  | [] => None
  | c :: r =>
      if N.eqb c ch_colon then Some ([], r)
      else match split_colon r with
           | Some (p, n) => Some (c :: p, n)
           | None => None
           end
  end.

Definition local_part (l : str) : str :=
  match split_colon l with Some (_, n) => n | None => l end.

Definition xml_prefix : str := [120; 109; 108]%N.
Definition xml_uri : str :=
  [104;116;116;112;58;47;47;119;119;119;46;119;51;46;111;114;103;47;88;77;76;47;49;57;57;56;47;110;97;109;101;115;112;97;99;101]%N.

(* Element.resolvePrefix on the wsdl root *)
Definition resolve_prefix (W : wsdl) (p : str) : option str :=
  match assoc_str p (w_prefixes W) with
  | Some u => Some u
  | None => if str_eqb p xml_prefix then Some xml_uri else None
  end.

Inductive qres := QOk (n u : str) | QErr.

Definition qualify (W : wsdl) (part : str) : qres :=
  match altp part with
  | Some (u, n) => QOk n u
  | None =>
      match split_colon part with
      | Some (p, n) =>
          match resolve_prefix W p with
          | Some u => QOk n u
          | None => QErr                 (* Exception('prefix (p) not resolved') *)
          end
      | None => QOk part (w_tns W)
      end
  end.

(* ------------------------------------------------------------------ *)
(* flattened content (sxbase.Iter after Extension.merge)                *)
(* ------------------------------------------------------------------ *)
Definition qn_of (t : ctype) : qn := (c_ns t, c_name t).

(* (declaration, under a choice, under an optional container) or a wildcard *)
Fixpoint flat_p (ch opt : bool) (p : particle) : list (option (edecl * bool * bool)) :=
  match p with
  | PE d => [Some (d, ch, opt)]
  | PAny => [None]
  | PC k o kids =>
      (fix go (l : list particle) : list (option (edecl * bool * bool)) :=
         match l with
         | [] => []
         | q :: l' => flat_p (ch || match k with KChoice => true | _ => false end) (opt || o) q ++ go l'
         end) kids
  end.

Definition flat_content (ps : list particle) : list (option (edecl * bool * bool)) :=
  flat_map (flat_p false false) ps.

Inductive fitem :=
| FE (owner : qn) (idx : nat) (d : edecl) (in_choice anc_opt : bool)
| FW
| FA (a : adecl).

Fixpoint number (owner : qn) (i : nat) (l : list (option (edecl * bool * bool))) : list fitem :=
  match l with
  | [] => []
  | Some (d, ch, opt) :: l' => FE owner i d ch opt :: number owner (Datatypes.S i) l'
  | None :: l' => FW :: number owner (Datatypes.S i) l'
  end.

(* one complexType: its content, then its attributes (document order of the family) *)
Definition own_items (t : ctype) : list fitem :=
  number (qn_of t) 0 (flat_content (c_content t)) ++ map FA (c_attrs t).

(* base chain, most basic first (Extension.merge prepends the base's children) *)
Fixpoint chain (S : schema) (fuel : nat) (t : ctype) : list ctype :=
  match fuel with
  | O => [t]
  | Datatypes.S f =>
      match c_base t with
      | Some b => match find_type S b with
                  | Some bt => chain S f bt ++ [t]
                  | None => [t]
                  end
      | None => [t]
      end
  end.

Definition all_items (W : wsdl) (t : ctype) : list fitem :=
  flat_map own_items (chain (w_types W) (length (w_types W)) t).

(* ------------------------------------------------------------------ *)
(* schema objects a look-up can yield                                  *)
(* ------------------------------------------------------------------ *)
Inductive sobj :=
| SComplex (t : ctype)
| SSimple (ns : nsid) (n : name) (vals : list name)
| SEnumVal (v : name)
| SElem (n : name)              (* an element of built-in type: resolves to itself *)
| SAttr (a : adecl)
| SAny
| SBuiltin (n : str).

Definition find_simple (W : wsdl) (q : qn) : option (nsid * name * list name) :=
  find (fun s => qn_eqb (fst (fst s), snd (fst s)) q) (w_simple W).

(* schema.types: complex and simple types share one dictionary *)
Definition find_named (W : wsdl) (q : qn) : option sobj :=
  match find_type (w_types W) q with
  | Some t => Some (SComplex t)
  | None => match find_simple W q with
            | Some (ns, n, vals) => Some (SSimple ns n vals)
            | None => None
            end
  end.

(* TypedContent.resolve(nobuiltin=True) of an element with the given type
   reference; None = TypeNotFound raised by the TypeQuery *)
Definition resolve_elem (W : wsdl) (n : name) (ty : tref) : option sobj :=
  match ty with
  | TBuiltin => Some (SElem n)
  | TNamed ns tn => find_named W (ns, tn)
  end.

Definition w3_prefix : str := [104;116;116;112;58;47;47;119;119;119;46;119;51;46;111;114;103]%N.

Fixpoint starts_with (p s : str) : bool :=
  match p, s with
  | [], _ => true
  | x :: p', y :: s' => N.eqb x y && starts_with p' s'
  | _ :: _, [] => false
  end.

Definition is_builtin_ref (n u : str) : bool :=
  existsb (str_eqb n) builtin_tags && starts_with w3_prefix u.

Definition find_gelem (W : wsdl) (q : qn) : option (nsid * name * tref) :=
  find (fun e => qn_eqb (fst (fst e), snd (fst e)) q) (w_elems W).

(* ElementQuery.__deepsearch (the last resort of BlindQuery): SchemaObject.find
   walks each object of schema.all depth-first with a set of qnames already
   seen.  Every unnamed node (sequence, choice, all, any, complexContent,
   extension ...) has the qname (None, tns), so only the FIRST unnamed node
   under a type is entered: the elements directly in the first top-level
   container of a type that is no extension are found, nothing below. *)
(* a local declaration has the qname (name, tns of its schema block); an
   <element ref=".."/> keeps the qname (None, tns) it was built with and is
   never matched: it is recognised here by its name living in another namespace
   (a ref to an element of the same namespace is found as that global element
   before the deep search starts) *)
Definition local_match (ns : nsid) (nm : name) (d : edecl) : bool :=
  N.eqb (e_name d) nm && N.eqb (e_ns d) ns.

Fixpoint direct_named (ns : nsid) (nm : name) (kids : list particle) : option edecl :=
  match kids with
  | [] => None
  | PE d :: r => if local_match ns nm d then Some d else direct_named ns nm r
  | _ :: r => direct_named ns nm r
  end.

Fixpoint top_find (ns : nsid) (nm : name) (seen : bool) (ps : list particle) : option edecl :=
  match ps with
  | [] => None
  | PE d :: r => if local_match ns nm d then Some d else top_find ns nm seen r
  | PAny :: r => top_find ns nm true r
  | PC _ _ kids :: r =>
      if seen then top_find ns nm true r
      else match direct_named ns nm kids with
           | Some d => Some d
           | None => top_find ns nm true r
           end
  end.

Definition deep_in_type (ns : nsid) (nm : name) (t : ctype) : option edecl :=
  if N.eqb (c_ns t) ns && negb (N.eqb (c_name t) nm) &&
     match c_base t with None => true | Some _ => false end
  then top_find ns nm false (c_content t) else None.

Definition deep_find (W : wsdl) (ns : nsid) (nm : name) : option edecl :=
  first_some (fun q => match find_type (w_types W) q with
                       | Some t => deep_in_type ns nm t
                       | None => None
                       end) (w_all W).

(* what PathResolver.root + the following resolve(nobuiltin=True) yield *)
Inductive lres := LNone | LTypeNotFound | LOk (s : sobj).

Definition root_lookup (W : wsdl) (n u : str) : lres :=
  if is_builtin_ref n u then LOk (SBuiltin n) else
  match lookup_uri W u, lookup_name W n with
  | Some ns, Some nm =>
      match find_gelem W (ns, nm) with
      | Some (_, en, ty) =>
          match resolve_elem W en ty with Some s => LOk s | None => LTypeNotFound end
      | None =>
          match find_named W (ns, nm) with
          | Some s => LOk s
          | None =>
              match deep_find W ns nm with
              | Some d =>
                  match resolve_elem W (e_name d) (e_type d) with
                  | Some s => LOk s
                  | None => LTypeNotFound
                  end
              | None => LNone
              end
          end
      end
  | _, _ => LNone
  end.

(* SchemaObject.get_child: first non-attribute child that is a wildcard or has the name *)
Fixpoint get_child_item (nm : option name) (l : list fitem) : option fitem :=
  match l with
  | [] => None
  | FW :: _ => Some FW
  | FA _ :: l' => get_child_item nm l'
  | FE o i d ch opt :: l' =>
      if match nm with Some k => N.eqb (e_name d) k | None => false end
      then Some (FE o i d ch opt) else get_child_item nm l'
  end.

Fixpoint get_attr_item (nm : option name) (l : list fitem) : option adecl :=
  match l with
  | [] => None
  | FA a :: l' =>
      if match nm with Some k => N.eqb (a_name a) k | None => false end
      then Some a else get_attr_item nm l'
  | _ :: l' => get_attr_item nm l'
  end.

(* get_child(name) followed by resolve(nobuiltin=True) *)
Definition child_of (W : wsdl) (s : sobj) (part : str) : lres :=
  let nm := lookup_name W part in
  match s with
  | SComplex t =>
      match get_child_item nm (all_items W t) with
      | Some (FE _ _ d _ _) =>
          match resolve_elem W (e_name d) (e_type d) with Some s' => LOk s' | None => LTypeNotFound end
      | Some _ => LOk SAny
      | None => LNone
      end
  | SSimple _ _ vals =>
      match nm with
      | Some k => if existsb (N.eqb k) vals then LOk (SEnumVal k) else LNone
      | None => LNone
      end
  | SAny => LOk SAny
  | _ => LNone
  end.

Definition attr_of (W : wsdl) (s : sobj) (part : str) : lres :=
  match s with
  | SComplex t =>
      match get_attr_item (lookup_name W part) (all_items W t) with
      | Some a => LOk (SAttr a)
      | None => LNone
      end
  | SAny => LOk SAny
  | _ => LNone
  end.

(* branch: parts[1:-1]; leaf: parts[-1] *)
Fixpoint walk (W : wsdl) (s : sobj) (parts : list str) : lres :=
  match parts with
  | [] => LOk s
  | [p] =>
      match local_part p with
      | c :: nm' => if N.eqb c ch_at then attr_of W s nm' else child_of W s (c :: nm')
      | [] => child_of W s []
      end
  | p :: parts' =>
      match child_of W s (local_part p) with
      | LOk s' => walk W s' parts'
      | r => r
      end
  end.

Inductive fres := FErr | FNone | FTypeNotFound | FOk (s : sobj).

Definition find_path (W : wsdl) (path : str) : fres :=
  match split path with
  | [] => FErr                                   (* parts[0]: IndexError *)
  | p0 :: rest =>
      match qualify W p0 with
      | QErr => FNone                            (* root: any exception of qualify -> BadPath *)
      | QOk n u =>
          match root_lookup W n u with
          | LNone => FNone
          | LTypeNotFound => FTypeNotFound
          | LOk s =>
              match walk W s rest with
              | LNone => FNone
              | LTypeNotFound => FTypeNotFound
              | LOk s' => FOk s'
              end
          end
      end
  end.

(* ------------------------------------------------------------------ *)
(* objects                                                             *)
(* ------------------------------------------------------------------ *)
Definition key := (name * bool)%type.            (* (name, is "_attr" key) *)
Definition key_eqb (a b : key) : bool := N.eqb (fst a) (fst b) && Bool.eqb (snd a) (snd b).

(* what iterating a factory object yields, recursively; cls 0 = plain Object /
   a class name that is no schema name; PStr 0 = "" *)
Inductive pv :=
| PNone
| PStr (s : N)
| PList
| PObj (cls : N) (items : list (key * pv)).

Definition keylist := list (key * pv).

(* Object.__setattr__: new keys are appended, known keys keep their place *)
Fixpoint set_key (k : key) (v : pv) (l : keylist) : keylist :=
  match l with
  | [] => [(k, v)]
  | (k', v') :: r => if key_eqb k k' then (k', v) :: r else (k', v') :: set_key k v r
  end.

Fixpoint get_key (k : key) (l : keylist) : option pv :=
  match l with
  | [] => None
  | (k', v) :: r => if key_eqb k k' then Some v else get_key k r
  end.

Definition key_in (k : key) (l : list key) : bool := existsb (key_eqb k) l.

(* sudsobject.Iter: the metadata ordering when it covers every key (then each
   ordering entry the object has, duplicates included), else insertion order *)
Definition iter_items (ord : list key) (l : keylist) : keylist :=
  if forallb (fun kv => key_in (fst kv) ord) l
  then flat_map (fun k => match get_key k l with Some v => [(k, v)] | None => [] end) ord
  else l.

(* Builder.ordering: names in Iter order, wildcards (name None) skipped *)
Definition ordering (items : list fitem) : list key :=
  flat_map (fun it => match it with
                      | FE _ _ d _ _ => [(e_name d, false)]
                      | FW => []
                      | FA a => [(a_name a, true)]
                      end) items.

(* Builder.add_attributes: "_name" = default="" ... or "" *)
Fixpoint add_attrs (items : list fitem) (data : keylist) : keylist :=
  match items with
  | [] => data
  | FA a :: r => add_attrs r (set_key (a_name a, true)
                                      (PStr (match a_default a with Some t => t | None => 0%N end)) data)
  | _ :: r => add_attrs r data
  end.

(* identity of a local element declaration in a history list (Python object
   identity): where it is declared (the objects of a base type's children are
   shared by the types derived from it) and, redundantly, the declaration itself *)
Definition hid := (qn * nat * edecl)%type.

Definition tref_eqb (a b : tref) : bool :=
  match a, b with
  | TBuiltin, TBuiltin => true
  | TNamed n1 m1, TNamed n2 m2 => N.eqb n1 n2 && N.eqb m1 m2
  | _, _ => false
  end.

Definition edecl_eqb (a b : edecl) : bool :=
  N.eqb (e_name a) (e_name b) && N.eqb (e_ns a) (e_ns b) && Bool.eqb (e_qual a) (e_qual b) &&
  tref_eqb (e_type a) (e_type b) && Bool.eqb (e_opt a) (e_opt b) && Bool.eqb (e_multi a) (e_multi b) &&
  Bool.eqb (e_nil a) (e_nil b) && opt_eqb N.eqb (e_default a) (e_default b).

Definition hid_eqb (a b : hid) : bool :=
  qn_eqb (fst (fst a)) (fst (fst b)) && Nat.eqb (snd (fst a)) (snd (fst b)) && edecl_eqb (snd a) (snd b).

Definition hid_in (h : hid) (l : list hid) : bool := existsb (hid_eqb h) l.

(* child.resolve() inside Builder.process *)
Inductive rtype := RB | RC (t : ctype) | RS (n : name) (vals : list name).

Definition resolve_type (W : wsdl) (ty : tref) : rtype :=
  match ty with
  | TBuiltin => RB
  | TNamed ns tn =>
      match find_named W (ns, tn) with
      | Some (SComplex t) => RC t
      | Some (SSimple _ n vals) => RS n vals
      | _ => RB
      end
  end.

Section Build.
Variable W : wsdl.

(* Builder.process for one flattened child: the setattr it performs on the
   object being filled, if any; [rec hist t] = the key list Builder.process
   gives a fresh object of type t under history hist *)
Definition member_value (rec : list hid -> ctype -> keylist) (hist : list hid) (it : fitem)
  : option (key * pv) :=
  match it with
  | FW => None                                     (* skip_child: wildcard *)
  | FA _ => None                                   (* children() has no attributes *)
  | FE owner idx d ch _ =>
      if ch then None else                         (* skip_child: a choice above *)
      let h : hid := (owner, idx, d) in
      if hid_in h hist then None else              (* recursion cut-off: nothing is set *)
      let k : key := (e_name d, false) in
      if e_multi d then Some (k, PList) else
      match resolve_type W (e_type d) with
      | RB => Some (k, PNone)
      | RC t =>
          match all_items W t with
          | [] => Some (k, PNone)                  (* len(resolved) == 0 *)
          | its =>
              if e_opt d then Some (k, PNone)      (* skip_value *)
              else Some (k, PObj (c_name t) (iter_items (ordering its) (rec (h :: hist) t)))
          end
      | RS n vals =>
          match vals with
          | [] => Some (k, PNone)
          | _ => if e_opt d then Some (k, PNone)
                 else Some (k, PObj n [((n_value, false), PNone)])      (* Factory.property *)
          end
      end
  end.

Definition process_with (rec : list hid -> ctype -> keylist) (hist : list hid)
           (data : keylist) (it : fitem) : keylist :=
  match member_value rec hist it with
  | Some (k, v) => set_key k v data
  | None => data
  end.

Fixpoint process_all (rec : list hid -> ctype -> keylist) (hist : list hid)
         (items : list fitem) (data : keylist) : keylist :=
  match items with
  | [] => data
  | it :: r => process_all rec hist r (process_with rec hist data it)
  end.

(* Complex.mixed(): a simpleContent child with content (here: attributes);
   the object is then a sudsobject.Property, whose constructor sets "value" *)
Definition is_mixed (t : ctype) : bool :=
  existsb (qn_eqb (qn_of t)) (w_mixed W) &&
  match all_items W t with [] => false | _ => true end.

Definition init_data (t : ctype) : keylist :=
  if is_mixed t then [((n_value, false), PNone)] else [].

(* the key list of an object of type t: ("value" for a Property,) attributes
   first, then the children *)
Fixpoint members (fuel : nat) (hist : list hid) (t : ctype) : keylist :=
  match fuel with
  | O => add_attrs (all_items W t) (init_data t)
  | Datatypes.S f => process_all (members f) hist (all_items W t) (add_attrs (all_items W t) (init_data t))
  end.

(* every local element declaration of the interface: the recursion depth of
   Builder.process is bounded by their number *)
Definition hids_of (t : ctype) : list hid :=
  flat_map (fun it => match it with FE o i d _ _ => [(o, i, d)] | _ => [] end) (own_items t).

Definition universe : list hid := flat_map hids_of (w_types W).

Definition build_fuel : nat := Datatypes.S (length universe).

Definition name_or_0 (s : str) : N := match lookup_name W s with Some n => n | None => 0%N end.

(* Builder.build(type) *)
Definition build_root (s : sobj) : pv :=
  match s with
  | SComplex t => PObj (c_name t) (iter_items (ordering (all_items W t)) (members build_fuel [] t))
  | SSimple _ n _ => PObj n []
  | SEnumVal v => PObj v []
  | SElem n => PObj n []
  | SAttr a => PObj (a_name a) []
  | SAny => PObj 0 []
  | SBuiltin n => PObj (name_or_0 n) []
  end.

Inductive result := ROk (v : pv) | RTypeNotFound | ROther.

(* Factory.create *)
Definition create (path : str) : result :=
  match find_path W path with
  | FErr => ROther
  | FNone => RTypeNotFound
  | FTypeNotFound => RTypeNotFound
  | FOk s =>
      match s with
      | SSimple _ _ (v :: vs) =>
          ROk (PObj (name_or_0 path)
                    (fold_left (fun acc x => set_key (x, false) (PStr x) acc) (v :: vs) []))
      | SEnumVal _ => ROk (PObj (name_or_0 path) [])
      | _ => ROk (build_root s)
      end
  end.

End Build.

(* ------------------------------------------------------------------ *)
(* equality of observations                                            *)
(* ------------------------------------------------------------------ *)
Fixpoint pv_eqb (a b : pv) {struct a} : bool :=
  match a, b with
  | PNone, PNone => true
  | PStr x, PStr y => N.eqb x y
  | PList, PList => true
  | PObj c1 i1, PObj c2 i2 =>
      N.eqb c1 c2 &&
      (fix go (l1 l2 : keylist) : bool :=
         match l1, l2 with
         | [], [] => true
         | (k1, v1) :: r1, (k2, v2) :: r2 => key_eqb k1 k2 && pv_eqb v1 v2 && go r1 r2
         | _, _ => false
         end) i1 i2
  | _, _ => false
  end.

Definition result_eqb (a b : result) : bool :=
  match a, b with
  | ROk x, ROk y => pv_eqb x y
  | RTypeNotFound, RTypeNotFound => true
  | ROther, ROther => true
  | _, _ => false
  end.
