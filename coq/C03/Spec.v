(* C03 — the executable specification, written from the property text:

     "factory.create (by plain, prefixed, {namespace}-qualified or dotted path
      name) returns an object whose members are exactly the type's content
      model in schema order: inherited members first, repeating elements as
      empty lists, required complex children pre-built recursively, optional
      members None, choice branches and wildcards not pre-populated, XML
      attributes under underscore names holding their declared default,
      enumerations exposing every declared value ... an unknown name raises
      TypeNotFound and never yields a partial object."

   It is a CHECKER of an observed object against the content model (not a
   builder), over a structured spelling (what each form of name means), and it
   shares with the model only the tables of the [wsdl] record and the base
   chain.  Definitions only. *)
From SV Require Import Lib.Base Fam.Schema C03.Model.

(* ------------------------------------------------------------------ *)
(* spellings                                                           *)
(* ------------------------------------------------------------------ *)
Inductive root_form :=
| RPlain (n : str)                 (* T        : the WSDL's target namespace *)
| RPrefixed (p n : str)            (* p:T      : the namespace p is bound to on the WSDL *)
| RBraced (u n : str).             (* {uri}T *)

Record member := mkM { m_prefix : option str; m_attr : bool; m_name : str }.

Record spelling := mkSp { sp_root : root_form; sp_members : list member }.

Definition render_root (r : root_form) : str :=
  match r with
  | RPlain n => n
  | RPrefixed p n => p ++ ch_colon :: n
  | RBraced u n => ch_lbrace :: u ++ ch_rbrace :: n
  end.

Definition render_member (m : member) : str :=
  (match m_prefix m with Some p => p ++ [ch_colon] | None => [] end) ++
  (if m_attr m then [ch_at] else []) ++ m_name m.

Definition render (sp : spelling) : str :=
  render_root (sp_root sp) ++ flat_map (fun m => ch_dot :: render_member m) (sp_members sp).

(* ------------------------------------------------------------------ *)
(* the content model of a type, in schema order, inherited first        *)
(* ------------------------------------------------------------------ *)
Inductive sentry :=
| SE (d : edecl) (in_choice under_optional : bool)
| SWild.

Definition mark (k : ckind) (o : bool) (e : sentry) : sentry :=
  match e with
  | SE d ch op => SE d (ch || match k with KChoice => true | _ => false end) (op || o)
  | SWild => SWild
  end.

Fixpoint s_particle (p : particle) : list sentry :=
  match p with
  | PE d => [SE d false false]
  | PAny => [SWild]
  | PC k o kids =>
      map (mark k o)
          ((fix go (l : list particle) : list sentry :=
              match l with
              | [] => []
              | q :: l' => s_particle q ++ go l'
              end) kids)
  end.

Definition base_chain (W : wsdl) (t : ctype) : list ctype :=
  chain (w_types W) (length (w_types W)) t.

Definition exp_members (W : wsdl) (t : ctype) : list sentry :=
  flat_map (fun c => flat_map s_particle (c_content c)) (base_chain W t).

Definition exp_attrs (W : wsdl) (t : ctype) : list adecl :=
  flat_map c_attrs (base_chain W t).

(* ------------------------------------------------------------------ *)
(* what a spelling designates                                          *)
(* ------------------------------------------------------------------ *)
Inductive target :=
| TgType (q : qn)                  (* a named complex or simple type *)
| TgLeaf.                          (* something without members: an element of built-in type, an attribute *)

Inductive designation :=
| DTargets (ts : list target)      (* [] = the name is unknown (also: its prefix is not declared) *)
| DNoClaim.                        (* outside the property: built-ins, paths through wildcards / enumeration values *)

Definition target_of_tref (ty : tref) : target :=
  match ty with
  | TBuiltin => TgLeaf
  | TNamed ns n => TgType (ns, n)
  end.

Definition root_uri (W : wsdl) (r : root_form) : option str :=
  match r with
  | RPlain _ => Some (w_tns W)
  | RPrefixed p _ => resolve_prefix W p        (* declared on the WSDL, or the ever-bound xml *)
  | RBraced u _ => Some u
  end.

Definition root_name (r : root_form) : str :=
  match r with RPlain n => n | RPrefixed _ n => n | RBraced _ n => n end.

Definition is_type (W : wsdl) (q : qn) : bool :=
  match find_named W q with Some _ => true | None => false end.

Definition sentry_named (nm : name) (e : sentry) : bool :=
  match e with SE d _ _ => N.eqb (e_name d) nm | SWild => false end.

(* is nm the name of a LOCAL element declared in some named type of that
   namespace?  Spelled without its path such a name is neither a declared
   global name nor certainly unknown (suds' deep search finds some of them):
   no claim *)
Definition local_named (W : wsdl) (q : qn) : bool :=
  existsb (fun t => N.eqb (c_ns t) (fst q) &&
                    existsb (sentry_named (snd q)) (flat_map s_particle (c_content t)))
          (w_types W).

Definition root_targets (W : wsdl) (r : root_form) : designation :=
  match root_uri W r with
  | None => DTargets []              (* undeclared prefix: an unknown name *)
  | Some u =>
      if starts_with w3_prefix u then DNoClaim else
      match lookup_uri W u, lookup_name W (root_name r) with
      | Some ns, Some nm =>
          match map (fun e => target_of_tref (snd e))
                    (filter (fun e => qn_eqb (fst (fst e), snd (fst e)) (ns, nm)) (w_elems W))
                ++ (if is_type W (ns, nm) then [TgType (ns, nm)] else []) with
          | [] => if local_named W (ns, nm) then DNoClaim else DTargets []
          | ts => DTargets ts
          end
      | _, _ => DTargets []
      end
  end.

Definition is_wild (e : sentry) : bool := match e with SWild => true | _ => false end.

(* the entries before the first one called nm (all of them when there is none) *)
Fixpoint before_named (nm : name) (l : list sentry) : list sentry :=
  match l with
  | [] => []
  | e :: l' => if sentry_named nm e then [] else e :: before_named nm l'
  end.

(* one step of a dotted path from one target: None = no claim *)
Definition step (W : wsdl) (m : member) (tg : target) : option (list target) :=
  match tg with
  | TgLeaf => Some []
  | TgType q =>
      match find_named W q with
      | Some (SComplex t) =>
          match lookup_name W (m_name m) with
          | None => if m_attr m then Some []
                    else if existsb is_wild (exp_members W t) then None else Some []
          | Some nm =>
              if m_attr m then
                Some (if existsb (fun a => N.eqb (a_name a) nm) (exp_attrs W t) then [TgLeaf] else [])
              else if existsb is_wild (before_named nm (exp_members W t)) then None
              else Some (flat_map (fun e => match e with
                                            | SE d _ _ => if N.eqb (e_name d) nm then [target_of_tref (e_type d)] else []
                                            | SWild => []
                                            end) (exp_members W t))
          end
      | Some (SSimple _ _ vals) =>
          match lookup_name W (m_name m) with
          | Some nm => if negb (m_attr m) && existsb (N.eqb nm) vals then None else Some []
          | None => Some []
          end
      | _ => Some []
      end
  end.

Fixpoint step_all (W : wsdl) (m : member) (ts : list target) : option (list target) :=
  match ts with
  | [] => Some []
  | tg :: l =>
      match step W m tg, step_all W m l with
      | Some a, Some b => Some (a ++ b)
      | _, _ => None
      end
  end.

(* a prefixed member inside a path, or an @attribute that is not the last
   member, is not one of the spellings of the text: no claim *)
Fixpoint steps (W : wsdl) (ms : list member) (ts : list target) : option (list target) :=
  match ms with
  | [] => Some ts
  | m :: ms' =>
      match m_prefix m with
      | Some _ => None
      | None =>
          if m_attr m && match ms' with [] => false | _ => true end then None else
          match step_all W m ts with
          | Some ts' => steps W ms' ts'
          | None => None
          end
      end
  end.

(* One designation per thing the root name denotes: XSD keeps elements and
   types in separate symbol spaces, so a name may denote an element and a type
   at once; the text does not say which one create() picks, either is accepted. *)
Definition designate (W : wsdl) (sp : spelling) : list designation :=
  match root_targets W (sp_root sp) with
  | DTargets [] =>
      [match steps W (sp_members sp) [] with Some ts' => DTargets ts' | None => DNoClaim end]
  | DTargets ts =>
      map (fun tg => match steps W (sp_members sp) [tg] with
                     | Some ts' => DTargets ts'
                     | None => DNoClaim
                     end) ts
  | d => [d]
  end.

(* ------------------------------------------------------------------ *)
(* an object mirrors a type                                            *)
(* ------------------------------------------------------------------ *)
Definition attr_value_ok (a : adecl) (v : pv) : bool :=
  match a_default a, v with
  | Some d, PStr s => N.eqb s d
  | None, PStr s => N.eqb s 0
  | None, PNone => true
  | _, _ => false
  end.

Fixpoint attrs_match (exp : list adecl) (its : keylist) : bool :=
  match exp, its with
  | [], [] => true
  | a :: e', (k, v) :: i' => N.eqb (fst k) (a_name a) && attr_value_ok a v && attrs_match e' i'
  | _, _ => false
  end.

Definition is_attr_item (kv : key * pv) : bool := snd (fst kv).

Definition qn_in (q : qn) (l : list qn) : bool := existsb (qn_eqb q) l.

Definition is_pnone (v : pv) : bool := match v with PNone => true | _ => false end.
Definition is_plist (v : pv) : bool := match v with PList => true | _ => false end.
Definition is_empty_obj (v : pv) : bool := match v with PObj _ [] => true | _ => false end.
Definition is_property_none (v : pv) : bool :=
  match v with
  | PObj _ [((k, false), PNone)] => N.eqb k n_value
  | _ => false
  end.

(* a member may be missing only where building it would never end: a required
   single child whose complex type is already being built above *)
Definition absent_ok (path : list qn) (e : sentry) : bool :=
  match e with
  | SWild => true
  | SE d ch _ =>
      ch || (negb (e_multi d) && negb (e_opt d) &&
             match e_type d with TNamed ns n => qn_in (ns, n) path | TBuiltin => false end)
  end.

(* matching the element members of an object against the expected entries, in
   order: every item must be the next expected entry that is present; entries
   passed over must be allowed to be absent *)
Section Match.
Variable present : sentry -> key -> pv -> bool.
Variable absent : sentry -> bool.

Fixpoint skip_to (pres : sentry -> bool) (rest : list sentry -> bool) (exp : list sentry) : bool :=
  match exp with
  | [] => false
  | e :: exp' =>
      if pres e then rest exp'
      else if absent e then skip_to pres rest exp' else false
  end.

Fixpoint match_members (exp : list sentry) (its : keylist) : bool :=
  match its with
  | [] => forallb absent exp
  | (k, x) :: its' =>
      if snd k then match_members exp its'          (* attributes are checked separately *)
      else skip_to (fun e => present e k x) (fun exp' => match_members exp' its') exp
  end.
End Match.

Section Mirrors.
Variable W : wsdl.
Variable strict : bool.      (* strict = the letter of the text; lenient = what may also be read into it *)

(* the value of a present member, given how a nested object is judged *)
Definition value_ok (sub : list qn -> ctype -> pv -> bool) (path : list qn) (e : sentry) (k : key) (x : pv) : bool :=
  match e with
  | SWild => false
  | SE d ch op =>
      negb ch && N.eqb (e_name d) (fst k) &&
      (if e_multi d then is_plist x                 (* repeating: empty list *)
       else if e_opt d then is_pnone x              (* optional: None *)
       else match e_type d with
            | TBuiltin => is_pnone x
            | TNamed ns n =>
                match find_named W (ns, n) with
                | Some (SComplex t') =>
                    match exp_members W t', exp_attrs W t' with
                    | [], [] => is_pnone x || is_empty_obj x
                    | _, _ =>
                        sub ((ns, n) :: path) t' x    (* pre-built recursively *)
                        || (is_pnone x && (op || qn_in (ns, n) path))
                    end
                | Some (SSimple _ _ vals) =>
                    is_pnone x ||
                    (negb strict && match vals with [] => false | _ => true end
                     && is_property_none x)
                | _ => is_pnone x
                end
            end)
  end.

(* a simpleContent type: the object holds the text under "value" (None when
   fresh), then the attributes *)
Fixpoint mirrors (path : list qn) (t : ctype) (v : pv) {struct v} : bool :=
  match v with
  | PObj _ items =>
      if is_mixed W t then
        match items with
        | ((k, false), PNone) :: r =>
            N.eqb k n_value &&
            attrs_match (exp_attrs W t) (filter is_attr_item r) &&
            match_members (fun e k x => value_ok (fun p t' y => mirrors p t' y) path e k x)
                          (absent_ok path) (exp_members W t) r
        | _ => false
        end
      else
        attrs_match (exp_attrs W t) (filter is_attr_item items) &&
        match_members (fun e k x => value_ok (fun p t' y => mirrors p t' y) path e k x)
                      (absent_ok path) (exp_members W t) items
  | _ => false
  end.

Definition enum_ok (vals : list name) (v : pv) : bool :=
  match v with
  | PObj _ items =>
      forallb (fun val => existsb (fun it => key_eqb (fst it) (val, false) && pv_eqb (snd it) (PStr val)) items) vals &&
      forallb (fun it => existsb (fun val => key_eqb (fst it) (val, false) && pv_eqb (snd it) (PStr val)) vals) items &&
      Nat.leb (length items) (length vals)
  | _ => false
  end.

Definition target_ok (tg : target) (v : pv) : bool :=
  match tg with
  | TgLeaf => is_empty_obj v
  | TgType q =>
      match find_named W q with
      | Some (SComplex t) => mirrors [q] t v
      | Some (SSimple _ _ []) => is_empty_obj v
      | Some (SSimple _ _ vals) => enum_ok vals v
      | _ => false
      end
  end.

Definition outcome_ok (d : designation) (r : result) : bool :=
  match d with
  | DNoClaim => true
  | DTargets [] => match r with RTypeNotFound => true | _ => false end
  | DTargets ts => match r with ROk v => existsb (fun tg => target_ok tg v) ts | _ => false end
  end.

Definition spec_check (sp : spelling) (r : result) : bool :=
  existsb (fun d => outcome_ok d r) (designate W sp).

End Mirrors.

(* ------------------------------------------------------------------ *)
(* side conditions of the theorems                                     *)
(* ------------------------------------------------------------------ *)
Fixpoint nodupb (l : list key) : bool :=
  match l with
  | [] => true
  | k :: r => negb (key_in k r) && nodupb r
  end.

(* a simpleContent type has attributes only *)
Definition wf_mixed (W : wsdl) : bool :=
  forallb (fun t => negb (is_mixed W t) ||
                    forallb (fun it => match it with FA _ => true | _ => false end) (all_items W t))
          (w_types W).

(* within one type (inherited members included) no two elements and no two
   attributes share a name ("Element Declarations Consistent" of XSD), and
   simpleContent types have no element content *)
Definition wf_names (W : wsdl) : bool :=
  forallb (fun t => nodupb (ordering (all_items W t))) (w_types W) && wf_mixed W.

(* no required, non-repeating member has an enumeration type (where the
   unchanged code pre-builds a Property {value = None} instead of None:
   known finding C03:enum-member-prebuilt-as-property) *)
Definition enum_member (W : wsdl) (d : edecl) : bool :=
  negb (e_multi d) && negb (e_opt d) &&
  match e_type d with
  | TNamed ns n => match find_named W (ns, n) with
                   | Some (SSimple _ _ (_ :: _)) => true
                   | _ => false
                   end
  | TBuiltin => false
  end.

Definition no_enum_members (W : wsdl) : bool :=
  forallb (fun t => forallb (fun it => match it with
                                       | FE _ _ d ch _ => ch || negb (enum_member W d)
                                       | _ => true
                                       end) (all_items W t)) (w_types W).

(* every type reference of a declaration names a declared type *)
Definition tref_ok (W : wsdl) (ty : tref) : bool :=
  match ty with
  | TBuiltin => true
  | TNamed ns n => is_type W (ns, n)
  end.

Definition wf_refs (W : wsdl) : bool :=
  forallb (fun e => tref_ok W (snd e)) (w_elems W) &&
  forallb (fun t => forallb (fun it => match it with
                                       | FE _ _ d _ _ => tref_ok W (e_type d)
                                       | _ => true
                                       end) (all_items W t)) (w_types W).

(* the spellings of the property text: names are NCNames without '.', a URI has
   no '}' and no line break, an @attribute can only end a path *)
Definition name_char (c : N) : bool :=
  negb (N.eqb c ch_dot || N.eqb c ch_colon || N.eqb c ch_lbrace || N.eqb c ch_rbrace ||
        N.eqb c ch_nl || N.eqb c ch_at).

Definition name_ok (s : str) : bool :=
  match s with [] => false | _ => forallb name_char s end.

Definition uri_char (c : N) : bool := negb (N.eqb c ch_rbrace || N.eqb c ch_nl).

Definition uri_ok (s : str) : bool :=
  match s with [] => false | _ => forallb uri_char s end.

Definition root_ok (r : root_form) : bool :=
  match r with
  | RPlain n => name_ok n
  | RPrefixed p n => name_ok p && name_ok n
  | RBraced u n => uri_ok u && name_ok n
  end.

Definition member_ok (m : member) : bool :=
  match m_prefix m with Some _ => false | None => name_ok (m_name m) end.

Fixpoint attrs_last (ms : list member) : bool :=
  match ms with
  | [] => true
  | [m] => true
  | m :: r => negb (m_attr m) && attrs_last r
  end.

Definition wf_spelling (sp : spelling) : bool :=
  root_ok (sp_root sp) && forallb member_ok (sp_members sp) && attrs_last (sp_members sp).

(* ------------------------------------------------------------------ *)
(* what the harness evaluates                                          *)
(* ------------------------------------------------------------------ *)
Record ccase := mkCC {
  cc_w : wsdl;
  cc_path : str;                       (* the exact string given to factory.create *)
  cc_sp : option spelling;             (* its structure, for well-formed spellings *)
  cc_impl : result                     (* what the implementation did *)
}.

Definition create_agrees (c : ccase) : bool :=
  result_eqb (create (cc_w c) (cc_path c)) (cc_impl c).

Definition spec_on (strict : bool) (c : ccase) : bool :=
  match cc_sp c with
  | None => true
  | Some sp => str_eqb (render sp) (cc_path c) && spec_check (cc_w c) strict sp (cc_impl c)
  end.

Definition create_spec_ok (c : ccase) : bool := spec_on false c.
Definition create_strict_ok (c : ccase) : bool := spec_on true c.

(* is the case inside the claim of the property (a designation was computed)? *)
Definition create_claimed (c : ccase) : bool :=
  match cc_sp c with
  | None => false
  | Some sp => negb (existsb (fun d => match d with DNoClaim => true | _ => false end) (designate (cc_w c) sp))
  end.

(* PathResolver.split / qualify called directly *)
Record scase := mkSC { sc_s : str; sc_parts : list str }.
Definition split_agrees (c : scase) : bool := list_eqb str_eqb (split (sc_s c)) (sc_parts c).

(* the parts are non-empty, dot-free outside braces ... and, joined by the
   separator, a prefix of the input *)
Fixpoint join_dot (l : list str) : str :=
  match l with
  | [] => []
  | [p] => p
  | p :: l' => p ++ ch_dot :: join_dot l'
  end.
Definition split_spec_ok (c : scase) : bool :=
  starts_with (join_dot (sc_parts c)) (sc_s c) &&
  forallb (fun p => match p with [] => false | _ => true end) (sc_parts c).

Record qcase := mkQC { qc_w : wsdl; qc_part : str; qc_impl : option (str * str) }.
Definition qualify_agrees (c : qcase) : bool :=
  match qualify (qc_w c) (qc_part c), qc_impl c with
  | QOk n u, Some (n', u') => str_eqb n n' && str_eqb u u'
  | QErr, None => true
  | _, _ => false
  end.

(* is the case inside the hypotheses of the theorems of C03/Props.v? *)
Definition theorem_guard (c : ccase) : bool :=
  wf_names (cc_w c) && wf_refs (cc_w c) &&
  match cc_sp c with Some sp => wf_spelling sp | None => false end.

(* create_meets_spec instantiated: holds on every case inside the guard *)
Definition theorem_instance (c : ccase) : bool :=
  negb (theorem_guard c) ||
  match cc_sp c with
  | Some sp => spec_check (cc_w c) false sp (create (cc_w c) (render sp))
  | None => true
  end.
