(* The abstract interface shared by the schema-driven properties: schemas,
   values, the namespace infoset of a message.  Names and namespace URIs are
   interned as N by the harness (only equality matters). Definitions only. *)
From SV Require Import Lib.Base.

Definition name := N.
Definition nsid := N.            (* 0 = no namespace *)
Definition qn := (nsid * name)%type.

Definition qn_eqb (a b : qn) : bool := N.eqb (fst a) (fst b) && N.eqb (snd a) (snd b).

Inductive tref := TBuiltin | TNamed (ns : nsid) (n : name).

Record edecl := mkE {
  e_name : name;
  e_ns : nsid;                   (* namespace of the name when qualified *)
  e_qual : bool;                 (* form-qualified (global, ref'd, form=, elementFormDefault) *)
  e_type : tref;
  e_opt : bool;                  (* minOccurs = 0 *)
  e_multi : bool;                (* maxOccurs > 1 *)
  e_nil : bool;                  (* nillable *)
  e_default : option N           (* interned default text *)
}.

Inductive ckind := KSeq | KChoice | KAll.

Inductive particle :=
| PE (d : edecl)
| PAny
| PC (k : ckind) (opt : bool) (kids : list particle).

Record adecl := mkA { a_name : name; a_req : bool; a_default : option N }.

Record ctype := mkC {
  c_name : name;
  c_ns : nsid;
  c_base : option qn;
  c_content : list particle;
  c_attrs : list adecl
}.

Definition schema := list ctype.

Definition find_type (S : schema) (q : qn) : option ctype :=
  find (fun t => qn_eqb (c_ns t, c_name t) q) S.

(* Python-side values *)
Inductive value :=
| VNone
| VText (t : N)                                   (* a leaf, as its expected lexical text *)
| VList (l : list value)
| VObj (ty : option qn) (fields : list (name * bool * value)).   (* (key, is "_attr" key, value) *)

(* ---------- namespace infoset of a document ---------- *)
Inductive aval := AText (t : N) | AQName (ns : nsid) (local : name).

Inductive xnode :=
| XN (ns : nsid) (nm : name) (attrs : list (nsid * name * aval)) (text : option N) (kids : list xnode).

Definition aval_eqb (a b : aval) : bool :=
  match a, b with
  | AText x, AText y => N.eqb x y
  | AQName n x, AQName m y => N.eqb n m && N.eqb x y
  | _, _ => false
  end.

Definition attr_eqb (a b : nsid * name * aval) : bool :=
  N.eqb (fst (fst a)) (fst (fst b)) && N.eqb (snd (fst a)) (snd (fst b)) && aval_eqb (snd a) (snd b).

(* attribute lists compare as sets (XML attributes are unordered) *)
Definition attrs_eqb (a b : list (nsid * name * aval)) : bool :=
  Nat.eqb (length a) (length b) &&
  forallb (fun x => existsb (attr_eqb x) b) a &&
  forallb (fun x => existsb (attr_eqb x) a) b.

Fixpoint xnode_eqb (a b : xnode) {struct a} : bool :=
  match a, b with
  | XN n1 m1 at1 t1 k1, XN n2 m2 at2 t2 k2 =>
      N.eqb n1 n2 && N.eqb m1 m2 && attrs_eqb at1 at2 && opt_eqb N.eqb t1 t2 &&
      (fix go (l1 l2 : list xnode) : bool :=
         match l1, l2 with
         | [], [] => true
         | x :: l1', y :: l2' => xnode_eqb x y && go l1' l2'
         | _, _ => false
         end) k1 k2
  end.

(* well-known namespace ids fixed by the harness *)
Definition ns_xsi : nsid := 100%N.
Definition ns_env : nsid := 101%N.
Definition ns_xsd : nsid := 102%N.
Definition ns_enc : nsid := 103%N.
(* well-known local names, interned first by every harness in this order *)
Definition n_type : name := 1%N.      (* "type" *)
Definition n_nil : name := 2%N.       (* "nil" *)
Definition t_true : N := 3%N.         (* the text "true" *)

(* results of the marshaller: a list of nodes, or one of its exceptions *)
Inductive mres (A : Type) := MOk (a : A) | MTypeNotFound | MError.
Arguments MOk {A} a.
Arguments MTypeNotFound {A}.
Arguments MError {A}.
