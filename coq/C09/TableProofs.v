(* C09 — lemmas: the model of client.py equals the table, for every status. *)
From SV Require Import Lib.Base Gen.C09Tables C09.Model.
Local Open Scope Z_scope.

(* the five ways a status integer can relate to the constants that matter *)
Inductive status_kind (z : Z) : Prop :=
| SK202 : z = 202 -> status_kind z
| SK204 : z = 204 -> status_kind z
| SK200 : z = 200 -> status_kind z
| SK500 : z = 500 -> status_kind z
| SKother : (z =? 202) = false -> (z =? 204) = false -> (z =? 200) = false ->
            (z =? 500) = false -> status_kind z.

Lemma status_cases z : status_kind z.
Proof.
  destruct (z =? 202) eqn:E1; [apply SK202, Z.eqb_eq, E1|].
  destruct (z =? 204) eqn:E2; [apply SK204, Z.eqb_eq, E2|].
  destruct (z =? 200) eqn:E3; [apply SK200, Z.eqb_eq, E3|].
  destruct (z =? 500) eqn:E4; [apply SK500, Z.eqb_eq, E4|].
  now apply SKother.
Qed.

Ltac unfold_tables :=
  cbv [st_default st_silent st_parsed st_fault_ret st_ok_gate st_ok_ret st_call_fault_ret].

Ltac crush_body b :=
  destruct b as [|ns hdr raw v|ns det hdr extra raw fl doc|raw|raw];
  try destruct ns; try destruct hdr; try destruct det; reflexivity.

Lemma reply_table_l : forall (st : option Z) (b : body) (d : payload) (f r : bool),
  process_reply (shape_of b) st d f r = classify st b d f r.
Proof.
  intros st b d f r. unfold process_reply, classify, zin. unfold_tables.
  destruct st as [z|].
  - destruct (status_cases z) as [-> | -> | -> | -> | E1 E2 E3 E4].
    + reflexivity.
    + reflexivity.
    + cbn [existsb Z.eqb Pos.eqb orb negb]. destruct f, r; crush_body b.
    + cbn [existsb Z.eqb Pos.eqb orb negb]. destruct f, r; crush_body b.
    + cbn [existsb]. rewrite E1, E2, E3, E4. cbn [orb negb]. reflexivity.
  - cbn [existsb Z.eqb Pos.eqb orb negb]. destruct f, r; crush_body b.
Qed.

(* process_reply raises WebFault only when faults is on, so the handler in
   Method.__call__ never changes its outcome *)
Lemma method_call_transparent_l : forall c st d f r,
  method_call f (process_reply c st d f r) = process_reply c st d f r.
Proof.
  intros c st d f r. unfold process_reply.
  destruct (zin _ st_silent); [reflexivity|].
  destruct (if zin _ st_parsed then parse c else ParseOk None) as [|root]; [reflexivity|].
  destruct (if zin _ st_parsed then get_fault root else None) as [[fl doc]|].
  - destruct f; reflexivity.
  - destruct (negb _); [destruct f; reflexivity|].
    destruct r; [reflexivity|].
    destruct root as [dd|]; [destruct (get_reply dd)|]; destruct f; reflexivity.
Qed.

Lemma paths_agree_l : forall p b st desc f r,
  run_via p (shape_of b) st desc f r = expected_via p b st desc f r.
Proof.
  intros p b st desc f r.
  destruct p as [|[|]| |]; cbn [run_via expected_via];
    unfold via_reply, via_error, via_inject, via_context;
    rewrite ?method_call_transparent_l.
  - rewrite reply_table_l. unfold classify. reflexivity.
  - rewrite reply_table_l. destruct desc; reflexivity.
  - change CEmpty with (shape_of BEmpty). rewrite reply_table_l. destruct desc; reflexivity.
  - rewrite reply_table_l. reflexivity.
  - rewrite reply_table_l. reflexivity.
Qed.

(* the same reply, status and description give the same outcome whichever way
   they are delivered *)
Lemma paths_coincide_l : forall b st n f r,
  let c := shape_of b in
  via_inject c st (Some n) f r = via_context c st (Some n) f r /\
  via_error (Some c) st n f r = via_context c st (Some n) f r /\
  via_error None st n f r = via_context CEmpty st (Some n) f r /\
  forall code, via_reply c code f r = via_context c None None f r.
Proof.
  intros b st n f r c. unfold via_inject, via_error, via_context, via_reply.
  rewrite !method_call_transparent_l. repeat split.
Qed.

Lemma transport_reply_counts_as_200_l : forall b code f r,
  via_reply (shape_of b) code f r = classify (Some 200) b PNone f r.
Proof. intros. exact (paths_agree_l PthReply b code None f r). Qed.

(* a Fault in a 200 or 500 reply *)
Lemma fault_reported_l : forall p st desc ns det hdr extra raw fl doc f r,
  let s := match p, st with PthReply, _ => 200 | _, None => 200 | _, Some z => z end in
  p <> PthError false ->
  s = 200 \/ s = 500 ->
  run_via p (shape_of (BFault ns det hdr extra raw fl doc)) st desc f r =
  if f then RaiseWebFault fl doc else RetPair 500 (PObj fl).
Proof.
  intros p st desc ns det hdr extra raw fl doc f r s Hp Hs.
  rewrite paths_agree_l.
  destruct p as [|[|]| |]; try congruence; cbn [expected_via]; unfold classify; subst s;
    try (destruct st as [z|]; destruct Hs as [Hs|Hs]; try discriminate Hs; try subst z; reflexivity).
Qed.

Lemma classify_fault_not_ordinary : forall st ns det hdr extra raw fl doc d f r,
  ordinary (classify st (BFault ns det hdr extra raw fl doc) d f r) = false.
Proof.
  intros. unfold classify.
  destruct st as [z|].
  - destruct (status_cases z) as [-> | -> | -> | -> | E1 E2 E3 E4].
    + reflexivity.
    + reflexivity.
    + destruct f; reflexivity.
    + destruct f; reflexivity.
    + rewrite E1, E2, E3, E4. cbn [orb negb]. destruct f; cbn [ordinary]; [reflexivity|exact E3].
  - destruct f; reflexivity.
Qed.

Lemma classify_empty_not_ordinary_when_error : forall st d f r,
  ordinary (classify st BEmpty d f r) = true ->
  match st with None => True | Some z => z = 200 end.
Proof.
  intros st d f r. unfold classify. destruct st as [z|]; [|trivial].
  destruct (status_cases z) as [-> | -> | -> | -> | E1 E2 E3 E4].
  - discriminate.
  - discriminate.
  - reflexivity.
  - destruct f; cbn; discriminate.
  - rewrite E1, E2, E3, E4. cbn [orb negb]. destruct f; cbn [ordinary]; congruence.
Qed.

(* whatever the status, options and delivery path: a reply carrying a Fault
   never comes back as an ordinary value.  (A TransportError without a body
   delivers no Fault at all; that path is covered by reply_table on BEmpty.) *)
Lemma fault_never_ordinary_l : forall p st desc ns det hdr extra raw fl doc f r,
  p <> PthError false ->
  ordinary (run_via p (shape_of (BFault ns det hdr extra raw fl doc)) st desc f r) = false.
Proof.
  intros p st desc ns det hdr extra raw fl doc f r Hp. rewrite paths_agree_l.
  destruct p as [|[|]| |]; try congruence; cbn [expected_via];
    apply classify_fault_not_ordinary.
Qed.

(* ------------------------------------------------------------------------ *)
(* fault detection on arbitrary document shapes                              *)
(* ------------------------------------------------------------------------ *)

(* an Envelope/Body/Fault chain in either SOAP namespace, with any positive
   number of children at each level, is found *)
Lemma fault_detected_any_shape_l : forall d e a b c,
  d_env d = Some e -> d_envlen d = S a -> body_of d e = Some (S b) ->
  fault_of d e = Some (S c) -> (0 < d_faultkeys d)%nat ->
  get_fault (Some d) = Some (d_faultobj d, d_docid d).
Proof.
  intros d e a b c He Hl Hb Hf Hk.
  unfold get_fault, get_fault1. rewrite He, Hl.
  destruct e; cbn [body_of fault_of] in *; rewrite Hb, Hf; cbn.
  - destruct (d_faultkeys d); [lia|reflexivity].
  - destruct (d_faultkeys d); [lia|reflexivity].
Qed.

Lemma get_fault1_kinds : forall d e,
  fault_of d e = None ->
  match get_fault1 (Some d) e with VElem KFault _ => False | _ => True end.
Proof.
  intros d e Hf. unfold get_fault1. rewrite Hf.
  destruct (opt_eqb envns_eqb (d_env d) (Some e)).
  - destruct (d_envlen d) as [|n]; cbn; [trivial|].
    destruct (body_of d e) as [[|m]|]; cbn; trivial.
  - cbn. trivial.
Qed.

(* without a Fault element in a SOAP namespace nothing is ever reported as a
   fault, whatever the status, options and delivery path: no WebFault is
   raised, and an object is only ever returned as the decoded value of a 200 *)
Definition no_fault_outcome (o : outcome) : Prop :=
  match o with
  | RaiseWebFault _ _ => False
  | RetPair s (PObj _) => s = 200
  | _ => True
  end.

Lemma get_fault_none : forall d,
  d_fault11 d = None -> d_fault12 d = None -> get_fault (Some d) = None.
Proof.
  intros d H1 H2. unfold get_fault, py_or.
  pose proof (get_fault1_kinds d Env11 H1) as K1.
  pose proof (get_fault1_kinds d Env12 H2) as K2.
  destruct (get_fault1 (Some d) Env11) as [|[| |] n1]; cbn [truthy];
    destruct (get_fault1 (Some d) Env12) as [|[| |] n2]; try contradiction;
    try reflexivity; destruct (Nat.ltb 0 n1); reflexivity.
Qed.

Lemma process_reply_nonfault : forall d st desc f r,
  d_fault11 d = None -> d_fault12 d = None ->
  match desc with PNone | PText _ => True | _ => False end ->
  no_fault_outcome (process_reply (CDoc d) st desc f r).
Proof.
  intros d st desc f r H1 H2 Hd.
  pose proof (get_fault_none d H1 H2) as G.
  unfold process_reply. unfold st_ok_ret.
  destruct (zin _ st_silent); [exact I|].
  destruct (zin _ st_parsed); cbn [parse]; rewrite ?G.
  - destruct (negb _); [destruct f, desc; try exact I; contradiction|].
    destruct r; [exact I|].
    destruct (get_reply d) as [v|]; [|exact I].
    destruct f, v; cbn; trivial.
  - destruct (negb _); [destruct f, desc; try exact I; contradiction|].
    destruct r; [exact I|]. destruct f; exact I.
Qed.

Lemma nonfault_never_webfault_l : forall p d st desc f r,
  d_fault11 d = None -> d_fault12 d = None ->
  no_fault_outcome (run_via p (CDoc d) st desc f r).
Proof.
  intros p d st desc f r H1 H2.
  destruct p as [|[|]| |]; cbn [run_via];
    unfold via_reply, via_error, via_inject, via_context;
    rewrite ?method_call_transparent_l.
  - apply process_reply_nonfault; trivial.
  - apply process_reply_nonfault; trivial.
  - unfold process_reply, st_ok_ret.
    destruct (zin _ st_silent); [exact I|].
    destruct (zin _ st_parsed); cbn [parse get_fault].
    + destruct (negb _); [destruct f; exact I|]. destruct r; [exact I|]. destruct f; exact I.
    + destruct (negb _); [destruct f; exact I|]. destruct r; [exact I|]. destruct f; exact I.
  - apply process_reply_nonfault; trivial.
  - apply process_reply_nonfault; trivial. destruct desc; exact I.
Qed.

(* None is the outcome exactly for 202 / 204 — or for a 200 reply that is
   empty (nothing to decode) *)
Lemma silent_statuses_only_l : forall st b d f r,
  classify st b d f r = Ret PNone ->
  let s := match st with None => 200 | Some z => z end in
  s = 202 \/ s = 204 \/
  (s = 200 /\ f = true /\ r = false /\ (b = BEmpty \/ exists ns hdr raw, b = BNormal ns hdr raw PNone)).
Proof.
  intros st b d f r H s.
  assert (C : status_kind s) by apply status_cases.
  unfold classify in H. fold s in H.
  destruct C as [E | E | E | E | E1 E2 E3 E4].
  - now left.
  - now right; left.
  - right; right. rewrite E in H. cbn [Z.eqb Pos.eqb orb negb] in H.
    destruct b as [|ns hdr raw v|ns det hdr extra raw fl doc|raw|raw]; destruct f, r;
      try discriminate H; repeat split; auto.
    injection H as ->. right. eauto.
  - exfalso. rewrite E in H. cbn [Z.eqb Pos.eqb orb negb] in H.
    destruct b, f; discriminate H.
  - exfalso. rewrite E1, E2, E3, E4 in H. cbn [orb negb] in H. destruct f; discriminate H.
Qed.

Lemma outcome_eqb_refl : forall o, outcome_eqb o o = true.
Proof.
  assert (P : forall p, payload_eqb p p = true) by (destruct p; cbn; auto using N.eqb_refl).
  destruct o; cbn; rewrite ?Z.eqb_refl, ?N.eqb_refl, ?P; reflexivity.
Qed.

(* the model's own outcome is accepted by the table on every cell *)
Lemma table_accepts_model_l : forall p b st desc f r,
  accepts (expected_via p b st desc f r) (run_via p (shape_of b) st desc f r) = true.
Proof.
  intros. rewrite paths_agree_l. unfold accepts.
  destruct (expected_via p b st desc f r); try apply outcome_eqb_refl; reflexivity.
Qed.

(* ------------------------------------------------------------------------ *)
(* Status rows over ARBITRARY reply content (any document shape whatsoever,  *)
(* not only the five body classes of the table)                              *)
(* ------------------------------------------------------------------------ *)

(* 202 / 204: the reply content is never looked at *)
Lemma silent_any_content_l : forall (c : content) s d f r,
  s = 202 \/ s = 204 -> process_reply c (Some s) d f r = Ret PNone.
Proof.
  intros c s d f r [-> | ->]; unfold process_reply, zin; unfold_tables; reflexivity.
Qed.

(* any status outside {200, 202, 204, 500}: the outcome is (status,
   description) whatever the content is — malformed, a Fault, anything *)
Lemma other_status_any_content_l : forall (c : content) s d f r,
  s <> 200 -> s <> 202 -> s <> 204 -> s <> 500 ->
  process_reply c (Some s) d f r = if f then RaiseStatus s d else RetPair s d.
Proof.
  intros c s d f r H200 H202 H204 H500.
  apply Z.eqb_neq in H200, H202, H204, H500.
  unfold process_reply, zin; unfold_tables. cbn [existsb].
  rewrite H200, H202, H204, H500. cbn [orb negb]. reflexivity.
Qed.

(* a 500 reply never comes back as an ordinary value, whatever it holds *)
Lemma status500_never_ordinary_l : forall (c : content) d f r,
  ordinary (process_reply c (Some 500) d f r) = false.
Proof.
  intros c d f r. unfold process_reply, zin; unfold_tables.
  cbn [existsb Z.eqb Pos.eqb orb negb].
  destruct (parse c) as [|root]; [reflexivity|].
  destruct (get_fault root) as [[fl doc]|]; destruct f; reflexivity.
Qed.

(* the outcome depends on the content of a 200 reply only through what the
   parser, the fault lookup and the decoder report about it *)
Lemma content_only_through_observations_l : forall (c1 c2 : content) st d f r,
  parse c1 = parse c2 -> raw_of c1 = raw_of c2 ->
  process_reply c1 st d f r = process_reply c2 st d f r.
Proof.
  intros c1 c2 st d f r Hp Hr. unfold process_reply. rewrite Hp, Hr. reflexivity.
Qed.

(* the delivery paths coincide on ARBITRARY content *)
Lemma paths_coincide_any_content_l : forall (c : content) st n f r,
  via_inject c st (Some n) f r = via_context c st (Some n) f r /\
  via_error (Some c) st n f r = via_context c st (Some n) f r /\
  via_error None st n f r = via_context CEmpty st (Some n) f r /\
  forall code, via_reply c code f r = via_context c None None f r.
Proof.
  intros c st n f r. unfold via_inject, via_error, via_context, via_reply.
  rewrite !method_call_transparent_l. repeat split.
Qed.

(* on every path that carries a status, a status outside {200,202,204,500}
   ends as (status, some description) whatever was delivered *)
Lemma other_status_any_path_l : forall p (c : content) s desc f r,
  p <> PthReply -> s <> 200 -> s <> 202 -> s <> 204 -> s <> 500 ->
  exists d, run_via p c (Some s) desc f r = if f then RaiseStatus s d else RetPair s d.
Proof.
  intros p c s desc f r Hp H200 H202 H204 H500.
  destruct p as [|has_fp| |]; [congruence| | |];
    cbn [run_via]; unfold via_error, via_inject, via_context;
    rewrite ?method_call_transparent_l, other_status_any_content_l by assumption;
    eexists; reflexivity.
Qed.
