(* C09 — Every reply is classified by status and content exactly one way.
   Property theorems only: each is closed by `exact` of a lemma proved in
   TableProofs.v and followed by Print Assumptions.  The model (process_reply,
   run_via, get_fault) compares against the constants of Gen/C09Tables.v, which
   are regenerated from the AST of suds/client.py on every run; `classify` is
   the table of the statement with literal numbers. *)
From SV Require Import Lib.Base Gen.C09Tables C09.Model C09.TableProofs.
Local Open Scope Z_scope.

(* The code's classification IS the table: for every status — any integer or
   None — every body class, both options. *)
Theorem reply_table : forall (st : option Z) (b : body) (d : payload) (f r : bool),
  process_reply (shape_of b) st d f r = classify st b d f r.
Proof. exact reply_table_l. Qed.
Print Assumptions reply_table.

(* Method.__call__'s WebFault handler never alters what process_reply did,
   for any reply content whatsoever. *)
Theorem method_call_transparent : forall c st d f r,
  method_call f (process_reply c st d f r) = process_reply c st d f r.
Proof. exact method_call_transparent_l. Qed.
Print Assumptions method_call_transparent.

(* The same table applies on each of the delivery paths: transport reply,
   TransportError with / without a body, __inject, RequestContext. *)
Theorem paths_agree : forall p b st desc f r,
  run_via p (shape_of b) st desc f r = expected_via p b st desc f r.
Proof. exact paths_agree_l. Qed.
Print Assumptions paths_agree.

(* ... and the paths coincide with one another on the same reply, status and
   description; a transport reply is a context reply with status None. *)
Theorem paths_coincide : forall b st n f r,
  let c := shape_of b in
  via_inject c st (Some n) f r = via_context c st (Some n) f r /\
  via_error (Some c) st n f r = via_context c st (Some n) f r /\
  via_error None st n f r = via_context CEmpty st (Some n) f r /\
  forall code, via_reply c code f r = via_context c None None f r.
Proof. exact paths_coincide_l. Qed.
Print Assumptions paths_coincide.

Theorem transport_reply_counts_as_200 : forall b code f r,
  via_reply (shape_of b) code f r = classify (Some 200) b PNone f r.
Proof. exact transport_reply_counts_as_200_l. Qed.
Print Assumptions transport_reply_counts_as_200.

(* A Fault in a 200 or 500 reply raises WebFault carrying the decoded fault and
   the document, or returns (500, fault) when faults are disabled ... *)
Theorem fault_reported : forall p st desc ns det hdr extra raw fl doc f r,
  let s := match p, st with PthReply, _ => 200 | _, None => 200 | _, Some z => z end in
  p <> PthError false ->
  s = 200 \/ s = 500 ->
  run_via p (shape_of (BFault ns det hdr extra raw fl doc)) st desc f r =
  if f then RaiseWebFault fl doc else RetPair 500 (PObj fl).
Proof. exact fault_reported_l. Qed.
Print Assumptions fault_reported.

(* ... and under no status, option or path is it returned as an ordinary value
   (retxml included). *)
Theorem fault_never_ordinary : forall p st desc ns det hdr extra raw fl doc f r,
  p <> PthError false ->
  ordinary (run_via p (shape_of (BFault ns det hdr extra raw fl doc)) st desc f r) = false.
Proof. exact fault_never_ordinary_l. Qed.
Print Assumptions fault_never_ordinary.

(* Fault detection on arbitrary document shapes, both envelope namespaces: any
   Envelope/Body/Fault chain with children at each level is found ... *)
Theorem fault_detected_any_shape : forall d e a b c,
  d_env d = Some e -> d_envlen d = S a -> body_of d e = Some (S b) ->
  fault_of d e = Some (S c) -> (0 < d_faultkeys d)%nat ->
  get_fault (Some d) = Some (d_faultobj d, d_docid d).
Proof. exact fault_detected_any_shape_l. Qed.
Print Assumptions fault_detected_any_shape.

(* ... and a document without a SOAP Fault element is never reported as one. *)
Theorem nonfault_never_webfault : forall p d st desc f r,
  d_fault11 d = None -> d_fault12 d = None ->
  no_fault_outcome (run_via p (CDoc d) st desc f r).
Proof. exact nonfault_never_webfault_l. Qed.
Print Assumptions nonfault_never_webfault.

(* None comes out for 202 / 204, and otherwise only for a 200 reply with
   nothing to decode. *)
Theorem silent_statuses_only : forall st b d f r,
  classify st b d f r = Ret PNone ->
  let s := match st with None => 200 | Some z => z end in
  s = 202 \/ s = 204 \/
  (s = 200 /\ f = true /\ r = false /\ (b = BEmpty \/ exists ns hdr raw, b = BNormal ns hdr raw PNone)).
Proof. exact silent_statuses_only_l. Qed.
Print Assumptions silent_statuses_only.

(* The acceptance relation the harness applies to the implementation's
   outcomes holds of the model's own outcome on every cell. *)
Theorem table_accepts_model : forall p b st desc f r,
  accepts (expected_via p b st desc f r) (run_via p (shape_of b) st desc f r) = true.
Proof. exact table_accepts_model_l. Qed.
Print Assumptions table_accepts_model.

(* The status rows hold over ARBITRARY reply content, not only the body classes
   of the table: 202 / 204 never look at it ... *)
Theorem silent_any_content : forall (c : content) s d f r,
  s = 202 \/ s = 204 -> process_reply c (Some s) d f r = Ret PNone.
Proof. exact silent_any_content_l. Qed.
Print Assumptions silent_any_content.

(* ... every status outside {200, 202, 204, 500} yields (status, description)
   whatever the content is — malformed bytes and Fault documents included ... *)
Theorem other_status_any_content : forall (c : content) s d f r,
  s <> 200 -> s <> 202 -> s <> 204 -> s <> 500 ->
  process_reply c (Some s) d f r = if f then RaiseStatus s d else RetPair s d.
Proof. exact other_status_any_content_l. Qed.
Print Assumptions other_status_any_content.

(* ... and a 500 reply is never an ordinary return value, whatever it holds. *)
Theorem status500_never_ordinary : forall (c : content) d f r,
  ordinary (process_reply c (Some 500) d f r) = false.
Proof. exact status500_never_ordinary_l. Qed.
Print Assumptions status500_never_ordinary.

(* The delivery paths coincide on arbitrary content as well ... *)
Theorem paths_coincide_any_content : forall (c : content) st n f r,
  via_inject c st (Some n) f r = via_context c st (Some n) f r /\
  via_error (Some c) st n f r = via_context c st (Some n) f r /\
  via_error None st n f r = via_context CEmpty st (Some n) f r /\
  forall code, via_reply c code f r = via_context c None None f r.
Proof. exact paths_coincide_any_content_l. Qed.
Print Assumptions paths_coincide_any_content.

(* ... so on every path that carries a status, one outside {200,202,204,500}
   ends as (status, description) whatever was delivered. *)
Theorem other_status_any_path : forall p (c : content) s desc f r,
  p <> PthReply -> s <> 200 -> s <> 202 -> s <> 204 -> s <> 500 ->
  exists d, run_via p c (Some s) desc f r = if f then RaiseStatus s d else RetPair s d.
Proof. exact other_status_any_path_l. Qed.
Print Assumptions other_status_any_path.

(* non-vacuity of the three: a Fault document under 204, 404 and 500 *)
Example any_content_nonvacuous :
  let c := shape_of (BFault Env11 true true 1 7 8 9) in
  process_reply c (Some 204) (PText 1) true false = Ret PNone /\
  process_reply c (Some 404) (PText 1) true false = RaiseStatus 404 (PText 1) /\
  process_reply (CMalformed 3) (Some 404) (PText 1) false true = RetPair 404 (PText 1) /\
  process_reply c (Some 500) (PText 1) true false = RaiseWebFault 8 9.
Proof. repeat split; reflexivity. Qed.

(* non-vacuity: the table has all its rows, on concrete cells *)
Example table_nonvacuous :
  let flt := BFault Env12 true false 0 7 8 9 in
  classify (Some 204) flt (PText 1) true false = Ret PNone /\
  classify (Some 500) flt (PText 1) true true = RaiseWebFault 8 9 /\
  classify None flt PNone false true = RetPair 500 (PObj 8) /\
  classify (Some 404) flt (PText 1) false false = RetPair 404 (PText 1) /\
  classify (Some 503) (BMalformed 3) (PText 1) true false = RaiseStatus 503 (PText 1) /\
  classify (Some 500) (BMalformed 3) (PText 1) false false = RaiseParse /\
  classify None (BNormal Env11 false 4 (PObj 5)) PNone true true = Ret (PRaw 4) /\
  classify None (BNormal Env11 false 4 (PObj 5)) PNone false false = RetPair 200 (PObj 5) /\
  classify (Some 200) (BNonSoap 6) PNone true false = RaiseOther /\
  classify (Some (-7)) BEmpty (PText 1) true false = RaiseStatus (-7) (PText 1).
Proof. repeat split; reflexivity. Qed.

(* non-vacuity of fault_detected_any_shape, and the element truth-value quirk
   the model keeps: a childless Fault is not seen as one *)
Example fault_shapes_nonvacuous :
  let d := mkDoc 1 (Some Env12) 2 None (Some 1%nat) None (Some 3%nat) 8 3 9 None in
  get_fault (Some d) = Some (8%N, 9%N) /\
  get_fault (Some (mkDoc 1 (Some Env11) 1 (Some 1%nat) None (Some 0%nat) None 8 0 9 None)) = None.
Proof. split; reflexivity. Qed.
