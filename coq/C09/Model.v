(* C09 — Every reply is classified by status and content exactly one way.

   Model of suds/client.py: _SoapClient.process_reply / __get_fault / send,
   Method.__call__, _SimClient.invoke (reply injection), RequestContext.
   The status constants come from Gen/C09Tables.v, which is regenerated from
   the AST of client.py on every run; the executable spec `classify` below is
   written from the property text with literal numbers and never looks at the
   tables or at the document shape the model inspects. *)
From SV Require Import Lib.Base Gen.C09Tables.
Local Open Scope Z_scope.

(* ------------------------------------------------------------------------ *)
(* Observable outcomes of an invocation                                      *)
(* ------------------------------------------------------------------------ *)

(* Payloads are digests: the harness interns canonical forms as small numbers,
   the expected one computed without suds, the observed one from what suds
   returned or raised. *)
Inductive payload :=
| PNone                (* Python None *)
| PText (n : N)        (* a plain string (status description) *)
| PRaw (n : N)         (* the raw reply bytes *)
| PObj (n : N)         (* a decoded value / fault object *)
| PExc (n : N)         (* a WebFault instance carrying fault n, as a value *)
| POther.

Inductive outcome :=
| Ret (p : payload)                  (* returned p *)
| RetPair (st : Z) (p : payload)     (* returned the 2-tuple (st, p) *)
| RaiseWebFault (fault doc : N)      (* raised WebFault(fault, document) *)
| RaiseStatus (st : Z) (d : payload) (* raised Exception((st, description)) *)
| RaiseParse                         (* raised an XML parse error *)
| RaiseOther.                        (* raised anything else *)

Definition payload_eqb (a b : payload) : bool :=
  match a, b with
  | PNone, PNone | POther, POther => true
  | PText x, PText y | PRaw x, PRaw y | PObj x, PObj y | PExc x, PExc y => N.eqb x y
  | _, _ => false
  end.

Definition outcome_eqb (a b : outcome) : bool :=
  match a, b with
  | Ret p, Ret q => payload_eqb p q
  | RetPair s p, RetPair t q => Z.eqb s t && payload_eqb p q
  | RaiseWebFault f d, RaiseWebFault g e => N.eqb f g && N.eqb d e
  | RaiseStatus s p, RaiseStatus t q => Z.eqb s t && payload_eqb p q
  | RaiseParse, RaiseParse | RaiseOther, RaiseOther => true
  | _, _ => false
  end.

Definition raises (o : outcome) : bool :=
  match o with Ret _ | RetPair _ _ => false | _ => true end.

(* ------------------------------------------------------------------------ *)
(* What the code looks at in a reply                                         *)
(* ------------------------------------------------------------------------ *)

Inductive envns := Env11 | Env12.   (* binding.envns / binding.envns12 *)

Definition envns_eqb (a b : envns) : bool :=
  match a, b with Env11, Env11 | Env12, Env12 => true | _, _ => false end.

(* A well-formed reply document, reduced to what __get_fault and
   Binding.get_reply inspect.  `len` is Element.__len__ (number of child
   elements), which Python's `and`/`or` use as the truth value. *)
Record wfdoc := mkDoc {
  d_raw : N;                   (* digest of the bytes *)
  d_env : option envns;        (* SOAP namespace in which the root matches "Envelope" *)
  d_envlen : nat;              (* len(Envelope) *)
  d_body11 : option nat;       (* len of Envelope.getChild("Body", envns), if found *)
  d_body12 : option nat;       (* ... envns12 *)
  d_fault11 : option nat;      (* len of that 1.1 Body's getChild("Fault", envns) *)
  d_fault12 : option nat;      (* len of that 1.2 Body's getChild("Fault", envns12) *)
  d_faultobj : N;              (* digest of UmxBasic().process(Fault) *)
  d_faultkeys : nat;           (* len() of that object *)
  d_docid : N;                 (* digest of the parsed document *)
  d_value : option payload     (* binding.output.get_reply's result once Envelope and
                                  Body are found; None = it raises *)
}.

Inductive content :=
| CEmpty                       (* b"" (or the "" send() substitutes) *)
| CMalformed (raw : N)         (* the parser raises *)
| CDoc (d : wfdoc).

Definition raw_of (c : content) : N :=
  match c with CEmpty => 0%N | CMalformed r => r | CDoc d => d_raw d end.

Definition body_of (d : wfdoc) (e : envns) : option nat :=
  match e with Env11 => d_body11 d | Env12 => d_body12 d end.
Definition fault_of (d : wfdoc) (e : envns) : option nat :=
  match e with Env11 => d_fault11 d | Env12 => d_fault12 d end.

(* Python values flowing through __get_fault.get_fault *)
Inductive elk := KEnv | KBody | KFault.
Inductive pyv := VNone | VElem (k : elk) (len : nat).

Definition truthy (v : pyv) : bool :=
  match v with VNone => false | VElem _ n => Nat.ltb 0 n end.
Definition py_and (a b : pyv) : pyv := if truthy a then b else a.
Definition py_or (a b : pyv) : pyv := if truthy a then a else b.
Definition lift (k : elk) (o : option nat) : pyv :=
  match o with None => VNone | Some n => VElem k n end.

(* def get_fault(envns):
     soapenv = replyroot and replyroot.getChild("Envelope", envns)
     soapbody = soapenv and soapenv.getChild("Body", envns)
     return soapbody and soapbody.getChild("Fault", envns)
   (a Document has no __len__: always true) *)
Definition get_fault1 (root : option wfdoc) (e : envns) : pyv :=
  match root with
  | None => VNone
  | Some d =>
    let soapenv := if opt_eqb envns_eqb (d_env d) (Some e) then VElem KEnv (d_envlen d) else VNone in
    let soapbody := py_and soapenv (lift KBody (body_of d e)) in
    py_and soapbody (lift KFault (fault_of d e))
  end.

(* fault = get_fault(envns) or get_fault(envns12)
   return fault is not None and UmxBasic().process(fault)
   followed by the caller's `if fault:`; Some (fault, document) = taken.
   An element other than a Fault can only get here with len 0, and then
   decodes to an empty Text (false). *)
Definition get_fault (root : option wfdoc) : option (N * N) :=
  match root with
  | None => None
  | Some d =>
    match py_or (get_fault1 root Env11) (get_fault1 root Env12) with
    | VElem KFault _ => if Nat.ltb 0 (d_faultkeys d) then Some (d_faultobj d, d_docid d) else None
    | _ => None
    end
  end.

(* Binding.get_reply: Envelope in 1.1 else 1.2 (None.promotePrefixes raises),
   Body in 1.1 else 1.2 (multiref.process(None) raises), then decoding *)
Definition get_reply (d : wfdoc) : option payload :=
  match d_env d with
  | None => None
  | Some _ =>
    match d_body11 d, d_body12 d with
    | None, None => None
    | _, _ => d_value d
    end
  end.

Inductive parsed := ParseErr | ParseOk (root : option wfdoc).
Definition parse (c : content) : parsed :=     (* client._parse *)
  match c with
  | CEmpty => ParseOk None
  | CMalformed _ => ParseErr
  | CDoc d => ParseOk (Some d)
  end.

Definition zin (z : Z) (l : list Z) : bool := existsb (Z.eqb z) l.

(* _SoapClient.process_reply(reply, status, description), no plugins *)
Definition process_reply (reply : content) (status : option Z) (desc : payload)
                         (faults retxml : bool) : outcome :=
  let status := match status with None => st_default | Some s => s end in
  if zin status st_silent then Ret PNone else
  let looked := zin status st_parsed in
  match (if looked then parse reply else ParseOk None) with
  | ParseErr => RaiseParse
  | ParseOk replyroot =>
    match (if looked then get_fault replyroot else None) with
    | Some (f, doc) =>
      if faults then RaiseWebFault f doc else RetPair st_fault_ret (PObj f)
    | None =>
      if negb (status =? st_ok_gate) then
        (if faults then RaiseStatus status desc else RetPair status desc)
      else if retxml then Ret (PRaw (raw_of reply))
      else
        match replyroot with
        | None => if faults then Ret PNone else RetPair st_ok_ret PNone
        | Some d =>
          match get_reply d with
          | None => RaiseOther
          | Some v => if faults then Ret v else RetPair st_ok_ret v
          end
        end
    end
  end.

(* Method.__call__: except WebFault as e: if faults: raise; return 500, e *)
Definition method_call (faults : bool) (o : outcome) : outcome :=
  match o with
  | RaiseWebFault f doc => if faults then o else RetPair st_call_fault_ret (PExc f)
  | _ => o
  end.

(* the four delivery paths *)
Definition inject_desc_id : N := 1%N.   (* digest the harness reserves for "injected reply" *)

Definition opt_desc (d : option N) : payload :=
  match d with None => PNone | Some n => PText n end.

(* send(): return self.process_reply(reply.message, None, None); Reply.code unused *)
Definition via_reply (reply : content) (code : option Z) (faults retxml : bool) : outcome :=
  method_call faults (process_reply reply None PNone faults retxml).

(* send(): except TransportError as e:
     content = e.fp and e.fp.read() or ""
     return self.process_reply(content, e.httpcode, tostr(e)) *)
Definition via_error (fp : option content) (httpcode : option Z) (reason : N)
                     (faults retxml : bool) : outcome :=
  let content := match fp with None => CEmpty | Some c => c end in
  method_call faults (process_reply content httpcode (PText reason) faults retxml).

(* _SimClient.invoke with __inject={"reply":..., "status":..., "description":...} *)
Definition via_inject (reply : content) (status : option Z) (desc : option N)
                      (faults retxml : bool) : outcome :=
  let description := match desc with None => inject_desc_id | Some n => n end in
  method_call faults (process_reply reply status (PText description) faults retxml).

(* RequestContext.process_reply(reply, status, description): straight into
   _SoapClient.process_reply, not through Method.__call__'s handler *)
Definition via_context (reply : content) (status : option Z) (desc : option N)
                       (faults retxml : bool) : outcome :=
  process_reply reply status (opt_desc desc) faults retxml.

Inductive path := PthReply | PthError (has_fp : bool) | PthInject | PthContext.

Definition run_via (p : path) (reply : content) (status : option Z) (desc : option N)
                   (faults retxml : bool) : outcome :=
  match p with
  | PthReply => via_reply reply status faults retxml
  | PthError has_fp => via_error (if has_fp then Some reply else None) status
                                 (match desc with Some n => n | None => 0%N end) faults retxml
  | PthInject => via_inject reply status desc faults retxml
  | PthContext => via_context reply status desc faults retxml
  end.

(* ------------------------------------------------------------------------ *)
(* Specification: the table of the property statement                        *)
(* ------------------------------------------------------------------------ *)

(* the reply body classes the property names *)
Inductive body :=
| BEmpty
| BNormal (ns : envns) (hdr : bool) (raw : N) (v : payload)
    (* SOAP envelope, optional Header, a Body with the operation's reply;
       v = the value it denotes *)
| BFault (ns : envns) (detail hdr : bool) (extra : nat) (raw fault doc : N)
    (* SOAP 1.1 / 1.2 Fault with its two mandatory children, optional detail,
       `extra` further optional children *)
| BNonSoap (raw : N)       (* well-formed XML that is not a SOAP envelope *)
| BMalformed (raw : N).    (* not well-formed *)

Definition body_raw (b : body) : N :=
  match b with
  | BEmpty => 0%N
  | BNormal _ _ r _ | BFault _ _ _ _ r _ _ | BNonSoap r | BMalformed r => r
  end.

(* One row per sentence of the statement.  Cells the statement leaves open
   (DESIGN.md, C09): a malformed body is only looked at where a Fault would be
   (200 and 500); non-SOAP XML at 200 without retxml must raise (RaiseOther
   stands for "any exception", see `accepts`); an empty body at 200 decodes to
   None. *)
Definition classify (status : option Z) (b : body) (desc : payload)
                    (faults retxml : bool) : outcome :=
  let s := match status with None => 200 | Some z => z end in
  if (s =? 202) || (s =? 204) then Ret PNone
  else
    let soap_status := (s =? 200) || (s =? 500) in
    match soap_status, b with
    | true, BMalformed _ => RaiseParse
    | true, BFault _ _ _ _ _ f doc =>
        if faults then RaiseWebFault f doc else RetPair 500 (PObj f)
    | _, _ =>
        if negb (s =? 200) then
          (if faults then RaiseStatus s desc else RetPair s desc)
        else if retxml then Ret (PRaw (body_raw b))
        else
          match b with
          | BNormal _ _ _ v => if faults then Ret v else RetPair 200 v
          | BNonSoap _ => RaiseOther
          | _ => if faults then Ret PNone else RetPair 200 PNone
          end
    end.

(* does an observed outcome meet the table entry? *)
Definition accepts (expected observed : outcome) : bool :=
  match expected with
  | RaiseOther => raises observed
  | _ => outcome_eqb expected observed
  end.

(* "never returned as an ordinary value" *)
Definition ordinary (o : outcome) : bool :=
  match o with
  | Ret PNone => false
  | Ret _ => true
  | RetPair s _ => s =? 200
  | _ => false
  end.

(* a transport error always has a reason text: str(e) *)
Definition reason_desc (d : option N) : payload :=
  PText (match d with Some n => n | None => 0%N end).

(* the table per delivery path, from the last sentence of the statement *)
Definition expected_via (p : path) (b : body) (status : option Z) (desc : option N)
                        (faults retxml : bool) : outcome :=
  match p with
  | PthReply => classify (Some 200) b PNone faults retxml
  | PthError true => classify status b (reason_desc desc) faults retxml
  | PthError false => classify status BEmpty (reason_desc desc) faults retxml
  | PthInject => classify status b
                   (PText (match desc with None => inject_desc_id | Some n => n end)) faults retxml
  | PthContext => classify status b (opt_desc desc) faults retxml
  end.

(* the document shape of each class *)
Definition b2n (b : bool) : nat := if b then 1%nat else 0%nat.
Definition pick {A} (ns want : envns) (x : A) : option A :=
  if envns_eqb ns want then Some x else None.
Definition fault_len (detail : bool) (extra : nat) : nat := (2 + b2n detail + extra)%nat.

Definition shape_of (b : body) : content :=
  match b with
  | BEmpty => CEmpty
  | BMalformed r => CMalformed r
  | BNonSoap r => CDoc (mkDoc r None 0 None None None None 0 0 0 None)
  | BNormal ns hdr r v =>
      CDoc (mkDoc r (Some ns) (1 + b2n hdr) (pick ns Env11 1%nat) (pick ns Env12 1%nat)
                  None None 0 0 0 (Some v))
  | BFault ns det hdr extra r f doc =>
      let n := fault_len det extra in
      CDoc (mkDoc r (Some ns) (1 + b2n hdr) (pick ns Env11 1%nat) (pick ns Env12 1%nat)
                  (pick ns Env11 n) (pick ns Env12 n) f n doc None)
  end.

(* ------------------------------------------------------------------------ *)
(* Correspondence predicates evaluated by the harness                        *)
(* ------------------------------------------------------------------------ *)

Definition onat_eqb := opt_eqb Nat.eqb.

Definition wfdoc_eqb (a b : wfdoc) : bool :=
  N.eqb (d_raw a) (d_raw b) && opt_eqb envns_eqb (d_env a) (d_env b)
  && Nat.eqb (d_envlen a) (d_envlen b)
  && onat_eqb (d_body11 a) (d_body11 b) && onat_eqb (d_body12 a) (d_body12 b)
  && onat_eqb (d_fault11 a) (d_fault11 b) && onat_eqb (d_fault12 a) (d_fault12 b)
  && N.eqb (d_faultobj a) (d_faultobj b) && Nat.eqb (d_faultkeys a) (d_faultkeys b)
  && N.eqb (d_docid a) (d_docid b) && opt_eqb payload_eqb (d_value a) (d_value b).

Definition content_eqb (a b : content) : bool :=
  match a, b with
  | CEmpty, CEmpty => true
  | CMalformed x, CMalformed y => N.eqb x y
  | CDoc x, CDoc y => wfdoc_eqb x y
  | _, _ => false
  end.

(* one executed cell: how the reply was delivered, the options, the class the
   harness generated the bytes for (None: a probe outside the property's
   classes), the shape an independent parser measured, what suds did *)
Record ccase := mkCase {
  c_path : path; c_status : option Z; c_desc : option N;
  c_faults : bool; c_retxml : bool;
  c_class : option body; c_shape : content; c_out : outcome }.

(* the implementation did what the model of the code does *)
Definition c09_agrees (c : ccase) : bool :=
  outcome_eqb (run_via (c_path c) (c_shape c) (c_status c) (c_desc c) (c_faults c) (c_retxml c))
              (c_out c).

(* the implementation did what the table says *)
Definition c09_spec_ok (c : ccase) : bool :=
  match c_class c with
  | None => true
  | Some b => accepts (expected_via (c_path c) b (c_status c) (c_desc c) (c_faults c) (c_retxml c))
                      (c_out c)
  end.

(* the bytes have the shape the class stands for *)
Definition c09_shape_ok (c : ccase) : bool :=
  match c_class c with
  | None => true
  | Some b => content_eqb (shape_of b) (c_shape c)
  end.
