(* C18 — a constructive out-liner (definitions only).

   outline c t : the reply Body for the in-line response element t in which the
   choices c decide, per occurrence (addressed by its path from the response
   element), whether the element is written in line or as a bare reference to
   an independent element, whether an occurrence whose value was already moved
   out of line shares that independent element, and how ids are spelt.
   Independent elements follow the response element as Body children
   (unmarked: the response is the first serialization root), newest first. *)
From SV Require Import Lib.Base C18.Model.

Inductive decision :=
  | DIn                      (* written in line *)
  | DOut (share : bool).     (* moved out of line; share = reuse an equal value already out of line *)

Record choices := mkCh {
  ch_dec : list nat -> decision;     (* by path: child indexes from the response element down *)
  ch_spell : nat -> str              (* id spelling of the k-th node; must be injective *)
}.

Definition NM_MULTIREF : N := 7.
Definition NM_BODY : N := 8.

Definition a_href (s : str) : attr := mkA NS_NONE NM_HREF s None.
Definition a_idv (s : str) : attr := mkA NS_NONE NM_ID s None.

(* exact equality of trees *)
Fixpoint tree_beq (a b : tree) {struct a} : bool :=
  match a, b with
  | T ns nm at1 tx ks, T ns' nm' at2 tx' ks' =>
      N.eqb ns ns' && N.eqb nm nm' && list_eqb attr_beq at1 at2 && opt_eqb str_eqb tx tx' &&
      (fix go (x y : list tree) : bool :=
         match x, y with
         | [], [] => true
         | p :: x', q :: y' => tree_beq p q && go x' y'
         | _, _ => false
         end) ks ks'
  end.

(* what an independent element carries of an element: everything but its name *)
Definition content_beq (a b : tree) : bool :=
  match a, b with
  | T _ _ at1 tx ks, T _ _ at2 tx' ks' =>
      list_eqb attr_beq at1 at2 && opt_eqb str_eqb tx tx' && list_eqb tree_beq ks ks'
  end.

Definition t_text (t : tree) := match t with T _ _ _ tx _ => tx end.

(* values already out of line: (the element as a tree, the independent node) newest first *)
Record ost := mkO { o_heap : heap; o_reg : list (tree * nat) }.

Fixpoint reg_find (t : tree) (reg : list (tree * nat)) : option nat :=
  match reg with
  | [] => None
  | (t', m) :: r => if content_beq t t' then Some m else reg_find t r
  end.

Definition alloc (st : ost) (nd : node) : nat * ost :=
  (length (o_heap st), mkO (o_heap st ++ [nd]) (o_reg st)).

Definition indep_node (c : choices) (m : nat) (attrs : list attr) (tx : option str) (xs : list nat) : node :=
  mkN NS_NONE NM_MULTIREF (a_idv (ch_spell c m) :: attrs) tx xs.

Definition ref_node (c : choices) (ns nm : N) (m : nat) : node :=
  mkN ns nm [a_href (ch_hash :: ch_spell c m)] None [].

(* children are written before their parent: a node's id is above its children's *)
Fixpoint emit (c : choices) (path : list nat) (t : tree) (st : ost) {struct t} : nat * ost :=
  match t with
  | T ns nm attrs tx ks =>
      let kids :=
        (fix go (i : nat) (l : list tree) (st : ost) {struct l} : list nat * ost :=
           match l with
           | [] => ([], st)
           | k :: r =>
               let (x, st1) := emit c (path ++ [i]) k st in
               let (xs, st2) := go (S i) r st1 in
               (x :: xs, st2)
           end) in
      match ch_dec c path with
      | DIn => let (xs, st1) := kids O ks st in alloc st1 (mkN ns nm attrs tx xs)
      | DOut share =>
          match (if share then reg_find (T ns nm attrs tx ks) (o_reg st) else None) with
          | Some m => alloc st (ref_node c ns nm m)
          | None =>
              let (xs, st1) := kids O ks st in
              let m := length (o_heap st1) in
              alloc (mkO (o_heap st1 ++ [indep_node c m attrs tx xs]) ((T ns nm attrs tx ks, m) :: o_reg st1))
                    (ref_node c ns nm m)
          end
      end
  end.

Definition emit_kids (c : choices) (path : list nat) : nat -> list tree -> ost -> list nat * ost :=
  fix go (i : nat) (l : list tree) (st : ost) {struct l} : list nat * ost :=
    match l with
    | [] => ([], st)
    | k :: r =>
        let (x, st1) := emit c (path ++ [i]) k st in
        let (xs, st2) := go (S i) r st1 in
        (x :: xs, st2)
    end.

(* the Body: heap, Body node, response node *)
Definition outline (c : choices) (t : tree) : heap * nat * nat :=
  let (r, st) := emit c [] t (mkO [] []) in
  (o_heap st ++ [mkN NS_ENV NM_BODY [] None (r :: map snd (o_reg st))], length (o_heap st), r).

(* in-line replies: no id, href or SOAP-ENC:root attributes anywhere *)
Definition plain_attr (a : attr) : bool :=
  negb (is_named NM_ID a) && negb (is_named NM_HREF a) && negb (is_attr NM_ROOT NS_ENC a).

Fixpoint plainT (t : tree) : bool :=
  match t with
  | T _ _ attrs _ ks => forallb plain_attr attrs && forallb (fun k => plainT k) ks
  end.
