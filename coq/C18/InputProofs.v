(* C18 — the condition on the PROCESSED heap (heap_ok) follows from a boolean
   condition on the reply as parsed (input_ok): what MultiRef.process adds to a
   tree-shaped document is only the sharing of referenced children, and every
   node that then shares a child reads the same arrayType. *)
From SV Require Import Lib.Base C18.Model C18.RefProofs C18.DecProofs C18.MainProofs.
From Coq Require Import Lia.
Arguments getn : simpl never.

(* ------------------------------------------------------------------ *)
(* lists                                                               *)
(* ------------------------------------------------------------------ *)

Lemma find_remove_first_other : forall {A} (p q : A -> bool) l,
  (forall x, p x = true -> q x = false) -> find q (remove_first p l) = find q l.
Proof.
  induction l as [|x l IH]; intros H; cbn; [reflexivity|].
  destruct (p x) eqn:Ep.
  - rewrite (H x Ep). reflexivity.
  - cbn. destruct (q x); auto.
Qed.

Lemma find_filter_keep : forall {A} (q f : A -> bool) l,
  (forall x, q x = true -> f x = true) -> find q (filter f l) = find q l.
Proof.
  induction l as [|x l IH]; intros H; cbn; [reflexivity|].
  destruct (f x) eqn:Ef; cbn; destruct (q x) eqn:Eq; auto.
  rewrite (H x Eq) in Ef. discriminate.
Qed.

Lemma href_not_aty : forall x, is_named NM_HREF x = true -> is_attr NM_ATY NS_ENC x = false.
Proof.
  intros x H. unfold is_named, is_attr in *. apply N.eqb_eq in H. rewrite H. reflexivity.
Qed.

Lemma aty_not_id : forall x, is_attr NM_ATY NS_ENC x = true -> negb (is_named NM_ID x) = true.
Proof.
  intros x H. unfold is_named, is_attr in *. apply andb_true_iff in H as [H _]. apply N.eqb_eq in H.
  rewrite H. reflexivity.
Qed.

Lemma forallb_nth : forall {A} (p : A -> bool) (l : list A) d,
  (forall i, i < length l -> p (nth i l d) = true) -> forallb p l = true.
Proof.
  intros A p l d H. apply forallb_forall. intros x Hx.
  destruct (In_nth l x d Hx) as (i & Hi & <-). apply H. exact Hi.
Qed.

(* ------------------------------------------------------------------ *)
(* the input guards mean what they say                                 *)
(* ------------------------------------------------------------------ *)

Lemma parents_unique_spec : forall h, parents_unique h = true ->
  forall p1 p2 c, In c (n_kids (getn h p1)) -> In c (n_kids (getn h p2)) -> p1 = p2.
Proof.
  intros h P p1 p2 c H1 H2. unfold parents_unique in P.
  assert (L1 : p1 < length h).
  { destruct (Nat.lt_ge_cases p1 (length h)) as [L|L]; [exact L|]. rewrite (getn_out h p1 L) in H1. contradiction. }
  assert (L2 : p2 < length h).
  { destruct (Nat.lt_ge_cases p2 (length h)) as [L|L]; [exact L|]. rewrite (getn_out h p2 L) in H2. contradiction. }
  rewrite forallb_forall in P. specialize (P p1). rewrite in_seq in P. specialize (P (conj (Nat.le_0_l _) L1)).
  rewrite forallb_forall in P. specialize (P p2). rewrite in_seq in P. specialize (P (conj (Nat.le_0_l _) L2)).
  apply orb_true_iff in P as [P|P]; [apply Nat.eqb_eq; exact P|].
  exfalso. apply negb_true_iff in P.
  assert (X : existsb (fun c => existsb (Nat.eqb c) (n_kids (getn h p2))) (n_kids (getn h p1)) = true); [|congruence].
  apply existsb_exists. exists c. split; [exact H1|].
  apply existsb_exists. exists c. split; [exact H2|apply Nat.eqb_refl].
Qed.

Lemma bare_refs_spec : forall h b, bare_refs h b = true ->
  forall n hr m, get_any NM_HREF (n_attrs (getn h n)) = Some hr -> cat_get (the_catalog h b) (a_val hr) = Some m ->
  n_kids (getn h n) = [] /\ get_ns NM_ATY NS_ENC (n_attrs (getn h n)) = None.
Proof.
  intros h b B n hr m Eh Ec. unfold bare_refs in B.
  set (p := fun nd : node =>
    match get_any NM_HREF (n_attrs nd) with
    | None => true
    | Some hr =>
        match cat_get (the_catalog h b) (a_val hr) with
        | None => true
        | Some _ =>
            (match n_kids nd with [] => true | _ => false end) &&
            (match get_ns NM_ATY NS_ENC (n_attrs nd) with None => true | Some _ => false end)
        end
    end) in B.
  pose proof (forallb_getn p h eq_refl B n) as X. unfold p in X. rewrite Eh, Ec in X.
  apply andb_true_iff in X as [X1 X2].
  destruct (n_kids (getn h n)); [|discriminate].
  destruct (get_ns NM_ATY NS_ENC (n_attrs (getn h n))); [discriminate|]. auto.
Qed.

Lemma roots_subset : forall h b r, In r (the_roots h b) -> In r (n_kids (getn h b)).
Proof.
  intros h b r H.
  assert (G : forall kids roots0 cat0, In r (fst (build_catalog h kids roots0 cat0)) -> In r roots0 \/ In r kids).
  { induction kids as [|c kids IH]; intros roots0 cat0 X; cbn in X; [left; exact X|].
    apply IH in X as [X|X]; [|right; right; exact X].
    destruct (soaproot (getn h c)); [|left; exact X].
    apply in_app_or in X as [X|[->|[]]]; [left; exact X|right; left; reflexivity]. }
  unfold the_roots in H. destruct (G _ _ _ H) as [[]|X]. exact X.
Qed.

(* ------------------------------------------------------------------ *)
(* the booleans of heap_ok, the other way round                        *)
(* ------------------------------------------------------------------ *)

Lemma qn_eqb_refl : forall q, qn_eqb q q = true.
Proof. intros [a b]. unfold qn_eqb. cbn. rewrite !N.eqb_refl. reflexivity. Qed.

Lemma attr_beq_refl : forall a, attr_beq a a = true.
Proof.
  intros [a1 a2 a3 a4]. unfold attr_beq. cbn. rewrite !N.eqb_refl, str_eqb_refl.
  destruct a4; cbn; [apply qn_eqb_refl|reflexivity].
Qed.

Lemma rangeb_complete : forall h, (forall i c, In c (n_kids (getn h i)) -> c < length h) -> rangeb h = true.
Proof.
  intros h H. unfold rangeb. apply (forallb_nth _ h empty_node). intros i Li.
  change (nth i h empty_node) with (getn h i).
  apply forallb_forall. intros c Hc. apply Nat.ltb_lt. apply (H i). exact Hc.
Qed.

Lemma consb_complete : forall h,
  (forall p1 p2 c, In c (n_kids (getn h p1)) -> In c (n_kids (getn h p2)) ->
     option_map type_attr (aty1 (n_attrs (getn h p1))) = option_map type_attr (aty1 (n_attrs (getn h p2)))) ->
  consb h = true.
Proof.
  intros h H. unfold consb. apply (forallb_nth _ h empty_node). intros i1 L1.
  change (nth i1 h empty_node) with (getn h i1).
  apply forallb_forall. intros c Hc. apply orb_true_iff. right.
  apply (forallb_nth _ h empty_node). intros i2 L2.
  change (nth i2 h empty_node) with (getn h i2).
  destruct (existsb (Nat.eqb c) (n_kids (getn h i2))) eqn:E; [|reflexivity].
  cbn. apply existsb_exists in E as (c' & Hc' & Ec'). apply Nat.eqb_eq in Ec'. subst c'.
  rewrite (H i1 i2 c Hc Hc').
  destruct (option_map type_attr (aty1 (n_attrs (getn h i2)))); cbn; [apply attr_beq_refl|reflexivity].
Qed.

(* ------------------------------------------------------------------ *)
(* the processed heap                                                  *)
(* ------------------------------------------------------------------ *)

Lemma process_shape : forall f h b tb,
  wf_refs h b = true ->
  inline (S f) (the_catalog h b) h b = Some tb ->
  exists h1, process (S f) h b = Some (set_kids h1 b (the_roots h b)) /\ inv (the_catalog h b) h h1.
Proof.
  intros f h b tb W Hi.
  pose proof (wf_nochain h b W) as NC. pose proof (wf_onehref h b W) as OH.
  destruct (update_inline _ h NC OH (S f) b tb Hi) as (h1 & Eu & I1 & _ & _).
  exists h1. split; [|exact I1].
  unfold process. fold (the_catalog h b) (the_roots h b). rewrite Eu. reflexivity.
Qed.

Section Processed.
Variables (h : heap) (b : nat) (h1 : heap).
Hypothesis W : wf_refs h b = true.
Hypothesis R : rangeb h = true.
Hypothesis P : parents_unique h = true.
Hypothesis B : bare_refs h b = true.
Hypothesis I1 : inv (the_catalog h b) h h1.

Let h' := set_kids h1 b (the_roots h b).

(* whoever has c as a child after process: c was the child of an element q of
   the reply, and that node reads the arrayType q has *)
Lemma parent_cases : forall p c, In c (n_kids (getn h' p)) ->
  exists q, In c (n_kids (getn h q)) /\
            get_ns NM_ATY NS_ENC (n_attrs (getn h' p)) = get_ns NM_ATY NS_ENC (n_attrs (getn h q)).
Proof.
  intros p c Hc. destruct I1 as [Len Iv].
  assert (Hb : getn (hs (the_catalog h b) h) b = getn h b).
  { rewrite getn_hs. apply no_href_fix. apply wf_body. exact W. }
  destruct (Nat.eq_dec p b) as [->|Ne].
  - unfold h', set_kids in *. destruct (Nat.lt_ge_cases b (length h1)) as [L|L].
    + rewrite getn_setn_eq in * by exact L. cbn in *.
      exists b. split; [apply roots_subset; exact Hc|].
      destruct (Iv b) as [E|E]; rewrite E; [reflexivity|rewrite Hb; reflexivity].
    + rewrite setn_out in Hc by exact L. rewrite (getn_out h1 b L) in Hc. contradiction.
  - unfold h' in *. rewrite set_kids_other in * by exact Ne.
    destruct (Iv p) as [E|E]; rewrite E in *; [exists p; auto|].
    rewrite getn_hs in *. unfold repl_node in *.
    destruct (get_any NM_HREF (n_attrs (getn h p))) as [hr|] eqn:Eh; [|exists p; auto].
    destruct (cat_get (the_catalog h b) (a_val hr)) as [m|] eqn:Ec; [|exists p; auto].
    destruct (bare_refs_spec h b B p hr m Eh Ec) as [Ek Ea].
    cbn [n_kids n_attrs] in *. rewrite Ek in Hc. cbn in Hc.
    exists m. split; [exact Hc|].
    unfold get_ns in *.
    rewrite (find_remove_first_other _ _ _ href_not_aty).
    rewrite find_app_l, Ea.
    apply find_filter_keep. exact aty_not_id.
Qed.

Lemma processed_range : forall p c, In c (n_kids (getn h' p)) -> c < length h'.
Proof.
  intros p c Hc. destruct (parent_cases p c Hc) as (q & Hq & _).
  unfold h', set_kids. rewrite length_setn. destruct I1 as [-> _].
  eapply rangeb_spec; eauto.
Qed.

Lemma processed_cons : forall p1 p2 c, In c (n_kids (getn h' p1)) -> In c (n_kids (getn h' p2)) ->
  option_map type_attr (aty1 (n_attrs (getn h' p1))) = option_map type_attr (aty1 (n_attrs (getn h' p2))).
Proof.
  intros p1 p2 c H1 H2.
  destruct (parent_cases p1 c H1) as (q1 & Hq1 & E1).
  destruct (parent_cases p2 c H2) as (q2 & Hq2 & E2).
  pose proof (parents_unique_spec h P q1 q2 c Hq1 Hq2) as ->.
  unfold aty1. rewrite E1, E2. reflexivity.
Qed.

Lemma processed_heap_ok : heap_ok h' = true.
Proof.
  unfold heap_ok. apply andb_true_iff. split.
  - apply rangeb_complete. exact processed_range.
  - apply consb_complete. exact processed_cons.
Qed.

End Processed.

Lemma input_ok_parts : forall h b, input_ok h b = true ->
  wf_refs h b = true /\ body_top h b = true /\ rangeb h = true /\ parents_unique h = true /\ bare_refs h b = true.
Proof.
  intros h b H. unfold input_ok in H. do 4 (apply andb_true_iff in H as [H ?]). repeat split; assumption.
Qed.

(* input_ok b = true -> heap_ok (process b) = true *)
Lemma input_ok_heap_ok_l : forall fuel h b tb h',
  input_ok h b = true ->
  inline fuel (the_catalog h b) h b = Some tb ->
  process fuel h b = Some h' -> heap_ok h' = true.
Proof.
  intros fuel h b tb h' IO Hi Hp. destruct (input_ok_parts h b IO) as (W & _ & R & P & B).
  destruct fuel as [|f]; [discriminate|].
  destruct (process_shape f h b tb W Hi) as (h1 & Hp' & I1).
  rewrite Hp in Hp'. injection Hp' as ->.
  exact (processed_heap_ok h b h1 W R P B I1).
Qed.

(* the two theorems with the input-side hypothesis only *)
Lemma multiref_equiv_input_l : forall fuel Sc ret h b r tb,
  input_ok h b = true -> first_root_is h b r = true ->
  inline fuel (the_catalog h b) h b = Some tb ->
  get_reply fuel Sc ret h b = spec_reply fuel Sc ret h b r.
Proof.
  intros fuel Sc ret h b r tb IO FR Hi. destruct (input_ok_parts h b IO) as (W & BT & _).
  destruct fuel as [|f]; [discriminate|].
  destruct (process_shape f h b tb W Hi) as (h1 & Hp & _).
  eapply multiref_equiv_l; eauto. eapply input_ok_heap_ok_l; eauto.
Qed.

Lemma outline_invariant_input_l : forall fuel Sc ret h b r tb,
  input_ok h b = true -> first_root_is h b r = true ->
  outl (the_catalog h b) h tb b -> height tb <= fuel ->
  exists tr, outl (the_catalog h b) h tr r /\ In tr (t_kids tb) /\
             get_reply fuel Sc ret h b = decode_reply fuel Sc ret (Some (t_kids tr)).
Proof.
  intros fuel Sc ret h b r tb IO FR O L. destruct (input_ok_parts h b IO) as (W & BT & _).
  pose proof (wf_nochain h b W) as NC.
  pose proof (inline_mono _ _ NC _ _ _ _ L (outl_inline _ _ NC tb b O)) as Hi.
  destruct fuel as [|f]; [discriminate|].
  destruct (process_shape f h b tb W Hi) as (h1 & Hp & _).
  eapply outline_invariant_l; eauto. eapply input_ok_heap_ok_l; eauto.
Qed.
