(* C18 — composition: process + decode on the heap = inline + decode on trees;
   out-lined forms; dangling references; arrays. *)
From SV Require Import Lib.Base C18.Model C18.RefProofs C18.DecProofs.
From Coq Require Import Lia.
Arguments getn : simpl never.

(* ------------------------------------------------------------------ *)
(* the boolean guards mean what they say                               *)
(* ------------------------------------------------------------------ *)

Lemma forallb_getn : forall (p : node -> bool) h, p empty_node = true -> forallb p h = true -> forall n, p (getn h n) = true.
Proof.
  intros p h E F n. unfold getn. destruct (Nat.lt_ge_cases n (length h)) as [L|L].
  - rewrite forallb_forall in F. apply F. apply nth_In. exact L.
  - rewrite nth_overflow by exact L. exact E.
Qed.

Lemma cat_get_in : forall c k m, cat_get c k = Some m -> exists k', In (k', m) c.
Proof.
  induction c as [|[k' v] c IH]; cbn; intros k m H; [discriminate|].
  destruct (str_eqb k k').
  - injection H as <-. eauto.
  - destruct (IH _ _ H) as [k'' Hk]. eauto.
Qed.

Lemma wf_nochain : forall h b, wf_refs h b = true ->
  forall k m, cat_get (the_catalog h b) k = Some m -> no_href (getn h m) = true.
Proof.
  intros h b W k m H. unfold wf_refs in W.
  apply andb_true_iff in W as [W _]. apply andb_true_iff in W as [W _].
  destruct (cat_get_in _ _ _ H) as [k' Hk]. rewrite forallb_forall in W. exact (W _ Hk).
Qed.

Lemma wf_onehref : forall h b, wf_refs h b = true -> forall n, one_href (getn h n) = true.
Proof.
  intros h b W. unfold wf_refs in W.
  apply andb_true_iff in W as [W _]. apply andb_true_iff in W as [_ W].
  apply forallb_getn; [reflexivity|exact W].
Qed.

Lemma wf_body : forall h b, wf_refs h b = true -> no_href (getn h b) = true.
Proof. intros h b W. unfold wf_refs in W. apply andb_true_iff in W as [_ W]. exact W. Qed.

Lemma existsb_eqb_in : forall b l, existsb (Nat.eqb b) l = false -> ~ In b l.
Proof.
  intros b l E X. assert (existsb (Nat.eqb b) l = true); [|congruence].
  apply existsb_exists. exists b. split; [exact X|apply Nat.eqb_refl].
Qed.

Lemma body_top_spec : forall h b, body_top h b = true -> forall i, ~ In b (n_kids (getn h i)).
Proof.
  intros h b B i. unfold body_top in B.
  pose proof (forallb_getn (fun nd => negb (existsb (Nat.eqb b) (n_kids nd))) h eq_refl B i) as X.
  cbn in X. apply existsb_eqb_in. destruct (existsb (Nat.eqb b) (n_kids (getn h i))); [discriminate|reflexivity].
Qed.

Lemma rangeb_spec : forall h, rangeb h = true -> forall i c, In c (n_kids (getn h i)) -> c < length h.
Proof.
  intros h R i c Hc. unfold rangeb in R.
  pose proof (forallb_getn (fun nd => forallb (fun c => Nat.ltb c (length h)) (n_kids nd)) h eq_refl R i) as X.
  cbn in X. rewrite forallb_forall in X. apply Nat.ltb_lt. exact (X c Hc).
Qed.

Lemma qn_eqb_eq : forall a b, qn_eqb a b = true -> a = b.
Proof.
  intros [a1 a2] [b1 b2] H. unfold qn_eqb in H. cbn in H. apply andb_true_iff in H as [H1 H2].
  apply N.eqb_eq in H1, H2. congruence.
Qed.

Lemma attr_beq_eq : forall a b, attr_beq a b = true -> a = b.
Proof.
  intros [a1 a2 a3 a4] [b1 b2 b3 b4] H. unfold attr_beq in H. cbn in H.
  repeat (apply andb_true_iff in H as [H ?]).
  apply N.eqb_eq in H. apply N.eqb_eq in H2. apply str_eqb_eq in H1.
  assert (a4 = b4).
  { destruct a4, b4; cbn in H0; try discriminate; [|reflexivity]. f_equal. apply qn_eqb_eq. exact H0. }
  congruence.
Qed.

Lemma consb_spec : forall h, consb h = true -> forall p1 p2 c,
  In c (n_kids (getn h p1)) -> In c (n_kids (getn h p2)) ->
  has_type (n_attrs (getn h c)) = false ->
  option_map type_attr (aty1 (n_attrs (getn h p1))) = option_map type_attr (aty1 (n_attrs (getn h p2))).
Proof.
  intros h C p1 p2 c H1 H2 U. unfold consb in C.
  set (inner := fun p1 : node => forallb (fun c =>
      has_type (n_attrs (getn h c)) ||
      forallb (fun p2 : node =>
        negb (existsb (Nat.eqb c) (n_kids p2)) ||
        opt_eqb attr_beq (option_map type_attr (aty1 (n_attrs p1))) (option_map type_attr (aty1 (n_attrs p2)))) h)
      (n_kids p1)) in C.
  pose proof (forallb_getn inner h eq_refl C p1) as X. unfold inner in X.
  rewrite forallb_forall in X. specialize (X c H1). rewrite U in X. cbn in X.
  set (in2 := fun p2 : node => negb (existsb (Nat.eqb c) (n_kids p2)) ||
        opt_eqb attr_beq (option_map type_attr (aty1 (n_attrs (getn h p1)))) (option_map type_attr (aty1 (n_attrs p2)))) in X.
  assert (E0 : in2 empty_node = true) by reflexivity.
  pose proof (forallb_getn in2 h E0 X p2) as Y. unfold in2 in Y.
  assert (Ex : existsb (Nat.eqb c) (n_kids (getn h p2)) = true).
  { apply existsb_exists. exists c. split; [exact H2|apply Nat.eqb_refl]. }
  rewrite Ex in Y. cbn in Y.
  destruct (aty1 (n_attrs (getn h p1))), (aty1 (n_attrs (getn h p2))); cbn in *; try discriminate; [|reflexivity].
  f_equal. apply attr_beq_eq. exact Y.
Qed.

(* ------------------------------------------------------------------ *)
(* MultiRef.process                                                    *)
(* ------------------------------------------------------------------ *)

Lemma inline_S : forall f cat h n,
  inline (S f) cat h n =
  match all_some (map (inline f cat h) (n_kids (repl_node cat h (getn h n)))) with
  | None => None
  | Some ks => Some (T (n_ns (repl_node cat h (getn h n))) (n_name (repl_node cat h (getn h n)))
                       (n_attrs (repl_node cat h (getn h n))) (n_text (repl_node cat h (getn h n))) ks)
  end.
Proof. reflexivity. Qed.

Lemma repl_node_kids : forall cat h nd c, In c (n_kids (repl_node cat h nd)) ->
  In c (n_kids nd) \/ exists m, In c (n_kids (getn h m)).
Proof.
  intros cat h nd c H. unfold repl_node in H.
  destruct (get_any NM_HREF (n_attrs nd)); [|left; exact H].
  destruct (cat_get cat (a_val a)) as [m|]; [|left; exact H].
  cbn in H. apply in_app_or in H as [H|H]; [left; exact H|right; eauto].
Qed.

Lemma set_kids_other : forall h b ks i, i <> b -> getn (set_kids h b ks) i = getn h i.
Proof. intros. unfold set_kids. apply getn_setn_neq. assumption. Qed.

(* after process: the body keeps the roots, and below every body child the
   heap reads as the SPEC says *)
Lemma process_inline_l : forall f h b tb,
  wf_refs h b = true -> body_top h b = true ->
  inline (S f) (the_catalog h b) h b = Some tb ->
  exists h', process (S f) h b = Some h' /\
    n_kids (getn h' b) = the_roots h b /\
    forall r, In r (n_kids (getn h b)) ->
      exists tr, inline f (the_catalog h b) h r = Some tr /\ unfold f h' r = Some tr.
Proof.
  intros f h b tb W B Hi.
  set (cat := the_catalog h b) in *.
  pose proof (wf_nochain h b W) as NC. fold cat in NC.
  pose proof (wf_onehref h b W) as OH.
  destruct (update_inline cat h NC OH (S f) b tb Hi) as (h1 & Eu & I1 & C1 & U1).
  unfold process. fold (the_catalog h b) (the_roots h b). fold cat. rewrite Eu.
  exists (set_kids h1 b (the_roots h b)). split; [reflexivity|].
  assert (Hb : getn (hs cat h) b = getn h b).
  { rewrite getn_hs. apply no_href_fix. apply wf_body. exact W. }
  split.
  - unfold set_kids. destruct (Nat.lt_ge_cases b (length h1)) as [L|L].
    + rewrite getn_setn_eq by exact L. reflexivity.
    + rewrite setn_out by exact L. destruct I1 as [Len _].
      assert (Eb : getn h b = empty_node) by (apply getn_out; lia).
      rewrite (getn_out h1 b L). unfold the_roots. rewrite Eb. reflexivity.
  - intros r Hr.
    assert (NB : forall i, ~ In b (n_kids (getn (hs cat h) i))).
    { intros i X. rewrite getn_hs in X. apply repl_node_kids in X as [X|[m X]];
        eapply (body_top_spec h b B); eauto. }
    assert (Ne : r <> b) by (intros ->; exact (body_top_spec h b B b Hr)).
    cbn [closed] in C1. destruct C1 as [_ C1]. rewrite Hb in C1. rewrite Forall_forall in C1.
    pose proof (closed_setn_other cat h f h1 b
                  (mkN (n_ns (getn h1 b)) (n_name (getn h1 b)) (n_attrs (getn h1 b)) (n_text (getn h1 b)) (the_roots h b))
                  r NB Ne (C1 r Hr)) as C2.
    fold (set_kids h1 b (the_roots h b)) in C2.
    rewrite inline_S in Hi. fold cat in Hi.
    replace (repl_node cat h (getn h b)) with (getn h b) in Hi by (symmetry; apply no_href_fix; apply wf_body; exact W).
    destruct (all_some (map (inline f cat h) (n_kids (getn h b)))) as [ks|] eqn:Eks; [|discriminate].
    destruct (all_some_some _ _ _ Eks r Hr) as [tr Htr].
    exists tr. split; [exact Htr|].
    rewrite (closed_unfold cat h f _ r C2). rewrite <- (inline_unfold_hs cat h). exact Htr.
Qed.

Lemma inline_mono : forall cat h,
  (forall k m, cat_get cat k = Some m -> no_href (getn h m) = true) ->
  forall f f' n t, f <= f' -> inline f cat h n = Some t -> inline f' cat h n = Some t.
Proof.
  intros cat h NC f f' n t L H. rewrite inline_unfold_hs in *. eapply unfold_mono_le; eauto.
Qed.

Lemma all_some_hd : forall {A B} (f : A -> option B) x l r, all_some (map f (x :: l)) = Some r ->
  exists y r', r = y :: r' /\ f x = Some y.
Proof.
  intros A B f x l r H. cbn in H. destruct (f x); [|discriminate].
  destruct (all_some (map f l)); [|discriminate]. injection H as <-. eauto.
Qed.

(* the whole of Binding.get_reply against the SPEC *)
Lemma multiref_equiv_l : forall fuel Sc ret h b r tb h',
  wf_refs h b = true -> body_top h b = true -> first_root_is h b r = true ->
  inline fuel (the_catalog h b) h b = Some tb ->
  process fuel h b = Some h' -> heap_ok h' = true ->
  get_reply fuel Sc ret h b = spec_reply fuel Sc ret h b r.
Proof.
  intros fuel Sc ret h b r tb h' W B FR Hi Hp OK.
  destruct fuel as [|f]; [discriminate|].
  destruct (process_inline_l f h b tb W B Hi) as (h'' & Hp' & Hk & Hr).
  rewrite Hp in Hp'. injection Hp' as <-.
  unfold get_reply. rewrite Hp. unfold reply_nodes. rewrite Hk.
  unfold first_root_is in FR.
  destruct (the_roots h b) as [|x roots] eqn:Er; [discriminate|].
  apply Nat.eqb_eq in FR. subst x.
  assert (Rin : In r (n_kids (getn h b))).
  { assert (G : forall kids roots0 cat0, In r (fst (build_catalog h kids roots0 cat0)) -> In r roots0 \/ In r kids).
    { induction kids as [|c kids IH]; intros roots0 cat0 X; cbn in X; [left; exact X|].
      apply IH in X as [X|X]; [|right; right; exact X].
      destruct (soaproot (getn h c)); [|left; exact X].
      apply in_app_or in X as [X|[->|[]]]; [left; exact X|right; left; reflexivity]. }
    unfold the_roots in Er. destruct (G (n_kids (getn h b)) [] []) as [[]|X]; [rewrite Er; left; reflexivity|exact X]. }
  destruct (Hr r Rin) as (tr & Hitr & Hutr).
  pose proof (wf_nochain h b W) as NC.
  unfold spec_reply, inline_reply.
  rewrite (inline_mono _ _ NC f (S f) r tr (Nat.le_succ_diag_r f) Hitr).
  unfold decode_reply.
  (* the first child of the response element, on both sides *)
  destruct f as [|f]; [discriminate|].
  rewrite unfold_S in Hutr.
  destruct (all_some (map (unfold f h') (n_kids (getn h' r)))) as [ks|] eqn:Eks; [|discriminate].
  injection Hutr as <-. cbn [t_kids].
  destruct (n_kids (getn h' r)) as [|n kids] eqn:Ekr.
  - cbn in Eks. injection Eks as <-. reflexivity.
  - destruct (all_some_hd _ _ _ _ Eks) as (tn & ks' & -> & Hn).
    destruct (root_decl Sc ret) as [d|]; [|reflexivity].
    apply andb_true_iff in OK as [R C].
    apply (dech_unfold Sc h' (rangeb_spec h' R) (consb_spec h' C)).
    eapply unfold_mono_le; [|exact Hn]. lia.
Qed.

(* ------------------------------------------------------------------ *)
(* out-lined forms                                                     *)
(* ------------------------------------------------------------------ *)

Section TreeInd.
Variable P : tree -> Prop.
Hypothesis step : forall ns nm attrs tx ks, Forall P ks -> P (T ns nm attrs tx ks).
Fixpoint tree_ind2 (t : tree) : P t :=
  match t with
  | T ns nm attrs tx ks =>
      step ns nm attrs tx ks
        ((fix go (l : list tree) : Forall P l :=
            match l with
            | [] => Forall_nil P
            | x :: r => Forall_cons x (tree_ind2 x) (go r)
            end) ks)
  end.
End TreeInd.

Definition outl_list (cat : catalog) (h : heap) : list tree -> list nat -> Prop :=
  fix go (ts : list tree) (cs : list nat) {struct ts} : Prop :=
    match ts, cs with
    | [], [] => True
    | t' :: ts', c :: cs' => outl cat h t' c /\ go ts' cs'
    | _, _ => False
    end.

Lemma outl_unfold : forall cat h ns nm attrs tx ks n,
  outl cat h (T ns nm attrs tx ks) n =
  (n_ns (getn h n) = ns /\ n_name (getn h n) = nm /\
   ((get_any NM_HREF (n_attrs (getn h n)) = None /\ n_attrs (getn h n) = attrs /\ n_text (getn h n) = tx /\
     outl_list cat h ks (n_kids (getn h n)))
    \/
    (exists hr m, n_attrs (getn h n) = [hr] /\ a_name hr = NM_HREF /\ n_kids (getn h n) = [] /\
                  cat_get cat (a_val hr) = Some m /\
                  attrs = filter (fun a => negb (is_named NM_ID a)) (n_attrs (getn h m)) /\
                  tx = n_text (getn h m) /\ outl_list cat h ks (n_kids (getn h m))))).
Proof. reflexivity. Qed.

Definition kmax (ks : list tree) : nat := fold_right (fun k m => Nat.max (height k) m) O ks.

Lemma height_kid : forall ks k, In k ks -> height k <= kmax ks.
Proof.
  induction ks as [|x ks IH]; intros k H; [contradiction|]. unfold kmax in *. cbn.
  destruct H as [->|H]; [lia|]. specialize (IH k H). lia.
Qed.

Lemma outl_list_inline : forall cat h f,
  (forall k m, cat_get cat k = Some m -> no_href (getn h m) = true) ->
  forall ks cs,
    Forall (fun t => forall n, outl cat h t n -> inline (height t) cat h n = Some t) ks ->
    kmax ks <= f -> outl_list cat h ks cs ->
    all_some (map (inline f cat h) cs) = Some ks.
Proof.
  intros cat h f NC. induction ks as [|t ks IH]; intros cs F L O; destruct cs as [|c cs]; cbn in O; try contradiction.
  - reflexivity.
  - destruct O as [O1 O2]. inversion F as [|? ? F1 F2]; subst.
    cbn. rewrite (inline_mono cat h NC (height t) f c t); [|unfold kmax in L; cbn in L; lia|auto].
    rewrite (IH cs F2); auto. unfold kmax in *. cbn in L. lia.
Qed.

(* an out-lined form of t inlines to t *)
Lemma outl_inline : forall cat h,
  (forall k m, cat_get cat k = Some m -> no_href (getn h m) = true) ->
  forall t n, outl cat h t n -> inline (height t) cat h n = Some t.
Proof.
  intros cat h NC. induction t as [ns nm attrs tx ks IH] using tree_ind2. intros n O.
  rewrite outl_unfold in O. destruct O as (Ens & Enm & [(Eh & Ea & Et & Ok)|(hr & m & Ea & Ehn & Ek & Ec & Eattrs & Etx & Ok)]).
  - cbn [height]. fold (kmax ks). rewrite inline_S.
    assert (R : repl_node cat h (getn h n) = getn h n) by (unfold repl_node; rewrite Eh; reflexivity).
    rewrite R. rewrite (outl_list_inline cat h (kmax ks) NC ks _ IH (le_n _) Ok).
    rewrite Ens, Enm, Ea, Et. reflexivity.
  - cbn [height]. fold (kmax ks). rewrite inline_S.
    assert (Eg : get_any NM_HREF (n_attrs (getn h n)) = Some hr).
    { rewrite Ea. unfold get_any, is_named. cbn. rewrite Ehn. reflexivity. }
    assert (R : repl_node cat h (getn h n) =
                mkN (n_ns (getn h n)) (n_name (getn h n)) attrs tx (n_kids (getn h m))).
    { unfold repl_node. rewrite Eg, Ec. rewrite Ea, Ek. cbn [app].
      cbn [remove_first]. unfold is_named at 1. rewrite Ehn. cbn [N.eqb NM_HREF Pos.eqb].
      rewrite <- Eattrs, <- Etx. reflexivity. }
    rewrite R. cbn [n_kids n_ns n_name n_attrs n_text].
    rewrite (outl_list_inline cat h (kmax ks) NC ks _ IH (le_n _) Ok).
    rewrite Ens, Enm. reflexivity.
Qed.

Lemma outline_invariant_l : forall fuel Sc ret h b r tb h',
  wf_refs h b = true -> body_top h b = true -> first_root_is h b r = true ->
  outl (the_catalog h b) h tb b -> height tb <= fuel ->
  process fuel h b = Some h' -> heap_ok h' = true ->
  exists tr, outl (the_catalog h b) h tr r /\ In tr (t_kids tb) /\
             get_reply fuel Sc ret h b = decode_reply fuel Sc ret (Some (t_kids tr)).
Proof.
  intros fuel Sc ret h b r tb h' W B FR O L Hp OK.
  pose proof (wf_nochain h b W) as NC.
  pose proof (outl_inline _ _ NC tb b O) as Hi.
  pose proof (inline_mono _ _ NC _ _ _ _ L Hi) as Hi'.
  rewrite (multiref_equiv_l fuel Sc ret h b r tb h' W B FR Hi' Hp OK).
  (* the response element inside the body tree *)
  destruct tb as [bns bnm battrs btx bks]. rewrite outl_unfold in O.
  destruct O as (_ & _ & [(_ & _ & _ & Ok)|(hr & m & Ea & Ehn & _)]).
  2:{ pose proof (wf_body h b W) as X. unfold no_href, get_any in X. rewrite Ea in X. cbn in X.
      unfold is_named in X. rewrite Ehn in X. cbn in X. discriminate. }
  assert (Rin : In r (n_kids (getn h b))).
  { unfold first_root_is in FR. destruct (the_roots h b) as [|x roots] eqn:Er; [discriminate|].
    apply Nat.eqb_eq in FR. subst x.
    assert (G : forall kids roots0 cat0, In r (fst (build_catalog h kids roots0 cat0)) -> In r roots0 \/ In r kids).
    { induction kids as [|c kids IH]; intros roots0 cat0 X; cbn in X; [left; exact X|].
      apply IH in X as [X|X]; [|right; right; exact X].
      destruct (soaproot (getn h c)); [|left; exact X].
      apply in_app_or in X as [X|[->|[]]]; [left; exact X|right; left; reflexivity]. }
    unfold the_roots in Er. destruct (G (n_kids (getn h b)) [] []) as [[]|X]; [rewrite Er; left; reflexivity|exact X]. }
  assert (G : forall ts cs, outl_list (the_catalog h b) h ts cs -> In r cs ->
                exists tr, In tr ts /\ outl (the_catalog h b) h tr r).
  { induction ts as [|t ts IH]; intros cs Ol Hin; destruct cs as [|c cs]; cbn in Ol; try contradiction.
    destruct Ol as [O1 O2]. destruct Hin as [->|Hin]; [exists t; split; [left; reflexivity|exact O1]|].
    destruct (IH cs O2 Hin) as (tr & A & Bq). exists tr. split; [right; exact A|exact Bq]. }
  destruct (G bks _ Ok Rin) as (tr & Htr & Otr).
  exists tr. split; [exact Otr|split; [exact Htr|]].
  unfold spec_reply, inline_reply.
  pose proof (outl_inline _ _ NC tr r Otr) as Hir.
  rewrite (inline_mono _ _ NC (height tr) fuel r tr); [reflexivity| |exact Hir].
  pose proof (height_kid bks tr Htr). cbn [height] in L. fold (kmax bks) in L. lia.
Qed.

(* ------------------------------------------------------------------ *)
(* dangling references, arrays                                         *)
(* ------------------------------------------------------------------ *)

(* an href nobody answers: the SPEC (and, by the theorems above, the code)
   leaves exactly that element as it is written, its own children inlined *)
Lemma dangling_href_local_l : forall cat h n hr f,
  get_any NM_HREF (n_attrs (getn h n)) = Some hr -> cat_get cat (a_val hr) = None ->
  repl_node cat h (getn h n) = getn h n /\
  inline (S f) cat h n =
  match all_some (map (inline f cat h) (n_kids (getn h n))) with
  | None => None
  | Some ks => Some (T (n_ns (getn h n)) (n_name (getn h n)) (n_attrs (getn h n)) (n_text (getn h n)) ks)
  end.
Proof.
  intros cat h n hr f Eh Ec.
  assert (R : repl_node cat h (getn h n) = getn h n) by (unfold repl_node; rewrite Eh, Ec; reflexivity).
  split; [exact R|]. rewrite inline_S, R. reflexivity.
Qed.

(* such an element, when it has nothing but the href, decodes to an object
   that carries the reference and nothing else *)
Lemma dangling_decodes_l : forall f Sc ns nm hr cx d real,
  a_ns hr = NS_NONE -> a_name hr = NM_HREF ->
  start Sc cx (tnode (T ns nm [hr] None [])) = Some (d, real) ->
  dect (Datatypes.S f) Sc (T ns nm [hr] None []) cx =
  DOk (PObj (match t_cls real with Some c => c | None => nm end) [((true, NM_HREF), PText (a_val hr))]).
Proof.
  intros f Sc ns nm hr cx d real Ens Enm Est. rewrite dect_S. cbv zeta.
  assert (Eg : get_ns NM_ATY NS_ENC [hr] = None).
  { unfold get_ns, is_attr. cbn. rewrite Ens. cbn. rewrite andb_false_r. reflexivity. }
  rewrite Eg. rewrite Est. cbn [tfold_kids].
  unfold post. cbn [tnode n_kids n_text n_attrs n_name map].
  assert (Er : real_attrs [hr] = [hr]).
  { unfold real_attrs, skip_attr. cbn. rewrite Ens. reflexivity. }
  unfold attrs_data. rewrite Er. cbn. rewrite Enm. reflexivity.
Qed.

Lemma promote_nolist : forall data, Forall (fun kv => match snd kv with PList _ => False | _ => True end) data ->
  promote data = PList [].
Proof.
  induction data as [|[k v] data IH]; intros F; [reflexivity|].
  inversion F as [|? ? F1 F2]; subst. cbn in *. destruct v; try contradiction; auto.
Qed.

Lemma oset_nolist : forall data k s,
  Forall (fun kv => match snd kv with PList _ => False | _ => True end) data ->
  Forall (fun kv => match snd kv with PList _ => False | _ => True end) (oset data k (PText s)).
Proof.
  induction data as [|[k' v'] data IH]; intros k s F; cbn.
  - constructor; [exact I|constructor].
  - inversion F as [|? ? F1 F2]; subst. destruct (key_eqb k k'); constructor; cbn; auto.
Qed.

Lemma attrs_data_nolist : forall l,
  Forall (fun kv => match snd kv with PList _ => False | _ => True end) (attrs_data l).
Proof.
  intros l. unfold attrs_data. generalize (real_attrs l). intros r.
  assert (G : forall r d, Forall (fun kv => match snd kv with PList _ => False | _ => True end) d ->
            Forall (fun kv => match snd kv with PList _ => False | _ => True end)
                   (fold_left (fun d a => oset d (true, a_name a) (PText (a_val a))) r d)).
  { induction r0 as [|a r0 IH]; intros d F; cbn; [exact F|]. apply IH. apply oset_nolist. exact F. }
  apply G. constructor.
Qed.

(* an element with an arrayType attribute and no children is the empty list *)
Lemma empty_array_l : forall f Sc ns nm attrs tx cx a d real,
  get_ns NM_ATY NS_ENC attrs = Some a ->
  start Sc cx (tnode (T ns nm attrs tx [])) = Some (d, real) ->
  dect (Datatypes.S f) Sc (T ns nm attrs tx []) cx = DOk (PList []).
Proof.
  intros f Sc ns nm attrs tx cx a d real Ea Est. rewrite dect_S. cbv zeta. rewrite Ea.
  assert (K : (if one_dim a then map (tadd_type a) [] else []) = @nil tree) by (destruct (one_dim a); reflexivity).
  rewrite K. rewrite Est. cbn [tfold_kids]. unfold post.
  rewrite (promote_nolist _ (attrs_data_nolist attrs)). reflexivity.
Qed.

(* an item without xsi:type of its own is started with the type arrayType names *)
Lemma array_items_typed_l : forall Sc a q te k preal d,
  a_q a = Some q -> lookup Sc q = Some te -> has_type (t_attrs k) = false ->
  get_child Sc preal (t_name k) = Some d ->
  start Sc (CChild preal) (tnode (tadd_type a k)) = Some (d, te).
Proof.
  intros Sc a q te k preal d Eq El U Eg. destruct k as [ns nm attrs tx ks]. cbn in *.
  unfold start. cbn. rewrite Eg. unfold known, add_type. rewrite U.
  unfold get_ns. rewrite find_app_l.
  unfold has_type, get_ns in U. destruct (find (is_attr NM_TYPE NS_XSI) attrs); [discriminate|].
  cbn. rewrite Eq, El. reflexivity.
Qed.

(* ------------------------------------------------------------------ *)
(* an array decodes to the list of its items                           *)
(* ------------------------------------------------------------------ *)

Definition nolist (data : fields) : Prop :=
  Forall (fun kv => match snd kv with PList _ => False | _ => True end) data.
Definition attrkeys (data : fields) : Prop := Forall (fun kv => fst (fst kv) = true) data.

Lemma oget_attrkeys : forall data nm, attrkeys data -> oget data (false, nm) = None.
Proof.
  induction data as [|[[b k] v] data IH]; intros nm F; [reflexivity|].
  inversion F as [|? ? F1 F2]; subst. cbn in F1. subst b. cbn. apply IH. exact F2.
Qed.

Lemma oset_absent : forall data k v, oget data k = None -> oset data k v = data ++ [(k, v)].
Proof.
  induction data as [|[k' v'] data IH]; intros k v H; [reflexivity|].
  cbn in *. destruct (key_eqb k k'); [discriminate|]. f_equal. apply IH. exact H.
Qed.

Lemma key_eqb_refl : forall k, key_eqb k k = true.
Proof. intros [b n]. unfold key_eqb. cbn. rewrite Bool.eqb_reflx, N.eqb_refl. reflexivity. Qed.

Lemma oget_last : forall data k v, oget data k = None -> oget (data ++ [(k, v)]) k = Some v.
Proof.
  induction data as [|[k' v'] data IH]; intros k v H; cbn in *.
  - rewrite key_eqb_refl. reflexivity.
  - destruct (key_eqb k k'); [discriminate|]. apply IH. exact H.
Qed.

Lemma oset_last : forall data k v v', oget data k = None -> oset (data ++ [(k, v)]) k v' = data ++ [(k, v')].
Proof.
  induction data as [|[k' w] data IH]; intros k v v' H; cbn in *.
  - rewrite key_eqb_refl. reflexivity.
  - destruct (key_eqb k k'); [discriminate|]. f_equal. apply IH. exact H.
Qed.

Lemma promote_last : forall data k l, nolist data -> promote (data ++ [(k, PList l)]) = PList l.
Proof.
  induction data as [|[k' v] data IH]; intros k l F; [reflexivity|].
  inversion F as [|? ? F1 F2]; subst. cbn in *. destruct v; try contradiction; auto.
Qed.

Lemma oset_attrkeys : forall data nm v, attrkeys data -> attrkeys (oset data (true, nm) v).
Proof.
  unfold attrkeys. induction data as [|[k' v'] data IH]; intros nm v F; cbn.
  - constructor; [reflexivity|constructor].
  - inversion F as [|? ? F1 F2]; subst. destruct (key_eqb (true, nm) k').
    + constructor; [exact F1|exact F2].
    + constructor; [exact F1|apply IH; exact F2].
Qed.

Lemma attrs_data_attrkeys : forall l, attrkeys (attrs_data l).
Proof.
  intros l. unfold attrs_data. generalize (real_attrs l). intros r.
  assert (G : forall r d, attrkeys d -> attrkeys (fold_left (fun d a => oset d (true, a_name a) (PText (a_val a))) r d)).
  { induction r0 as [|a r0 IH]; intros d F; cbn; [exact F|]. apply IH. apply oset_attrkeys. exact F. }
  apply G. constructor.
Qed.

(* items after the first: appended to the list under the items' name *)
Lemma array_tail : forall step info inm data0 ks acc vs,
  oget data0 (false, inm) = None ->
  (forall k, In k ks -> info k = (inm, true)) ->
  Forall2 (fun k v => step k = DOk v) ks vs ->
  tfold_kids step info ks (data0 ++ [((false, inm), PList acc)]) = inl (data0 ++ [((false, inm), PList (acc ++ vs))]).
Proof.
  intros step info inm data0. induction ks as [|k ks IH]; intros acc vs H0 Hi F; inversion F as [|? v ? vs' Fk Fr]; subst.
  - cbn. rewrite app_nil_r. reflexivity.
  - cbn [tfold_kids]. rewrite Fk. rewrite (Hi k (or_introl eq_refl)).
    unfold add_child. rewrite (oget_last _ _ _ H0). rewrite (oset_last _ _ _ _ H0).
    specialize (IH (acc ++ [v]) vs' H0 (fun k' Hk' => Hi k' (or_intror Hk')) Fr).
    rewrite <- app_assoc in IH. exact IH.
Qed.

(* An element with a one-dimensional arrayType whose real type is an array
   (children are the wildcard), with at least one item, all items under one
   name, none decoding to None: the result is the list of the items' values,
   each decoded with xsi:type = the arrayType's type where it has none. *)
Lemma array_is_list_l : forall f Sc ns nm attrs tx ks cx a d real inm vs,
  aty1 attrs = Some a ->
  start Sc cx (tnode (T ns nm attrs tx (map (tadd_type a) ks))) = Some (d, real) ->
  (t_def real = DArray \/ t_def real = DAny) ->
  ks <> [] -> (forall k, In k ks -> t_name k = inm) ->
  Forall2 (fun k v => dect f Sc (tadd_type a k) (CChild real) = DOk v /\ v <> PNone) ks vs ->
  dect (Datatypes.S f) Sc (T ns nm attrs tx ks) cx = DOk (PList vs).
Proof.
  intros f Sc ns nm attrs tx ks cx a d real inm vs Ea Est Hreal Hne Hnm F.
  rewrite dect_S. cbv zeta. unfold aty1 in Ea.
  destruct (get_ns NM_ATY NS_ENC attrs) as [a0|] eqn:Eg; [|discriminate].
  destruct (one_dim a0) eqn:Eo; [|discriminate]. injection Ea as ->.
  rewrite Est.
  assert (Multi : forall x, match get_child Sc real x with Some dc => d_multi dc | None => false end = true).
  { intros x. unfold get_child. destruct Hreal as [-> | ->]; reflexivity. }
  assert (Tn : forall k, t_name (tadd_type a k) = t_name k) by (intros [? ? ? ? ?]; reflexivity).
  destruct ks as [|k ks]; [congruence|]. inversion F as [|? v ? vs' [Fk Nk] Fr]; subst.
  cbn [map tfold_kids]. rewrite Fk. rewrite Tn, Multi.
  pose proof (oget_attrkeys _ (t_name k) (attrs_data_attrkeys attrs)) as H0.
  unfold add_child. rewrite H0.
  assert (E1 : oset (attrs_data attrs) (false, t_name k) (PList [v]) = attrs_data attrs ++ [((false, t_name k), PList [v])]).
  { apply oset_absent. exact H0. }
  replace (match v with PNone => oset (attrs_data attrs) (false, t_name k) (PList []) | _ => oset (attrs_data attrs) (false, t_name k) (PList [v]) end)
    with (attrs_data attrs ++ [((false, t_name k), PList [v])]) by (destruct v; try congruence; symmetry; exact E1).
  rewrite (array_tail _ _ (t_name k) (attrs_data attrs) (map (tadd_type a) ks) [v] vs' H0).
  - unfold post. rewrite (promote_last _ _ _ (attrs_data_nolist attrs)). reflexivity.
  - intros k' Hk'. apply in_map_iff in Hk' as (k0 & <- & Hk0). rewrite Tn, Multi.
    rewrite (Hnm k0 (or_intror Hk0)), (Hnm k (or_introl eq_refl)). reflexivity.
  - clear -Fr. induction Fr as [|x y l l' [Hx _] Fr IH]; cbn; constructor; auto.
Qed.
