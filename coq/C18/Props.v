(* C18 — Referenced (multiref) content decodes exactly like inlined content.
   Property theorems only: each is closed by `exact` of a lemma proved in
   RefProofs / DecProofs / MainProofs and followed by Print Assumptions.

   Reading guide.  A reply body is a heap `h` of nodes with the Body at `b`;
   `get_reply` is the model of Binding.get_reply (MultiRef.process on the heap,
   RPC.replycontent, the Encoded unmarshaller writing xsi:type onto possibly
   shared children); `inline` is the SPEC "every reference replaced by the
   referenced content" as a pure tree, `dect`/`decode_reply` the decoding of a
   pure tree, `spec_reply` = inline the response element r, then decode.
   Fuel only bounds recursion depth: every statement holds for ALL fuels for
   which the SPEC side is defined (= the reference graph is acyclic within that
   depth); `fuel_suffices` gives the bound from any rank function. *)
From Coq Require Import Lia.
From SV Require Import Lib.Base C18.Model C18.RefProofs C18.DecProofs C18.MainProofs C18.InputProofs C18.Outline C18.OutlineProofs C18.Prefix C18.PrefixProofs.

(* ------------------------------------------------------------------ *)
(* 1. MultiRef.process realises the SPEC on the heap                   *)
(* ------------------------------------------------------------------ *)

(* For every reply body whose referenced elements are not themselves references
   (wf_refs) — any number of references, any sharing, any nesting depth, any
   order of the independent elements, dangling hrefs allowed — process
   terminates, leaves the roots as the Body's children, and below EVERY body
   child the mutated heap unfolds to exactly the tree `inline` describes. *)
Theorem process_realises_inline : forall f h b tb,
  wf_refs h b = true -> body_top h b = true ->
  inline (S f) (the_catalog h b) h b = Some tb ->
  exists h', process (S f) h b = Some h' /\
    n_kids (getn h' b) = the_roots h b /\
    forall r, In r (n_kids (getn h b)) ->
      exists tr, inline f (the_catalog h b) h r = Some tr /\ unfold f h' r = Some tr.
Proof. exact process_inline_l. Qed.
Print Assumptions process_realises_inline.

(* ------------------------------------------------------------------ *)
(* 2. decoding on the heap = decoding the unfolded tree                *)
(* ------------------------------------------------------------------ *)

(* Encoded.applyaty mutates children that several referrers may share.  On any
   heap whose shared untyped children get the same type from all their array
   parents (consb) the heap decoder returns what the pure decoder returns on
   the unfolded tree, for every node, context and depth. *)
Theorem decode_heap_is_decode_tree : forall Sc h,
  (forall i c, In c (n_kids (getn h i)) -> c < length h) ->
  (forall p1 p2 c, In c (n_kids (getn h p1)) -> In c (n_kids (getn h p2)) ->
     has_type (n_attrs (getn h c)) = false ->
     option_map type_attr (aty1 (n_attrs (getn h p1))) = option_map type_attr (aty1 (n_attrs (getn h p2)))) ->
  forall f n t cx, unfold f h n = Some t -> snd (dech f Sc h n cx) = dect f Sc t cx.
Proof. exact dech_unfold. Qed.
Print Assumptions decode_heap_is_decode_tree.

(* ------------------------------------------------------------------ *)
(* 3. the property                                                     *)
(* ------------------------------------------------------------------ *)

(* input_ok h b: ONE boolean function of the reply as parsed (Model.v):
   referenced elements are no references themselves, one href per element, the
   Body refers to nothing and is nobody's child, child ids are nodes of the
   heap, every node has one parent (a tree-shaped document), and an element
   whose href is answered is a bare referrer (no children, no arrayType of its
   own).  It implies the condition on the PROCESSED heap that
   decode_heap_is_decode_tree needs: what process adds to a tree is only the
   sharing of referenced children, and all nodes sharing a child then read the
   same arrayType. *)
Theorem input_ok_heap_ok : forall fuel h b tb h',
  input_ok h b = true ->
  inline fuel (the_catalog h b) h b = Some tb ->
  process fuel h b = Some h' -> heap_ok h' = true.
Proof. exact input_ok_heap_ok_l. Qed.
Print Assumptions input_ok_heap_ok.

(* The full statement "for every body, get_reply = spec_reply" is FALSE of the
   faithful model: see unmarked_before_response_refuted below.  Guarded form
   (the _partial form of the brief): the response element r is the first
   serialization root, i.e. every independent element placed before it is
   marked SOAP-ENC:root other than '1'.  All hypotheses are about the reply as
   parsed; the third only says that the reference graph is acyclic within the
   fuel (fuel_suffices). *)
Theorem multiref_equiv : forall fuel Sc ret h b r tb,
  input_ok h b = true -> first_root_is h b r = true ->
  inline fuel (the_catalog h b) h b = Some tb ->
  get_reply fuel Sc ret h b = spec_reply fuel Sc ret h b r.
Proof. exact multiref_equiv_input_l. Qed.
Print Assumptions multiref_equiv.

(* the more general form it follows from: any body (referrers need not be
   bare, the document need not be a tree) whose processed heap is heap_ok *)
Theorem multiref_equiv_processed : forall fuel Sc ret h b r tb h',
  wf_refs h b = true -> body_top h b = true -> first_root_is h b r = true ->
  inline fuel (the_catalog h b) h b = Some tb ->
  process fuel h b = Some h' -> heap_ok h' = true ->
  get_reply fuel Sc ret h b = spec_reply fuel Sc ret h b r.
Proof. exact multiref_equiv_l. Qed.
Print Assumptions multiref_equiv_processed.

(* `outl cat h t n`: node n is t written with ANY subset of its values out of
   line (bare href referrers to catalogued elements, shared or not, nested to
   any depth, any id spelling).  Every such form inlines back to t ... *)
Theorem outlined_inlines_back : forall cat h,
  (forall k m, cat_get cat k = Some m -> no_href (getn h m) = true) ->
  forall t n, outl cat h t n -> inline (height t) cat h n = Some t.
Proof. exact outl_inline. Qed.
Print Assumptions outlined_inlines_back.

(* ... and the client returns the decoding of the in-line reply `tr` that the
   body out-lines, whatever the out-lining. *)
Theorem outline_invariant : forall fuel Sc ret h b r tb,
  input_ok h b = true -> first_root_is h b r = true ->
  outl (the_catalog h b) h tb b -> height tb <= fuel ->
  exists tr, outl (the_catalog h b) h tr r /\ In tr (t_kids tb) /\
             get_reply fuel Sc ret h b = decode_reply fuel Sc ret (Some (t_kids tr)).
Proof. exact outline_invariant_input_l. Qed.
Print Assumptions outline_invariant.

(* The constructive form.  `outline c t` (Outline.v) WRITES the Body for the
   in-line response element t: the choices c say, per occurrence (by path),
   in line / out of line / out of line sharing the independent element of an
   equal value written before, and how ids are spelt; independent elements
   follow the response element.  For ALL choices with an injective id spelling
   and ALL in-line replies without id/href/SOAP-ENC:root attributes: the Body
   satisfies input_ok, the response element is its first root, it out-lines t
   in the sense of `outl`, and the client returns decode t. *)
Theorem outline_constructive : forall c t fuel Sc ret,
  (forall i j, ch_spell c i = ch_spell c j -> i = j) -> plainT t = true -> S (height t) <= fuel ->
  let '(h, b, r) := outline c t in
  input_ok h b = true /\ first_root_is h b r = true /\ outl (the_catalog h b) h t r /\
  get_reply fuel Sc ret h b = decode_reply fuel Sc ret (Some (t_kids t)).
Proof. exact outline_correct_l. Qed.
Print Assumptions outline_constructive.

(* fuel suffices: any rank decreasing along children bounds the depth *)
Theorem fuel_suffices : forall (h : heap) (rk : nat -> nat),
  (forall n c, In c (n_kids (getn h n)) -> rk c < rk n) ->
  forall f n, rk n < f -> unfold f h n <> None.
Proof. exact unfold_rank. Qed.
Print Assumptions fuel_suffices.

(* ------------------------------------------------------------------ *)
(* 4. dangling references                                              *)
(* ------------------------------------------------------------------ *)

(* An href nobody answers: replace_references leaves exactly that element as
   written (the SPEC tree keeps it, with its own children inlined); since
   process_realises_inline / multiref_equiv assume nothing about hrefs being
   answered, every other element is resolved as if it were not there. *)
Theorem dangling_href_local : forall cat h n hr f,
  get_any NM_HREF (n_attrs (getn h n)) = Some hr -> cat_get cat (a_val hr) = None ->
  repl_node cat h (getn h n) = getn h n /\
  inline (S f) cat h n =
  match all_some (map (inline f cat h) (n_kids (getn h n))) with
  | None => None
  | Some ks => Some (T (n_ns (getn h n)) (n_name (getn h n)) (n_attrs (getn h n)) (n_text (getn h n)) ks)
  end.
Proof. exact dangling_href_local_l. Qed.
Print Assumptions dangling_href_local.

(* ... and a bare unresolved reference decodes to an object carrying only _href *)
Theorem dangling_decodes_to_href_object : forall f Sc ns nm hr cx d real,
  a_ns hr = NS_NONE -> a_name hr = NM_HREF ->
  start Sc cx (tnode (T ns nm [hr] None [])) = Some (d, real) ->
  dect (S f) Sc (T ns nm [hr] None []) cx =
  DOk (PObj (match t_cls real with Some c => c | None => nm end) [((true, NM_HREF), PText (a_val hr))]).
Proof. exact dangling_decodes_l. Qed.
Print Assumptions dangling_decodes_to_href_object.

(* ------------------------------------------------------------------ *)
(* 5. arrays                                                           *)
(* ------------------------------------------------------------------ *)

(* any element carrying an arrayType attribute and no children decodes to [] *)
Theorem empty_array_is_empty_list : forall f Sc ns nm attrs tx cx a d real,
  get_ns NM_ATY NS_ENC attrs = Some a ->
  start Sc cx (tnode (T ns nm attrs tx [])) = Some (d, real) ->
  dect (S f) Sc (T ns nm attrs tx []) cx = DOk (PList []).
Proof. exact empty_array_l. Qed.
Print Assumptions empty_array_is_empty_list.

(* an item without xsi:type of its own is decoded with the type arrayType names *)
Theorem array_items_typed : forall Sc a q te k preal d,
  a_q a = Some q -> lookup Sc q = Some te -> has_type (t_attrs k) = false ->
  get_child Sc preal (t_name k) = Some d ->
  start Sc (CChild preal) (tnode (tadd_type a k)) = Some (d, te).
Proof. exact array_items_typed_l. Qed.
Print Assumptions array_items_typed.

(* An element with a one-dimensional arrayType whose real type is an array,
   with at least one item, all items under one name, none of them decoding to
   None (nil items are dropped by Core.append_children: outside the family),
   ANY number of items: the result is the list of the items' values, each item
   decoded with xsi:type = the type named by arrayType where it has none. *)
Theorem array_is_list : forall f Sc ns nm attrs tx ks cx a d real inm vs,
  aty1 attrs = Some a ->
  start Sc cx (tnode (T ns nm attrs tx (map (tadd_type a) ks))) = Some (d, real) ->
  (t_def real = DArray \/ t_def real = DAny) ->
  ks <> [] -> (forall k, In k ks -> t_name k = inm) ->
  Forall2 (fun k v => dect f Sc (tadd_type a k) (CChild real) = DOk v /\ v <> PNone) ks vs ->
  dect (S f) Sc (T ns nm attrs tx ks) cx = DOk (PList vs).
Proof. exact array_is_list_l. Qed.
Print Assumptions array_is_list.

(* ------------------------------------------------------------------ *)
(* 6. prefixes of moved content (Prefix.v)                             *)
(* ------------------------------------------------------------------ *)

(* Since db8b9ec replace_references copies the referenced element's own prefix
   declarations onto the referrer.  For every prefix p: what p means at the
   referrer n after the move (where the moved attributes and their QName
   values are now resolved) is what it meant at the referenced element m --
   if m declares p itself (its binding wins over the referrer's), or else if
   neither the referrer nor any element between it and the Body rebinds p
   (then both read the Body's binding). *)
Theorem moved_attributes_keep_their_prefixes : forall h n m body q0,
  n < length h -> ~ In n (p_kids (pgetn h m)) ->
  p_parent (pgetn h m) = Some body -> p_parent (pgetn h body) = None ->
  body <> n -> ~ In body (p_kids (pgetn h m)) -> p_parent (pgetn h n) = Some q0 ->
  forall p u k,
  (assoc p (p_decls (pgetn h m)) = None ->
     assoc p (p_decls (pgetn h n)) = None /\ climbs k h q0 body p (off_path h n m)) ->
  resolves h m p u -> resolves (move true h n m) n p u.
Proof. exact moved_attrs_l. Qed.
Print Assumptions moved_attributes_keep_their_prefixes.

(* the same for the moved children (whose parent is now the referrer), hence
   for everything below them *)
Theorem moved_children_keep_their_prefixes : forall h n m body q0,
  n < length h -> ~ In n (p_kids (pgetn h m)) ->
  p_parent (pgetn h m) = Some body -> p_parent (pgetn h body) = None ->
  body <> n -> ~ In body (p_kids (pgetn h m)) -> p_parent (pgetn h n) = Some q0 ->
  forall p u k x,
  In x (p_kids (pgetn h m)) -> x <> n -> x < length h -> p_parent (pgetn h x) = Some m ->
  (assoc p (p_decls (pgetn h m)) = None ->
     assoc p (p_decls (pgetn h n)) = None /\ climbs k h q0 body p (off_path h n m)) ->
  resolves h x p u -> resolves (move true h n m) x p u.
Proof. exact moved_child_l. Qed.
Print Assumptions moved_children_keep_their_prefixes.

(* prefix 1 = "q"; namespaces 10 = urn:c18:fixed:a, 2 = XMLSchema, 11 = urn:other.
   Body(0)[ resp(1)[ return(2) ], r(3)[ nums(4) ], n(5)[ item(6) ] ]: the Body
   binds q to 10 (promoted from r), n binds q to XMLSchema itself; nums refers to n *)
Definition px_heap : pheap :=
  [ mkP None [(1, 10)]%N [1; 3; 5]; mkP (Some 0) [] [2]; mkP (Some 1) [] [];
    mkP (Some 0) [] [4]; mkP (Some 3) [] []; mkP (Some 0) [(1, 2)]%N [6]; mkP (Some 5) [] [] ].

(* regression witness (KNOWN_FINDINGS C18:prefix-rebound-on-independent-element,
   fixed): without the copy, q at the referrer means the Body's binding, not
   the referenced element's; with the copy it means XMLSchema *)
Theorem move_without_declarations_refuted :
  resolves px_heap 5 1 2 /\
  (exists f, resolve f (move false px_heap 4 5) 4 1 = Some 10%N) /\
  resolves (move true px_heap 4 5) 4 1 2 /\ resolves (move true px_heap 4 5) 6 1 2.
Proof.
  split; [exists 1; reflexivity|]. split; [exists 3; reflexivity|].
  split; [exists 1; reflexivity|exists 2; reflexivity].
Qed.
Print Assumptions move_without_declarations_refuted.

(* the guard of the two theorems is needed (observed on the implementation
   too, evidence key prefix_rebound_on_referrer_path): the referenced element
   m(3) uses the Body's q = XMLSchema, the response element(1) rebinds q *)
Definition px_heap2 : pheap :=
  [ mkP None [(1, 2)]%N [1; 3]; mkP (Some 0) [(1, 11)]%N [2]; mkP (Some 1) [] [];
    mkP (Some 0) [] [4]; mkP (Some 3) [] [] ].

Theorem rebound_on_referrer_path_refuted :
  resolves px_heap2 3 1 2 /\ exists f, resolve f (move true px_heap2 2 3) 2 1 = Some 11%N.
Proof. split; [exists 2; reflexivity|exists 2; reflexivity]. Qed.
Print Assumptions rebound_on_referrer_path_refuted.

(* the hypotheses of the two theorems hold on the first witness *)
Example moved_prefixes_nonvacuous :
  4 < length px_heap /\ ~ In 4 (p_kids (pgetn px_heap 5)) /\
  p_parent (pgetn px_heap 5) = Some 0 /\ p_parent (pgetn px_heap 0) = None /\
  p_parent (pgetn px_heap 4) = Some 3 /\ assoc 1 (p_decls (pgetn px_heap 5)) = Some 2%N /\
  climbs 1 px_heap 3 0 7 (off_path px_heap 4 5).
Proof.
  split; [cbn; lia|]. split; [cbn; intros [X|[]]; discriminate|].
  repeat (split; [reflexivity|]).
  cbn. split; [discriminate|]. split; [split; [discriminate|intros [X|[]]; discriminate]|].
  split; [reflexivity|]. exists 0. split; reflexivity.
Qed.

(* Element.promotePrefixes (run by Binding.get_reply before MultiRef.process),
   one element against its parent.  Bindings already on the parent are never
   overwritten ... *)
Theorem promote_never_overwrites_parent : forall pp todo dn dp dn' dp',
  promote_decls false pp todo dn dp = (dn', dp') ->
  forall p u, assoc p dp = Some u -> assoc p dp' = Some u.
Proof. exact promote_keeps_parent_l. Qed.
Print Assumptions promote_never_overwrites_parent.

(* ... a declaration that collides with a different binding on the parent stays
   on the element (nsprefixes is a dict: the snapshot has one entry per prefix) ... *)
Theorem promote_collision_stays_local : forall pp todo dn dp dn' dp' p u pu,
  promote_decls false pp todo dn dp = (dn', dp') ->
  (forall u', In (p, u') todo -> u' = u) ->
  assoc p dn = Some u -> assoc p dp = Some pu -> pu <> u -> assoc p dn' = Some u.
Proof. exact promote_collision_stays_l. Qed.
Print Assumptions promote_collision_stays_local.

(* ... every prefix means at the element what it meant before ... *)
Theorem promote_keeps_meaning : forall pp dn dp dn' dp',
  NoDup (map fst dn) -> promote_decls false pp dn dn dp = (dn', dp') ->
  forall p, means dn' dp' p = means dn dp p.
Proof. exact promote_keeps_meaning_l. Qed.
Print Assumptions promote_keeps_meaning.

(* ... and a sibling that reads a prefix bound on the common parent (or on
   itself) reads the same afterwards. *)
Theorem promote_keeps_siblings : forall h n q x p u,
  p_parent (pgetn h n) = Some q -> p_parent (pgetn h x) = Some q -> p_parent (pgetn h q) = None ->
  x <> n -> x <> q -> q < length h ->
  (assoc p (p_decls (pgetn h x)) <> None \/ assoc p (p_decls (pgetn h q)) <> None) ->
  resolves h x p u -> resolves (promote_at false h n) x p u.
Proof. exact promote_keeps_siblings_l. Qed.
Print Assumptions promote_keeps_siblings.

(* Body(0)[ r(1) xmlns:q=10, n(2) xmlns:q=XMLSchema ]: Axis style, one spelling
   for two namespaces on sibling independent elements.  Promoting r then n:
   the code keeps q = 10 on the Body (r reads 10, n keeps its own binding);
   the variant with `continue` inside `if pu == u` lets n's declaration fall
   through and overwrite the Body's: r now reads XMLSchema. *)
Definition px_heap3 : pheap :=
  [ mkP None [] [1; 2]; mkP (Some 0) [(1, 10)]%N []; mkP (Some 0) [(1, 2)]%N [] ].

Theorem promote_overwrite_refuted :
  (resolves (promote_at false (promote_at false px_heap3 1) 2) 1 1 10 /\
   resolves (promote_at false (promote_at false px_heap3 1) 2) 2 1 2) /\
  (exists f, resolve f (promote_at true (promote_at true px_heap3 1) 2) 1 1 = Some 2%N) /\
  (exists dn' dp', promote_decls true None [(1, 2)]%N [(1, 2)]%N [(1, 10)]%N = (dn', dp') /\
                   assoc 1 [(1, 10)]%N = Some 10%N /\ assoc 1 dp' = Some 2%N).
Proof.
  split; [split; [exists 2; reflexivity|exists 1; reflexivity]|].
  split; [exists 2; reflexivity|]. eexists. eexists. split; [reflexivity|]. split; reflexivity.
Qed.
Print Assumptions promote_overwrite_refuted.

(* ------------------------------------------------------------------ *)
(* non-vacuity and the refutation witness                              *)
(* ------------------------------------------------------------------ *)

Definition xs (l : list N) : str := l.
Definition s_id0 : str := [105; 100; 48]%N.                 (* "id0" *)
Definition s_href0 : str := [35; 105; 100; 48]%N.           (* "#id0" *)
Definition s_href1 : str := [35; 105; 100; 49]%N.           (* "#id1" *)
Definition s_id1 : str := [105; 100; 49]%N.
Definition s_0 : str := [48]%N.
Definition s_bob : str := [98; 111; 98]%N.
Definition s_aty : str := [120; 58; 105; 110; 116; 91; 50; 93]%N.   (* "x:int[2]" *)

(* names: 20 fResponse, 21 return, 22 multiRef, 23 Person, 24 name, 25 nums, 26 nums2, 27 item, 28 int, 29 string, 30 ArrayOfInt *)
Definition ex_schema : schema :=
  [ mkT (2, 28)%N (Some 28%N) (DBuiltin 1);
    mkT (2, 29)%N (Some 29%N) (DBuiltin 0);
    mkT (10, 30)%N (Some 30%N) DArray;
    mkT (10, 23)%N (Some 23%N)
        (DStruct [mkF 24 (2, 29)%N false false; mkF 25 (10, 30)%N false false; mkF 26 (10, 30)%N false false]) ].

Definition a_href (s : str) := mkA 0 NM_HREF s None.
Definition a_idv (s : str) := mkA 0 NM_ID s None.
Definition a_root0 := mkA NS_ENC NM_ROOT s_0 None.
Definition a_person := mkA NS_XSI NM_TYPE [120]%N (Some (10, 23)%N).
Definition a_ints := mkA NS_ENC NM_ATY s_aty (Some (2, 28)%N).

(* Body[ fResponse[ return href=#id0 ], multiRef#id0 root=0 Person[ name=bob, nums href=#id1, nums2 href=#id1 ],
         multiRef#id1 root=0 arrayType=int[2] [ item 1, item 2 ] ] : one array shared by two referrers,
   nested inside a referenced struct, items untyped *)
Definition ex_heap (marked : bool) (resp_first : bool) : heap :=
  [ mkN NS_ENV 19 [] None (if resp_first then [1; 3; 7] else [3; 1; 7]);
    mkN 10 20 [] None [2];
    mkN 0 21 [a_href s_href0] None [];
    mkN 0 22 (a_idv s_id0 :: (if marked then [a_root0] else []) ++ [a_person]) None [4; 5; 6];
    mkN 0 24 [] (Some s_bob) [];
    mkN 0 25 [a_href s_href1] None [];
    mkN 0 26 [a_href s_href1] None [];
    mkN 0 22 [a_idv s_id1; a_root0; a_ints] None [8; 9];
    mkN 0 27 [] (Some [49]%N) [];
    mkN 0 27 [] (Some [50]%N) [] ].

Definition ex_expected : dres :=
  DOk (PObj 23 [((false, 24%N), PText s_bob);
                ((false, 25%N), PList [PVal 1 [49]%N; PVal 1 [50]%N]);
                ((false, 26%N), PList [PVal 1 [49]%N; PVal 1 [50]%N])]).

(* the hypotheses of multiref_equiv / outline_invariant are satisfiable, with
   shared and nested references, in both placements of marked independent
   elements, and the common value is the typed one *)
Example multiref_equiv_nonvacuous :
  forall resp_first,
  let h := ex_heap true resp_first in
  input_ok h 0 = true /\ first_root_is h 0 1 = true /\
  (exists tb, inline 8 (the_catalog h 0) h 0 = Some tb) /\
  (exists h', process 8 h 0 = Some h' /\ heap_ok h' = true) /\
  get_reply 8 ex_schema (10, 23)%N h 0 = ex_expected /\
  spec_reply 8 ex_schema (10, 23)%N h 0 1 = ex_expected.
Proof.
  intros [|]; cbv zeta; (split; [vm_compute; reflexivity|]);
    (split; [vm_compute; reflexivity|]); (split; [eexists; vm_compute; reflexivity|]);
    (split; [eexists; split; vm_compute; reflexivity|]); split; vm_compute; reflexivity.
Qed.

(* unmarked independent elements AFTER the response are inside the guard too *)
Example unmarked_after_response_ok :
  let h := ex_heap false true in
  first_root_is h 0 1 = true /\ get_reply 8 ex_schema (10, 23)%N h 0 = ex_expected.
Proof. split; vm_compute; reflexivity. Qed.

(* the in-line tree and an out-lined form of it *)
Definition ex_tree : tree :=
  T 0 21 [a_person] None
    [ T 0 24 [] (Some s_bob) [];
      T 0 25 [a_root0; a_ints] None [T 0 27 [] (Some [49]%N) []; T 0 27 [] (Some [50]%N) []];
      T 0 26 [a_root0; a_ints] None [T 0 27 [] (Some [49]%N) []; T 0 27 [] (Some [50]%N) []] ].

Example outl_nonvacuous :
  let h := ex_heap false true in
  outl (the_catalog h 0) h ex_tree 2.
Proof.
  cbv zeta. unfold ex_tree. rewrite outl_unfold. split; [reflexivity|]. split; [reflexivity|]. right.
  exists (a_href s_href0), 3%nat. repeat (split; [vm_compute; reflexivity|]).
  cbn. split.
  - split; [reflexivity|]. split; [reflexivity|]. left. repeat (split; [vm_compute; reflexivity|]). exact I.
  - split.
    + split; [reflexivity|]. split; [reflexivity|]. right. exists (a_href s_href1), 7%nat.
      repeat (split; [vm_compute; reflexivity|]). cbn.
      repeat split; try reflexivity; left; repeat (split; [vm_compute; reflexivity|]); exact I.
    + split; [|exact I].
      split; [reflexivity|]. split; [reflexivity|]. right. exists (a_href s_href1), 7%nat.
      repeat (split; [vm_compute; reflexivity|]). cbn.
      repeat split; try reflexivity; left; repeat (split; [vm_compute; reflexivity|]); exact I.
Qed.

(* REFUTED without the guard (KNOWN_FINDINGS C18:unmarked-multiref-before-response):
   the same body with the independent element unmarked and placed before the
   response: everything else holds, yet the client decodes the independent
   element's own content as the reply. *)
Theorem unmarked_before_response_refuted :
  exists fuel Sc ret h b r tb,
    input_ok h b = true /\
    inline fuel (the_catalog h b) h b = Some tb /\
    first_root_is h b r = false /\
    spec_reply fuel Sc ret h b r = ex_expected /\
    get_reply fuel Sc ret h b <> spec_reply fuel Sc ret h b r.
Proof.
  exists 8%nat, ex_schema, (10, 23)%N, (ex_heap false false), 0%nat, 1%nat.
  eexists.
  split; [vm_compute; reflexivity|]. split; [vm_compute; reflexivity|].
  split; [vm_compute; reflexivity|]. split; [vm_compute; reflexivity|].
  vm_compute. discriminate.
Qed.
Print Assumptions unmarked_before_response_refuted.

(* dangling: the element stays, the sibling is resolved *)
Example dangling_nonvacuous :
  let h := [ mkN NS_ENV 19 [] None [1; 4];
             mkN 10 20 [] None [2; 3];
             mkN 0 24 [a_href s_href1] None [];          (* nobody has id1 *)
             mkN 0 25 [a_href s_href0] None [];
             mkN 0 22 [a_idv s_id0; a_root0] (Some s_bob) [] ] in
  inline 4 (the_catalog h 0) h 1 =
  Some (T 10 20 [] None [T 0 24 [a_href s_href1] None []; T 0 25 [a_root0] (Some s_bob) []]).
Proof. vm_compute. reflexivity. Qed.

Example empty_array_nonvacuous :
  dect 3 ex_schema (T 0 25 [mkA NS_ENC NM_ATY [120; 58; 105; 110; 116; 91; 48; 93]%N (Some (2, 28)%N)] None [])
       (CChild (mkT (10, 23)%N (Some 23%N)
          (DStruct [mkF 25 (10, 30)%N false false]))) = DOk (PList []).
Proof. vm_compute. reflexivity. Qed.

Example array_is_list_nonvacuous :
  dect 3 ex_schema (T 0 25 [a_ints] None [T 0 27 [] (Some [49]%N) []; T 0 27 [] (Some [50]%N) []])
       (CChild (mkT (10, 23)%N (Some 23%N) (DStruct [mkF 25 (10, 30)%N false false])))
  = DOk (PList [PVal 1 [49]%N; PVal 1 [50]%N]).
Proof. vm_compute. reflexivity. Qed.

(* the out-liner at work: everything below the response element out of line,
   sharing on: nums and nums2 carry equal values and refer to ONE independent
   element (5 independent elements for 6 out-lined occurrences), and the
   decoded reply is the typed one *)
Definition ex_plain : tree :=
  T 10 20 [] None
    [ T 0 21 [a_person] None
        [ T 0 24 [] (Some s_bob) [];
          T 0 25 [a_ints] None [T 0 27 [] (Some [49]%N) []; T 0 27 [] (Some [50]%N) []];
          T 0 26 [a_ints] None [T 0 27 [] (Some [49]%N) []; T 0 27 [] (Some [50]%N) []] ] ].

Definition ex_choices : choices :=
  mkCh (fun p => match p with [] => DIn | _ => DOut true end) spell_rep.

Example outline_shares :
  plainT ex_plain = true /\
  let '(h, b, r) := outline ex_choices ex_plain in
  length (n_kids (getn h b)) = 6%nat /\ input_ok h b = true /\
  get_reply 8 ex_schema (10, 23)%N h b = ex_expected.
Proof. split; [reflexivity|]. vm_compute. repeat split; reflexivity. Qed.
