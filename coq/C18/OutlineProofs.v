(* C18 — the constructive out-liner produces a Body that satisfies input_ok,
   whose first root is the response element, and that out-lines the tree it
   was given: outline_invariant for ALL choices follows from the relational
   theorem. *)
From SV Require Import Lib.Base C18.Model C18.RefProofs C18.DecProofs C18.MainProofs C18.InputProofs C18.Outline.
From Coq Require Import Lia.
Arguments getn : simpl never.

(* ------------------------------------------------------------------ *)
(* equality tests                                                      *)
(* ------------------------------------------------------------------ *)

Lemma list_eqb_eq : forall {A} (eqb : A -> A -> bool) l l',
  (forall x y, In x l -> eqb x y = true -> x = y) -> list_eqb eqb l l' = true -> l = l'.
Proof.
  induction l as [|x l IH]; intros [|y l'] H E; cbn in E; try discriminate; [reflexivity|].
  apply andb_true_iff in E as [E1 E2]. f_equal.
  - apply H; [left; reflexivity|exact E1].
  - apply IH; [|exact E2]. intros a b Ha. apply H. right; exact Ha.
Qed.

Lemma opt_str_eqb_eq : forall a b : option str, opt_eqb str_eqb a b = true -> a = b.
Proof. intros [a|] [b|] H; cbn in H; try discriminate; [|reflexivity]. f_equal. apply str_eqb_eq. exact H. Qed.

Lemma tree_beq_eq : forall a b, tree_beq a b = true -> a = b.
Proof.
  induction a as [ns nm attrs tx ks IH] using tree_ind2. intros [ns' nm' attrs' tx' ks'] H. cbn in H.
  apply andb_true_iff in H as [H Hk]. apply andb_true_iff in H as [H Ht].
  apply andb_true_iff in H as [H Ha]. apply andb_true_iff in H as [Hns Hnm].
  apply N.eqb_eq in Hns. apply N.eqb_eq in Hnm.
  apply (list_eqb_eq attr_beq) in Ha; [|intros x y _; apply attr_beq_eq].
  apply opt_str_eqb_eq in Ht. subst.
  f_equal. clear -IH Hk. revert ks' Hk. induction ks as [|k ks IHk]; intros [|k' ks'] E; try discriminate; [reflexivity|].
  apply andb_true_iff in E as [E1 E2]. inversion IH as [|? ? P1 P2]; subst. f_equal; [apply P1; exact E1|apply IHk; assumption].
Qed.

Lemma content_beq_eq : forall a b, content_beq a b = true ->
  t_attrs a = t_attrs b /\ t_text a = t_text b /\ t_kids a = t_kids b.
Proof.
  intros [ns nm attrs tx ks] [ns' nm' attrs' tx' ks'] H. cbn in *.
  apply andb_true_iff in H as [H H3]. apply andb_true_iff in H as [H1 H2].
  apply (list_eqb_eq attr_beq) in H1; [|intros x y _; apply attr_beq_eq].
  apply opt_str_eqb_eq in H2.
  apply (list_eqb_eq tree_beq) in H3; [|intros x y _; apply tree_beq_eq]. auto.
Qed.

Lemma reg_find_in : forall t reg m, reg_find t reg = Some m ->
  exists t', In (t', m) reg /\ t_attrs t = t_attrs t' /\ t_text t = t_text t' /\ t_kids t = t_kids t'.
Proof.
  induction reg as [|[t' m'] reg IH]; cbn; intros m H; [discriminate|].
  destruct (content_beq t t') eqn:E.
  - injection H as <-. exists t'. split; [left; reflexivity|apply content_beq_eq; exact E].
  - destruct (IH m H) as (t'' & A & B). exists t''. split; [right; exact A|exact B].
Qed.

(* ------------------------------------------------------------------ *)
(* heaps that grow at the end                                          *)
(* ------------------------------------------------------------------ *)

Lemma getn_app_l : forall h ext i, i < length h -> getn (h ++ ext) i = getn h i.
Proof. intros. unfold getn. apply app_nth1. assumption. Qed.

Lemma getn_app_last : forall h nd, getn (h ++ [nd]) (length h) = nd.
Proof. intros. unfold getn. rewrite app_nth2 by lia. rewrite Nat.sub_diag. reflexivity. Qed.

Lemma getn_kids_in : forall h p c, In c (n_kids (getn h p)) -> p < length h.
Proof.
  intros h p c H. destruct (Nat.lt_ge_cases p (length h)) as [L|L]; [exact L|].
  rewrite (getn_out h p L) in H. contradiction.
Qed.

Lemma getn_snoc_cases : forall h nd p,
  (p < length h /\ getn (h ++ [nd]) p = getn h p) \/ (p = length h /\ getn (h ++ [nd]) p = nd) \/
  (length h < p /\ getn (h ++ [nd]) p = empty_node).
Proof.
  intros h nd p. destruct (Nat.lt_trichotomy p (length h)) as [L|[E|G]].
  - left. split; [exact L|apply getn_app_l; exact L].
  - right; left. subst. split; [reflexivity|apply getn_app_last].
  - right; right. split; [exact G|]. apply getn_out. rewrite app_length. cbn. lia.
Qed.

Definition agree (h hF : heap) : Prop := forall i, i < length h -> getn hF i = getn h i.

Lemma agree_app : forall h ext hF, agree (h ++ ext) hF -> agree h hF.
Proof.
  intros h ext hF A i L. rewrite A by (rewrite app_length; lia). apply getn_app_l. exact L.
Qed.

Definition free (h : heap) (i : nat) : Prop := forall p, ~ In i (n_kids (getn h p)).

(* ------------------------------------------------------------------ *)
(* the invariant of the out-liner                                      *)
(* ------------------------------------------------------------------ *)

Section Emit.
Variable c : choices.
Hypothesis spell_inj : forall i j, ch_spell c i = ch_spell c j -> i = j.
Variable H : nat.      (* height of the response element *)

Definition key (m : nat) : str := ch_hash :: ch_spell c m.
Definition good (cat : catalog) (reg : list (tree * nat)) : Prop :=
  forall t m, In (t, m) reg -> cat_get cat (key m) = Some m.

(* node m is the independent element that carries the content of t' *)
Definition indep_for (h : heap) (reg : list (tree * nat)) (t' : tree) (m : nat) : Prop :=
  plainT t' = true /\ height t' <= H /\ m < length h /\
  exists xs, getn h m = indep_node c m (t_attrs t') (t_text t') xs /\
    forall hF cat, agree h hF -> good cat reg -> outl_list cat hF (t_kids t') xs.

Definition shape (reg : list (tree * nat)) (i : nat) (nd : node) : Prop :=
  (get_any NM_HREF (n_attrs nd) = None /\ get_any NM_ID (n_attrs nd) = None /\
   get_ns NM_ROOT NS_ENC (n_attrs nd) = None)
  \/ (exists m t', In (t', m) reg /\ n_attrs nd = [a_href (key m)] /\ n_kids nd = [])
  \/ (exists t' a', In (t', i) reg /\ n_attrs nd = a_idv (ch_spell c i) :: a' /\
                    get_any NM_HREF a' = None /\ get_any NM_ID a' = None).

Record WF (st : ost) : Prop := mkWF {
  w_range : forall p x, In x (n_kids (getn (o_heap st) p)) -> x < length (o_heap st);
  w_pu : forall p1 p2 x, In x (n_kids (getn (o_heap st) p1)) -> In x (n_kids (getn (o_heap st) p2)) -> p1 = p2;
  w_shape : forall i, i < length (o_heap st) -> shape (o_reg st) i (getn (o_heap st) i);
  w_nodup : NoDup (map snd (o_reg st));
  w_reg : forall t' m, In (t', m) (o_reg st) -> indep_for (o_heap st) (o_reg st) t' m /\ free (o_heap st) m
}.

Lemma good_incl : forall cat reg new, good cat (new ++ reg) -> good cat reg.
Proof. intros cat reg new G t m Hin. apply (G t m). apply in_or_app. right. exact Hin. Qed.

Lemma indep_for_mono : forall h ext reg new t' m,
  indep_for h reg t' m -> indep_for (h ++ ext) (new ++ reg) t' m.
Proof.
  intros h ext reg new t' m (P & Hh & L & xs & E & O).
  split; [exact P|split; [exact Hh|split; [rewrite app_length; lia|]]].
  exists xs. split; [rewrite getn_app_l by exact L; exact E|].
  intros hF cat A G. apply O; [eapply agree_app; exact A|eapply good_incl; exact G].
Qed.

Lemma shape_mono : forall reg new i nd, shape reg i nd -> shape (new ++ reg) i nd.
Proof.
  intros reg new i nd [S1|[(m & t' & I & S2)|(t' & a' & I & S3)]].
  - left. exact S1.
  - right; left. exists m, t'. split; [apply in_or_app; right; exact I|exact S2].
  - right; right. exists t', a'. split; [apply in_or_app; right; exact I|exact S3].
Qed.

Lemma free_snoc : forall h nd i, free h i -> ~ In i (n_kids nd) -> free (h ++ [nd]) i.
Proof.
  intros h nd i F N p X. destruct (getn_snoc_cases h nd p) as [[_ E]|[[_ E]|[_ E]]]; rewrite E in X.
  - exact (F p X).
  - exact (N X).
  - contradiction.
Qed.

(* appending a node whose children are parentless, distinct, existing and not
   independent elements keeps the invariant; the node may be registered as an
   independent element at the same time (newreg = [(t, its id)]) *)
Lemma alloc_wf : forall st nd newreg,
  WF st ->
  (forall x, In x (n_kids nd) -> x < length (o_heap st) /\ free (o_heap st) x /\
                                  forall t' m, In (t', m) (o_reg st) -> m <> x) ->
  NoDup (n_kids nd) ->
  shape (newreg ++ o_reg st) (length (o_heap st)) nd ->
  NoDup (map snd (newreg ++ o_reg st)) ->
  (forall t' m, In (t', m) newreg ->
     m = length (o_heap st) /\ indep_for (o_heap st ++ [nd]) (newreg ++ o_reg st) t' m) ->
  WF (mkO (o_heap st ++ [nd]) (newreg ++ o_reg st)) /\ free (o_heap st ++ [nd]) (length (o_heap st)).
Proof.
  intros st nd newreg W K ND Sh NDr NR.
  assert (Fr : free (o_heap st ++ [nd]) (length (o_heap st))).
  { intros p X. destruct (getn_snoc_cases (o_heap st) nd p) as [[_ E]|[[_ E]|[_ E]]]; rewrite E in X.
    - pose proof (w_range st W p _ X). lia.
    - destruct (K _ X) as [L _]. lia.
    - contradiction. }
  split; [constructor; cbn [o_heap o_reg]|exact Fr].
  - intros p x X. rewrite app_length. cbn.
    destruct (getn_snoc_cases (o_heap st) nd p) as [[_ E]|[[_ E]|[_ E]]]; rewrite E in X.
    + pose proof (w_range st W p x X). lia.
    + destruct (K x X) as [L _]. lia.
    + contradiction.
  - intros p1 p2 x X1 X2.
    destruct (getn_snoc_cases (o_heap st) nd p1) as [[L1 E1]|[[L1 E1]|[L1 E1]]]; rewrite E1 in X1;
    destruct (getn_snoc_cases (o_heap st) nd p2) as [[L2 E2]|[[L2 E2]|[L2 E2]]]; rewrite E2 in X2;
      try contradiction.
    + exact (w_pu st W p1 p2 x X1 X2).
    + destruct (K x X2) as (_ & F & _). exfalso. exact (F p1 X1).
    + destruct (K x X1) as (_ & F & _). exfalso. exact (F p2 X2).
    + congruence.
  - intros i L. rewrite app_length in L. cbn in L.
    destruct (getn_snoc_cases (o_heap st) nd i) as [[L1 E]|[[L1 E]|[L1 E]]]; rewrite E; [|subst; exact Sh|lia].
    apply shape_mono. exact (w_shape st W i L1).
  - exact NDr.
  - intros t' m I. apply in_app_or in I as [I|I].
    + destruct (NR t' m I) as [-> IF]. split; [exact IF|exact Fr].
    + destruct (w_reg st W t' m I) as [IF F]. split.
      * apply indep_for_mono. exact IF.
      * apply free_snoc; [exact F|]. intros X. destruct (K m X) as (_ & _ & N). exact (N t' m I eq_refl).
Qed.

(* ---- plain attributes ---- *)

Lemma plain_attrs_spec : forall l, forallb plain_attr l = true ->
  get_any NM_HREF l = None /\ get_any NM_ID l = None /\ get_ns NM_ROOT NS_ENC l = None /\
  filter (fun a => negb (is_named NM_ID a)) l = l.
Proof.
  induction l as [|a l IH]; intros F; [repeat split; reflexivity|].
  cbn in F. apply andb_true_iff in F as [Fa Fl]. destruct (IH Fl) as (I1 & I2 & I3 & I4).
  unfold plain_attr in Fa. apply andb_true_iff in Fa as [Fa F3]. apply andb_true_iff in Fa as [F1 F2].
  apply negb_true_iff in F1, F2, F3.
  unfold get_any, get_ns in *. cbn. rewrite F1, F2, F3. cbn. rewrite I4. auto.
Qed.

Lemma plainT_unfold : forall ns nm attrs tx ks,
  plainT (T ns nm attrs tx ks) = forallb plain_attr attrs && forallb (fun k => plainT k) ks.
Proof. reflexivity. Qed.

Lemma emit_kids_nil : forall path i st, emit_kids c path i [] st = ([], st).
Proof. reflexivity. Qed.

Lemma emit_kids_cons : forall path i k ks st,
  emit_kids c path i (k :: ks) st =
  let (x, st1) := emit c (path ++ [i]) k st in
  let (xs, st2) := emit_kids c path (S i) ks st1 in (x :: xs, st2).
Proof. reflexivity. Qed.

Lemma emit_eq : forall path ns nm attrs tx ks st,
  emit c path (T ns nm attrs tx ks) st =
  match ch_dec c path with
  | DIn => let (xs, st1) := emit_kids c path O ks st in alloc st1 (mkN ns nm attrs tx xs)
  | DOut share =>
      match (if share then reg_find (T ns nm attrs tx ks) (o_reg st) else None) with
      | Some m => alloc st (ref_node c ns nm m)
      | None =>
          let (xs, st1) := emit_kids c path O ks st in
          let m := length (o_heap st1) in
          alloc (mkO (o_heap st1 ++ [indep_node c m attrs tx xs]) ((T ns nm attrs tx ks, m) :: o_reg st1))
                (ref_node c ns nm m)
      end
  end.
Proof. reflexivity. Qed.

(* ---- what emit guarantees ---- *)

Definition Post (st : ost) (x : nat) (st' : ost) (t : tree) : Prop :=
  (exists ext, o_heap st' = o_heap st ++ ext) /\
  length (o_heap st') = S x /\ length (o_heap st) <= x /\
  WF st' /\
  (exists new, o_reg st' = new ++ o_reg st /\ forall t' m, In (t', m) new -> length (o_heap st) <= m) /\
  (forall t' m, In (t', m) (o_reg st') -> m < x) /\
  (forall i, i < length (o_heap st) -> free (o_heap st) i -> free (o_heap st') i) /\
  free (o_heap st') x /\
  (forall hF cat, agree (o_heap st') hF -> good cat (o_reg st') -> outl cat hF t x).

Definition PostK (st : ost) (xs : list nat) (st' : ost) (ks : list tree) : Prop :=
  (exists ext, o_heap st' = o_heap st ++ ext) /\
  WF st' /\
  (exists new, o_reg st' = new ++ o_reg st /\ forall t' m, In (t', m) new -> length (o_heap st) <= m) /\
  (forall i, i < length (o_heap st) -> free (o_heap st) i -> free (o_heap st') i) /\
  (forall x, In x xs -> length (o_heap st) <= x /\ x < length (o_heap st') /\ free (o_heap st') x /\
                        forall t' m, In (t', m) (o_reg st') -> m <> x) /\
  NoDup xs /\
  (forall hF cat, agree (o_heap st') hF -> good cat (o_reg st') -> outl_list cat hF ks xs).

Definition EmitOK (k : tree) : Prop :=
  forall path st x st', emit c path k st = (x, st') -> WF st -> plainT k = true -> height k <= H -> Post st x st' k.

Lemma reg_lt : forall st t' m, WF st -> In (t', m) (o_reg st) -> m < length (o_heap st).
Proof. intros st t' m W I. destruct (w_reg st W t' m I) as [(_ & _ & L & _) _]. exact L. Qed.

Lemma emit_kids_spec : forall ks, Forall EmitOK ks ->
  forall path i st xs st', emit_kids c path i ks st = (xs, st') -> WF st ->
  forallb (fun k => plainT k) ks = true -> (forall k, In k ks -> height k <= H) ->
  PostK st xs st' ks.
Proof.
  induction ks as [|k ks IH]; intros F path i st xs st' E W Pl Hh.
  - rewrite emit_kids_nil in E. injection E as <- <-.
    split; [exists []; rewrite app_nil_r; reflexivity|]. split; [exact W|].
    split; [exists []; split; [reflexivity|intros ? ? []]|]. split; [auto|].
    split; [intros x []|]. split; [constructor|]. intros; exact I.
  - rewrite emit_kids_cons in E.
    destruct (emit c (path ++ [i]) k st) as [x st1] eqn:E1.
    destruct (emit_kids c path (S i) ks st1) as [xs' st2] eqn:E2.
    injection E as <- <-.
    inversion F as [|? ? Fk Fks]; subst.
    cbn in Pl. apply andb_true_iff in Pl as [Plk Plks].
    destruct (Fk _ _ _ _ E1 W Plk (Hh k (or_introl eq_refl))) as ((ext1 & Eh1) & Lx & Lst & W1 & (new1 & Er1 & Nn1) & Mx & Fp1 & Fx & O1).
    destruct (IH Fks _ _ _ _ _ E2 W1 Plks (fun k' Hk' => Hh k' (or_intror Hk')))
      as ((ext2 & Eh2) & W2 & (new2 & Er2 & Nn2) & Fp2 & Kx & ND & O2).
    assert (Len1 : length (o_heap st) <= length (o_heap st1)) by (rewrite Eh1, app_length; lia).
    split; [exists (ext1 ++ ext2); rewrite Eh2, Eh1, app_assoc; reflexivity|].
    split; [exact W2|].
    split.
    { exists (new2 ++ new1). split; [rewrite Er2, Er1, app_assoc; reflexivity|].
      intros t' m I. apply in_app_or in I as [I|I]; [specialize (Nn2 t' m I); lia|exact (Nn1 t' m I)]. }
    split.
    { intros j Lj Fj. apply Fp2; [lia|]. apply Fp1; assumption. }
    split.
    { intros y [<-|Hy].
      - split; [exact Lst|]. split; [rewrite Eh2, app_length; lia|].
        split; [apply Fp2; [lia|exact Fx]|].
        intros t' m I Em. subst m. rewrite Er2 in I. apply in_app_or in I as [I|I].
        + specialize (Nn2 t' x I). lia.
        + specialize (Mx t' x I). lia.
      - destruct (Kx y Hy) as (A & B & C & D). split; [lia|]. split; [exact B|]. split; [exact C|exact D]. }
    split.
    { constructor; [|exact ND]. intros Hin. destruct (Kx x Hin) as (A & _). lia. }
    intros hF cat A G. cbn. split.
    + apply O1; [rewrite Eh2 in A; eapply agree_app; exact A|rewrite Er2 in G; eapply good_incl; exact G].
    + apply O2; assumption.
Qed.

Lemma a_href_val : forall s, a_val (a_href s) = s.
Proof. reflexivity. Qed.

Lemma emit_spec : forall t, EmitOK t.
Proof.
  induction t as [ns nm attrs tx ks IH] using tree_ind2.
  intros path st x st' E W Pl Hh.
  rewrite emit_eq in E. rewrite plainT_unfold in Pl. apply andb_true_iff in Pl as [Pla Plk].
  destruct (plain_attrs_spec attrs Pla) as (A1 & A2 & A3 & A4).
  assert (Hk : forall k, In k ks -> height k <= H).
  { intros k Hin. pose proof (height_kid ks k Hin). cbn [height] in Hh. fold (kmax ks) in Hh. lia. }
  destruct (ch_dec c path) as [|share].
  - (* in line *)
    destruct (emit_kids c path 0 ks st) as [xs st1] eqn:Ek.
    destruct (emit_kids_spec ks IH _ _ _ _ _ Ek W Plk Hk) as ((ext1 & Eh1) & W1 & (new1 & Er1 & Nn1) & Fp1 & Kx & ND & O1).
    unfold alloc in E. injection E as <- <-. unfold Post. cbn [o_heap o_reg].
    destruct (alloc_wf st1 (mkN ns nm attrs tx xs) [] W1) as [W' Fx].
    { intros y Hy. destruct (Kx y Hy) as (_ & B & C & D). auto. }
    { exact ND. }
    { left. cbn. auto. }
    { exact (w_nodup st1 W1). }
    { intros ? ? []. }
    cbn [app] in W'.
    assert (Len1 : length (o_heap st) <= length (o_heap st1)) by (rewrite Eh1, app_length; lia).
    split; [exists (ext1 ++ [mkN ns nm attrs tx xs]); rewrite Eh1, app_assoc; reflexivity|].
    split; [rewrite app_length; cbn; lia|]. split; [exact Len1|]. split; [exact W'|].
    split; [exists new1; split; [exact Er1|exact Nn1]|].
    split; [intros t' m I; exact (reg_lt st1 t' m W1 I)|].
    split.
    { intros j Lj Fj. apply free_snoc; [apply Fp1; assumption|]. cbn. intros Hin. destruct (Kx j Hin) as (A & _). lia. }
    split; [exact Fx|].
    intros hF cat A G. rewrite outl_unfold.
    assert (En : getn hF (length (o_heap st1)) = mkN ns nm attrs tx xs).
    { rewrite A by (rewrite app_length; cbn; lia). apply getn_app_last. }
    rewrite En. cbn. split; [reflexivity|]. split; [reflexivity|]. left.
    split; [exact A1|]. split; [reflexivity|]. split; [reflexivity|].
    apply O1; [eapply agree_app; exact A|exact G].
  - destruct (if share then reg_find (T ns nm attrs tx ks) (o_reg st) else None) as [m|] eqn:Ef.
    + (* shares an independent element written before *)
      destruct share; [|discriminate].
      destruct (reg_find_in _ _ _ Ef) as (t' & It' & Ea & Et & Eks). cbn in Ea, Et, Eks.
      unfold alloc in E. injection E as <- <-. unfold Post. cbn [o_heap o_reg].
      destruct (alloc_wf st (ref_node c ns nm m) [] W) as [W' Fx].
      { intros y []. }
      { constructor. }
      { right; left. exists m, t'. cbn. auto. }
      { exact (w_nodup st W). }
      { intros ? ? []. }
      cbn [app] in W'.
      split; [exists [ref_node c ns nm m]; reflexivity|].
      split; [rewrite app_length; cbn; lia|]. split; [lia|]. split; [exact W'|].
      split; [exists []; split; [reflexivity|intros ? ? []]|].
      split; [intros t'' m' I; exact (reg_lt st t'' m' W I)|].
      split; [intros j Lj Fj; apply free_snoc; [exact Fj|intros []]|].
      split; [exact Fx|].
      intros hF cat A G. rewrite outl_unfold.
      assert (En : getn hF (length (o_heap st)) = ref_node c ns nm m).
      { rewrite A by (rewrite app_length; cbn; lia). apply getn_app_last. }
      rewrite En. cbn [ref_node n_ns n_name n_attrs n_kids n_text].
      split; [reflexivity|]. split; [reflexivity|]. right.
      exists (a_href (ch_hash :: ch_spell c m)), m.
      destruct (w_reg st W t' m It') as [(Pt' & _ & Lm & xs & Em & Om) _].
      assert (Em' : getn hF m = indep_node c m (t_attrs t') (t_text t') xs).
      { rewrite A by (rewrite app_length; lia). rewrite getn_app_l by exact Lm. exact Em. }
      rewrite Em'. cbn [indep_node n_attrs n_text n_kids].
      split; [reflexivity|]. split; [reflexivity|]. split; [reflexivity|].
      split; [exact (G t' m It')|].
      split.
      { cbn. rewrite <- Ea. rewrite A4. reflexivity. }
      split; [exact Et|].
      rewrite Eks. apply Om; [eapply agree_app; exact A|exact G].
    + (* a new independent element *)
      clear Ef.
      destruct (emit_kids c path 0 ks st) as [xs st1] eqn:Ek.
      destruct (emit_kids_spec ks IH _ _ _ _ _ Ek W Plk Hk) as ((ext1 & Eh1) & W1 & (new1 & Er1 & Nn1) & Fp1 & Kx & ND & O1).
      cbv zeta in E. unfold alloc in E. injection E as <- <-. unfold Post. cbn [o_heap o_reg].
      set (m := length (o_heap st1)) in *.
      set (t := T ns nm attrs tx ks) in *.
      set (ind := indep_node c m attrs tx xs) in *.
      assert (Len1 : length (o_heap st) <= length (o_heap st1)) by (rewrite Eh1, app_length; lia).
      assert (NDr : NoDup (map snd ([(t, m)] ++ o_reg st1))).
      { cbn. constructor; [|exact (w_nodup st1 W1)]. intros Hin. apply in_map_iff in Hin as ([t' m'] & Em & I).
        cbn in Em. subst m'. pose proof (reg_lt st1 t' m W1 I). unfold m in *. lia. }
      destruct (alloc_wf st1 ind [(t, m)] W1) as [W2 F2].
      { intros y Hy. destruct (Kx y Hy) as (_ & B & C & D). auto. }
      { exact ND. }
      { right; right. exists t, attrs. cbn. auto. }
      { exact NDr. }
      { intros t' m' [Eq|[]]. injection Eq as <- <-. split; [reflexivity|].
        split; [unfold t; rewrite plainT_unfold, Pla, Plk; reflexivity|]. split; [exact Hh|].
        split; [rewrite app_length; cbn; unfold m; lia|].
        exists xs. split; [apply getn_app_last|].
        intros hF cat A G. cbn [t_kids t]. apply O1; [eapply agree_app; exact A|eapply (good_incl _ _ [(t, m)]); exact G]. }
      set (st2 := mkO (o_heap st1 ++ [ind]) ([(t, m)] ++ o_reg st1)) in *.
      destruct (alloc_wf st2 (ref_node c ns nm m) [] W2) as [W' Fx].
      { intros y []. }
      { constructor. }
      { right; left. exists m, t. cbn. auto. }
      { exact NDr. }
      { intros ? ? []. }
      cbn [app o_heap o_reg st2] in W', Fx.
      assert (L2 : length (o_heap st1 ++ [ind]) = S m) by (rewrite app_length; cbn; unfold m; lia).
      rewrite L2 in *.
      split; [exists (ext1 ++ [ind; ref_node c ns nm m]); rewrite Eh1, <- !app_assoc; reflexivity|].
      split; [rewrite app_length; cbn; lia|]. split; [unfold m; lia|]. split; [exact W'|].
      split.
      { exists ((t, m) :: new1). split; [rewrite Er1; reflexivity|].
        intros t' m' [Eq|I]; [injection Eq as <- <-; unfold m; lia|exact (Nn1 t' m' I)]. }
      split.
      { intros t' m' [Eq|I]; [injection Eq as <- <-; lia|]. pose proof (reg_lt st1 t' m' W1 I). unfold m. lia. }
      split.
      { intros j Lj Fj. apply free_snoc; [|intros []]. apply free_snoc; [apply Fp1; assumption|].
        cbn. intros Hin. destruct (Kx j Hin) as (A & _). lia. }
      split; [exact Fx|].
      intros hF cat A G. unfold t at 1. rewrite outl_unfold.
      assert (En : getn hF (S m) = ref_node c ns nm m).
      { rewrite A by (rewrite app_length; cbn; lia). rewrite <- L2. apply getn_app_last. }
      rewrite En. cbn [ref_node n_ns n_name n_attrs n_kids n_text].
      split; [reflexivity|]. split; [reflexivity|]. right.
      exists (a_href (ch_hash :: ch_spell c m)), m.
      assert (Em' : getn hF m = ind).
      { rewrite A by (rewrite app_length; cbn; lia). rewrite getn_app_l by lia. apply getn_app_last. }
      rewrite Em'. cbn [ind indep_node n_attrs n_text n_kids].
      split; [reflexivity|]. split; [reflexivity|]. split; [reflexivity|].
      split; [apply (G t m); left; reflexivity|].
      split; [cbn; rewrite A4; reflexivity|]. split; [reflexivity|].
      apply O1; [eapply agree_app; eapply agree_app; exact A|eapply (good_incl _ _ [(t, m)]); exact G].
Qed.

End Emit.

(* ------------------------------------------------------------------ *)
(* the Body the out-liner writes                                       *)
(* ------------------------------------------------------------------ *)

Lemma not_in_existsb : forall b l, ~ In b l -> existsb (Nat.eqb b) l = false.
Proof.
  intros b l N. destruct (existsb (Nat.eqb b) l) eqn:E; [|reflexivity].
  apply existsb_exists in E as (x & Hx & Ex). apply Nat.eqb_eq in Ex. subst. contradiction.
Qed.

Lemma parents_unique_complete : forall h,
  (forall p1 p2 c, In c (n_kids (getn h p1)) -> In c (n_kids (getn h p2)) -> p1 = p2) -> parents_unique h = true.
Proof.
  intros h PU. unfold parents_unique. apply forallb_forall. intros p1 _. apply forallb_forall. intros p2 _.
  destruct (Nat.eqb p1 p2) eqn:E; [reflexivity|]. cbn. apply negb_true_iff.
  destruct (existsb _ (n_kids (getn h p1))) eqn:X; [|reflexivity].
  apply existsb_exists in X as (x & H1 & X). apply existsb_exists in X as (y & H2 & Exy).
  apply Nat.eqb_eq in Exy. subst y. rewrite (PU p1 p2 x H1 H2) in E. rewrite Nat.eqb_refl in E. discriminate.
Qed.

(* the catalogue MultiRef.build_catalog makes *)
Lemma build_catalog_in : forall h kids roots cat kv,
  In kv (snd (build_catalog h kids roots cat)) ->
  In kv cat \/ exists x a, In x kids /\ get_any NM_ID (n_attrs (getn h x)) = Some a /\ kv = (ch_hash :: a_val a, x).
Proof.
  induction kids as [|x kids IH]; intros roots cat kv Hin; cbn in Hin; [left; exact Hin|].
  apply IH in Hin as [Hin|(y & a & Hy & Ea & Ekv)].
  - destruct (get_any NM_ID (n_attrs (getn h x))) as [a|] eqn:Ea; [|left; exact Hin].
    destruct Hin as [<-|Hin]; [|left; exact Hin]. right. exists x, a. auto with datatypes.
  - right. exists y, a. auto with datatypes.
Qed.

Lemma build_catalog_has : forall h kids roots cat x a,
  In x kids -> get_any NM_ID (n_attrs (getn h x)) = Some a ->
  In (ch_hash :: a_val a, x) (snd (build_catalog h kids roots cat)).
Proof.
  assert (Keep : forall h kids roots cat kv, In kv cat -> In kv (snd (build_catalog h kids roots cat))).
  { induction kids as [|y kids IH]; intros roots cat kv Hin; cbn; [exact Hin|]. apply IH.
    destruct (get_any NM_ID (n_attrs (getn h y))); [right; exact Hin|exact Hin]. }
  induction kids as [|y kids IH]; intros roots cat x a Hin Ea; [contradiction|]. cbn.
  destruct Hin as [->|Hin]; [|apply IH; assumption].
  rewrite Ea. apply Keep. left. reflexivity.
Qed.

Lemma build_catalog_head : forall h kids x l cat, exists l', fst (build_catalog h kids (x :: l) cat) = x :: l'.
Proof.
  induction kids as [|y kids IH]; intros x l cat; cbn; [eauto|].
  destruct (soaproot (getn h y)); apply IH.
Qed.

Lemma snoc_range : forall h nd,
  (forall p x, In x (n_kids (getn h p)) -> x < length h) -> (forall x, In x (n_kids nd) -> x < length h) ->
  forall p x, In x (n_kids (getn (h ++ [nd]) p)) -> x < length (h ++ [nd]).
Proof.
  intros h nd R K p x X. rewrite app_length. cbn.
  destruct (getn_snoc_cases h nd p) as [[_ E]|[[_ E]|[_ E]]]; rewrite E in X.
  - specialize (R p x X). lia.
  - specialize (K x X). lia.
  - contradiction.
Qed.

Lemma snoc_pu : forall h nd,
  (forall p1 p2 x, In x (n_kids (getn h p1)) -> In x (n_kids (getn h p2)) -> p1 = p2) ->
  (forall x, In x (n_kids nd) -> free h x) ->
  forall p1 p2 x, In x (n_kids (getn (h ++ [nd]) p1)) -> In x (n_kids (getn (h ++ [nd]) p2)) -> p1 = p2.
Proof.
  intros h nd PU K p1 p2 x X1 X2.
  destruct (getn_snoc_cases h nd p1) as [[L1 E1]|[[L1 E1]|[L1 E1]]]; rewrite E1 in X1;
  destruct (getn_snoc_cases h nd p2) as [[L2 E2]|[[L2 E2]|[L2 E2]]]; rewrite E2 in X2; try contradiction.
  - exact (PU p1 p2 x X1 X2).
  - exfalso. exact (K x X2 p1 X1).
  - exfalso. exact (K x X1 p2 X2).
  - congruence.
Qed.

Lemma kmax_le : forall ks n, (forall k, In k ks -> height k <= n) -> kmax ks <= n.
Proof.
  induction ks as [|k ks IH]; intros n Hk; unfold kmax in *; cbn; [lia|].
  pose proof (Hk k (or_introl eq_refl)). specialize (IH n (fun k' Hk' => Hk k' (or_intror Hk'))). lia.
Qed.

Section Final.
Variable c : choices.
Hypothesis spell_inj : forall i j, ch_spell c i = ch_spell c j -> i = j.
Variable t : tree.
Hypothesis Pl : plainT t = true.
Variables (r : nat) (st : ost).
Hypothesis Em : emit c [] t (mkO [] []) = (r, st).

Local Notation Hh := (height t).
Local Notation hs := (o_heap st).
Local Notation reg := (o_reg st).
Local Notation inds := (map snd (o_reg st)).
Local Notation b := (length (o_heap st)).
Local Notation body := (mkN NS_ENV NM_BODY [] None (r :: map snd (o_reg st))).
Local Notation hF := (o_heap st ++ [mkN NS_ENV NM_BODY [] None (r :: map snd (o_reg st))]).
Local Notation cat := (the_catalog (o_heap st ++ [mkN NS_ENV NM_BODY [] None (r :: map snd (o_reg st))]) (length (o_heap st))).

Lemma wf_init : WF c Hh (mkO [] []).
Proof.
  constructor; cbn.
  - intros p x X. rewrite getn_out in X by (cbn; lia). contradiction.
  - intros p1 p2 x X. rewrite getn_out in X by (cbn; lia). contradiction.
  - intros i L. lia.
  - constructor.
  - intros ? ? [].
Qed.

Lemma final_post : Post c Hh (mkO [] []) r st t.
Proof. exact (emit_spec c Hh t [] (mkO [] []) r st Em wf_init Pl (le_n _)). Qed.

Lemma final_facts :
  length hs = S r /\ WF c Hh st /\ (forall t' m, In (t', m) reg -> m < r) /\ free hs r /\
  (forall hF' cat', agree hs hF' -> good c cat' reg -> outl cat' hF' t r).
Proof. destruct final_post as (_ & L & _ & W & _ & M & _ & F & O). auto. Qed.

Lemma agree_final : agree hs hF.
Proof. intros i L. apply getn_app_l. exact L. Qed.

Lemma getn_body : getn hF b = body.
Proof. apply getn_app_last. Qed.

Lemma getn_old : forall i, i < length hs -> getn hF i = getn hs i.
Proof. intros. apply getn_app_l. assumption. Qed.

Lemma reg_node : forall t' m, In (t', m) reg ->
  plainT t' = true /\ height t' <= Hh /\ m < length hs /\ free hs m /\
  exists xs, getn hF m = indep_node c m (t_attrs t') (t_text t') xs /\
             forall hF' cat', agree hs hF' -> good c cat' reg -> outl_list cat' hF' (t_kids t') xs.
Proof.
  intros t' m I. destruct final_facts as (_ & W & _).
  destruct (w_reg c Hh st W t' m I) as [(P & Hq & L & xs & E & O) F].
  repeat (split; [assumption|]). exists xs. split; [rewrite getn_old by exact L; exact E|exact O].
Qed.

Lemma r_shape : get_any NM_ID (n_attrs (getn hF r)) = None /\ soaproot (getn hF r) = true.
Proof.
  destruct final_facts as (L & W & M & _).
  rewrite getn_old by lia.
  assert (Lr : r < length (o_heap st)) by lia.
  destruct (w_shape c Hh st W r Lr) as [(S1 & S2 & S3)|[(m & t' & I & S2 & S3)|(t' & a' & I & _)]].
  - unfold soaproot. rewrite S3. auto.
  - unfold soaproot. rewrite S2. split; reflexivity.
  - specialize (M t' r I). lia.
Qed.

Lemma cat_entries : forall k v, In (k, v) cat -> exists t', In (t', v) reg /\ k = key c v.
Proof.
  intros k v Hin. unfold the_catalog in Hin. rewrite getn_body in Hin. cbn [n_kids] in Hin.
  apply build_catalog_in in Hin as [[]|(x & a & Hx & Ea & Ekv)]. injection Ekv as -> ->.
  destruct Hx as [<-|Hx].
  - destruct r_shape as [N _]. rewrite N in Ea. discriminate.
  - apply in_map_iff in Hx as ([t' m] & E & I). cbn in E. subst m. exists t'. split; [exact I|].
    destruct (reg_node t' x I) as (_ & _ & _ & _ & xs & En & _). rewrite En in Ea. cbn in Ea.
    injection Ea as <-. reflexivity.
Qed.

Lemma key_inj : forall i j, key c i = key c j -> i = j.
Proof. intros i j E. unfold key in E. injection E as E. apply spell_inj. exact E. Qed.

Lemma cat_get_unique : forall (l : catalog) m,
  (forall k v, In (k, v) l -> k = key c v) -> In (key c m, m) l -> cat_get l (key c m) = Some m.
Proof.
  induction l as [|[k v] l IH]; intros m A Hin; [contradiction|]. cbn [cat_get].
  destruct (str_eqb (key c m) k) eqn:E.
  - apply str_eqb_eq in E. pose proof (A k v (or_introl eq_refl)) as Ek. rewrite Ek in E. apply key_inj in E.
    subst v. reflexivity.
  - destruct Hin as [Eq|Hin]; [injection Eq as E1 E2; rewrite E1, str_eqb_refl in E; discriminate|].
    apply IH; [|exact Hin]. intros k' v' I. apply A. right. exact I.
Qed.

Lemma good_final : good c cat reg.
Proof.
  intros t' m I. apply cat_get_unique.
  - intros k v Hin. destruct (cat_entries k v Hin) as (_ & _ & E). exact E.
  - unfold the_catalog. rewrite getn_body. cbn [n_kids].
    destruct (reg_node t' m I) as (_ & _ & _ & _ & xs & En & _).
    apply (build_catalog_has hF (r :: inds) [] [] m (a_idv (ch_spell c m))).
    + right. apply in_map_iff. exists (t', m). auto.
    + rewrite En. reflexivity.
Qed.

Lemma outl_resp : outl cat hF t r.
Proof. destruct final_facts as (_ & _ & _ & _ & O). apply O; [exact agree_final|exact good_final]. Qed.

Lemma first_root_final : first_root_is hF b r = true.
Proof.
  unfold first_root_is, the_roots. rewrite getn_body. cbn [n_kids build_catalog].
  destruct r_shape as [_ ->]. change ([] ++ [r]) with [r].
  match goal with |- context [build_catalog ?h ?k [r] ?ct] => destruct (build_catalog_head h k r [] ct) as [l' ->] end.
  apply Nat.eqb_refl.
Qed.

(* every node of the final heap *)
Lemma node_cases : forall i, i < length hF ->
  (i = b /\ getn hF i = body) \/
  (i < b /\ shape c reg i (getn hF i)).
Proof.
  intros i L. rewrite app_length in L. cbn in L.
  destruct (Nat.eq_dec i b) as [->|Ne]; [left; split; [reflexivity|exact getn_body]|].
  right. assert (Li : i < b) by (lia). split; [exact Li|].
  rewrite getn_old by exact Li. destruct final_facts as (_ & W & _). exact (w_shape c Hh st W i Li).
Qed.

Lemma wf_refs_final : wf_refs hF b = true.
Proof.
  unfold wf_refs. apply andb_true_iff. split; [apply andb_true_iff; split|].
  - apply forallb_forall. intros [k v] Hin. cbn.
    destruct (cat_entries k v Hin) as (t' & I & _).
    destruct (reg_node t' v I) as (P & _ & _ & _ & xs & En & _). rewrite En.
    destruct t' as [? ? attrs' ? ks']. rewrite plainT_unfold in P. apply andb_true_iff in P as [P _].
    destruct (plain_attrs_spec attrs' P) as (A1 & _). unfold no_href, get_any in *. cbn. rewrite A1. reflexivity.
  - apply (forallb_nth _ hF empty_node). intros i L. change (nth i hF empty_node) with (getn hF i).
    destruct (node_cases i L) as [[_ ->]|[_ [(S1 & _)|[(m & t' & _ & S2 & _)|(t' & a' & _ & S2 & S3 & _)]]]].
    + reflexivity.
    + unfold one_href. rewrite S1. reflexivity.
    + unfold one_href. rewrite S2. reflexivity.
    + unfold one_href, get_any in *. rewrite S2. cbn. rewrite S3. reflexivity.
  - rewrite getn_body. reflexivity.
Qed.

Lemma kids_lt_b : forall x, In x (r :: inds) -> x < b.
Proof.
  destruct final_facts as (L & _ & M & _).
  intros x [<-|Hx]; [lia|].
  apply in_map_iff in Hx as ([t' m] & E & I). cbn in E. subst m. specialize (M t' x I). lia.
Qed.

Lemma range_final : forall p x, In x (n_kids (getn hF p)) -> x < length hF.
Proof.
  destruct final_facts as (_ & W & _).
  apply snoc_range; [exact (w_range c Hh st W)|]. intros x Hx. apply kids_lt_b. exact Hx.
Qed.

Lemma body_top_final : body_top hF b = true.
Proof.
  unfold body_top. apply (forallb_nth _ hF empty_node). intros i L. change (nth i hF empty_node) with (getn hF i).
  apply negb_true_iff. apply not_in_existsb. intros X.
  destruct (node_cases i L) as [[_ E]|[Li _]].
  - rewrite E in X. apply kids_lt_b in X. lia.
  - rewrite getn_old in X by exact Li. destruct final_facts as (_ & W & _).
    pose proof (w_range c Hh st W i b X). lia.
Qed.

Lemma pu_final : forall p1 p2 x, In x (n_kids (getn hF p1)) -> In x (n_kids (getn hF p2)) -> p1 = p2.
Proof.
  destruct final_facts as (_ & W & _ & Fr & _).
  apply snoc_pu; [exact (w_pu c Hh st W)|].
  intros x [<-|Hx]; [exact Fr|].
  apply in_map_iff in Hx as ([t' m] & E & I). cbn in E. subst m.
  destruct (reg_node t' x I) as (_ & _ & _ & F & _). exact F.
Qed.

Lemma bare_final : bare_refs hF b = true.
Proof.
  unfold bare_refs. apply (forallb_nth _ hF empty_node). intros i L.
  change (nth i hF empty_node) with (getn hF i).
  destruct (node_cases i L) as [[_ ->]|[_ [(S1 & _)|[(m & t' & _ & S2 & S3)|(t' & a' & _ & S2 & S3 & _)]]]].
  - reflexivity.
  - rewrite S1. reflexivity.
  - rewrite S2, S3. cbn. destruct (cat_get cat (key c m)); reflexivity.
  - unfold get_any in *. rewrite S2. cbn. rewrite S3. reflexivity.
Qed.

Lemma input_ok_final : input_ok hF b = true.
Proof.
  unfold input_ok. rewrite wf_refs_final, body_top_final, bare_final.
  rewrite (rangeb_complete hF range_final), (parents_unique_complete hF pu_final). reflexivity.
Qed.

(* the Body as a tree: the response element and the independent elements *)
Definition indep_tree (e : tree * nat) : tree :=
  T NS_NONE NM_MULTIREF (a_idv (ch_spell c (snd e)) :: t_attrs (fst e)) (t_text (fst e)) (t_kids (fst e)).

Local Notation tb := (T NS_ENV NM_BODY [] None (t :: map indep_tree (o_reg st))).

Lemma outl_body : outl cat hF tb b.
Proof.
  rewrite outl_unfold. rewrite getn_body. cbn [n_ns n_name n_attrs n_text n_kids].
  split; [reflexivity|]. split; [reflexivity|]. left.
  split; [reflexivity|]. split; [reflexivity|]. split; [reflexivity|].
  cbn. split; [exact outl_resp|].
  assert (G : forall l, (forall e, In e l -> In e reg) -> outl_list cat hF (map indep_tree l) (map snd l)).
  { induction l as [|[t' m] l IH]; intros Sub; cbn; [exact I|]. split.
    - destruct (reg_node t' m (Sub _ (or_introl eq_refl))) as (P & _ & _ & _ & xs & En & O).
      rewrite En. cbn. split; [reflexivity|]. split; [reflexivity|]. left.
      destruct t' as [? ? attrs' tx' ks']. rewrite plainT_unfold in P. apply andb_true_iff in P as [P _].
      cbn [t_attrs t_text t_kids] in *.
      destruct (plain_attrs_spec attrs' P) as (A1 & _).
      split; [unfold get_any in *; cbn; exact A1|]. split; [reflexivity|]. split; [reflexivity|].
      apply O; [exact agree_final|exact good_final].
    - apply IH. intros e He. apply Sub. right. exact He. }
  apply G. auto.
Qed.

Lemma height_body : height tb <= S Hh.
Proof.
  cbn [height]. fold (kmax (t :: map indep_tree reg)). apply le_n_S. apply kmax_le.
  intros k [<-|Hk]; [lia|].
  apply in_map_iff in Hk as ([t' m] & <- & I). destruct (reg_node t' m I) as (_ & Hq & _).
  destruct t'. cbn in *. exact Hq.
Qed.

Lemma outline_final : forall fuel Sc ret, S Hh <= fuel ->
  get_reply fuel Sc ret hF b = decode_reply fuel Sc ret (Some (t_kids t)).
Proof.
  intros fuel Sc ret L.
  pose proof (wf_nochain hF b wf_refs_final) as NC.
  pose proof (inline_mono cat hF NC _ fuel b tb (Nat.le_trans _ _ _ height_body L)
                (outl_inline cat hF NC tb b outl_body)) as Hib.
  rewrite (multiref_equiv_input_l fuel Sc ret hF b r tb input_ok_final first_root_final Hib).
  unfold spec_reply, inline_reply.
  rewrite (inline_mono cat hF NC (height t) fuel r t); [reflexivity| |exact (outl_inline cat hF NC t r outl_resp)].
  lia.
Qed.

End Final.

(* for ALL choices and ALL plain in-line replies *)
Lemma outline_correct_l : forall c t fuel Sc ret,
  (forall i j, ch_spell c i = ch_spell c j -> i = j) -> plainT t = true -> S (height t) <= fuel ->
  let '(h, b, r) := outline c t in
  input_ok h b = true /\ first_root_is h b r = true /\ outl (the_catalog h b) h t r /\
  get_reply fuel Sc ret h b = decode_reply fuel Sc ret (Some (t_kids t)).
Proof.
  intros c t fuel Sc ret Inj Pl L. unfold outline.
  destruct (emit c [] t (mkO [] [])) as [r st] eqn:Em.
  split; [eapply input_ok_final; eauto|].
  split; [eapply first_root_final; eauto|].
  split; [eapply outl_resp; eauto|].
  eapply outline_final; eauto.
Qed.

(* an injective id spelling, for examples: "d", "dd", "ddd", ... *)
Definition spell_rep (k : nat) : str := repeat 100%N (S k).
Lemma spell_rep_inj : forall i j, spell_rep i = spell_rep j -> i = j.
Proof.
  intros i j E. apply (f_equal (@length N)) in E. unfold spell_rep in E. rewrite !repeat_length in E. lia.
Qed.
