(* C18 — moved content keeps the meaning of its prefixes (lemmas). *)
From SV Require Import Lib.Base C18.Prefix.
From Coq Require Import Lia.
Arguments pgetn : simpl never.

Lemma assoc_app : forall p a b, assoc p (a ++ b) = match assoc p a with Some u => Some u | None => assoc p b end.
Proof. induction a as [|[k u] a IH]; intros b; cbn; [reflexivity|]. destruct (N.eqb p k); auto. Qed.

Lemma length_psetn : forall h n v, length (psetn h n v) = length h.
Proof. induction h as [|x h IH]; intros [|n] v; cbn; auto. Qed.

Lemma pgetn_psetn_eq : forall h n v, n < length h -> pgetn (psetn h n v) n = v.
Proof. unfold pgetn. induction h as [|x h IH]; intros [|n] v L; cbn in *; try lia; auto. apply IH. lia. Qed.

Lemma pgetn_psetn_neq : forall h n v i, i <> n -> pgetn (psetn h n v) i = pgetn h i.
Proof. unfold pgetn. induction h as [|x h IH]; intros [|n] v [|i] Hn; cbn; auto; congruence. Qed.

Lemma psetn_out : forall h n v, length h <= n -> psetn h n v = h.
Proof. induction h as [|x h IH]; intros [|n] v L; cbn in *; auto; try lia. f_equal. apply IH. lia. Qed.

Lemma reparent_length : forall cs h n, length (reparent h cs n) = length h.
Proof. induction cs as [|c cs IH]; intros h n; cbn; [reflexivity|]. rewrite IH. apply length_psetn. Qed.

Lemma reparent_out : forall cs h n i, ~ In i cs -> pgetn (reparent h cs n) i = pgetn h i.
Proof.
  induction cs as [|c cs IH]; intros h n i Hn; cbn; [reflexivity|].
  rewrite IH by (intros X; apply Hn; right; exact X).
  apply pgetn_psetn_neq. intros ->. apply Hn. left. reflexivity.
Qed.

Lemma reparent_decls : forall cs h n i, p_decls (pgetn (reparent h cs n) i) = p_decls (pgetn h i).
Proof.
  induction cs as [|c cs IH]; intros h n i; cbn; [reflexivity|]. rewrite IH.
  destruct (Nat.eq_dec i c) as [->|Ne]; [|rewrite pgetn_psetn_neq by exact Ne; reflexivity].
  destruct (Nat.lt_ge_cases c (length h)) as [L|L].
  - rewrite pgetn_psetn_eq by exact L. reflexivity.
  - rewrite psetn_out by exact L. reflexivity.
Qed.

Lemma reparent_in : forall cs h n i, In i cs -> i < length h -> p_parent (pgetn (reparent h cs n) i) = Some n.
Proof.
  induction cs as [|c cs IH]; intros h n i Hi L; [contradiction|]. cbn.
  destruct (in_dec Nat.eq_dec i cs) as [Hc|Hc].
  - apply IH; [exact Hc|rewrite length_psetn; exact L].
  - destruct Hi as [->|Hi]; [|contradiction]. rewrite reparent_out by exact Hc.
    rewrite pgetn_psetn_eq by exact L. reflexivity.
Qed.

(* what move leaves alone, what it does to the referrer and to the moved children *)
Lemma move_other : forall copy h n m i, i <> n -> ~ In i (p_kids (pgetn h m)) -> pgetn (move copy h n m) i = pgetn h i.
Proof.
  intros copy h n m i Hn Hk. unfold move. rewrite reparent_out by exact Hk. apply pgetn_psetn_neq. exact Hn.
Qed.

Lemma move_referrer : forall copy h n m, n < length h -> ~ In n (p_kids (pgetn h m)) ->
  p_parent (pgetn (move copy h n m) n) = p_parent (pgetn h n) /\
  p_decls (pgetn (move copy h n m) n) =
    if copy then p_decls (pgetn h m) ++ p_decls (pgetn h n) else p_decls (pgetn h n).
Proof.
  intros copy h n m L Hk. unfold move. rewrite reparent_out by exact Hk.
  rewrite pgetn_psetn_eq by exact L. split; reflexivity.
Qed.

Lemma move_child : forall copy h n m x, In x (p_kids (pgetn h m)) -> x <> n -> x < length h ->
  p_parent (pgetn (move copy h n m) x) = Some n /\ p_decls (pgetn (move copy h n m) x) = p_decls (pgetn h x).
Proof.
  intros copy h n m x Hx Ne L. unfold move. split.
  - apply reparent_in; [exact Hx|rewrite length_psetn; exact L].
  - rewrite reparent_decls. rewrite pgetn_psetn_neq by exact Ne. reflexivity.
Qed.

Lemma resolve_mono : forall f h n p u, resolve f h n p = Some u -> resolve (S f) h n p = Some u.
Proof.
  induction f as [|f IH]; intros h n p u E; [discriminate|]. cbn in E. remember (S f) as f1. cbn. subst f1.
  destruct (assoc p (p_decls (pgetn h n))); [exact E|].
  destruct (p_parent (pgetn h n)); [|discriminate]. apply IH. exact E.
Qed.

Lemma resolve_mono_le : forall f f' h n p u, f <= f' -> resolve f h n p = Some u -> resolve f' h n p = Some u.
Proof. induction 1; intros; auto. apply resolve_mono. auto. Qed.

Lemma climbs_resolve : forall k h n body p ok f, climbs k h n body p ok -> resolve (k + f) h n p = resolve f h body p.
Proof.
  induction k as [|k IH]; intros h n body p ok f C; cbn in C.
  - subst. reflexivity.
  - destruct C as (_ & _ & A & q & Pq & C). cbn. rewrite A, Pq. eapply IH. exact C.
Qed.

Lemma climbs_frame : forall k h h' n body p (ok : nat -> Prop),
  (forall i, ok i -> pgetn h' i = pgetn h i) -> climbs k h n body p ok -> climbs k h' n body p ok.
Proof.
  induction k as [|k IH]; intros h h' n body p ok Fr C; cbn in *; [exact C|].
  destruct C as (Nb & Ok & A & q & Pq & C). rewrite (Fr n Ok).
  split; [exact Nb|]. split; [exact Ok|]. split; [exact A|]. exists q. split; [exact Pq|]. eapply IH; eauto.
Qed.

Section Moved.
Variables (h : pheap) (n m body q0 : nat).
Hypothesis Ln : n < length h.
Hypothesis Nk : ~ In n (p_kids (pgetn h m)).
Hypothesis Pm : p_parent (pgetn h m) = Some body.
Hypothesis Pb : p_parent (pgetn h body) = None.
Hypothesis Nb : body <> n.
Hypothesis Nbk : ~ In body (p_kids (pgetn h m)).
Hypothesis Pn : p_parent (pgetn h n) = Some q0.

Definition off_path (i : nat) : Prop := i <> n /\ ~ In i (p_kids (pgetn h m)).

(* the referrer: a prefix means at the referrer, after the move, what it meant
   at the referenced element *)
Lemma moved_attrs_l : forall p u k,
  (assoc p (p_decls (pgetn h m)) = None ->
     assoc p (p_decls (pgetn h n)) = None /\ climbs k h q0 body p off_path) ->
  resolves h m p u -> resolves (move true h n m) n p u.
Proof.
  intros p u k G [f E]. destruct f as [|f]; [discriminate|]. cbn in E.
  destruct (move_referrer true h n m Ln Nk) as [Ep Ed].
  destruct (assoc p (p_decls (pgetn h m))) as [u'|] eqn:Am.
  - injection E as <-. exists 1. cbn. rewrite Ed, assoc_app, Am. reflexivity.
  - destruct (G eq_refl) as [An C]. rewrite Pm in E.
    (* at the Body *)
    destruct f as [|f]; [discriminate|]. cbn in E. rewrite Pb in E.
    destruct (assoc p (p_decls (pgetn h body))) as [ub|] eqn:Ab; [|discriminate]. injection E as <-.
    assert (Hb : pgetn (move true h n m) body = pgetn h body) by (apply move_other; assumption).
    assert (C' : climbs k (move true h n m) q0 body p off_path).
    { eapply climbs_frame; [|exact C]. intros i [A B]. apply move_other; assumption. }
    exists (S (k + 1)). cbn [resolve]. rewrite Ed, assoc_app, Am, An, Ep, Pn.
    rewrite (climbs_resolve k _ q0 body p off_path 1 C'). cbn. rewrite Hb, Ab. reflexivity.
Qed.

(* the moved children (and, through them, everything below) *)
Lemma moved_child_l : forall p u k x,
  In x (p_kids (pgetn h m)) -> x <> n -> x < length h -> p_parent (pgetn h x) = Some m ->
  (assoc p (p_decls (pgetn h m)) = None ->
     assoc p (p_decls (pgetn h n)) = None /\ climbs k h q0 body p off_path) ->
  resolves h x p u -> resolves (move true h n m) x p u.
Proof.
  intros p u k x Hx Nx Lx Px G [f E]. destruct f as [|f]; [discriminate|]. cbn in E.
  destruct (move_child true h n m x Hx Nx Lx) as [Ep Ed].
  destruct (assoc p (p_decls (pgetn h x))) as [u'|] eqn:Ax.
  - injection E as <-. exists 1. cbn. rewrite Ed, Ax. reflexivity.
  - rewrite Px in E. destruct (moved_attrs_l p u k G (ex_intro _ f E)) as [f' E'].
    exists (S f'). cbn. rewrite Ed, Ax, Ep. exact E'.
Qed.

End Moved.
