(* C18 — moved content keeps the meaning of its prefixes (lemmas). *)
From SV Require Import Lib.Base C18.Prefix.
From Coq Require Import Lia.
Arguments pgetn : simpl never.

Lemma assoc_app : forall p a b, assoc p (a ++ b) = match assoc p a with Some u => Some u | None => assoc p b end.
Proof. induction a as [|[k u] a IH]; intros b; cbn; [reflexivity|]. destruct (N.eqb p k); auto. Qed.

Lemma length_psetn : forall h n v, length (psetn h n v) = length h.
Proof. induction h as [|x h IH]; intros [|n] v; cbn; auto. Qed.

Lemma pgetn_psetn_eq : forall h n v, n < length h -> pgetn (psetn h n v) n = v.
Proof. unfold pgetn. induction h as [|x h IH]; intros [|n] v L; cbn in *; try lia; auto. apply IH. lia. Qed.

Lemma pgetn_psetn_neq : forall h n v i, i <> n -> pgetn (psetn h n v) i = pgetn h i.
Proof. unfold pgetn. induction h as [|x h IH]; intros [|n] v [|i] Hn; cbn; auto; congruence. Qed.

Lemma psetn_out : forall h n v, length h <= n -> psetn h n v = h.
Proof. induction h as [|x h IH]; intros [|n] v L; cbn in *; auto; try lia. f_equal. apply IH. lia. Qed.

Lemma reparent_length : forall cs h n, length (reparent h cs n) = length h.
Proof. induction cs as [|c cs IH]; intros h n; cbn; [reflexivity|]. rewrite IH. apply length_psetn. Qed.

Lemma reparent_out : forall cs h n i, ~ In i cs -> pgetn (reparent h cs n) i = pgetn h i.
Proof.
  induction cs as [|c cs IH]; intros h n i Hn; cbn; [reflexivity|].
  rewrite IH by (intros X; apply Hn; right; exact X).
  apply pgetn_psetn_neq. intros ->. apply Hn. left. reflexivity.
Qed.

Lemma reparent_decls : forall cs h n i, p_decls (pgetn (reparent h cs n) i) = p_decls (pgetn h i).
Proof.
  induction cs as [|c cs IH]; intros h n i; cbn; [reflexivity|]. rewrite IH.
  destruct (Nat.eq_dec i c) as [->|Ne]; [|rewrite pgetn_psetn_neq by exact Ne; reflexivity].
  destruct (Nat.lt_ge_cases c (length h)) as [L|L].
  - rewrite pgetn_psetn_eq by exact L. reflexivity.
  - rewrite psetn_out by exact L. reflexivity.
Qed.

Lemma reparent_in : forall cs h n i, In i cs -> i < length h -> p_parent (pgetn (reparent h cs n) i) = Some n.
Proof.
  induction cs as [|c cs IH]; intros h n i Hi L; [contradiction|]. cbn.
  destruct (in_dec Nat.eq_dec i cs) as [Hc|Hc].
  - apply IH; [exact Hc|rewrite length_psetn; exact L].
  - destruct Hi as [->|Hi]; [|contradiction]. rewrite reparent_out by exact Hc.
    rewrite pgetn_psetn_eq by exact L. reflexivity.
Qed.

(* what move leaves alone, what it does to the referrer and to the moved children *)
Lemma move_other : forall copy h n m i, i <> n -> ~ In i (p_kids (pgetn h m)) -> pgetn (move copy h n m) i = pgetn h i.
Proof.
  intros copy h n m i Hn Hk. unfold move. rewrite reparent_out by exact Hk. apply pgetn_psetn_neq. exact Hn.
Qed.

Lemma move_referrer : forall copy h n m, n < length h -> ~ In n (p_kids (pgetn h m)) ->
  p_parent (pgetn (move copy h n m) n) = p_parent (pgetn h n) /\
  p_decls (pgetn (move copy h n m) n) =
    if copy then p_decls (pgetn h m) ++ p_decls (pgetn h n) else p_decls (pgetn h n).
Proof.
  intros copy h n m L Hk. unfold move. rewrite reparent_out by exact Hk.
  rewrite pgetn_psetn_eq by exact L. split; reflexivity.
Qed.

Lemma move_child : forall copy h n m x, In x (p_kids (pgetn h m)) -> x <> n -> x < length h ->
  p_parent (pgetn (move copy h n m) x) = Some n /\ p_decls (pgetn (move copy h n m) x) = p_decls (pgetn h x).
Proof.
  intros copy h n m x Hx Ne L. unfold move. split.
  - apply reparent_in; [exact Hx|rewrite length_psetn; exact L].
  - rewrite reparent_decls. rewrite pgetn_psetn_neq by exact Ne. reflexivity.
Qed.

Lemma resolve_mono : forall f h n p u, resolve f h n p = Some u -> resolve (S f) h n p = Some u.
Proof.
  induction f as [|f IH]; intros h n p u E; [discriminate|]. cbn in E. remember (S f) as f1. cbn. subst f1.
  destruct (assoc p (p_decls (pgetn h n))); [exact E|].
  destruct (p_parent (pgetn h n)); [|discriminate]. apply IH. exact E.
Qed.

Lemma resolve_mono_le : forall f f' h n p u, f <= f' -> resolve f h n p = Some u -> resolve f' h n p = Some u.
Proof. induction 1; intros; auto. apply resolve_mono. auto. Qed.

Lemma climbs_resolve : forall k h n body p ok f, climbs k h n body p ok -> resolve (k + f) h n p = resolve f h body p.
Proof.
  induction k as [|k IH]; intros h n body p ok f C; cbn in C.
  - subst. reflexivity.
  - destruct C as (_ & _ & A & q & Pq & C). cbn. rewrite A, Pq. eapply IH. exact C.
Qed.

Lemma climbs_frame : forall k h h' n body p (ok : nat -> Prop),
  (forall i, ok i -> pgetn h' i = pgetn h i) -> climbs k h n body p ok -> climbs k h' n body p ok.
Proof.
  induction k as [|k IH]; intros h h' n body p ok Fr C; cbn in *; [exact C|].
  destruct C as (Nb & Ok & A & q & Pq & C). rewrite (Fr n Ok).
  split; [exact Nb|]. split; [exact Ok|]. split; [exact A|]. exists q. split; [exact Pq|]. eapply IH; eauto.
Qed.

Section Moved.
Variables (h : pheap) (n m body q0 : nat).
Hypothesis Ln : n < length h.
Hypothesis Nk : ~ In n (p_kids (pgetn h m)).
Hypothesis Pm : p_parent (pgetn h m) = Some body.
Hypothesis Pb : p_parent (pgetn h body) = None.
Hypothesis Nb : body <> n.
Hypothesis Nbk : ~ In body (p_kids (pgetn h m)).
Hypothesis Pn : p_parent (pgetn h n) = Some q0.

Definition off_path (i : nat) : Prop := i <> n /\ ~ In i (p_kids (pgetn h m)).

(* the referrer: a prefix means at the referrer, after the move, what it meant
   at the referenced element *)
Lemma moved_attrs_l : forall p u k,
  (assoc p (p_decls (pgetn h m)) = None ->
     assoc p (p_decls (pgetn h n)) = None /\ climbs k h q0 body p off_path) ->
  resolves h m p u -> resolves (move true h n m) n p u.
Proof.
  intros p u k G [f E]. destruct f as [|f]; [discriminate|]. cbn in E.
  destruct (move_referrer true h n m Ln Nk) as [Ep Ed].
  destruct (assoc p (p_decls (pgetn h m))) as [u'|] eqn:Am.
  - injection E as <-. exists 1. cbn. rewrite Ed, assoc_app, Am. reflexivity.
  - destruct (G eq_refl) as [An C]. rewrite Pm in E.
    (* at the Body *)
    destruct f as [|f]; [discriminate|]. cbn in E. rewrite Pb in E.
    destruct (assoc p (p_decls (pgetn h body))) as [ub|] eqn:Ab; [|discriminate]. injection E as <-.
    assert (Hb : pgetn (move true h n m) body = pgetn h body) by (apply move_other; assumption).
    assert (C' : climbs k (move true h n m) q0 body p off_path).
    { eapply climbs_frame; [|exact C]. intros i [A B]. apply move_other; assumption. }
    exists (S (k + 1)). cbn [resolve]. rewrite Ed, assoc_app, Am, An, Ep, Pn.
    rewrite (climbs_resolve k _ q0 body p off_path 1 C'). cbn. rewrite Hb, Ab. reflexivity.
Qed.

(* the moved children (and, through them, everything below) *)
Lemma moved_child_l : forall p u k x,
  In x (p_kids (pgetn h m)) -> x <> n -> x < length h -> p_parent (pgetn h x) = Some m ->
  (assoc p (p_decls (pgetn h m)) = None ->
     assoc p (p_decls (pgetn h n)) = None /\ climbs k h q0 body p off_path) ->
  resolves h x p u -> resolves (move true h n m) x p u.
Proof.
  intros p u k x Hx Nx Lx Px G [f E]. destruct f as [|f]; [discriminate|]. cbn in E.
  destruct (move_child true h n m x Hx Nx Lx) as [Ep Ed].
  destruct (assoc p (p_decls (pgetn h x))) as [u'|] eqn:Ax.
  - injection E as <-. exists 1. cbn. rewrite Ed, Ax. reflexivity.
  - rewrite Px in E. destruct (moved_attrs_l p u k G (ex_intro _ f E)) as [f' E'].
    exists (S f'). cbn. rewrite Ed, Ax, Ep. exact E'.
Qed.

End Moved.

(* ------------------------------------------------------------------ *)
(* Element.promotePrefixes                                             *)
(* ------------------------------------------------------------------ *)

Lemma assoc_dset : forall l p u q, assoc q (dset l p u) = if N.eqb q p then Some u else assoc q l.
Proof.
  induction l as [|[k v] l IH]; intros p u q; cbn.
  - destruct (N.eqb q p); reflexivity.
  - destruct (N.eqb p k) eqn:E; cbn.
    + apply N.eqb_eq in E. subst k. destruct (N.eqb q p); reflexivity.
    + rewrite IH. destruct (N.eqb q k) eqn:E2; [|reflexivity].
      apply N.eqb_eq in E2. subst k. rewrite N.eqb_sym, E. reflexivity.
Qed.

Lemma assoc_dremove : forall l p q, assoc q (dremove p l) = if N.eqb q p then None else assoc q l.
Proof.
  induction l as [|[k v] l IH]; intros p q; cbn.
  - destruct (N.eqb q p); reflexivity.
  - destruct (N.eqb p k) eqn:E; cbn.
    + apply N.eqb_eq in E. subst k. rewrite IH. destruct (N.eqb q p); reflexivity.
    + rewrite IH. destruct (N.eqb q k) eqn:E2; [|reflexivity].
      apply N.eqb_eq in E2. subst k. rewrite N.eqb_sym, E. reflexivity.
Qed.

(* bindings already on the parent are never overwritten *)
Lemma promote_keeps_parent_l : forall pp todo dn dp dn' dp',
  promote_decls false pp todo dn dp = (dn', dp') ->
  forall p u, assoc p dp = Some u -> assoc p dp' = Some u.
Proof.
  induction todo as [|[q v] todo IH]; intros dn dp dn' dp' E p u A; cbn in E.
  - injection E as <- <-. exact A.
  - destruct (assoc q dp) as [pu|] eqn:Aq.
    + destruct (N.eqb pu v); cbn in E; eapply IH; eauto.
    + destruct (match pp with Some x => negb (N.eqb q x) | None => true end); [|eapply IH; eauto].
      eapply IH; [exact E|]. rewrite assoc_dset. destruct (N.eqb p q) eqn:Epq; [|exact A].
      apply N.eqb_eq in Epq. subst q. congruence.
Qed.

(* a declaration that collides with a different binding on the parent stays on the element *)
Lemma promote_collision_stays_l : forall pp todo dn dp dn' dp' p u pu,
  promote_decls false pp todo dn dp = (dn', dp') ->
  (forall u', In (p, u') todo -> u' = u) ->
  assoc p dn = Some u -> assoc p dp = Some pu -> pu <> u -> assoc p dn' = Some u.
Proof.
  induction todo as [|[q v] todo IH]; intros dn dp dn' dp' p u pu E U A Ap Ne; cbn in E.
  - injection E as <- <-. exact A.
  - assert (U' : forall u', In (p, u') todo -> u' = u) by (intros u' I; apply U; right; exact I).
    destruct (N.eqb p q) eqn:Epq.
    + apply N.eqb_eq in Epq. subst q. rewrite Ap in E.
      assert (v = u) by (apply U; left; reflexivity). subst v.
      destruct (N.eqb pu u) eqn:Eu; [apply N.eqb_eq in Eu; contradiction|]. cbn in E.
      eapply IH; eauto.
    + assert (Keep : assoc p (dremove q dn) = Some u) by (rewrite assoc_dremove, Epq; exact A).
      destruct (assoc q dp) as [qu|] eqn:Aq.
      * destruct (N.eqb qu v); cbn in E; eapply IH; eauto.
      * destruct (match pp with Some x => negb (N.eqb q x) | None => true end); [|eapply IH; eauto].
        eapply IH; [exact E|exact U'|exact Keep| |exact Ne]. rewrite assoc_dset, Epq. exact Ap.
Qed.

Lemma assoc_in_nodup : forall l p u, NoDup (map fst l) -> In (p, u) l -> assoc p l = Some u.
Proof.
  induction l as [|[k v] l IH]; intros p u ND I; [contradiction|]. cbn in *. inversion ND as [|? ? Nk ND']; subst.
  destruct I as [Eq|I].
  - injection Eq as -> ->. rewrite N.eqb_refl. reflexivity.
  - destruct (N.eqb p k) eqn:E; [|apply IH; assumption].
    apply N.eqb_eq in E. subst k. exfalso. apply Nk. apply in_map_iff. exists (p, u). auto.
Qed.

(* what every prefix means at the element is what it meant before *)
Lemma promote_keeps_meaning_gen : forall pp todo dn dp dn' dp',
  promote_decls false pp todo dn dp = (dn', dp') ->
  NoDup (map fst todo) -> (forall p u, In (p, u) todo -> assoc p dn = Some u) ->
  forall p, means dn' dp' p = means dn dp p.
Proof.
  induction todo as [|[q v] todo IH]; intros dn dp dn' dp' E ND Inv p; cbn in E.
  - injection E as <- <-. reflexivity.
  - cbn in ND. inversion ND as [|? ? Nq ND']; subst.
    assert (Aq : assoc q dn = Some v) by (apply Inv; left; reflexivity).
    assert (Inv' : forall dn2, (forall r, N.eqb r q = false -> assoc r dn2 = assoc r dn) ->
                   forall p0 u0, In (p0, u0) todo -> assoc p0 dn2 = Some u0).
    { intros dn2 Same p0 u0 I. rewrite Same; [apply Inv; right; exact I|].
      apply N.eqb_neq. intros ->. apply Nq. apply in_map_iff. exists (q, u0). auto. }
    assert (Rm : forall r, N.eqb r q = false -> assoc r (dremove q dn) = assoc r dn).
    { intros r Er. rewrite assoc_dremove, Er. reflexivity. }
    destruct (assoc q dp) as [pu|] eqn:Ap.
    + destruct (N.eqb pu v) eqn:Eu; cbn in E.
      * apply N.eqb_eq in Eu. subst pu. rewrite (IH _ _ _ _ E ND' (Inv' _ Rm) p).
        unfold means. rewrite assoc_dremove. destruct (N.eqb p q) eqn:Epq; [|reflexivity].
        apply N.eqb_eq in Epq. subst q. rewrite Aq, Ap. reflexivity.
      * exact (IH _ _ _ _ E ND' (fun p0 u0 I => Inv p0 u0 (or_intror I)) p).
    + destruct (match pp with Some x => negb (N.eqb q x) | None => true end).
      * rewrite (IH _ _ _ _ E ND' (Inv' _ Rm) p).
        unfold means. rewrite assoc_dremove, assoc_dset. destruct (N.eqb p q) eqn:Epq; [|reflexivity].
        apply N.eqb_eq in Epq. subst q. rewrite Aq. reflexivity.
      * exact (IH _ _ _ _ E ND' (fun p0 u0 I => Inv p0 u0 (or_intror I)) p).
Qed.

Lemma promote_keeps_meaning_l : forall pp dn dp dn' dp',
  NoDup (map fst dn) -> promote_decls false pp dn dn dp = (dn', dp') ->
  forall p, means dn' dp' p = means dn dp p.
Proof.
  intros pp dn dp dn' dp' ND E p. eapply promote_keeps_meaning_gen; eauto.
  intros q u I. apply assoc_in_nodup; assumption.
Qed.

(* on the heap: a sibling that reads a prefix bound on the common parent (or on
   itself) reads the same after element n was promoted *)
Lemma promote_keeps_siblings_l : forall h n q x p u,
  p_parent (pgetn h n) = Some q -> p_parent (pgetn h x) = Some q -> p_parent (pgetn h q) = None ->
  x <> n -> x <> q -> q < length h ->
  (assoc p (p_decls (pgetn h x)) <> None \/ assoc p (p_decls (pgetn h q)) <> None) ->
  resolves h x p u -> resolves (promote_at false h n) x p u.
Proof.
  intros h n q x p u Pn Px Pq Nxn Nxq Lq Bound [f E].
  unfold promote_at. rewrite Pn.
  destruct (promote_decls false None (p_decls (pgetn h n)) (p_decls (pgetn h n)) (p_decls (pgetn h q))) as [dn' dp'] eqn:Ep.
  cbn [fst snd].
  set (h' := psetn (psetn h n _) q _).
  assert (Hx : pgetn h' x = pgetn h x).
  { unfold h'. rewrite pgetn_psetn_neq by exact Nxq. apply pgetn_psetn_neq. exact Nxn. }
  assert (Hq : p_decls (pgetn h' q) = dp' /\ p_parent (pgetn h' q) = None).
  { unfold h'. rewrite pgetn_psetn_eq by (rewrite length_psetn; exact Lq). cbn. auto. }
  destruct f as [|f]; [discriminate|]. cbn in E.
  destruct (assoc p (p_decls (pgetn h x))) as [ux|] eqn:Ax.
  - injection E as <-. exists 1. cbn. rewrite Hx, Ax. reflexivity.
  - rewrite Px in E. destruct f as [|f]; [discriminate|]. cbn in E. rewrite Pq in E.
    destruct (assoc p (p_decls (pgetn h q))) as [uq|] eqn:Aq.
    + injection E as <-. exists 2. cbn. rewrite Hx, Ax, Px. destruct Hq as [-> ->].
      rewrite (promote_keeps_parent_l _ _ _ _ _ _ Ep p uq Aq). reflexivity.
    + destruct Bound as [B|B]; congruence.
Qed.
