(* C18 — lemmas about MultiRef.process: the in-place substitution on the heap
   (shared children, any visiting order) yields, below every body child, the
   tree `inline` describes. *)
From SV Require Import Lib.Base C18.Model.
From Coq Require Import Lia.

(* ------------------------------------------------------------------ *)
(* lists, heaps                                                        *)
(* ------------------------------------------------------------------ *)

Lemma find_app_l : forall {A} (p : A -> bool) l1 l2,
  find p (l1 ++ l2) = match find p l1 with Some x => Some x | None => find p l2 end.
Proof. induction l1 as [|x l1 IH]; intros; cbn; [reflexivity|]. destruct (p x); auto. Qed.

Lemma find_filter_none : forall {A} (p q : A -> bool) l, find p l = None -> find p (filter q l) = None.
Proof.
  induction l as [|x l IH]; cbn; intros H; [reflexivity|].
  destruct (p x) eqn:E; [discriminate|]. destruct (q x); cbn; [rewrite E|]; auto.
Qed.

Lemma remove_first_app : forall {A} (p : A -> bool) l1 l2 x,
  find p l1 = Some x -> remove_first p (l1 ++ l2) = remove_first p l1 ++ l2.
Proof.
  induction l1 as [|y l1 IH]; cbn; intros l2 x H; [discriminate|].
  destruct (p y); [reflexivity|]. cbn. f_equal. exact (IH l2 x H).
Qed.

Lemma length_setn : forall h n v, length (setn h n v) = length h.
Proof. induction h as [|x h IH]; intros [|n] v; cbn; auto. Qed.

Lemma getn_setn_eq : forall h n v, n < length h -> getn (setn h n v) n = v.
Proof.
  unfold getn. induction h as [|x h IH]; intros [|n] v H; cbn in *; try lia; auto.
  apply IH. lia.
Qed.

Lemma getn_setn_neq : forall h n v i, i <> n -> getn (setn h n v) i = getn h i.
Proof.
  unfold getn. induction h as [|x h IH]; intros [|n] v [|i] H; cbn; auto; try congruence.
Qed.

Lemma setn_out : forall h n v, length h <= n -> setn h n v = h.
Proof. induction h as [|x h IH]; intros [|n] v H; cbn in *; auto; try lia. f_equal. apply IH. lia. Qed.

Lemma getn_out : forall h n, length h <= n -> getn h n = empty_node.
Proof. intros. unfold getn. apply nth_overflow. assumption. Qed.

Lemma all_some_map_ext : forall {A B} (f g : A -> option B) l,
  (forall x, In x l -> f x = g x) -> all_some (map f l) = all_some (map g l).
Proof.
  induction l as [|x l IH]; cbn; intros H; [reflexivity|].
  rewrite (H x) by auto. rewrite IH by auto. reflexivity.
Qed.

Lemma all_some_some : forall {A B} (f : A -> option B) l r,
  all_some (map f l) = Some r -> forall x, In x l -> exists y, f x = Some y.
Proof.
  induction l as [|x l IH]; cbn; intros r H y Hy; [contradiction|].
  destruct (f x) eqn:E; [|discriminate].
  destruct (all_some (map f l)) eqn:E2; [|discriminate].
  destruct Hy as [<-|Hy]; eauto.
Qed.

(* ------------------------------------------------------------------ *)
(* the pointwise resolved heap                                         *)
(* ------------------------------------------------------------------ *)

Section Resolve.
Variable cat : catalog.
Variable h0 : heap.

(* referenced elements carry no href themselves *)
Hypothesis nochain : forall k m, cat_get cat k = Some m -> no_href (getn h0 m) = true.
(* nobody has two attributes named href *)
Hypothesis onehref : forall n, one_href (getn h0 n) = true.

Definition hs : heap := map (repl_node cat h0) h0.

Lemma repl_node_empty : forall h, repl_node cat h empty_node = empty_node.
Proof. reflexivity. Qed.

Lemma getn_hs : forall n, getn hs n = repl_node cat h0 (getn h0 n).
Proof.
  intros n. unfold hs, getn.
  rewrite <- (repl_node_empty h0) at 1. apply map_nth.
Qed.

Lemma length_hs : length hs = length h0.
Proof. apply map_length. Qed.

Lemma no_href_fix : forall h nd, no_href nd = true -> repl_node cat h nd = nd.
Proof. unfold no_href, repl_node. intros h nd H. destruct (get_any NM_HREF (n_attrs nd)); [discriminate|reflexivity]. Qed.

(* a resolved node has no href left: resolving it again changes nothing *)
Lemma repl_node_idem : forall h n, repl_node cat h (repl_node cat h0 (getn h0 n)) = repl_node cat h0 (getn h0 n).
Proof.
  intros h n. remember (getn h0 n) as nd eqn:End.
  assert (C : repl_node cat h0 nd = nd /\ (forall h', repl_node cat h' nd = nd) \/ no_href (repl_node cat h0 nd) = true).
  { unfold repl_node.
    destruct (get_any NM_HREF (n_attrs nd)) as [hr|] eqn:Eh; [|left; split; auto].
    destruct (cat_get cat (a_val hr)) as [m|] eqn:Ec; [|left; split; auto].
    right. unfold no_href. cbn [n_attrs]. unfold get_any in *.
    rewrite (remove_first_app _ _ _ _ Eh). rewrite find_app_l.
    pose proof (onehref n) as O. rewrite <- End in O. unfold one_href, get_any in O. rewrite Eh in O.
    destruct (find (is_named NM_HREF) (remove_first (is_named NM_HREF) (n_attrs nd))); [discriminate|].
    pose proof (nochain _ _ Ec) as NC. unfold no_href, get_any in NC.
    destruct (find (is_named NM_HREF) (n_attrs (getn h0 m))) eqn:Em; [discriminate|].
    rewrite (find_filter_none _ _ _ Em). reflexivity. }
  destruct C as [[E1 E2]|C].
  - rewrite E1. apply E2.
  - apply no_href_fix. exact C.
Qed.

(* every node is still as in the reply, or already as resolved *)
Definition inv (h : heap) : Prop :=
  length h = length h0 /\ forall i, getn h i = getn h0 i \/ getn h i = getn hs i.

Definition done (h : heap) (i : nat) : Prop := getn h i = getn hs i.

Lemma inv_h0 : inv h0.
Proof. split; auto. Qed.

(* a catalogued node reads the same in every heap between h0 and hs *)
Lemma target_stable : forall h k m, inv h -> cat_get cat k = Some m -> getn h m = getn h0 m.
Proof.
  intros h k m [_ I] Ec. destruct (I m) as [E|E]; [assumption|].
  rewrite E, getn_hs. apply no_href_fix. eapply nochain; eauto.
Qed.

Lemma repl_node_heap_irrel : forall h nd, inv h -> repl_node cat h nd = repl_node cat h0 nd.
Proof.
  intros h nd I. unfold repl_node.
  destruct (get_any NM_HREF (n_attrs nd)) as [hr|]; [|reflexivity].
  destruct (cat_get cat (a_val hr)) as [m|] eqn:Ec; [|reflexivity].
  rewrite (target_stable h _ _ I Ec). reflexivity.
Qed.

Lemma repl_done : forall h n, inv h -> done (repl cat h n) n.
Proof.
  intros h n I. unfold done, repl.
  destruct (Nat.lt_ge_cases n (length h)) as [L|L].
  - rewrite getn_setn_eq by assumption. rewrite (repl_node_heap_irrel h _ I).
    destruct I as [_ I]. destruct (I n) as [E|E]; rewrite E.
    + symmetry. apply getn_hs.
    + rewrite getn_hs. apply repl_node_idem.
  - rewrite setn_out by assumption. rewrite (getn_out h n L).
    rewrite getn_hs. destruct I as [Len _]. rewrite (getn_out h0 n) by lia. reflexivity.
Qed.

Lemma repl_inv : forall h n, inv h -> inv (repl cat h n).
Proof.
  intros h n I. pose proof (repl_done h n I) as D. destruct I as [Len I]. split.
  - unfold repl. rewrite length_setn. assumption.
  - intros i. destruct (Nat.eq_dec i n) as [->|Ne]; [right; exact D|].
    unfold repl. rewrite getn_setn_neq by assumption. apply I.
Qed.

Lemma repl_keeps : forall h n i, inv h -> done h i -> done (repl cat h n) i.
Proof.
  intros h n i I D. destruct (Nat.eq_dec i n) as [->|Ne]; [apply repl_done; assumption|].
  unfold done, repl. rewrite getn_setn_neq by assumption. exact D.
Qed.

(* all nodes within depth f below n are resolved *)
Fixpoint closed (f : nat) (h : heap) (n : nat) : Prop :=
  match f with
  | O => True
  | S f' => getn h n = getn hs n /\ Forall (closed f' h) (n_kids (getn hs n))
  end.

Lemma closed_mono : forall f h h' n,
  (forall i, done h i -> done h' i) -> closed f h n -> closed f h' n.
Proof.
  induction f as [|f IH]; intros h h' n M C; cbn in *; [exact I|].
  destruct C as [E C]. split; [apply M; exact E|].
  eapply Forall_impl; [|exact C]. intros c Hc. eapply IH; eauto.
Qed.

Lemma closed_unfold : forall f h n, closed f h n -> unfold f h n = unfold f hs n.
Proof.
  induction f as [|f IH]; intros h n C; cbn in *; [reflexivity|].
  destruct C as [E C]. rewrite E.
  rewrite (all_some_map_ext (unfold f h) (unfold f hs)); [reflexivity|].
  intros c Hc. apply IH. rewrite Forall_forall in C. auto.
Qed.

(* the SPEC read on the reply = the resolved heap unfolded *)
Lemma inline_unfold_hs : forall f n, inline f cat h0 n = unfold f hs n.
Proof.
  induction f as [|f IH]; intros n; cbn; [reflexivity|].
  rewrite getn_hs.
  rewrite (all_some_map_ext (inline f cat h0) (unfold f hs)); [reflexivity|].
  intros; apply IH.
Qed.

Definition upd_kids (f : nat) (acc : option heap) (ks : list nat) : option heap :=
  fold_left (fun acc c => match acc with Some hh => update f cat hh c | None => None end) ks acc.

Lemma update_closed : forall f h n,
  inv h -> unfold f hs n <> None ->
  exists h', update f cat h n = Some h' /\ inv h' /\ (forall i, done h i -> done h' i) /\ closed f h' n.
Proof.
  induction f as [|f IH]; intros h n I U; [cbn in U; congruence|].
  cbn [update].
  pose proof (repl_inv h n I) as I1.
  pose proof (repl_done h n I) as D1.
  set (h1 := repl cat h n) in *.
  unfold done in D1. rewrite D1.
  assert (K : forall c, In c (n_kids (getn hs n)) -> unfold f hs c <> None).
  { intros c Hc. cbn in U.
    destruct (all_some (map (unfold f hs) (n_kids (getn hs n)))) eqn:E; [|congruence].
    destruct (all_some_some _ _ _ E c Hc) as [y Hy]. congruence. }
  assert (F : forall ks hh, inv hh -> (forall c, In c ks -> unfold f hs c <> None) ->
              exists h', upd_kids f (Some hh) ks = Some h' /\ inv h' /\
                         (forall i, done hh i -> done h' i) /\ Forall (closed f h') ks).
  { induction ks as [|c ks IHk]; intros hh Ih Hk.
    - exists hh. cbn. refine (conj eq_refl (conj Ih (conj (fun _ d => d) _))). constructor.
    - destruct (IH hh c Ih (Hk c (or_introl eq_refl))) as (h2 & E2 & I2 & M2 & C2).
      destruct (IHk h2 I2 (fun c' Hc' => Hk c' (or_intror Hc'))) as (h3 & E3 & I3 & M3 & C3).
      exists h3. unfold upd_kids in *. cbn [fold_left]. rewrite E2.
      refine (conj E3 (conj I3 (conj (fun i d => M3 i (M2 i d)) _))).
      constructor; [|exact C3]. eapply closed_mono; [exact M3|exact C2]. }
  destruct (F (n_kids (getn hs n)) h1 I1 K) as (h' & E & I' & M & C).
  exists h'. unfold upd_kids in E. rewrite E.
  refine (conj eq_refl (conj I' (conj _ _))).
  - intros i Di. apply M. apply repl_keeps; assumption.
  - cbn [closed]. split; [apply M; exact D1|exact C].
Qed.

(* MultiRef.update from any node: every node below it then reads as the SPEC says *)
Lemma update_inline : forall f n t,
  inline f cat h0 n = Some t ->
  exists h', update f cat h0 n = Some h' /\ inv h' /\ closed f h' n /\ unfold f h' n = Some t.
Proof.
  intros f n t Hi. rewrite inline_unfold_hs in Hi.
  destruct (update_closed f h0 n inv_h0) as (h' & E & I' & _ & C); [congruence|].
  exists h'. refine (conj E (conj I' (conj C _))). rewrite (closed_unfold _ _ _ C). exact Hi.
Qed.

(* a node nobody has as a child can be overwritten without disturbing the rest *)
Lemma closed_setn_other : forall f h b v n,
  (forall i, ~ In b (n_kids (getn hs i))) -> n <> b -> closed f h n -> closed f (setn h b v) n.
Proof.
  induction f as [|f IH]; intros h b v n NB Ne C; cbn in *; [exact I|].
  destruct C as [E C]. split; [rewrite getn_setn_neq by assumption; exact E|].
  rewrite Forall_forall in *. intros c Hc. apply IH; auto.
  intros ->. exact (NB n Hc).
Qed.

End Resolve.

(* ------------------------------------------------------------------ *)
(* fuel                                                                *)
(* ------------------------------------------------------------------ *)

Lemma all_some_map_mono : forall {A B} (f g : A -> option B) l r,
  (forall x y, In x l -> f x = Some y -> g x = Some y) ->
  all_some (map f l) = Some r -> all_some (map g l) = Some r.
Proof.
  induction l as [|x l IH]; cbn; intros r H E; [assumption|].
  destruct (f x) eqn:Ef; [|discriminate].
  destruct (all_some (map f l)) eqn:E2; [|discriminate].
  rewrite (H x b (or_introl eq_refl) Ef). rewrite (IH l0); auto.
Qed.

Lemma unfold_mono : forall f h n t, unfold f h n = Some t -> unfold (S f) h n = Some t.
Proof.
  induction f as [|f IH]; intros h n t H; [discriminate|].
  cbn in H. remember (S f) as f1. cbn. subst f1.
  destruct (all_some (map (unfold f h) (n_kids (getn h n)))) eqn:E; [|discriminate].
  rewrite (all_some_map_mono (unfold f h) (unfold (S f) h) _ l); auto.
Qed.

Lemma unfold_mono_le : forall f f' h n t, f <= f' -> unfold f h n = Some t -> unfold f' h n = Some t.
Proof. induction 1; intros; auto. apply unfold_mono. auto. Qed.

(* fuel suffices: with a rank that decreases along children of the resolved
   heap (an acyclic reference graph), rank + 1 is enough *)
Lemma unfold_rank : forall (h : heap) (rk : nat -> nat),
  (forall n c, In c (n_kids (getn h n)) -> rk c < rk n) ->
  forall f n, rk n < f -> unfold f h n <> None.
Proof.
  intros h rk R. induction f as [|f IH]; intros n L; [lia|].
  cbn. assert (E : exists ks, all_some (map (unfold f h) (n_kids (getn h n))) = Some ks).
  { assert (G : forall c, In c (n_kids (getn h n)) -> unfold f h c <> None).
    { intros c Hc. apply IH. specialize (R n c Hc). lia. }
    revert G. generalize (n_kids (getn h n)). induction l as [|c l IHl]; intros G; cbn.
    - eauto.
    - destruct (unfold f h c) eqn:Ec; [|exfalso; exact (G c (or_introl eq_refl) Ec)].
      destruct IHl as [ks ->]; eauto. intros c' Hc'. apply G. right; assumption. }
  destruct E as [ks ->]. congruence.
Qed.
