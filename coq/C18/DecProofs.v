(* C18 — lemmas about the unmarshaller: decoding on the heap, where
   Encoded.applyaty writes xsi:type onto children that may be shared by several
   referrers, gives what decoding the unfolded tree gives. *)
From SV Require Import Lib.Base C18.Model C18.RefProofs.
From Coq Require Import Lia.
Arguments getn : simpl never.

Definition with_attrs (l : list attr) (nd : node) : node :=
  mkN (n_ns nd) (n_name nd) l (n_text nd) (n_kids nd).

Definition retag (l : list attr) (t : tree) : tree :=
  match t with T ns nm _ tx ks => T ns nm l tx ks end.

Lemma has_type_add : forall a l, has_type (add_type a l) = true.
Proof.
  intros a l. unfold add_type. destruct (has_type l) eqn:E; [exact E|].
  unfold has_type, get_ns in *. rewrite find_app_l.
  destruct (find (is_attr NM_TYPE NS_XSI) l); [discriminate|]. reflexivity.
Qed.

Lemma add_type_typed : forall a l, has_type l = true -> add_type a l = l.
Proof. intros a l H. unfold add_type. rewrite H. reflexivity. Qed.

Lemma add_type_idem : forall a l, add_type a (add_type a l) = add_type a l.
Proof. intros. apply add_type_typed. apply has_type_add. Qed.

Lemma aty_get_add : forall a l, get_ns NM_ATY NS_ENC (add_type a l) = get_ns NM_ATY NS_ENC l.
Proof.
  intros a l. unfold add_type. destruct (has_type l); [reflexivity|].
  unfold get_ns. rewrite find_app_l. destruct (find (is_attr NM_ATY NS_ENC) l); reflexivity.
Qed.

Lemma unfold_not_self : forall f h n, In n (n_kids (getn h n)) -> unfold f h n = None.
Proof.
  induction f as [|f IH]; intros h n H; [reflexivity|]. cbn.
  assert (E : all_some (map (unfold f h) (n_kids (getn h n))) = None).
  { pose proof (IH h n H) as Hn. revert H. generalize (n_kids (getn h n)).
    induction l as [|c l IHl]; intros H; [contradiction|].
    cbn. destruct H as [->|H].
    - rewrite Hn. reflexivity.
    - destruct (unfold f h c); [|reflexivity]. rewrite IHl; auto. }
  rewrite E. reflexivity.
Qed.

Lemma all_some_length : forall {A} (l : list (option A)) r, all_some l = Some r -> length r = length l.
Proof.
  induction l as [|x l IH]; cbn; intros r H.
  - injection H as <-. reflexivity.
  - destruct x; [|discriminate]. destruct (all_some l); [|discriminate].
    injection H as <-. cbn. f_equal. apply IH. reflexivity.
Qed.

(* ------------------------------------------------------------------ *)
(* what start and post look at                                         *)
(* ------------------------------------------------------------------ *)

Lemma start_ext : forall S cx nd nd',
  n_name nd = n_name nd' -> n_attrs nd = n_attrs nd' -> start S cx nd = start S cx nd'.
Proof. intros S cx nd nd' E1 E2. unfold start. rewrite E1, E2. reflexivity. Qed.

Definition nokids (nd : node) : bool := match n_kids nd with [] => true | _ => false end.

Lemma post_ext : forall nd nd' d real aty data,
  n_name nd = n_name nd' -> n_attrs nd = n_attrs nd' -> n_text nd = n_text nd' -> nokids nd = nokids nd' ->
  post nd d real aty data = post nd' d real aty data.
Proof.
  intros nd nd' d real aty data E1 E2 E3 E4. unfold post. rewrite E1, E2, E3.
  unfold nokids in E4.
  destruct (n_kids nd), (n_kids nd'); try discriminate; reflexivity.
Qed.

(* ------------------------------------------------------------------ *)
(* applyaty                                                            *)
(* ------------------------------------------------------------------ *)

Definition tagged (a : attr) (nd : node) : node := with_attrs (add_type a (n_attrs nd)) nd.

Lemma tagged_idem : forall a nd, tagged a (tagged a nd) = tagged a nd.
Proof. intros. unfold tagged, with_attrs. cbn. rewrite add_type_idem. reflexivity. Qed.

Fixpoint tag_list (a : attr) (h : heap) (l : list nat) : heap :=
  match l with
  | [] => h
  | c :: r => tag_list a (setn h c (tagged a (getn h c))) r
  end.

Lemma applyaty_tag_list : forall h n a, applyaty h n a = tag_list a h (n_kids (getn h n)).
Proof.
  intros h n a. unfold applyaty. generalize (n_kids (getn h n)). intros l. revert h.
  induction l as [|c l IH]; intros h; cbn; [reflexivity|]. rewrite IH. reflexivity.
Qed.

Lemma tag_list_length : forall a l h, length (tag_list a h l) = length h.
Proof. induction l as [|c l IH]; intros h; cbn; [reflexivity|]. rewrite IH. apply length_setn. Qed.

Lemma tag_list_out : forall a l h i, ~ In i l -> getn (tag_list a h l) i = getn h i.
Proof.
  induction l as [|c l IH]; intros h i H; [reflexivity|]. cbn.
  rewrite IH by (intros X; apply H; right; exact X).
  apply getn_setn_neq. intros ->. apply H. left; reflexivity.
Qed.

Lemma tag_list_in : forall a l h i, In i l -> i < length h -> getn (tag_list a h l) i = tagged a (getn h i).
Proof.
  induction l as [|c l IH]; intros h i H L; [contradiction|]. cbn [tag_list].
  destruct (Nat.eq_dec c i) as [->|Ne].
  - destruct (in_dec Nat.eq_dec i l) as [Hi|Hi].
    + rewrite IH; auto; [|rewrite length_setn; assumption].
      rewrite getn_setn_eq by assumption. apply tagged_idem.
    + rewrite tag_list_out by assumption. apply getn_setn_eq. assumption.
  - destruct H as [->|H]; [congruence|].
    rewrite IH; auto; [|rewrite length_setn; assumption].
    rewrite getn_setn_neq by congruence. reflexivity.
Qed.

(* ------------------------------------------------------------------ *)
(* the simulation                                                      *)
(* ------------------------------------------------------------------ *)

Section Decode.
Variable S : schema.
Variable h0 : heap.

(* children ids are nodes of the heap *)
Hypothesis inrange : forall i c, In c (n_kids (getn h0 i)) -> c < length h0.
(* a child without xsi:type of its own that several nodes share: they agree on
   the type arrayType gives it *)
Hypothesis cons : forall p1 p2 c,
  In c (n_kids (getn h0 p1)) -> In c (n_kids (getn h0 p2)) ->
  has_type (n_attrs (getn h0 c)) = false ->
  option_map type_attr (aty1 (n_attrs (getn h0 p1))) = option_map type_attr (aty1 (n_attrs (getn h0 p2))).

Definition annotated (nd : node) (i : nat) : Prop :=
  has_type (n_attrs (getn h0 i)) = false /\
  exists p a, In i (n_kids (getn h0 p)) /\ aty1 (n_attrs (getn h0 p)) = Some a /\
              nd = with_attrs (n_attrs (getn h0 i) ++ [type_attr a]) (getn h0 i).

Definition sim (h : heap) : Prop :=
  length h = length h0 /\ forall i, getn h i = getn h0 i \/ annotated (getn h i) i.

Definition stable (h h' : heap) : Prop :=
  forall i, has_type (n_attrs (getn h i)) = true -> getn h' i = getn h i.

Lemma stable_refl : forall h, stable h h.
Proof. intros h i _. reflexivity. Qed.

Lemma stable_trans : forall h1 h2 h3, stable h1 h2 -> stable h2 h3 -> stable h1 h3.
Proof. intros h1 h2 h3 A B i H. rewrite (B i); [apply A; exact H|]. rewrite (A i H). exact H. Qed.

Lemma sim_h0 : sim h0.
Proof. split; auto. Qed.

Lemma sim_fields : forall h i, sim h ->
  n_ns (getn h i) = n_ns (getn h0 i) /\ n_name (getn h i) = n_name (getn h0 i) /\
  n_text (getn h i) = n_text (getn h0 i) /\ n_kids (getn h i) = n_kids (getn h0 i) /\
  get_ns NM_ATY NS_ENC (n_attrs (getn h i)) = get_ns NM_ATY NS_ENC (n_attrs (getn h0 i)).
Proof.
  intros h i [_ Sm]. destruct (Sm i) as [E|[U (p & a & _ & _ & E)]]; rewrite E; cbn; auto.
  repeat split; auto. unfold get_ns. rewrite find_app_l.
  destruct (find (is_attr NM_ATY NS_ENC) (n_attrs (getn h0 i))); reflexivity.
Qed.

Lemma has_type_app_type : forall l a, has_type (l ++ [type_attr a]) = true.
Proof.
  intros l a. unfold has_type, get_ns. rewrite find_app_l.
  destruct (find (is_attr NM_TYPE NS_XSI) l); reflexivity.
Qed.

(* what a child reads as when its parent n has been started *)
Definition eff (n c : nat) : list attr :=
  match aty1 (n_attrs (getn h0 n)) with
  | Some a => add_type a (n_attrs (getn h0 c))
  | None => n_attrs (getn h0 c)
  end.

Lemma eff_attrs : forall h n c, sim h -> In c (n_kids (getn h0 n)) ->
  (forall a, aty1 (n_attrs (getn h0 n)) = Some a -> has_type (n_attrs (getn h c)) = true) ->
  n_attrs (getn h c) = eff n c.
Proof.
  intros h n c [_ Sm] Hc Ht. unfold eff.
  destruct (Sm c) as [E|[U (p & a' & Hp & Ea' & E)]].
  - rewrite E in *. destruct (aty1 (n_attrs (getn h0 n))) as [a|] eqn:Ea; [|reflexivity].
    symmetry. apply add_type_typed. apply (Ht a eq_refl).
  - rewrite E. cbn. pose proof (cons n p c Hc Hp U) as C. rewrite Ea' in C. cbn in C.
    destruct (aty1 (n_attrs (getn h0 n))) as [a|]; cbn in C; [|discriminate].
    assert (C' : type_attr a = type_attr a') by congruence.
    unfold add_type. rewrite U, C'. reflexivity.
Qed.

Lemma sim_applyaty : forall h n a, sim h -> aty1 (n_attrs (getn h0 n)) = Some a ->
  sim (applyaty h n a) /\ stable h (applyaty h n a) /\
  (forall c, In c (n_kids (getn h0 n)) -> has_type (n_attrs (getn (applyaty h n a) c)) = true).
Proof.
  intros h n a Sm Ea. rewrite applyaty_tag_list.
  destruct (sim_fields h n Sm) as (_ & _ & _ & Ek & _). rewrite Ek.
  destruct Sm as [Len Sm].
  assert (G : forall i, getn (tag_list a h (n_kids (getn h0 n))) i =
                        if in_dec Nat.eq_dec i (n_kids (getn h0 n)) then tagged a (getn h i) else getn h i).
  { intros i. destruct (in_dec Nat.eq_dec i (n_kids (getn h0 n))) as [Hi|Hi].
    - apply tag_list_in; auto. rewrite Len. eapply inrange; eauto.
    - apply tag_list_out; auto. }
  split; [split|split].
  - rewrite tag_list_length. exact Len.
  - intros i. rewrite G. destruct (in_dec Nat.eq_dec i (n_kids (getn h0 n))) as [Hi|Hi]; [|apply Sm].
    destruct (Sm i) as [E|[U (p & a' & Hp & Ea' & E)]].
    + rewrite E. unfold tagged, add_type.
      destruct (has_type (n_attrs (getn h0 i))) eqn:Ht.
      * left. unfold with_attrs. destruct (getn h0 i); reflexivity.
      * right. split; [exact Ht|]. exists n, a. auto.
    + right. split; [exact U|]. exists p, a'. repeat split; auto.
      rewrite E. unfold tagged. cbn. rewrite add_type_typed by apply has_type_app_type. reflexivity.
  - intros i Ht. rewrite G. destruct (in_dec Nat.eq_dec i (n_kids (getn h0 n))); [|reflexivity].
    unfold tagged. rewrite add_type_typed by exact Ht. unfold with_attrs. destruct (getn h i); reflexivity.
  - intros c Hc. rewrite G. destruct (in_dec Nat.eq_dec c (n_kids (getn h0 n))); [|contradiction].
    unfold tagged. cbn. apply has_type_add.
Qed.

Lemma dech_S : forall f h n cx,
  dech (Datatypes.S f) S h n cx =
  (let nd0 := getn h n in
   let aty := get_ns NM_ATY NS_ENC (n_attrs nd0) in
   let h1 := match aty with Some a => if one_dim a then applyaty h n a else h | None => h end in
   let nd := getn h1 n in
   match start S cx nd with
   | None => (h1, DErr E_TNF)
   | Some (d, real) =>
       let info := fun hh c =>
         let nm := n_name (getn hh c) in
         (nm, match get_child S real nm with Some dc => d_multi dc | None => false end) in
       match fold_kids (fun hh c => dech f S hh c (CChild real)) info h1 (n_kids nd) (attrs_data (n_attrs nd)) with
       | (h2, inr e) => (h2, DErr e)
       | (h2, inl data) => (h2, DOk (post nd d real aty data))
       end
   end).
Proof. reflexivity. Qed.

Lemma dect_S : forall f ns nm attrs tx ks0 cx,
  dect (Datatypes.S f) S (T ns nm attrs tx ks0) cx =
  (let aty := get_ns NM_ATY NS_ENC attrs in
   let ks := match aty with Some a => if one_dim a then map (tadd_type a) ks0 else ks0 | None => ks0 end in
   let nd := tnode (T ns nm attrs tx ks) in
   match start S cx nd with
   | None => DErr E_TNF
   | Some (d, real) =>
       let info := fun c =>
         (t_name c, match get_child S real (t_name c) with Some dc => d_multi dc | None => false end) in
       match tfold_kids (fun c => dect f S c (CChild real)) info ks (attrs_data attrs) with
       | inr e => DErr e
       | inl data => DOk (post nd d real aty data)
       end
   end).
Proof. reflexivity. Qed.

Lemma unfold_S : forall f h n,
  unfold (Datatypes.S f) h n =
  match all_some (map (unfold f h) (n_kids (getn h n))) with
  | None => None
  | Some ks => Some (T (n_ns (getn h n)) (n_name (getn h n)) (n_attrs (getn h n)) (n_text (getn h n)) ks)
  end.
Proof. reflexivity. Qed.

Lemma unfold_name : forall f h n t, unfold f h n = Some t -> t_name t = n_name (getn h n) /\ t_attrs t = n_attrs (getn h n).
Proof.
  intros [|f] h n t H; [discriminate|]. rewrite unfold_S in H.
  destruct (all_some (map (unfold f h) (n_kids (getn h n)))); [|discriminate].
  injection H as <-. split; reflexivity.
Qed.

(* the children loop: heap side and tree side *)
Lemma kids_loop : forall f n real aopt,
  (forall h c t cx h' r, sim h -> unfold f h0 c = Some t -> dech f S h c cx = (h', r) ->
        sim h' /\ stable h h' /\ r = dect f S (retag (n_attrs (getn h c)) t) cx) ->
  aty1 (n_attrs (getn h0 n)) = aopt ->
  forall kids ks hA hh data h' res,
    (forall c, In c kids -> In c (n_kids (getn h0 n))) ->
    all_some (map (unfold f h0) kids) = Some ks ->
    sim hA -> (forall a, aopt = Some a -> forall c, In c (n_kids (getn h0 n)) -> has_type (n_attrs (getn hA c)) = true) ->
    sim hh -> stable hA hh ->
    fold_kids (fun x c => dech f S x c (CChild real))
              (fun x c => let nm := n_name (getn x c) in
                          (nm, match get_child S real nm with Some dc => d_multi dc | None => false end))
              hh kids data = (h', res) ->
    sim h' /\ stable hA h' /\
    res = tfold_kids (fun c => dect f S c (CChild real))
                     (fun c => (t_name c, match get_child S real (t_name c) with Some dc => d_multi dc | None => false end))
                     (match aopt with Some a => map (tadd_type a) ks | None => ks end) data.
Proof.
  intros f n real aopt IH Ea.
  induction kids as [|c kids IHk]; intros ks hA hh data h' res Sub Eks SA TA Sh St Ef.
  - cbn in Eks. injection Eks as <-. cbn in Ef. injection Ef as <- <-.
    split; [exact Sh|split; [exact St|]]. destruct aopt; reflexivity.
  - cbn in Eks. destruct (unfold f h0 c) as [t|] eqn:Et; [|discriminate].
    destruct (all_some (map (unfold f h0) kids)) as [ks'|] eqn:Eks'; [|discriminate].
    injection Eks as <-.
    cbn [fold_kids] in Ef.
    destruct (dech f S hh c (CChild real)) as [h2 r] eqn:Ed.
    destruct (IH hh c t (CChild real) h2 r Sh Et Ed) as (S2 & St2 & Er).
    assert (Hc : In c (n_kids (getn h0 n))) by (apply Sub; left; reflexivity).
    assert (Eattrs : n_attrs (getn hh c) = eff n c).
    { apply eff_attrs; auto. intros a Ha. rewrite Ea in Ha.
      rewrite (St c); eapply TA; eauto. }
    assert (Ename : n_name (getn hh c) = t_name t).
    { destruct (sim_fields hh c Sh) as (_ & -> & _). destruct (unfold_name _ _ _ _ Et) as [-> _]. reflexivity. }
    assert (Etree : retag (n_attrs (getn hh c)) t = match aopt with Some a => tadd_type a t | None => t end).
    { rewrite Eattrs. unfold eff. rewrite Ea. destruct (unfold_name _ _ _ _ Et) as [_ Eat].
      destruct t as [tns tnm tat ttx tks]. cbn in *. subst tat. destruct aopt; reflexivity. }
    assert (Ename' : t_name (match aopt with Some a => tadd_type a t | None => t end) = t_name t).
    { destruct aopt; [destruct t|]; reflexivity. }
    rewrite Etree in Er.
    destruct r as [cv|e].
    + rewrite Ename in Ef.
      destruct (IHk ks' hA h2 _ h' res (fun c' Hc' => Sub c' (or_intror Hc')) eq_refl SA TA S2
                    (stable_trans _ _ _ St St2) Ef) as (S3 & St3 & Eres).
      split; [exact S3|split; [exact St3|]].
      rewrite Eres. destruct aopt as [a|]; cbn [map tfold_kids]; rewrite <- Er; rewrite ?Ename'.
      * destruct t; reflexivity.
      * reflexivity.
    + injection Ef as <- <-.
      split; [exact S2|split; [exact (stable_trans _ _ _ St St2)|]].
      destruct aopt as [a|]; cbn [map tfold_kids]; rewrite <- Er; reflexivity.
Qed.

(* decoding node n on a heap in which earlier applyaty calls left their marks *)
Lemma dech_dect : forall f h n t cx h' r,
  sim h -> unfold f h0 n = Some t -> dech f S h n cx = (h', r) ->
  sim h' /\ stable h h' /\ r = dect f S (retag (n_attrs (getn h n)) t) cx.
Proof.
  induction f as [|f IH]; intros h n t cx h' r Sh Eu Ed; [discriminate|].
  rewrite unfold_S in Eu.
  destruct (all_some (map (unfold f h0) (n_kids (getn h0 n)))) as [ks|] eqn:Eks; [|discriminate].
  injection Eu as <-. cbn [retag].
  assert (Nself : ~ In n (n_kids (getn h0 n))).
  { intros X. pose proof (unfold_not_self (Datatypes.S f) h0 n X) as U. rewrite unfold_S, Eks in U. discriminate. }
  destruct (sim_fields h n Sh) as (Ens & Enm & Etx & Ekids & Eaty).
  rewrite dech_S in Ed. rewrite dect_S. cbv zeta in *.
  rewrite Eaty in Ed.
  (* the heap after setaty/applyaty *)
  set (aopt := aty1 (n_attrs (getn h0 n))).
  set (h1 := match get_ns NM_ATY NS_ENC (n_attrs (getn h0 n)) with
             | Some a => if one_dim a then applyaty h n a else h
             | None => h
             end) in *.
  assert (H1 : sim h1 /\ stable h h1 /\
               (forall a, aopt = Some a -> forall c, In c (n_kids (getn h0 n)) -> has_type (n_attrs (getn h1 c)) = true)).
  { subst h1 aopt. unfold aty1.
    destruct (get_ns NM_ATY NS_ENC (n_attrs (getn h0 n))) as [a|] eqn:Ea.
    - destruct (one_dim a) eqn:Eo.
      + destruct (sim_applyaty h n a Sh) as (A & B & C); [unfold aty1; rewrite Ea, Eo; reflexivity|].
        split; [exact A|split; [exact B|]]. intros a' Ha'. injection Ha' as <-. exact C.
      + split; [exact Sh|split; [apply stable_refl|discriminate]].
    - split; [exact Sh|split; [apply stable_refl|discriminate]]. }
  destruct H1 as (S1 & St1 & T1).
  assert (En1 : getn h1 n = getn h n).
  { subst h1. destruct (get_ns NM_ATY NS_ENC (n_attrs (getn h0 n))) as [a|]; [|reflexivity].
    destruct (one_dim a); [|reflexivity].
    rewrite applyaty_tag_list. apply tag_list_out. rewrite Ekids. exact Nself. }
  rewrite En1 in Ed.
  (* start *)
  rewrite (start_ext S cx (getn h n)
             (tnode (T (n_ns (getn h0 n)) (n_name (getn h0 n)) (n_attrs (getn h n)) (n_text (getn h0 n))
                       (match get_ns NM_ATY NS_ENC (n_attrs (getn h n)) with
                        | Some a => if one_dim a then map (tadd_type a) ks else ks
                        | None => ks
                        end)))) in Ed by (cbn; auto).
  destruct (start S cx _) as [[d real]|] eqn:Est.
  2:{ injection Ed as <- <-. split; [exact S1|split; [exact St1|reflexivity]]. }
  destruct (fold_kids _ _ h1 (n_kids (getn h n)) (attrs_data (n_attrs (getn h n)))) as [h2 res] eqn:Ef.
  rewrite Ekids in Ef.
  destruct (kids_loop f n real aopt IH eq_refl (n_kids (getn h0 n)) ks h1 h1 _ h2 res
              (fun c Hc => Hc) Eks S1 T1 S1 (stable_refl h1) Ef) as (S2 & St2 & Eres).
  assert (Eks2 : match get_ns NM_ATY NS_ENC (n_attrs (getn h n)) with
                 | Some a => if one_dim a then map (tadd_type a) ks else ks
                 | None => ks
                 end = match aopt with Some a => map (tadd_type a) ks | None => ks end).
  { rewrite Eaty. subst aopt. unfold aty1.
    destruct (get_ns NM_ATY NS_ENC (n_attrs (getn h0 n))) as [a|]; [|reflexivity].
    destruct (one_dim a); reflexivity. }
  rewrite Eks2 in *. rewrite <- Eres.
  assert (Epost : forall data,
            post (getn h n) d real (get_ns NM_ATY NS_ENC (n_attrs (getn h0 n))) data =
            post (tnode (T (n_ns (getn h0 n)) (n_name (getn h0 n)) (n_attrs (getn h n)) (n_text (getn h0 n))
                           (match aopt with Some a => map (tadd_type a) ks | None => ks end))) d real
                 (get_ns NM_ATY NS_ENC (n_attrs (getn h n))) data).
  { intros data. rewrite Eaty. apply post_ext; cbn; auto.
    unfold nokids. cbn. rewrite Ekids.
    pose proof (all_some_length _ _ Eks) as L. rewrite map_length in L.
    destruct aopt; destruct (n_kids (getn h0 n)), ks; cbn in *; try discriminate; reflexivity. }
  destruct res as [data|e]; injection Ed as <- <-.
  - split; [exact S2|split; [exact (stable_trans _ _ _ St1 St2)|]]. rewrite Epost. reflexivity.
  - split; [exact S2|split; [exact (stable_trans _ _ _ St1 St2)|reflexivity]].
Qed.

(* from a heap nobody has decoded yet *)
Lemma dech_unfold : forall f n t cx,
  unfold f h0 n = Some t -> snd (dech f S h0 n cx) = dect f S t cx.
Proof.
  intros f n t cx Eu. destruct (dech f S h0 n cx) as [h' r] eqn:Ed.
  destruct (dech_dect f h0 n t cx h' r sim_h0 Eu Ed) as (_ & _ & ->). cbn.
  destruct (unfold_name _ _ _ _ Eu) as [_ Ea]. destruct t; cbn in *. subst. reflexivity.
Qed.

End Decode.
