(* C18 — prefix declarations of moved content (definitions only).

   The decoding model (Model.v) works on the namespace infoset: QNames are
   resolved where they are written.  suds resolves them AFTER
   MultiRef.replace_references moved the referenced element's children and
   attributes to the referrer, walking up parent pointers
   (Element.resolvePrefix).  This file models just that:

     p_decls   Element.nsprefixes (a dict: keys are unique)
     p_parent  Element.parent
     resolve   Element.resolvePrefix: the nearest declaration on the way up
     move      MultiRef.replace_references at this level: the referenced
               node's children get the referrer as parent; with copy = true
               (the code since db8b9ec) the referrer also gets the referenced
               node's own declarations (node.addPrefix for each of them: the
               referenced node's binding wins); copy = false is the code
               before.

   The Body is taken as the top of the chain: declarations on the Envelope are
   read as declarations on the Body (Element.promotePrefixes pushes them up;
   what a prefix means below the Body does not depend on which of the two
   carries it). *)
From SV Require Import Lib.Base.

Record pnode := mkP { p_parent : option nat; p_decls : list (N * N); p_kids : list nat }.
Definition pheap := list pnode.
Definition pempty : pnode := mkP None [] [].
Definition pgetn (h : pheap) (n : nat) : pnode := nth n h pempty.

Fixpoint psetn (h : pheap) (n : nat) (v : pnode) : pheap :=
  match h, n with
  | [], _ => []
  | _ :: r, O => v :: r
  | x :: r, S k => x :: psetn r k v
  end.

Fixpoint assoc (p : N) (l : list (N * N)) : option N :=
  match l with
  | [] => None
  | (k, u) :: r => if N.eqb p k then Some u else assoc p r
  end.

(* Element.resolvePrefix (fuel bounds the walk up; None = the default namespace is returned) *)
Fixpoint resolve (fuel : nat) (h : pheap) (n : nat) (p : N) : option N :=
  match fuel with
  | O => None
  | S f =>
      match assoc p (p_decls (pgetn h n)) with
      | Some u => Some u
      | None =>
          match p_parent (pgetn h n) with
          | Some q => resolve f h q p
          | None => None
          end
      end
  end.

Definition resolves (h : pheap) (n : nat) (p u : N) : Prop := exists f, resolve f h n p = Some u.

(* child.parent = referrer, for every child of the referenced node *)
Fixpoint reparent (h : pheap) (cs : list nat) (n : nat) : pheap :=
  match cs with
  | [] => h
  | c :: r =>
      let cd := pgetn h c in
      reparent (psetn h c (mkP (Some n) (p_decls cd) (p_kids cd))) r n
  end.

Definition move (copy : bool) (h : pheap) (n m : nat) : pheap :=
  let nn := pgetn h n in
  let mm := pgetn h m in
  let h1 := psetn h n (mkP (p_parent nn)
                           (if copy then p_decls mm ++ p_decls nn else p_decls nn)
                           (p_kids nn ++ p_kids mm)) in
  reparent h1 (p_kids mm) n.

(* k steps up from n reach the Body, through nodes that do not declare p and satisfy ok *)
Fixpoint climbs (k : nat) (h : pheap) (n body : nat) (p : N) (ok : nat -> Prop) : Prop :=
  match k with
  | O => n = body
  | S k' =>
      n <> body /\ ok n /\ assoc p (p_decls (pgetn h n)) = None /\
      exists q, p_parent (pgetn h n) = Some q /\ climbs k' h q body p ok
  end.

(* ------------------------------------------------------------------ *)
(* Element.promotePrefixes, one element against its parent             *)
(* ------------------------------------------------------------------ *)

Fixpoint dremove (p : N) (l : list (N * N)) : list (N * N) :=
  match l with
  | [] => []
  | (k, u) :: r => if N.eqb p k then dremove p r else (k, u) :: dremove p r
  end.

(* dict assignment: an existing key keeps its place *)
Fixpoint dset (l : list (N * N)) (p u : N) : list (N * N) :=
  match l with
  | [] => [(p, u)]
  | (k, v) :: r => if N.eqb p k then (k, u) :: r else (k, v) :: dset r p u
  end.

(* for p, u in list(self.nsprefixes.items()):
       if p in self.parent.nsprefixes:
           pu = self.parent.nsprefixes[p]
           if pu == u: del self.nsprefixes[p]
           continue
       if p != self.parent.prefix:
           self.parent.nsprefixes[p] = u; del self.nsprefixes[p]
   todo = the snapshot; dn / dp = the element's / the parent's declarations;
   pp = the parent's own prefix.  overwrite = true is the variant in which
   `continue` sits inside `if pu == u` (a colliding declaration falls through). *)
Fixpoint promote_decls (overwrite : bool) (pp : option N) (todo dn dp : list (N * N))
  : list (N * N) * list (N * N) :=
  match todo with
  | [] => (dn, dp)
  | (p, u) :: r =>
      let lift := match pp with Some x => negb (N.eqb p x) | None => true end in
      match assoc p dp with
      | Some pu =>
          if N.eqb pu u then promote_decls overwrite pp r (dremove p dn) dp
          else if overwrite && lift then promote_decls overwrite pp r (dremove p dn) (dset dp p u)
          else promote_decls overwrite pp r dn dp
      | None =>
          if lift then promote_decls overwrite pp r (dremove p dn) (dset dp p u)
          else promote_decls overwrite pp r dn dp
      end
  end.

(* on the heap: element n against its parent *)
Definition promote_at (overwrite : bool) (h : pheap) (n : nat) : pheap :=
  match p_parent (pgetn h n) with
  | None => h
  | Some q =>
      let nd := pgetn h n in
      let qd := pgetn h q in
      let r := promote_decls overwrite None (p_decls nd) (p_decls nd) (p_decls qd) in
      psetn (psetn h n (mkP (p_parent nd) (fst r) (p_kids nd))) q (mkP (p_parent qd) (snd r) (p_kids qd))
  end.

(* what p means at an element with declarations dn under a parent with dp
   (the parent taken as the top) *)
Definition means (dn dp : list (N * N)) (p : N) : option N :=
  match assoc p dn with Some u => Some u | None => assoc p dp end.
