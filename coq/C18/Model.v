(* C18 — Referenced (multiref) content decodes exactly like inlined content.

   Definitions only.

   MODEL (mirrors the Python statement by statement, at the level of the
   namespace infoset: attribute namespaces and the QNames inside xsi:type /
   arrayType values are resolved by the harness with expat at the place where
   they are written in the reply):

     suds/bindings/multiref.py   MultiRef.process / build_catalog / soaproot /
                                 update / replace_references      -> process
     suds/bindings/rpc.py        RPC.replycontent                 -> reply_nodes
     suds/bindings/binding.py    Binding.get_reply (one part)     -> get_reply
     suds/umx/encoded.py         Encoded.start/setaty/applyaty/end/promote/
                                 postprocess                      -> dech
     suds/umx/typed.py, core.py  Typed.start (resolver frames: declared child
                                 type, xsi:type wins), Core.append,
                                 append_attributes (AttrList.skip),
                                 append_children, append_text, postprocess
                                                                  -> dech

   (replace_references also copies the referenced node's own prefix
   declarations to the referrer, db8b9ec: prefixes are not part of this model,
   see Prefix.v.)

   The sax tree is a HEAP (node ids, children lists): replace_references
   appends the referenced node's children -- the SAME nodes -- to the
   referrer, and Encoded.applyaty writes xsi:type onto (possibly shared) child
   nodes while decoding.

   SPEC (from the property text): `inline` = the reply with every reference
   replaced by the referenced content, a pure tree; `dect` = decoding of a
   pure tree; `expected` = what an abstract rpc/encoded value decodes to
   (arrays -> lists of items of the type named by arrayType, empty arrays ->
   empty lists). *)
From SV Require Import Lib.Base.

(* ------------------------------------------------------------------ *)
(* names                                                               *)
(* ------------------------------------------------------------------ *)

(* namespace ids (0 = no namespace); >= 10: namespaces of the schema *)
Definition NS_NONE : N := 0.
Definition NS_XSI : N := 1.
Definition NS_XSD : N := 2.
Definition NS_ENC : N := 3.      (* http://schemas.xmlsoap.org/soap/encoding/ *)
Definition NS_ENV : N := 4.      (* http://schemas.xmlsoap.org/soap/envelope/ *)
Definition NS_XML : N := 5.      (* http://www.w3.org/XML/1998/namespace *)
Definition NS_ENV12 : N := 6.    (* http://www.w3.org/2003/05/soap-envelope *)

(* interned local names: the ones the code looks at *)
Definition NM_ID : N := 1.
Definition NM_HREF : N := 2.
Definition NM_ROOT : N := 3.
Definition NM_TYPE : N := 4.
Definition NM_ATY : N := 5.      (* arrayType *)
Definition NM_NIL : N := 6.

Definition qn := (N * N)%type.   (* namespace id, local name id *)
Definition qn_eqb (a b : qn) : bool := N.eqb (fst a) (fst b) && N.eqb (snd a) (snd b).

(* ------------------------------------------------------------------ *)
(* the sax tree as a heap                                              *)
(* ------------------------------------------------------------------ *)

Record attr := mkA {
  a_ns : N;                (* namespace of the attribute (0: unqualified) *)
  a_name : N;
  a_val : str;
  a_q : option qn          (* xsi:type: the QName value; arrayType: the QName before the first bracket *)
}.

Record node := mkN {
  n_ns : N;
  n_name : N;
  n_attrs : list attr;
  n_text : option str;     (* None = hasText() false *)
  n_kids : list nat
}.

Definition heap := list node.

Definition empty_node : node := mkN 0 0 [] None [].
Definition getn (h : heap) (n : nat) : node := nth n h empty_node.

Fixpoint setn (h : heap) (n : nat) (v : node) : heap :=
  match h, n with
  | [], _ => []
  | _ :: r, O => v :: r
  | x :: r, S k => x :: setn r k v
  end.

Definition is_named (nm : N) (a : attr) : bool := N.eqb (a_name a) nm.
Definition is_attr (nm ns : N) (a : attr) : bool := N.eqb (a_name a) nm && N.eqb (a_ns a) ns.

(* Element.getAttribute(name): first attribute with that local name, any namespace *)
Definition get_any (nm : N) (l : list attr) : option attr := find (is_named nm) l.
(* Element.getAttribute(name, ns): Attribute.match compares the resolved namespace *)
Definition get_ns (nm ns : N) (l : list attr) : option attr := find (is_attr nm ns) l.

Fixpoint remove_first {A} (p : A -> bool) (l : list A) : list A :=
  match l with
  | [] => []
  | x :: r => if p x then r else x :: remove_first p r
  end.

(* ------------------------------------------------------------------ *)
(* MultiRef                                                            *)
(* ------------------------------------------------------------------ *)

Definition ch_hash : N := 35.    (* '#' *)
Definition ch_1 : N := 49.       (* '1' *)
Definition ch_lbr : N := 91.     (* '[' *)

(* MultiRef.soaproot: no SOAP-ENC:root attribute, or its value is '1' *)
Definition soaproot (nd : node) : bool :=
  match get_ns NM_ROOT NS_ENC (n_attrs nd) with
  | None => true
  | Some a => str_eqb (a_val a) [ch_1]
  end.

Definition catalog := list (str * nat).    (* newest binding first: a later duplicate id wins *)

Fixpoint cat_get (c : catalog) (k : str) : option nat :=
  match c with
  | [] => None
  | (k', v) :: r => if str_eqb k k' then Some v else cat_get r k
  end.

(* MultiRef.build_catalog: roots (self.nodes) in document order, catalog by '#id' *)
Fixpoint build_catalog (h : heap) (kids : list nat) (roots : list nat) (cat : catalog)
  : list nat * catalog :=
  match kids with
  | [] => (roots, cat)
  | c :: r =>
      let nd := getn h c in
      let roots' := if soaproot nd then roots ++ [c] else roots in
      let cat' := match get_any NM_ID (n_attrs nd) with
                  | None => cat
                  | Some a => (ch_hash :: a_val a, c) :: cat
                  end in
      build_catalog h r roots' cat'
  end.

(* the node as MultiRef.replace_references leaves it: the referenced node's
   children appended (the same nodes), its text, its attributes but `id`
   appended, the href attribute removed; nothing happens without href or when
   the id is not in the catalogue *)
Definition repl_node (cat : catalog) (h : heap) (nd : node) : node :=
  match get_any NM_HREF (n_attrs nd) with
  | None => nd
  | Some hr =>
      match cat_get cat (a_val hr) with
      | None => nd
      | Some m =>
          let r := getn h m in
          mkN (n_ns nd) (n_name nd)
              (remove_first (is_named NM_HREF)
                 (n_attrs nd ++ filter (fun a => negb (is_named NM_ID a)) (n_attrs r)))
              (n_text r)
              (n_kids nd ++ n_kids r)
      end
  end.

Definition repl (cat : catalog) (h : heap) (n : nat) : heap := setn h n (repl_node cat h (getn h n)).

(* MultiRef.update: replace_references(node); for c in node.children: update(c).
   Python recurses without bound (a reference cycle ends in RecursionError):
   fuel, None = exhausted. *)
Fixpoint update (fuel : nat) (cat : catalog) (h : heap) (n : nat) : option heap :=
  match fuel with
  | O => None
  | S f =>
      let h1 := repl cat h n in
      fold_left (fun acc c => match acc with Some hh => update f cat hh c | None => None end)
                (n_kids (getn h1 n)) (Some h1)
  end.

Definition set_kids (h : heap) (n : nat) (ks : list nat) : heap :=
  let nd := getn h n in setn h n (mkN (n_ns nd) (n_name nd) (n_attrs nd) (n_text nd) ks).

(* MultiRef.process(body): catalogue, update(body), body.children = roots *)
Definition process (fuel : nat) (h : heap) (b : nat) : option heap :=
  let rc := build_catalog h (n_kids (getn h b)) [] [] in
  match update fuel (snd rc) h b with
  | None => None
  | Some h' => Some (set_kids h' b (fst rc))
  end.

(* RPC.replycontent: body[0].children; None = body has no child left (AttributeError) *)
Definition reply_nodes (h : heap) (b : nat) : option (list nat) :=
  match n_kids (getn h b) with
  | [] => None
  | r :: _ => Some (n_kids (getn h r))
  end.

(* ------------------------------------------------------------------ *)
(* abstract schema of the rpc/encoded family                           *)
(* ------------------------------------------------------------------ *)

Record field := mkF { f_name : N; f_ty : qn; f_multi : bool; f_nillable : bool }.

Inductive tdef :=
  | DBuiltin (kind : N)          (* 0: translate returns the text; 1 int; 2 boolean; 3 float *)
  | DStruct (fs : list field)
  | DArray                       (* soapenc:Array or a restriction of it: children are xs:any, unbounded *)
  | DAny.                        (* the xs:any wildcard itself *)

Record tent := mkT { t_q : qn; t_cls : option N (* SchemaObject.name; None: the node's name is used *); t_def : tdef }.
Definition schema := list tent.

Definition lookup (S : schema) (q : qn) : option tent := find (fun t => qn_eqb (t_q t) q) S.

Definition any_ent : tent := mkT (0, 0)%N None DAny.

(* what Content.type is and what it says: multi_occurrence(), nillable() *)
Record decl := mkD { d_type : tent; d_multi : bool; d_nillable : bool }.

Definition is_builtin (t : tent) : bool := match t_def t with DBuiltin _ => true | _ => false end.

(* parent.get_child(name) on the parent's real type, then Element.resolve() *)
Definition get_child (S : schema) (real : tent) (nm : N) : option decl :=
  match t_def real with
  | DStruct fs =>
      match find (fun f => N.eqb (f_name f) nm) fs with
      | None => None
      | Some f =>
          match lookup S (f_ty f) with
          | None => None
          | Some t => Some (mkD t (f_multi f) (f_nillable f || is_builtin t))
          end
      end
  | DArray | DAny => Some (mkD any_ent true false)
  | DBuiltin _ => None
  end.

(* ------------------------------------------------------------------ *)
(* decoded values (canonical form of what the client returns)          *)
(* ------------------------------------------------------------------ *)

Inductive pv :=
  | PNone
  | PText (s : str)                         (* suds.sax.text.Text *)
  | PVal (kind : N) (s : str)               (* a translated builtin: 1 int, 2 bool, 3 float; canonical lexical form *)
  | PList (l : list pv)
  | PObj (cls : N) (fs : list ((bool * N) * pv))   (* key: (is an attribute key "_name", name) *)
  | PNode                                   (* mixed content: the Element itself is returned *)
  | PUnmodelled.                            (* attribute + text "property" objects *)

Inductive dres := DOk (v : pv) | DErr (e : N).
Definition E_TNF : N := 1.     (* TypeNotFound *)
Definition E_REC : N := 2.     (* RecursionError / fuel *)
Definition E_ATTR : N := 3.    (* AttributeError: body[0] is None *)

Definition key := (bool * N)%type.
Definition key_eqb (a b : key) : bool := Bool.eqb (fst a) (fst b) && N.eqb (snd a) (snd b).
Definition fields := list (key * pv).

(* setattr(data, key, v): existing key keeps its place *)
Fixpoint oset (fs : fields) (k : key) (v : pv) : fields :=
  match fs with
  | [] => [(k, v)]
  | (k', v') :: r => if key_eqb k k' then (k', v) :: r else (k', v') :: oset r k v
  end.

Fixpoint oget (fs : fields) (k : key) : option pv :=
  match fs with
  | [] => None
  | (k', v') :: r => if key_eqb k k' then Some v' else oget r k
  end.

(* AttrList.skip: xsd/xsi, xml, soap encoding and both envelope namespaces *)
Definition skip_attr (a : attr) : bool :=
  N.eqb (a_ns a) NS_XSI || N.eqb (a_ns a) NS_XSD || N.eqb (a_ns a) NS_XML ||
  N.eqb (a_ns a) NS_ENC || N.eqb (a_ns a) NS_ENV || N.eqb (a_ns a) NS_ENV12.

Definition real_attrs (l : list attr) : list attr := filter (fun a => negb (skip_attr a)) l.

(* Core.append_attributes *)
Definition attrs_data (l : list attr) : fields :=
  fold_left (fun d a => oset d (true, a_name a) (PText (a_val a))) (real_attrs l) [].

(* Core.append_children, one child *)
Definition add_child (data : fields) (nm : N) (multi : bool) (cv : pv) : fields :=
  match oget data (false, nm) with
  | Some (PList l) => oset data (false, nm) (PList (l ++ [cv]))
  | Some v => oset data (false, nm) (PList [v; cv])
  | None =>
      if multi then
        match cv with
        | PNone => oset data (false, nm) (PList [])
        | _ => oset data (false, nm) (PList [cv])
        end
      else oset data (false, nm) cv
  end.

(* Encoded.promote: the first member that is a list, else [] *)
Fixpoint promote (data : fields) : pv :=
  match data with
  | [] => PList []
  | (_, PList l) :: _ => PList l
  | _ :: r => promote r
  end.

Fixpoint count_ch (c : N) (s : str) : nat :=
  match s with
  | [] => O
  | x :: r => (if N.eqb x c then 1 else 0) + count_ch c r
  end.

(* Encoded.setaty: len(aty.split('[')) == 2 *)
Definition one_dim (a : attr) : bool := Nat.eqb (count_ch ch_lbr (a_val a)) 1.

Fixpoint before_ch (c : N) (s : str) : str :=
  match s with
  | [] => []
  | x :: r => if N.eqb x c then [] else x :: before_ch c r
  end.

(* the attribute Encoded.applyaty sets on a child: xsi:type = aty.split('[')[0] *)
Definition type_attr (a : attr) : attr := mkA NS_XSI NM_TYPE (before_ch ch_lbr (a_val a)) (a_q a).

Definition has_type (nd_attrs : list attr) : bool :=
  match get_ns NM_TYPE NS_XSI nd_attrs with Some _ => true | None => false end.

Definition add_type (a : attr) (l : list attr) : list attr :=
  if has_type l then l else l ++ [type_attr a].

(* Encoded.applyaty on the heap: every child without xsi:type gets one *)
Definition applyaty (h : heap) (n : nat) (a : attr) : heap :=
  fold_left (fun hh c =>
               let cd := getn hh c in
               setn hh c (mkN (n_ns cd) (n_name cd) (add_type a (n_attrs cd)) (n_text cd) (n_kids cd)))
            (n_kids (getn h n)) h.

(* NodeResolver.known: xsi:type looked up in the schema *)
Definition known (S : schema) (l : list attr) : option tent :=
  match get_ns NM_TYPE NS_XSI l with
  | None => None
  | Some a => match a_q a with None => None | Some q => lookup S q end
  end.

(* Element.isnil *)
Definition lower_ch (c : N) : N := if ((65 <=? c) && (c <=? 90))%N then (c + 32)%N else c.
Definition s_true : str := [116; 114; 117; 101]%N.
Definition isnil (l : list attr) : bool :=
  match get_ns NM_NIL NS_XSI l with
  | None => false
  | Some a => str_eqb (map lower_ch (a_val a)) s_true
  end.

(* resolved.translate(text): the Python value, canonically *)
Definition translate (real : tent) (s : str) : pv :=
  match t_def real with
  | DBuiltin 0%N => PText s
  | DBuiltin k => PVal k s
  | _ => PText s
  end.

(* how Content.type comes about: given (the reply part) or found through the parent's real type *)
Inductive ctx := CRoot (d : decl) | CChild (preal : tent).

(* Typed.start: the declaration and the real type (xsi:type wins) *)
Definition start (S : schema) (cx : ctx) (nd : node) : option (decl * tent) :=
  match cx with
  | CRoot d => Some (d, match known S (n_attrs nd) with Some t => t | None => d_type d end)
  | CChild preal =>
      match get_child S preal (n_name nd) with
      | None => None
      | Some d => Some (d, match known S (n_attrs nd) with Some t => t | None => d_type d end)
      end
  end.

(* Core.postprocess / Encoded.postprocess, once data, text and aty are known *)
Definition post (nd : node) (d : decl) (real : tent) (aty : option attr) (data : fields) : pv :=
  match aty with
  | Some _ => promote data                       (* Encoded.end + Encoded.postprocess *)
  | None =>
      let haskids := match n_kids nd with [] => false | _ => true end in
      let hastext := match n_text nd with Some _ => true | None => false end in
      if haskids && hastext then PNode
      else if (match real_attrs (n_attrs nd) with [] => false | _ => true end) && negb haskids && hastext
      then PUnmodelled
      else match data with
           | _ :: _ => PObj (match t_cls real with Some c => c | None => n_name nd end) data
           | [] =>
               if isnil (n_attrs nd) then PNone
               else match n_text nd with
                    | None => if haskids then PNone (* content.text is None *)
                              else if d_nillable d then PNone else PText []
                    | Some s => translate real s
                    end
           end
  end.

(* the children loop of Core.append_children with the heap threaded through *)
Fixpoint fold_kids (step : heap -> nat -> heap * dres) (info : heap -> nat -> N * bool)
         (h : heap) (ks : list nat) (data : fields) : heap * (fields + N) :=
  match ks with
  | [] => (h, inl data)
  | c :: r =>
      match step h c with
      | (h', DErr e) => (h', inr e)
      | (h', DOk cv) =>
          let (nm, multi) := info h c in
          fold_kids step info h' r (add_child data nm multi cv)
      end
  end.

(* Encoded(Typed(Core)).append on the heap *)
Fixpoint dech (fuel : nat) (S : schema) (h : heap) (n : nat) (cx : ctx) : heap * dres :=
  match fuel with
  | O => (h, DErr E_REC)
  | S f =>
      let nd0 := getn h n in
      let aty := get_ns NM_ATY NS_ENC (n_attrs nd0) in
      let h1 := match aty with
                | Some a => if one_dim a then applyaty h n a else h
                | None => h
                end in
      let nd := getn h1 n in
      match start S cx nd with
      | None => (h1, DErr E_TNF)
      | Some (d, real) =>
          let info := fun hh c =>
            let nm := n_name (getn hh c) in
            (nm, match get_child S real nm with Some dc => d_multi dc | None => false end) in
          match fold_kids (fun hh c => dech f S hh c (CChild real)) info h1 (n_kids nd)
                          (attrs_data (n_attrs nd)) with
          | (h2, inr e) => (h2, DErr e)
          | (h2, inl data) => (h2, DOk (post nd d real aty data))
          end
      end
  end.

(* Binding.get_reply for one returned part of type `ret` *)
Definition root_decl (S : schema) (ret : qn) : option decl :=
  match lookup S ret with
  | None => None
  | Some t => Some (mkD t false (is_builtin t))
  end.

Definition get_reply (fuel : nat) (S : schema) (ret : qn) (h : heap) (b : nat) : dres :=
  match process fuel h b with
  | None => DErr E_REC
  | Some h' =>
      match reply_nodes h' b with
      | None => DErr E_ATTR
      | Some [] => DOk PNone
      | Some (n :: _) =>
          match root_decl S ret with
          | None => DErr E_TNF
          | Some d => snd (dech fuel S h' n (CRoot d))
          end
      end
  end.

(* ------------------------------------------------------------------ *)
(* pure trees: the abstraction of the heap, and the SPEC               *)
(* ------------------------------------------------------------------ *)

Inductive tree := T (ns nm : N) (attrs : list attr) (text : option str) (kids : list tree).

Definition t_attrs (t : tree) := match t with T _ _ a _ _ => a end.
Definition t_kids (t : tree) := match t with T _ _ _ _ k => k end.
Definition t_name (t : tree) := match t with T _ nm _ _ _ => nm end.

Fixpoint all_some {A} (l : list (option A)) : option (list A) :=
  match l with
  | [] => Some []
  | None :: _ => None
  | Some x :: r => match all_some r with Some r' => Some (x :: r') | None => None end
  end.

(* the tree a heap node stands for (None: deeper than fuel, i.e. cyclic) *)
Fixpoint unfold (fuel : nat) (h : heap) (n : nat) : option tree :=
  match fuel with
  | O => None
  | S f =>
      let nd := getn h n in
      match all_some (map (unfold f h) (n_kids nd)) with
      | None => None
      | Some ks => Some (T (n_ns nd) (n_name nd) (n_attrs nd) (n_text nd) ks)
      end
  end.

(* SPEC: the reply with every reference replaced by the referenced content
   (the referrer keeps its name; it gets the referenced element's attributes
   other than id, its text and its children); an href without matching id is
   left as it is *)
Fixpoint inline (fuel : nat) (cat : catalog) (h : heap) (n : nat) : option tree :=
  match fuel with
  | O => None
  | S f =>
      let nd := repl_node cat h (getn h n) in
      match all_some (map (inline f cat h) (n_kids nd)) with
      | None => None
      | Some ks => Some (T (n_ns nd) (n_name nd) (n_attrs nd) (n_text nd) ks)
      end
  end.

(* the reply content when `r` is the rpc response element: the children of
   r with every reference replaced *)
Definition the_catalog (h : heap) (b : nat) : catalog := snd (build_catalog h (n_kids (getn h b)) [] []).
Definition the_roots (h : heap) (b : nat) : list nat := fst (build_catalog h (n_kids (getn h b)) [] []).

Definition inline_reply (fuel : nat) (h : heap) (b r : nat) : option (list tree) :=
  match inline fuel (the_catalog h b) h r with
  | None => None
  | Some t => Some (t_kids t)
  end.

(* pure decoding of a tree: applyaty is a map over the children *)
Definition tadd_type (a : attr) (t : tree) : tree :=
  match t with T ns nm attrs tx ks => T ns nm (add_type a attrs) tx ks end.

Definition tnode (t : tree) : node :=
  match t with T ns nm attrs tx ks => mkN ns nm attrs tx (map (fun _ => O) ks) end.

Fixpoint tfold_kids (step : tree -> dres) (info : tree -> N * bool) (ks : list tree) (data : fields)
  : fields + N :=
  match ks with
  | [] => inl data
  | c :: r =>
      match step c with
      | DErr e => inr e
      | DOk cv => let (nm, multi) := info c in tfold_kids step info r (add_child data nm multi cv)
      end
  end.

Fixpoint dect (fuel : nat) (S : schema) (t : tree) (cx : ctx) : dres :=
  match fuel with
  | O => DErr E_REC
  | S f =>
      match t with
      | T ns nm attrs tx ks0 =>
          let aty := get_ns NM_ATY NS_ENC attrs in
          let ks := match aty with
                    | Some a => if one_dim a then map (tadd_type a) ks0 else ks0
                    | None => ks0
                    end in
          let nd := tnode (T ns nm attrs tx ks) in
          match start S cx nd with
          | None => DErr E_TNF
          | Some (d, real) =>
              let info := fun c =>
                (t_name c, match get_child S real (t_name c) with Some dc => d_multi dc | None => false end) in
              match tfold_kids (fun c => dect f S c (CChild real)) info ks (attrs_data attrs) with
              | inr e => DErr e
              | inl data => DOk (post nd d real aty data)
              end
          end
      end
  end.

(* decoding the reply content (a list of trees) for one returned part *)
Definition decode_reply (fuel : nat) (S : schema) (ret : qn) (nodes : option (list tree)) : dres :=
  match nodes with
  | None => DErr E_ATTR
  | Some [] => DOk PNone
  | Some (t :: _) =>
      match root_decl S ret with
      | None => DErr E_TNF
      | Some d => dect fuel S t (CRoot d)
      end
  end.

(* SPEC of the whole: inline the response element, then decode *)
Definition spec_reply (fuel : nat) (S : schema) (ret : qn) (h : heap) (b r : nat) : dres :=
  match inline_reply fuel h b r with
  | None => DErr E_REC
  | Some nodes => decode_reply fuel S ret (Some nodes)
  end.

(* ------------------------------------------------------------------ *)
(* abstract rpc/encoded values and what they decode to (property text) *)
(* ------------------------------------------------------------------ *)

Inductive value :=
  | VLeaf (kind : N) (s : str)           (* simple value of a builtin type of that kind *)
  | VNil
  | VStruct (cls : N) (fs : list (N * value))
  | VArr (items : list value)            (* items carry their own type: the one named by arrayType *)
  | VOpaque.                             (* an element left unresolved (dangling href): anything *)

Fixpoint expected (v : value) : option pv :=
  match v with
  | VLeaf 0%N s => Some (PText s)
  | VLeaf k s => Some (PVal k s)
  | VNil => Some PNone
  | VStruct cls fs =>
      Some (PObj cls (map (fun p => ((false, fst p), match expected (snd p) with Some x => x | None => PUnmodelled end)) fs))
  | VArr items => Some (PList (map (fun i => match expected i with Some x => x | None => PUnmodelled end) items))
  | VOpaque => None
  end.

Fixpoint pv_eqb (a b : pv) {struct a} : bool :=
  match a, b with
  | PNone, PNone => true
  | PText s, PText s' => str_eqb s s'
  | PVal k s, PVal k' s' => N.eqb k k' && str_eqb s s'
  | PList l, PList l' =>
      (fix go (x y : list pv) : bool :=
         match x, y with
         | [], [] => true
         | p :: x', q :: y' => pv_eqb p q && go x' y'
         | _, _ => false
         end) l l'
  | PObj c fs, PObj c' fs' =>
      N.eqb c c' &&
      (fix go (x y : fields) : bool :=
         match x, y with
         | [], [] => true
         | (k, p) :: x', (k', q) :: y' => key_eqb k k' && pv_eqb p q && go x' y'
         | _, _ => false
         end) fs fs'
  | PNode, PNode => true
  | PUnmodelled, PUnmodelled => true
  | _, _ => false
  end.

(* does the decoded value show the abstract value (VOpaque matches anything) *)
Fixpoint shows (v : value) (p : pv) {struct v} : bool :=
  match v, p with
  | VOpaque, _ => true
  | VLeaf 0%N s, PText s' => str_eqb s s'
  | VLeaf k s, PVal k' s' => negb (N.eqb k 0) && N.eqb k k' && str_eqb s s'
  | VNil, PNone => true
  | VStruct cls fs, PObj cls' fs' =>
      N.eqb cls cls' &&
      (fix go (x : list (N * value)) (y : fields) : bool :=
         match x, y with
         | [], [] => true
         | (nm, v') :: x', ((isa, nm'), p') :: y' => negb isa && N.eqb nm nm' && shows v' p' && go x' y'
         | _, _ => false
         end) fs fs'
  | VArr items, PList l =>
      (fix go (x : list value) (y : list pv) : bool :=
         match x, y with
         | [], [] => true
         | v' :: x', p' :: y' => shows v' p' && go x' y'
         | _, _ => false
         end) items l
  | _, _ => false
  end.

Definition dres_eqb (a b : dres) : bool :=
  match a, b with
  | DOk x, DOk y => pv_eqb x y
  | DErr e, DErr e' => N.eqb e e'
  | _, _ => false
  end.

(* ------------------------------------------------------------------ *)
(* the guard of the equivalence theorem, executable                    *)
(* ------------------------------------------------------------------ *)

(* the response element is the first serialization root of the Body: every
   independent element before it is marked SOAP-ENC:root other than '1' *)
Definition first_root_is (h : heap) (b r : nat) : bool :=
  match the_roots h b with
  | x :: _ => Nat.eqb x r
  | [] => false
  end.

(* referenced elements are not themselves references, nobody has two href attributes,
   the body element itself is no reference *)
Definition no_href (nd : node) : bool := match get_any NM_HREF (n_attrs nd) with None => true | Some _ => false end.
Definition one_href (nd : node) : bool :=
  match get_any NM_HREF (n_attrs nd) with
  | None => true
  | Some _ => match get_any NM_HREF (remove_first (is_named NM_HREF) (n_attrs nd)) with None => true | Some _ => false end
  end.

Definition wf_refs (h : heap) (b : nat) : bool :=
  forallb (fun kv => no_href (getn h (snd kv))) (the_catalog h b) &&
  forallb one_href h &&
  no_href (getn h b).

(* the Body element is nobody's child *)
Definition body_top (h : heap) (b : nat) : bool :=
  forallb (fun nd => negb (existsb (Nat.eqb b) (n_kids nd))) h.

(* the one-dimensional arrayType of a node, if any *)
Definition aty1 (l : list attr) : option attr :=
  match get_ns NM_ATY NS_ENC l with
  | Some a => if one_dim a then Some a else None
  | None => None
  end.

Definition attr_beq (a b : attr) : bool :=
  N.eqb (a_ns a) (a_ns b) && N.eqb (a_name a) (a_name b) && str_eqb (a_val a) (a_val b) &&
  opt_eqb qn_eqb (a_q a) (a_q b).

(* children ids are nodes of the heap *)
Definition rangeb (h : heap) : bool :=
  forallb (fun nd => forallb (fun c => Nat.ltb c (length h)) (n_kids nd)) h.

(* a child without xsi:type of its own that several nodes share: they agree
   on the type arrayType gives it (so the order in which Encoded.applyaty
   reaches it does not matter) *)
Definition consb (h : heap) : bool :=
  forallb (fun p1 =>
    forallb (fun c =>
      has_type (n_attrs (getn h c)) ||
      forallb (fun p2 =>
        negb (existsb (Nat.eqb c) (n_kids p2)) ||
        opt_eqb attr_beq (option_map type_attr (aty1 (n_attrs p1))) (option_map type_attr (aty1 (n_attrs p2)))) h)
      (n_kids p1)) h.

Definition heap_ok (h : heap) : bool := rangeb h && consb h.

(* ---- the input-side condition: the reply as parsed ---- *)

(* tree-shaped: no node is the child of two nodes *)
Definition parents_unique (h : heap) : bool :=
  forallb (fun p1 =>
    forallb (fun p2 =>
      Nat.eqb p1 p2 ||
      negb (existsb (fun c => existsb (Nat.eqb c) (n_kids (getn h p2))) (n_kids (getn h p1))))
      (seq 0 (length h))) (seq 0 (length h)).

(* an element whose href is answered is a bare referrer: no children of its
   own and no arrayType of its own *)
Definition bare_refs (h : heap) (b : nat) : bool :=
  forallb (fun nd =>
    match get_any NM_HREF (n_attrs nd) with
    | None => true
    | Some hr =>
        match cat_get (the_catalog h b) (a_val hr) with
        | None => true
        | Some _ =>
            (match n_kids nd with [] => true | _ => false end) &&
            (match get_ns NM_ATY NS_ENC (n_attrs nd) with None => true | Some _ => false end)
        end
    end) h.

(* everything the equivalence theorem asks of the reply, as one boolean
   function of the parsed Body: referenced elements are no references
   themselves, one href per element, the Body is a reference to nothing and
   nobody's child, child ids are nodes, one parent per node, bare referrers *)
Definition input_ok (h : heap) (b : nat) : bool :=
  wf_refs h b && body_top h b && rangeb h && parents_unique h && bare_refs h b.

Fixpoint height (t : tree) : nat :=
  match t with T _ _ _ _ ks => Datatypes.S (fold_right (fun k m => Nat.max (height k) m) O ks) end.

(* "t written with some of its values out of line": node n of the heap either
   IS the element (no href; its children written the same way) or is a bare
   reference (nothing but href) to a catalogued element that carries the
   element's attributes (besides its id), text and children.  Any subset, any
   sharing, any nesting, any ids. *)
Fixpoint outl (cat : catalog) (h : heap) (t : tree) (n : nat) {struct t} : Prop :=
  match t with
  | T ns nm attrs tx ks =>
      let nd := getn h n in
      let outl_list :=
        (fix go (ts : list tree) (cs : list nat) {struct ts} : Prop :=
           match ts, cs with
           | [], [] => True
           | t' :: ts', c :: cs' => outl cat h t' c /\ go ts' cs'
           | _, _ => False
           end) in
      n_ns nd = ns /\ n_name nd = nm /\
      ((get_any NM_HREF (n_attrs nd) = None /\ n_attrs nd = attrs /\ n_text nd = tx /\ outl_list ks (n_kids nd))
       \/
       (exists hr m, n_attrs nd = [hr] /\ a_name hr = NM_HREF /\ n_kids nd = [] /\
                     cat_get cat (a_val hr) = Some m /\
                     attrs = filter (fun a => negb (is_named NM_ID a)) (n_attrs (getn h m)) /\
                     tx = n_text (getn h m) /\ outl_list ks (n_kids (getn h m))))
  end.

(* ------------------------------------------------------------------ *)
(* cases: what the harness hands over                                  *)
(* ------------------------------------------------------------------ *)

Record mcase := mkC {
  c_schema : schema;
  c_ret : qn;
  c_fuel : nat;
  c_in : heap; c_in_body : nat;        (* the reply with everything in line, as parsed by expat *)
  c_out : heap; c_out_body : nat;      (* an out-lined form of it *)
  c_rin : dres;                        (* what the client returned for each *)
  c_rout : dres;
  c_value : value                      (* the abstract value the reply was written from *)
}.

(* model = implementation, on both forms *)
Definition mr_agrees (c : mcase) : bool :=
  dres_eqb (get_reply (c_fuel c) (c_schema c) (c_ret c) (c_in c) (c_in_body c)) (c_rin c) &&
  dres_eqb (get_reply (c_fuel c) (c_schema c) (c_ret c) (c_out c) (c_out_body c)) (c_rout c).

(* the rpc response element of the out-lined body: the body child named like
   the only child of the in-line body *)
Definition find_named (h : heap) (b : nat) (ns nm : N) : option nat :=
  find (fun c => N.eqb (n_ns (getn h c)) ns && N.eqb (n_name (getn h c)) nm) (n_kids (getn h b)).

Definition resp_of (c : mcase) : option nat :=
  match n_kids (getn (c_in c) (c_in_body c)) with
  | [r] => find_named (c_out c) (c_out_body c) (n_ns (getn (c_in c) r)) (n_name (getn (c_in c) r))
  | _ => None
  end.

(* the property on the implementation's own outputs: same result for both
   forms, that result shows the value, and it is the decoding of the response
   element with every reference replaced *)
Definition mr_same (c : mcase) : bool := dres_eqb (c_rout c) (c_rin c).
Definition mr_shows (c : mcase) : bool :=
  match c_rin c with DOk p => shows (c_value c) p | DErr _ => false end.
Definition mr_inlined (c : mcase) : bool :=
  match resp_of c with
  | None => false
  | Some r => dres_eqb (spec_reply (c_fuel c) (c_schema c) (c_ret c) (c_out c) (c_out_body c) r) (c_rout c)
  end.
Definition mr_spec_ok (c : mcase) : bool := mr_same c && mr_shows c && mr_inlined c.

(* inside the guard of multiref_equiv? *)
Definition mr_guard (c : mcase) : bool :=
  match resp_of c with
  | None => false
  | Some r =>
      input_ok (c_out c) (c_out_body c) && first_root_is (c_out c) (c_out_body c) r
  end.

(* what input_ok is proved to imply (input_ok_heap_ok), evaluated as well *)
Definition mr_heap_ok (c : mcase) : bool :=
  negb (input_ok (c_out c) (c_out_body c)) ||
  match process (c_fuel c) (c_out c) (c_out_body c) with
  | Some h' => heap_ok h'
  | None => false
  end.

(* the theorem's own instance, evaluated: model on the heap = spec on the tree *)
Definition mr_instance (c : mcase) : bool :=
  match resp_of c with
  | None => false
  | Some r =>
      negb (mr_guard c) ||
      dres_eqb (get_reply (c_fuel c) (c_schema c) (c_ret c) (c_out c) (c_out_body c))
               (spec_reply (c_fuel c) (c_schema c) (c_ret c) (c_out c) (c_out_body c) r)
  end.

(* generator sanity (no implementation involved): the in-line document the
   harness wrote IS the out-lined one with every reference replaced, up to the
   attributes only independent elements carry (SOAP-ENC:root, encodingStyle) *)
Definition ignorable (a : attr) : bool :=
  is_attr NM_ROOT NS_ENC a || N.eqb (a_ns a) NS_ENV.

Fixpoint from_ch (c : N) (s : str) : str :=
  match s with
  | [] => []
  | x :: r => if N.eqb x c then s else from_ch c r
  end.

(* QName-valued attributes are compared by the QName they denote (the two
   documents spell prefixes differently) *)
Definition attr_eqb (a b : attr) : bool :=
  N.eqb (a_ns a) (a_ns b) && N.eqb (a_name a) (a_name b) &&
  match a_q a, a_q b with
  | Some q, Some q' => qn_eqb q q' && str_eqb (from_ch ch_lbr (a_val a)) (from_ch ch_lbr (a_val b))
  | None, None => str_eqb (a_val a) (a_val b)
  | _, _ => false
  end.

Fixpoint tree_eqb (a b : tree) {struct a} : bool :=
  match a, b with
  | T ns nm at1 tx ks, T ns' nm' at2 tx' ks' =>
      N.eqb ns ns' && N.eqb nm nm' &&
      list_eqb attr_eqb (filter (fun x => negb (ignorable x)) at1) (filter (fun x => negb (ignorable x)) at2) &&
      opt_eqb str_eqb tx tx' &&
      (fix go (x y : list tree) : bool :=
         match x, y with
         | [], [] => true
         | p :: x', q :: y' => tree_eqb p q && go x' y'
         | _, _ => false
         end) ks ks'
  end.

Definition gen_ok (c : mcase) : bool :=
  match n_kids (getn (c_in c) (c_in_body c)), resp_of c with
  | [r], Some r' =>
      match inline (c_fuel c) (the_catalog (c_out c) (c_out_body c)) (c_out c) r',
            inline (c_fuel c) (the_catalog (c_in c) (c_in_body c)) (c_in c) r with
      | Some a, Some b => tree_eqb a b
      | _, _ => false
      end
  | _, _ => false
  end.
