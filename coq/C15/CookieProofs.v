(* C15 - the cookie jar over histories of ANY length: the cookies that accompany a request are
   exactly those whose last Set-Cookie event was a set (declarative specification spec_live),
   and the jar never holds two values for one (path, name). *)
From SV Require Import Lib.Base C15.Base64 C15.Model.
Local Open Scope N_scope.

Definition ev_is (p : str) (n : bytes) (e : rev) : bool :=
  let '(_, p', n', _) := e in str_eqb p p' && str_eqb n n'.

Fixpoint find_about (p : str) (n : bytes) (l : list rev) : option rev :=
  match l with
  | [] => None
  | e :: r => if ev_is p n e then Some e else find_about p n r
  end.

Lemma str_eqb_sym_c a b : str_eqb a b = str_eqb b a.
Proof.
  destruct (str_eqb a b) eqn:E.
  - apply str_eqb_eq in E. subst. symmetry. apply str_eqb_refl.
  - destruct (str_eqb b a) eqn:F; [|reflexivity].
    apply str_eqb_eq in F. subst. rewrite str_eqb_refl in E. discriminate.
Qed.

Lemma existsb_ext_c {A} (f g : A -> bool) l : (forall x, f x = g x) -> existsb f l = existsb g l.
Proof. intro H. induction l as [|a l IH]; [reflexivity|]. cbn. rewrite H, IH. reflexivity. Qed.

Definition jar_of (history : list rev) : jar := fold_left jar_apply history [].

Lemma same_key_spec p n c : same_key p n c = true <-> p = ck_path c /\ n = ck_name c.
Proof.
  unfold same_key. rewrite andb_true_iff, !str_eqb_eq. reflexivity.
Qed.

Lemma same_key_mk p n p' n' v : same_key p n (mkCookie p' n' v) = str_eqb p p' && str_eqb n n'.
Proof. reflexivity. Qed.

Lemma ev_is_spec p n b p' n' v : ev_is p n (b, p', n', v) = true <-> p = p' /\ n = n'.
Proof. cbn. rewrite andb_true_iff, !str_eqb_eq. reflexivity. Qed.

(* ---------- the jar keeps one cookie per key ---------- *)
Fixpoint uniq (j : jar) : Prop :=
  match j with
  | [] => True
  | c :: r => (forall c', In c' r -> same_key (ck_path c) (ck_name c) c' = false) /\ uniq r
  end.

Lemma in_jar_del c p n j : In c (jar_del p n j) <-> In c j /\ same_key p n c = false.
Proof.
  unfold jar_del. rewrite filter_In, negb_true_iff. reflexivity.
Qed.

Lemma uniq_jar_del p n j : uniq j -> uniq (jar_del p n j).
Proof.
  induction j as [|c r IH]; intro U; [exact I|].
  destruct U as [U1 U2]. unfold jar_del. cbn [filter].
  destruct (negb (same_key p n c)).
  - split; [|exact (IH U2)]. intros c' H. apply in_jar_del in H as [H _]. exact (U1 c' H).
  - exact (IH U2).
Qed.

Lemma in_jar_set c p n v j : uniq j ->
  (In c (jar_set p n v j) <-> c = mkCookie p n v \/ (In c j /\ same_key p n c = false)).
Proof.
  induction j as [|c0 r IH]; intro U.
  - cbn. split; [intros [H|[]]; left; congruence | intros [H|[[] _]]; left; congruence].
  - destruct U as [U1 U2]. cbn [jar_set].
    destruct (same_key p n c0) eqn:K.
    + apply same_key_spec in K as [Kp Kn]. cbn [In]. split.
      * intros [H|H]; [left; congruence|]. right. split; [right; exact H|].
        rewrite Kp, Kn. exact (U1 c H).
      * intros [H|[[H|H] F]]; [left; congruence | | right; exact H].
        subst c0. rewrite Kp, Kn in F.
        assert (T : same_key (ck_path c) (ck_name c) c = true) by (apply same_key_spec; split; reflexivity).
        congruence.
    + cbn [In]. rewrite (IH U2). split.
      * intros [H|[H|[H F]]]; [right; split; [left; exact H | subst; exact K] | left; exact H | right; split; [right; exact H | exact F]].
      * intros [H|[[H|H] F]]; [right; left; exact H | left; exact H | right; right; split; assumption].
Qed.

Lemma uniq_jar_set p n v j : uniq j -> uniq (jar_set p n v j).
Proof.
  induction j as [|c0 r IH]; intro U.
  - cbn. split; [intros c' []|exact I].
  - destruct U as [U1 U2]. cbn [jar_set]. destruct (same_key p n c0) eqn:K.
    + apply same_key_spec in K as [Kp Kn]. split; [|exact U2].
      intros c' H. cbn [ck_path ck_name]. rewrite Kp, Kn. exact (U1 c' H).
    + split; [|exact (IH U2)].
      intros c' H. apply (in_jar_set c' p n v r U2) in H as [H|[H F]].
      * subst c'. rewrite same_key_mk.
        destruct (str_eqb (ck_path c0) p && str_eqb (ck_name c0) n) eqn:E; [|reflexivity].
        apply andb_true_iff in E as [E1 E2]. apply str_eqb_eq in E1. apply str_eqb_eq in E2.
        assert (T : same_key p n c0 = true) by (apply same_key_spec; split; congruence).
        congruence.
      * exact (U1 c' H).
Qed.

Lemma uniq_apply j e : uniq j -> uniq (jar_apply j e).
Proof.
  destruct e as [[[b p] n] v]. cbn. destruct b; [apply uniq_jar_set | apply uniq_jar_del].
Qed.

Lemma uniq_fold h : forall j, uniq j -> uniq (fold_left jar_apply h j).
Proof. induction h as [|e h IH]; intros j U; [exact U|]. cbn. apply IH, uniq_apply, U. Qed.

Lemma jar_unique_l history : uniq (jar_of history).
Proof. apply uniq_fold. exact I. Qed.

(* ---------- the jar holds the last event's value ---------- *)
Lemma jar_of_snoc h e : jar_of (h ++ [e]) = jar_apply (jar_of h) e.
Proof. unfold jar_of. rewrite fold_left_app. reflexivity. Qed.

Lemma jar_last p n v history :
  In (mkCookie p n v) (jar_of history) <-> find_about p n (List.rev history) = Some (true, p, n, v).
Proof.
  induction history as [|e h IH] using rev_ind.
  - cbn. split; [intros [] | discriminate].
  - rewrite jar_of_snoc, rev_app_distr. cbn [List.rev app find_about].
    destruct e as [[[b pe] ne] ve].
    destruct (ev_is p n (b, pe, ne, ve)) eqn:E.
    + apply ev_is_spec in E as [Ep En]. subst pe ne. cbn [jar_apply]. destruct b.
      * rewrite (in_jar_set _ p n ve _ (jar_unique_l h)). split.
        -- intros [H|[_ F]]; [injection H as ->; reflexivity|].
           rewrite same_key_mk, !str_eqb_refl in F. discriminate.
        -- intro H. left. injection H as ->. reflexivity.
      * rewrite in_jar_del, same_key_mk, !str_eqb_refl. split; [intros [_ F]; discriminate | discriminate].
    + cbn [jar_apply]. destruct b.
      * rewrite (in_jar_set _ pe ne ve _ (jar_unique_l h)), <- IH. split.
        -- intros [H|[H _]]; [|exact H]. injection H as -> -> ->.
           cbn in E. rewrite !str_eqb_refl in E. discriminate.
        -- intro H. right. split; [exact H|]. rewrite same_key_mk.
           cbn in E. rewrite (str_eqb_sym_c pe p), (str_eqb_sym_c ne n). exact E.
      * rewrite in_jar_del, <- IH. split; [intros [H _]; exact H|].
        intro H. split; [exact H|]. rewrite same_key_mk.
        cbn in E. rewrite (str_eqb_sym_c pe p), (str_eqb_sym_c ne n). exact E.
Qed.

(* ---------- the declarative side ---------- *)
Definition seen_has (p : str) (n : bytes) (seen : list rev) : bool := existsb (ev_is p n) seen.

Lemma rev_key_is e s : rev_key_eqb e s = ev_is (snd (fst (fst e))) (snd (fst e)) s.
Proof. destruct e as [[[b p] n] v], s as [[[b' p'] n'] v']. reflexivity. Qed.

Lemma live_last p n v : forall l seen,
  In (mkCookie p n v) (live_from_latest l seen) <->
  seen_has p n seen = false /\ find_about p n l = Some (true, p, n, v).
Proof.
  induction l as [|e r IH]; intro seen.
  - cbn. split; [intros [] | intros [_ H]; discriminate].
  - destruct e as [[[b pe] ne] ve]. cbn [live_from_latest find_about].
    assert (X : existsb (rev_key_eqb (b, pe, ne, ve)) seen = seen_has pe ne seen).
    { unfold seen_has. apply existsb_ext_c. intro s. apply rev_key_is. }
    rewrite X.
    destruct (ev_is p n (b, pe, ne, ve)) eqn:E.
    + apply ev_is_spec in E as [Ep En]. subst pe ne.
      destruct (seen_has p n seen) eqn:S.
      * rewrite IH, S. split; intros [F _]; discriminate.
      * rewrite in_app_iff, IH. unfold seen_has at 1. cbn [existsb].
        assert (T : ev_is p n (b, p, n, ve) = true) by (apply ev_is_spec; split; reflexivity).
        rewrite T. cbn [orb]. split.
        -- intros [H|[F _]]; [|discriminate]. destruct b; [|destruct H].
           destruct H as [H|[]]. injection H as ->. split; reflexivity.
        -- intros [_ H]. injection H as -> ->. left. left. reflexivity.
    + destruct (seen_has pe ne seen) eqn:S.
      * apply IH.
      * rewrite in_app_iff, IH. unfold seen_has at 1. cbn [existsb]. rewrite E. cbn [orb].
        fold (seen_has p n seen). split.
        -- intros [H|H]; [|exact H]. destruct b; [|destruct H]. destruct H as [H|[]].
           injection H as -> -> ->. cbn in E. rewrite !str_eqb_refl in E. discriminate.
        -- intro H. right. exact H.
Qed.

Lemma cookie_history_l history p n v :
  In (mkCookie p n v) (jar_of history) <-> In (mkCookie p n v) (spec_live history).
Proof.
  rewrite jar_last. unfold spec_live. rewrite live_last. cbn. split; [intro H; split; [reflexivity | exact H] | intros [_ H]; exact H].
Qed.

(* what accompanies a request: the same (name, value) pairs *)
Lemma cookie_header_l history path x :
  In x (cookies_for (jar_of history) path) <-> In x (cookies_for (spec_live history) path).
Proof.
  unfold cookies_for. rewrite !in_map_iff. split; intros [c [H1 H2]]; exists c; (split; [exact H1|]);
    apply filter_In in H2 as [A B]; apply filter_In; (split; [|exact B]);
    destruct c as [p n v]; apply cookie_history_l; exact A.
Qed.

(* the jar only moves on replies urllib returned (2xx): getcookies() is not reached for
   HTTPError replies - their Set-Cookie lines are dropped *)
Lemma error_replies_leave_jar_l P k c j prev pm q p :
  p_challenge p = None -> is_2xx (p_status p) = false -> snd (model_step P k c j prev pm q p) = j.
Proof.
  intros A B. unfold model_step. rewrite A. unfold urllib_outcome. rewrite B. reflexivity.
Qed.

Lemma delivered_replies_update_jar_l P k c j prev pm q p :
  p_challenge p = None -> is_2xx (p_status p) = true ->
  snd (model_step P k c j prev pm q p) = fold_left jar_apply (map (resolve (q_path q)) (p_cookies p)) j.
Proof.
  intros A B. unfold model_step. rewrite A. unfold urllib_outcome. rewrite B. reflexivity.
Qed.

(* "any cookies earlier responses set" is false of the faithful model for HTTPError replies:
   a 500 reply setting a=1 leaves the jar empty *)
Lemma reply_cookies_stored_refuted_l :
  exists P k c j prev pm q p,
    p_challenge p = None /\ p_cookies p <> [] /\
    snd (model_step P k c j prev pm q p) <> fold_left jar_apply (map (resolve (q_path q)) (p_cookies p)) j.
Proof.
  exists std_params, TPlain, (None, None), [], [], [], (mkReq None [47; 115] [] 1 (None, None) false),
         (mkResp None 500 None 1 None None [CSet None [97] [49]]).
  split; [reflexivity|]. split; [discriminate|]. vm_compute. discriminate.
Qed.
