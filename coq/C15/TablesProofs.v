(* C15 - what depends on the tables regenerated from /repo (Gen/C15Tables.v). *)
From SV Require Import Lib.Base C15.Base64 C15.B64Proofs C15.Utf8Proofs C15.Model C15.PipeProofs Gen.C15Tables.

(* the alphabet addcredentials really uses (obtained by calling it on the 64 single-sextet
   credentials), its scheme prefix and the default SOAP headers are the documented ones *)
Lemma impl_is_std_l : impl_params = std_params.
Proof. reflexivity. Qed.

Lemma credentials_recoverable_impl_l u p :
  scalars u = true -> scalars p = true -> no_colon u = true ->
  server_recovers (model_authorization impl_params u p) = Some (u, p).
Proof. rewrite impl_is_std_l, std_authorization. apply credentials_recoverable_l. Qed.

Lemma preemptive_credentials_impl_l u p h :
  scalars u = true -> scalars p = true -> no_colon u = true -> no_ci l_authorization h = true ->
  exists v, dict_get l_authorization (u2_headers (add_credentials impl_params TBasicPre (Some u, Some p) h)) = Some v
            /\ server_recovers v = Some (u, p).
Proof.
  intros A B C D. exists (model_authorization impl_params u p). split.
  - apply preemptive_authorization_l, D.
  - apply credentials_recoverable_impl_l; assumption.
Qed.

Lemma soap_defaults_impl_l action opts :
  (no_ci l_content_type opts = true ->
     dict_get l_content_type (u2_headers (soap_headers impl_params action opts)) = Some v_text_xml_utf8) /\
  (no_ci l_soapaction opts = true ->
     dict_get l_soapaction (u2_headers (soap_headers impl_params action opts)) = Some action).
Proof. rewrite impl_is_std_l. apply soap_defaults_delivered_l. Qed.

Lemma caller_header_impl_l action pre post k1 v1 :
  no_ci (lower k1) pre = true -> no_ci (lower k1) post = true ->
  str_eqb (lower k1) l_content_type = false -> str_eqb (lower k1) l_soapaction = false ->
  dict_get (lower k1) (u2_headers (soap_headers impl_params action (pre ++ (k1, v1) :: post))) = Some v1.
Proof. rewrite impl_is_std_l. apply caller_header_delivered_l. Qed.

Lemma header_values_from_caller_impl_l action opts k v :
  dict_get k (u2_headers (soap_headers impl_params action opts)) = Some v ->
  (exists k', In (k', v) opts /\ str_eqb k (lower k') = true) \/
  (k = l_content_type /\ v = v_text_xml_utf8) \/ (k = l_soapaction /\ v = action).
Proof. rewrite impl_is_std_l. apply header_values_from_caller_l. Qed.

Lemma credentials_recoverable_refuted_impl_l :
  exists u p, scalars u = true /\ scalars p = true /\
              server_recovers (model_authorization impl_params u p) <> Some (u, p).
Proof.
  destruct credentials_recoverable_refuted_l as [u [p H]]. exists u, p.
  rewrite impl_is_std_l, std_authorization. exact H.
Qed.
