(* C15 - the pure pipeline of the transport: header assembly, credentials, Content-Encoding
   switch, reply decoding, error mapping, URL check, timeout choice. *)
From Coq Require Import ZifyBool ZifyNat ZifyN.
From SV Require Import Lib.Base C15.Base64 C15.B64Proofs C15.Utf8Proofs C15.Model.
Local Open Scope N_scope.

(* ---------- Python dict ---------- *)
Lemma str_eqb_sym a b : str_eqb a b = str_eqb b a.
Proof.
  destruct (str_eqb a b) eqn:E.
  - apply str_eqb_eq in E. subst. symmetry. apply str_eqb_refl.
  - destruct (str_eqb b a) eqn:F; [|reflexivity].
    apply str_eqb_eq in F. subst. rewrite str_eqb_refl in E. discriminate.
Qed.

Lemma get_set k k' v d :
  dict_get k (dict_set k' v d) = if str_eqb k k' then Some v else dict_get k d.
Proof.
  induction d as [|[k0 v0] d IH]; cbn.
  - destruct (str_eqb k k'); reflexivity.
  - destruct (str_eqb k' k0) eqn:E; cbn.
    + apply str_eqb_eq in E. subst k0. destruct (str_eqb k k'); reflexivity.
    + destruct (str_eqb k k0) eqn:F.
      * destruct (str_eqb k k') eqn:G; [|reflexivity].
        apply str_eqb_eq in F. apply str_eqb_eq in G. subst.
        rewrite str_eqb_refl in E. discriminate.
      * exact IH.
Qed.

Lemma u2_fold_get k h : forall acc,
  dict_get k (fold_left (fun acc kv => dict_set (lower (fst kv)) (snd kv) acc) h acc) =
  last_ci k h (dict_get k acc).
Proof.
  unfold last_ci. induction h as [|[k0 v0] h IH]; intro acc; cbn; [reflexivity|].
  rewrite IH, get_set. reflexivity.
Qed.

(* what the server finds under a (case-insensitive) name: the last spelling the dict held *)
Lemma u2_get_l k h : dict_get k (u2_headers h) = last_ci k h None.
Proof. unfold u2_headers. rewrite u2_fold_get. reflexivity. Qed.

Lemma last_ci_app k a b d : last_ci k (a ++ b) d = last_ci k b (last_ci k a d).
Proof. unfold last_ci. apply fold_left_app. Qed.

Lemma last_ci_none k h d :
  forallb (fun kv => negb (str_eqb k (lower (fst kv)))) h = true -> last_ci k h d = d.
Proof.
  unfold last_ci. revert d. induction h as [|[k0 v0] h IH]; intros d H; cbn in *; [reflexivity|].
  apply andb_true_iff in H as [A B]. apply negb_true_iff in A. rewrite A. apply IH, B.
Qed.

(* ---------- credentials reach the header map ---------- *)
Lemma lower_authorization : lower n_authorization = l_authorization.
Proof. reflexivity. Qed.

Definition no_ci (k : str) (h : hdict) : bool :=
  forallb (fun kv => negb (str_eqb k (lower (fst kv)))) h.

Lemma last_ci_dict_set_fresh k k' v h d :
  no_ci k h = true -> str_eqb k (lower k') = true -> last_ci k (dict_set k' v h) d = Some v.
Proof.
  unfold last_ci, no_ci.
  revert d. induction h as [|[k0 v0] h IH]; intros d H E; cbn [dict_set forallb fst] in *.
  - cbn [fold_left fst snd]. rewrite E. reflexivity.
  - apply andb_true_iff in H as [A B]. apply negb_true_iff in A.
    destruct (str_eqb k' k0) eqn:F.
    + apply str_eqb_eq in F. subst k0. rewrite E in A. discriminate.
    + cbn [fold_left fst snd]. rewrite A. apply (IH _ B E).
Qed.

Lemma preemptive_authorization_l P u p h :
  no_ci l_authorization h = true ->
  dict_get l_authorization (u2_headers (add_credentials P TBasicPre (Some u, Some p) h)) =
  Some (model_authorization P u p).
Proof.
  intro H. rewrite u2_get_l. cbn [add_credentials].
  apply last_ci_dict_set_fresh; [exact H | reflexivity].
Qed.

Lemma std_authorization u p : model_authorization std_params u p = authorization std_alphabet u p.
Proof. reflexivity. Qed.

Lemma no_credentials_no_header_l P k c h :
  (k = TPlain \/ k = TChallenge \/ fst c = None \/ snd c = None) -> add_credentials P k c h = h.
Proof.
  destruct k, c as [[u|] [p|]]; cbn; try reflexivity.
  intros [H|[H|[H|H]]]; discriminate.
Qed.

(* ---------- reply ---------- *)
Lemma reply_fidelity_l ce body gz zl :
  (ce = None -> decode_reply ce body gz zl = RReply 200 body) /\
  (forall v p, ce = Some v -> ci_eqb v v_gzip = true -> gz = Some p ->
               decode_reply ce body gz zl = RReply 200 p) /\
  (forall v p, ce = Some v -> ci_eqb v v_gzip = false -> ci_eqb v v_deflate = true -> zl = Some p ->
               decode_reply ce body gz zl = RReply 200 p) /\
  (forall v, ce = Some v -> ci_eqb v v_gzip = false -> ci_eqb v v_deflate = false ->
             decode_reply ce body gz zl = RReply 200 body).
Proof.
  repeat split; intros; subst; unfold decode_reply;
    repeat match goal with H : ci_eqb _ _ = _ |- _ => rewrite H; clear H end; reflexivity.
Qed.

(* the caller gets exactly what a reader decoding by the reply's label (case-insensitively,
   RFC 9110 8.4.1) gets - the specification function of Model.v - whenever that succeeds *)
Lemma reply_matches_label_l ce body gz zl p :
  decoded_by_label ce body gz zl = Some p -> decode_reply ce body gz zl = RReply 200 p.
Proof.
  unfold decoded_by_label, decode_reply. destruct ce as [v|]; [|intro H; injection H as ->; reflexivity].
  destruct (ci_eqb v v_gzip); [intro H; rewrite H; reflexivity|].
  destruct (ci_eqb v v_deflate); [intro H; rewrite H; reflexivity|].
  intro H. injection H as ->. reflexivity.
Qed.

Lemma error_mapping_l code body :
  (code <> 202 -> code <> 204 -> send_result (OHttpError code body) = RTransportError code body) /\
  open_result (OHttpError code body) = RTransportError code body.
Proof.
  split; [|reflexivity]. intros A B. cbn.
  replace (code =? 202) with false by lia. replace (code =? 204) with false by lia. reflexivity.
Qed.

Lemma status_mapping_l status ce body gz zl :
  (is_2xx status = true ->
     send_result (urllib_outcome status ce body gz zl) = decode_reply ce body gz zl) /\
  (is_2xx status = false ->
     send_result (urllib_outcome status ce body gz zl) = RTransportError status body /\
     open_result (urllib_outcome status ce body gz zl) = RTransportError status body).
Proof.
  unfold urllib_outcome. split; intro H; rewrite H; [reflexivity|].
  split; [|reflexivity]. cbn. unfold is_2xx in H.
  replace (status =? 202) with false by lia. replace (status =? 204) with false by lia. reflexivity.
Qed.

Lemma failures_propagate_l e : send_result (OFail e) = RFail e /\ open_result (OFail e) = RFail e.
Proof. split; reflexivity. Qed.

(* ---------- URL ---------- *)
Lemma url_check_l url attempted :
  (is_ascii url = false -> model_url_io url attempted = (UUnicodeError, 0)) /\
  (is_ascii url = true -> fst (model_url_io url attempted) = UOk url).
Proof.
  unfold model_url_io, request_url. split; intro H; rewrite H; reflexivity.
Qed.

(* ---------- timeout ---------- *)
Lemma timeout_choice_l rt ot :
  (forall t, rt = Some t -> t <> 0%Z -> choose_timeout rt ot = t) /\
  (rt = None -> choose_timeout rt ot = ot) /\
  model_timeout MOpen rt ot = ot.
Proof.
  repeat split; intros; subst; cbn; try reflexivity.
  destruct (t =? 0)%Z eqn:E; [lia | reflexivity].
Qed.

(* ---------- header assembly ---------- *)
(* setting a key leaves every other (case-insensitive) name alone *)
Lemma last_ci_set_other k k1 v1 d : forall dflt,
  str_eqb k (lower k1) = false -> last_ci k (dict_set k1 v1 d) dflt = last_ci k d dflt.
Proof.
  unfold last_ci. induction d as [|[k0 v0] d IH]; intros dflt E; cbn [dict_set].
  - cbn [fold_left fst snd]. rewrite E. reflexivity.
  - destruct (str_eqb k1 k0) eqn:F.
    + apply str_eqb_eq in F. subst k0. cbn [fold_left fst snd]. rewrite E. reflexivity.
    + cbn [fold_left fst snd]. apply IH, E.
Qed.

Lemma last_ci_update_other k opts : forall d dflt,
  no_ci k opts = true -> last_ci k (dict_update d opts) dflt = last_ci k d dflt.
Proof.
  unfold dict_update, no_ci. induction opts as [|[k1 v1] opts IH]; intros d dflt H; [reflexivity|].
  cbn [forallb fst] in H. apply andb_true_iff in H as [A B]. apply negb_true_iff in A.
  cbn [fold_left fst snd]. rewrite IH by exact B. apply last_ci_set_other, A.
Qed.

(* Content-Type and SOAPAction reach the server as _SoapClient set them whenever the caller's
   own headers do not name them (in any spelling) *)
Lemma soap_defaults_delivered_l action opts :
  (no_ci l_content_type opts = true ->
     dict_get l_content_type (u2_headers (soap_headers std_params action opts)) = Some v_text_xml_utf8) /\
  (no_ci l_soapaction opts = true ->
     dict_get l_soapaction (u2_headers (soap_headers std_params action opts)) = Some action).
Proof.
  split; intro H; rewrite u2_get_l; unfold soap_headers; rewrite last_ci_update_other by exact H;
    reflexivity.
Qed.

(* a caller header whose name no other entry shares (case-insensitively) and that is not one of
   the two defaults reaches the server with exactly its value *)
Lemma last_ci_update_fresh k k1 v1 : forall pre post d,
  str_eqb k (lower k1) = true -> no_ci k pre = true -> no_ci k post = true -> no_ci k d = true ->
  last_ci k (dict_update d (pre ++ (k1, v1) :: post)) None = Some v1.
Proof.
  intros pre post d E Hpre Hpost Hd. unfold dict_update. rewrite fold_left_app. cbn [fold_left fst snd].
  fold (dict_update d pre). fold (dict_update (dict_set k1 v1 (dict_update d pre)) post).
  rewrite last_ci_update_other by exact Hpost.
  apply last_ci_dict_set_fresh; [|exact E].
  (* nothing named k in d updated with pre *)
  clear - Hpre Hd. revert d Hd. unfold dict_update, no_ci in *.
  induction pre as [|[k0 v0] pre IH]; intros d Hd; [exact Hd|].
  cbn [forallb fst] in Hpre. apply andb_true_iff in Hpre as [A B].
  cbn [fold_left fst snd]. apply IH; [exact B|].
  clear - A Hd. induction d as [|[k2 v2] d IHd]; cbn [dict_set forallb fst].
  - rewrite A. reflexivity.
  - cbn [forallb fst] in Hd. apply andb_true_iff in Hd as [C D].
    destruct (str_eqb k0 k2) eqn:F; cbn [forallb fst]; rewrite C; [exact D | apply IHd, D].
Qed.

Lemma caller_header_delivered_l action pre post k1 v1 :
  no_ci (lower k1) pre = true -> no_ci (lower k1) post = true ->
  str_eqb (lower k1) l_content_type = false -> str_eqb (lower k1) l_soapaction = false ->
  dict_get (lower k1) (u2_headers (soap_headers std_params action (pre ++ (k1, v1) :: post))) = Some v1.
Proof.
  intros A B C D. rewrite u2_get_l. unfold soap_headers.
  apply last_ci_update_fresh; [apply str_eqb_refl | exact A | exact B |].
  unfold no_ci. cbn [forallb fst std_params p_ct_name p_sa_name].
  change (lower n_content_type) with l_content_type. change (lower n_soapaction) with l_soapaction.
  rewrite C, D. reflexivity.
Qed.

(* without _SoapClient (the caller built the Request): the same for the plain header dict *)
Lemma request_header_delivered_l P kind c pre post k1 v1 :
  no_ci (lower k1) pre = true -> no_ci (lower k1) post = true ->
  str_eqb (lower k1) l_authorization = false ->
  dict_get (lower k1) (u2_headers (add_credentials P kind c (pre ++ (k1, v1) :: post))) = Some v1.
Proof.
  intros A B C. rewrite u2_get_l.
  assert (G : last_ci (lower k1) (pre ++ (k1, v1) :: post) None = Some v1).
  { rewrite last_ci_app. unfold last_ci at 1. cbn [fold_left fst snd]. rewrite str_eqb_refl.
    fold (last_ci (lower k1) post (Some v1)). apply last_ci_none. exact B. }
  destruct kind, c as [[u|] [p|]]; try exact G.
  cbn [add_credentials]. rewrite last_ci_set_other; [exact G|].
  change (lower n_authorization) with l_authorization. exact C.
Qed.

(* ---------- any header map at all: nothing but the caller's values or the defaults ---------- *)
Lemma last_ci_two k d : forall x y,
  last_ci k d x = last_ci k d y \/ (last_ci k d x = x /\ last_ci k d y = y).
Proof.
  unfold last_ci. induction d as [|[k0 v0] d IH]; intros x y; cbn [fold_left fst snd].
  - right. split; reflexivity.
  - destruct (str_eqb k (lower k0)); [left; reflexivity | apply IH].
Qed.

Lemma last_ci_set_cases k k1 v1 d : forall dflt,
  (last_ci k (dict_set k1 v1 d) dflt = Some v1 /\ str_eqb k (lower k1) = true) \/
  last_ci k (dict_set k1 v1 d) dflt = last_ci k d dflt.
Proof.
  induction d as [|[k0 v0] d IH]; intro dflt; cbn [dict_set].
  - unfold last_ci. cbn [fold_left fst snd]. destruct (str_eqb k (lower k1)); [left; split; reflexivity | right; reflexivity].
  - destruct (str_eqb k1 k0) eqn:E.
    + apply str_eqb_eq in E. subst k0. unfold last_ci. cbn [fold_left fst snd].
      destruct (str_eqb k (lower k1)) eqn:F; [|right; reflexivity].
      fold (last_ci k d (Some v1)). fold (last_ci k d (Some v0)).
      destruct (last_ci_two k d (Some v1) (Some v0)) as [H|[H _]]; [right; exact H | left; split; [exact H | reflexivity]].
    + unfold last_ci. cbn [fold_left fst snd]. apply IH.
Qed.

Lemma update_values_l k v opts : forall d,
  last_ci k (dict_update d opts) None = Some v ->
  (exists k', In (k', v) opts /\ str_eqb k (lower k') = true) \/ last_ci k d None = Some v.
Proof.
  unfold dict_update. induction opts as [|[k1 v1] opts IH]; intros d H; [right; exact H|].
  cbn [fold_left fst snd] in H. apply IH in H as [[k' [A B]]|H].
  - left. exists k'. split; [right; exact A | exact B].
  - destruct (last_ci_set_cases k k1 v1 d None) as [[X Y]|X]; rewrite X in H.
    + left. exists k1. split; [left; congruence | exact Y].
    + right. exact H.
Qed.

Lemma header_values_from_caller_l action opts k v :
  dict_get k (u2_headers (soap_headers std_params action opts)) = Some v ->
  (exists k', In (k', v) opts /\ str_eqb k (lower k') = true) \/
  (k = l_content_type /\ v = v_text_xml_utf8) \/ (k = l_soapaction /\ v = action).
Proof.
  rewrite u2_get_l. unfold soap_headers. intro H. apply update_values_l in H as [H|H]; [left; exact H|].
  right. unfold last_ci in H. cbn [fold_left fst snd std_params p_ct_name p_ct_value p_sa_name] in H.
  change (lower n_content_type) with l_content_type in H. change (lower n_soapaction) with l_soapaction in H.
  destruct (str_eqb k l_soapaction) eqn:S.
  - right. apply str_eqb_eq in S. split; congruence.
  - destruct (str_eqb k l_content_type) eqn:C; [|discriminate].
    left. apply str_eqb_eq in C. split; congruence.
Qed.

(* ---------- request body ---------- *)
(* a server that decodes by the Content-Encoding label it was sent (case-insensitively), with
   ideal codecs: gzip data gunzips, zlib data inflates, anything else is taken as it is *)
Definition server_decodes (label : option bytes) (w : wire) : option blob :=
  match label with
  | Some v =>
      if ci_eqb v v_gzip then match w with WGzip m => Some m | _ => None end
      else if ci_eqb v v_deflate then match w with WDeflate m => Some m | _ => None end
      else match w with WRaw m => Some m | _ => None end
  | None => match w with WRaw m => Some m | _ => None end
  end.

(* for EVERY header dict - any spelling of the name, several spellings at once, any case of the
   coding - the label the server finds is the one the switch looked at, so it decodes the envelope *)
Lemma body_fidelity_l h msg :
  server_decodes (dict_get l_content_encoding (u2_headers h)) (wire_body h msg) = Some msg.
Proof.
  rewrite u2_get_l. unfold wire_body, server_decodes.
  destruct (last_ci l_content_encoding h None) as [v|]; [|reflexivity].
  destruct (ci_eqb v v_gzip); [reflexivity|]. destruct (ci_eqb v v_deflate); reflexivity.
Qed.

Lemma body_fidelity_on_the_wire_l P kind c h msg :
  let h1 := add_credentials P kind c h in
  server_decodes (dict_get l_content_encoding (u2_headers h1)) (wire_body h1 msg) = Some msg.
Proof. intro h1. apply body_fidelity_l. Qed.

Lemma credentials_keep_encoding_l P k c h :
  last_ci l_content_encoding (add_credentials P k c h) None = last_ci l_content_encoding h None.
Proof.
  destruct k, c as [[u|] [p|]]; try reflexivity.
  cbn [add_credentials]. apply last_ci_set_other. reflexivity.
Qed.

Lemma credentials_keep_body_l P k c h msg : wire_body (add_credentials P k c h) msg = wire_body h msg.
Proof. unfold wire_body. rewrite credentials_keep_encoding_l. reflexivity. Qed.

(* the switch itself: compressed exactly when the last spelling of the header says gzip / deflate *)
Lemma compression_switch_l h msg :
  (forall v, last_ci l_content_encoding h None = Some v -> ci_eqb v v_gzip = true ->
             wire_body h msg = WGzip msg) /\
  (forall v, last_ci l_content_encoding h None = Some v -> ci_eqb v v_gzip = false ->
             ci_eqb v v_deflate = true -> wire_body h msg = WDeflate msg) /\
  (forall v, last_ci l_content_encoding h None = Some v -> ci_eqb v v_gzip = false ->
             ci_eqb v v_deflate = false -> wire_body h msg = WRaw msg) /\
  (last_ci l_content_encoding h None = None -> wire_body h msg = WRaw msg).
Proof.
  unfold wire_body. repeat split; intros;
    repeat match goal with H : _ = _ |- _ => rewrite H; clear H end; reflexivity.
Qed.

Lemma body_unlabelled_on_the_wire_l P kind c h msg :
  no_ci l_content_encoding h = true ->
  let h1 := add_credentials P kind c h in
  dict_get l_content_encoding (u2_headers h1) = None /\ wire_body h1 msg = WRaw msg.
Proof.
  intros A h1. subst h1.
  assert (N : last_ci l_content_encoding (add_credentials P kind c h) None = None).
  { rewrite credentials_keep_encoding_l. apply last_ci_none. exact A. }
  split; [rewrite u2_get_l; exact N | unfold wire_body; rewrite N; reflexivity].
Qed.
