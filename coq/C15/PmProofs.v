(* C15 - challenge-response credentials: suds' https.HttpAuthenticated keeps one urllib password
   manager for its whole life and adds the configured credentials under the request URL before
   every send; urllib answers a Basic challenge with the FIRST entry that is the URL or a path
   prefix of it.  What the server recovers is what is configured at the time of the request as
   long as no entry for a shorter path stands in front (pm_clear); otherwise it is that older
   entry (challenge_credentials_refuted: the finding C15:stale-credentials-for-deeper-path). *)
From SV Require Import Lib.Base C15.Base64 C15.Model C15.PipeProofs.
Local Open Scope N_scope.

(* no entry under another path answers for this path *)
Definition pm_clear (path : str) (pm : pmgr) : bool :=
  forallb (fun e => str_eqb path (fst e) || negb (is_suburi (fst e) path)) pm.
(* every entry is under this very path *)
Definition pm_single (path : str) (pm : pmgr) : bool := forallb (fun e => str_eqb path (fst e)) pm.

Lemma is_suburi_refl p : is_suburi p p = true.
Proof. unfold is_suburi. rewrite str_eqb_refl. reflexivity. Qed.

Lemma pm_find_add_l path u p pm :
  pm_clear path pm = true -> pm_find path (pm_add path u p pm) = Some (u, p).
Proof.
  unfold pm_clear. induction pm as [|[base up] r IH]; intro H; cbn [pm_add].
  - cbn [pm_find]. rewrite is_suburi_refl. reflexivity.
  - cbn [forallb fst] in H. apply andb_true_iff in H as [A B].
    destruct (str_eqb path base) eqn:E.
    + apply str_eqb_eq in E. subst base. cbn [pm_find]. rewrite is_suburi_refl. reflexivity.
    + cbn [orb] in A. apply negb_true_iff in A. cbn [pm_find]. rewrite A. apply IH, B.
Qed.

Lemma pm_single_clear path pm : pm_single path pm = true -> pm_clear path pm = true.
Proof.
  unfold pm_single, pm_clear. induction pm as [|e r IH]; intro H; [reflexivity|].
  cbn [forallb] in *. apply andb_true_iff in H as [A B]. rewrite A, (IH B). reflexivity.
Qed.

Lemma pm_single_add path u p pm : pm_single path pm = true -> pm_single path (pm_add path u p pm) = true.
Proof.
  unfold pm_single. induction pm as [|[base up] r IH]; intro H; cbn [pm_add].
  - cbn. rewrite str_eqb_refl. reflexivity.
  - cbn [forallb fst] in H. apply andb_true_iff in H as [A B]. rewrite A. cbn [forallb fst]. rewrite A. exact B.
Qed.

(* any number of credential changes on ONE url: the challenge is answered with the current pair *)
Definition pm_history (path : str) (changes : list (str * str)) : pmgr :=
  fold_left (fun pm up => pm_add path (fst up) (snd up) pm) changes [].

Lemma pm_history_single path changes : pm_single path (pm_history path changes) = true.
Proof.
  unfold pm_history.
  assert (G : forall pm, pm_single path pm = true ->
              pm_single path (fold_left (fun pm up => pm_add path (fst up) (snd up) pm) changes pm) = true).
  { induction changes as [|[u p] cs IH]; intros pm H; [exact H|]. cbn [fold_left fst snd].
    apply IH, pm_single_add, H. }
  apply G. reflexivity.
Qed.

Lemma same_url_history_l path changes u p :
  pm_find path (pm_add path u p (pm_history path changes)) = Some (u, p).
Proof. apply pm_find_add_l, pm_single_clear, pm_history_single. Qed.

(* at the level of a send: the retried request carries the configured pair *)
Lemma challenge_credentials_partial_l P u pw j prev pm q p cb :
  p_challenge p = Some cb ->
  has_key l_authorization (u2_headers (start_headers P prev q)) = false ->
  pm_clear (q_path q) pm = true ->
  let m := fst (model_step P TChallenge (Some u, Some pw) j prev pm q p) in
  m_conns m = 2 /\ dict_get l_authorization (m_hdrs m) = Some (authorization std_alphabet u pw).
Proof.
  intros C A H m. subst m. unfold model_step. rewrite C. cbn [add_credentials]. rewrite A.
  cbn [pm_after]. rewrite (pm_find_add_l _ u pw pm H). cbn [fst m_conns m_hdrs].
  split; [reflexivity|]. rewrite get_set, str_eqb_refl. reflexivity.
Qed.

(* the unguarded statement is false: credentials first used for /svc, then changed, then a
   request to /svc/op - the manager finds the /svc entry first *)
Lemma challenge_credentials_refuted_l :
  exists path pm u p, pm_find path (pm_add path u p pm) <> Some (u, p).
Proof.
  exists [47; 115; 118; 99; 47; 111; 112], [([47; 115; 118; 99], ([97], [49]))], [98], [50].
  vm_compute. discriminate.
Qed.
