(* C15 - challenge-response credentials.  Since 2ac69bb https.HttpAuthenticated starts every
   request from a fresh urllib password manager holding only the credentials configured now, so
   what the server recovers after a Basic challenge is what is configured at the time of the
   request, whatever happened before - and nothing when a credential is None.
   The manager suds used before (one for the life of the transport, an entry per URL, urllib
   answering with the first path prefix) is kept as pm_after_accumulating with its lemmas: the
   guarded statement and the /svc -> /svc/op witness are the regression witnesses of the fixed
   finding C15:stale-credentials-for-deeper-path. *)
From SV Require Import Lib.Base C15.Base64 C15.Model C15.PipeProofs.
Local Open Scope N_scope.

(* no entry under another path answers for this path *)
Definition pm_clear (path : str) (pm : pmgr) : bool :=
  forallb (fun e => str_eqb path (fst e) || negb (is_suburi (fst e) path)) pm.
(* every entry is under this very path *)
Definition pm_single (path : str) (pm : pmgr) : bool := forallb (fun e => str_eqb path (fst e)) pm.

Lemma is_suburi_refl p : is_suburi p p = true.
Proof. unfold is_suburi. rewrite str_eqb_refl. reflexivity. Qed.

Lemma pm_find_add_l path u p pm :
  pm_clear path pm = true -> pm_find path (pm_add path u p pm) = Some (u, p).
Proof.
  unfold pm_clear. induction pm as [|[base up] r IH]; intro H; cbn [pm_add].
  - cbn [pm_find]. rewrite is_suburi_refl. reflexivity.
  - cbn [forallb fst] in H. apply andb_true_iff in H as [A B].
    destruct (str_eqb path base) eqn:E.
    + apply str_eqb_eq in E. subst base. cbn [pm_find]. rewrite is_suburi_refl. reflexivity.
    + cbn [orb] in A. apply negb_true_iff in A. cbn [pm_find]. rewrite A. apply IH, B.
Qed.

Lemma pm_single_clear path pm : pm_single path pm = true -> pm_clear path pm = true.
Proof.
  unfold pm_single, pm_clear. induction pm as [|e r IH]; intro H; [reflexivity|].
  cbn [forallb] in *. apply andb_true_iff in H as [A B]. rewrite A, (IH B). reflexivity.
Qed.

Lemma pm_single_add path u p pm : pm_single path pm = true -> pm_single path (pm_add path u p pm) = true.
Proof.
  unfold pm_single. induction pm as [|[base up] r IH]; intro H; cbn [pm_add].
  - cbn. rewrite str_eqb_refl. reflexivity.
  - cbn [forallb fst] in H. apply andb_true_iff in H as [A B]. rewrite A. cbn [forallb fst]. rewrite A. exact B.
Qed.

(* any number of credential changes on ONE url: the challenge is answered with the current pair *)
Definition pm_history (path : str) (changes : list (str * str)) : pmgr :=
  fold_left (fun pm up => pm_add path (fst up) (snd up) pm) changes [].

Lemma pm_history_single path changes : pm_single path (pm_history path changes) = true.
Proof.
  unfold pm_history.
  assert (G : forall pm, pm_single path pm = true ->
              pm_single path (fold_left (fun pm up => pm_add path (fst up) (snd up) pm) changes pm) = true).
  { induction changes as [|[u p] cs IH]; intros pm H; [exact H|]. cbn [fold_left fst snd].
    apply IH, pm_single_add, H. }
  apply G. reflexivity.
Qed.

Lemma same_url_history_l path changes u p :
  pm_find path (pm_add path u p (pm_history path changes)) = Some (u, p).
Proof. apply pm_find_add_l, pm_single_clear, pm_history_single. Qed.

(* at the level of a send: the retried request carries the pair configured now, for ANY state
   an earlier send may have left *)
Lemma challenge_credentials_l P u pw j prev pm q p cb :
  p_challenge p = Some cb ->
  has_key l_authorization (u2_headers (start_headers P prev q)) = false ->
  let m := fst (model_step P TChallenge (Some u, Some pw) j prev pm q p) in
  m_conns m = 2 /\ dict_get l_authorization (m_hdrs m) = Some (authorization std_alphabet u pw).
Proof.
  intros C A m. subst m. unfold model_step. rewrite C. cbn [add_credentials]. rewrite A.
  cbn [pm_after pm_find]. rewrite is_suburi_refl. cbn [fst m_conns m_hdrs].
  split; [reflexivity|]. rewrite get_set, str_eqb_refl. reflexivity.
Qed.

(* credentials reset to None (one or both): the challenge is not answered - one connection,
   no Authorization added, the 401 surfaces *)
Lemma no_credentials_no_answer_l P k c j prev pm q p cb :
  fst c = None \/ snd c = None ->
  p_challenge p = Some cb ->
  has_key l_authorization (u2_headers (start_headers P prev q)) = false ->
  let m := fst (model_step P k c j prev pm q p) in
  m_conns m = 1 /\ m_result m = RTransportError 401 cb /\
  m_hdrs m = u2_headers (start_headers P prev q).
Proof.
  intros N C A m. subst m. unfold model_step. rewrite C.
  assert (E : add_credentials P k c (start_headers P prev q) = start_headers P prev q)
    by (apply no_credentials_no_header_l; tauto).
  rewrite E, A.
  assert (F : pm_after k c pm q = []).
  { destruct k, c as [[u|] [pw|]]; try reflexivity. cbn in N. destruct N; discriminate. }
  destruct k; try (rewrite F; cbn [pm_find]); cbn [fst m_conns m_result m_hdrs]; repeat split; reflexivity.
Qed.

(* no send looks at what earlier sends left in the manager *)
Lemma history_independent_l P k c j prev pm q p :
  model_step P k c j prev pm q p = model_step P k c j prev [] q p.
Proof. unfold model_step. destruct k, c as [[u|] [pw|]]; reflexivity. Qed.

(* ---------- the manager before 2ac69bb (regression witnesses) ---------- *)
(* with the accumulating manager the configured pair was found only when no entry for another,
   shorter path stood in front *)
Lemma accumulating_manager_partial_l u pw pm q :
  pm_clear (q_path q) pm = true ->
  pm_find (q_path q) (pm_after_accumulating TChallenge (Some u, Some pw) pm q) = Some (u, pw).
Proof. intro H. cbn [pm_after_accumulating]. apply pm_find_add_l, H. Qed.

(* the unguarded statement is false: credentials first used for /svc, then changed, then a
   request to /svc/op - the manager finds the /svc entry first *)
Lemma accumulating_manager_refuted_l :
  exists path pm u p, pm_find path (pm_add path u p pm) <> Some (u, p).
Proof.
  exists [47; 115; 118; 99; 47; 111; 112], [([47; 115; 118; 99], ([97], [49]))], [98], [50].
  vm_compute. discriminate.
Qed.
