(* C15 - challenge-response credentials.  Since 7b69e23 https.HttpAuthenticated owns one
   password manager whose state is the set of URLs registered while credentials were set and
   whose answer, for a URL below a registered one, is the pair configured on the transport at
   the time of the lookup (nothing if a credential is None).  Every send registers its URL first
   (when credentials are set), so what the server recovers after a Basic challenge is what is
   configured at the time of the request, whatever happened before - for the same URL, a deeper
   one or another one - and nothing when a credential is None.
   The lookup suds relied on before (urllib's own: the pair STORED with the first path-prefix
   entry) is kept - pm_find over pm_after_accumulating - with the guarded statement and the
   /svc -> /svc/op witness as regression witnesses of the fixed finding
   C15:stale-credentials-for-deeper-path. *)
From SV Require Import Lib.Base C15.Base64 C15.Model C15.PipeProofs.
Local Open Scope N_scope.

(* no entry under another path answers for this path *)
Definition pm_clear (path : str) (pm : pmgr) : bool :=
  forallb (fun e => str_eqb path (fst e) || negb (is_suburi (fst e) path)) pm.
(* every entry is under this very path *)
Definition pm_single (path : str) (pm : pmgr) : bool := forallb (fun e => str_eqb path (fst e)) pm.

Lemma is_suburi_refl p : is_suburi p p = true.
Proof. unfold is_suburi. rewrite str_eqb_refl. reflexivity. Qed.

Lemma pm_find_add_l path u p pm :
  pm_clear path pm = true -> pm_find path (pm_add path u p pm) = Some (u, p).
Proof.
  unfold pm_clear. induction pm as [|[base up] r IH]; intro H; cbn [pm_add].
  - cbn [pm_find]. rewrite is_suburi_refl. reflexivity.
  - cbn [forallb fst] in H. apply andb_true_iff in H as [A B].
    destruct (str_eqb path base) eqn:E.
    + apply str_eqb_eq in E. subst base. cbn [pm_find]. rewrite is_suburi_refl. reflexivity.
    + cbn [orb] in A. apply negb_true_iff in A. cbn [pm_find]. rewrite A. apply IH, B.
Qed.

Lemma pm_single_clear path pm : pm_single path pm = true -> pm_clear path pm = true.
Proof.
  unfold pm_single, pm_clear. induction pm as [|e r IH]; intro H; [reflexivity|].
  cbn [forallb] in *. apply andb_true_iff in H as [A B]. rewrite A, (IH B). reflexivity.
Qed.

Lemma pm_single_add path u p pm : pm_single path pm = true -> pm_single path (pm_add path u p pm) = true.
Proof.
  unfold pm_single. induction pm as [|[base up] r IH]; intro H; cbn [pm_add].
  - cbn. rewrite str_eqb_refl. reflexivity.
  - cbn [forallb fst] in H. apply andb_true_iff in H as [A B]. rewrite A. cbn [forallb fst]. rewrite A. exact B.
Qed.

(* any number of credential changes on ONE url: the challenge is answered with the current pair *)
Definition pm_history (path : str) (changes : list (str * str)) : pmgr :=
  fold_left (fun pm up => pm_add path (fst up) (snd up) pm) changes [].

Lemma pm_history_single path changes : pm_single path (pm_history path changes) = true.
Proof.
  unfold pm_history.
  assert (G : forall pm, pm_single path pm = true ->
              pm_single path (fold_left (fun pm up => pm_add path (fst up) (snd up) pm) changes pm) = true).
  { induction changes as [|[u p] cs IH]; intros pm H; [exact H|]. cbn [fold_left fst snd].
    apply IH, pm_single_add, H. }
  apply G. reflexivity.
Qed.

Lemma same_url_history_l path changes u p :
  pm_find path (pm_add path u p (pm_history path changes)) = Some (u, p).
Proof. apply pm_find_add_l, pm_single_clear, pm_history_single. Qed.

(* a URL just registered is found (some entry answers for it) *)
Lemma pm_find_add_some path u p pm : exists up, pm_find path (pm_add path u p pm) = Some up.
Proof.
  induction pm as [|[base up0] r IH]; cbn [pm_add].
  - exists (u, p). cbn [pm_find]. rewrite is_suburi_refl. reflexivity.
  - destruct (str_eqb path base) eqn:E.
    + apply str_eqb_eq in E. subst base. exists (u, p). cbn [pm_find]. rewrite is_suburi_refl. reflexivity.
    + cbn [pm_find]. destruct (is_suburi base path); [exists up0; reflexivity | exact IH].
Qed.

(* the lookup of a send: the pair configured now when both are set, nothing otherwise -
   whatever URLs earlier sends registered *)
Lemma pm_lookup_send u pw pm q :
  pm_lookup (pm_after TChallenge (Some u, Some pw) pm q) (q_path q) (Some u, Some pw) = Some (u, pw).
Proof.
  unfold pm_lookup. cbn [pm_after]. destruct (pm_find_add_some (q_path q) u pw pm) as [up H].
  rewrite H. reflexivity.
Qed.

Lemma pm_lookup_none pm path c : fst c = None \/ snd c = None -> pm_lookup pm path c = None.
Proof.
  intro N. unfold pm_lookup. destruct (pm_find path pm) as [found|]; [|reflexivity].
  destruct c as [[u|] [p|]]; try reflexivity. cbn in N. destruct N; discriminate.
Qed.

(* the lookup finds nothing for a URL that is below no registered one - e.g. when addcredentials
   ran while a credential was None and the credentials were set only afterwards.  A send cannot
   get there: it registers its own URL a moment before with the same credentials (pm_lookup_send);
   it takes another thread changing the options between the two *)
Lemma pm_lookup_unregistered path c : pm_lookup [] path c = None.
Proof. reflexivity. Qed.

(* at the level of a send: the retried request carries the pair configured now, for ANY set of
   URLs registered before (the same URL, a shorter one, others, none) *)
Lemma challenge_credentials_l P u pw j prev pm q p cb :
  p_challenge p = Some cb ->
  has_key l_authorization (u2_headers (start_headers P prev q)) = false ->
  let m := fst (model_step P TChallenge (Some u, Some pw) j prev pm q p) in
  m_conns m = 2 /\ dict_get l_authorization (m_hdrs m) = Some (authorization std_alphabet u pw).
Proof.
  intros C A m. subst m. unfold model_step. rewrite C. cbn [add_credentials]. rewrite A.
  rewrite pm_lookup_send. cbn [fst m_conns m_hdrs].
  split; [reflexivity|]. rewrite get_set, str_eqb_refl. reflexivity.
Qed.

(* credentials reset to None (one or both): the challenge is not answered - one connection,
   no Authorization added, the 401 surfaces - although the URL may still be registered *)
Lemma no_credentials_no_answer_l P k c j prev pm q p cb :
  fst c = None \/ snd c = None ->
  p_challenge p = Some cb ->
  has_key l_authorization (u2_headers (start_headers P prev q)) = false ->
  let m := fst (model_step P k c j prev pm q p) in
  m_conns m = 1 /\ m_result m = RTransportError 401 cb /\
  m_hdrs m = u2_headers (start_headers P prev q).
Proof.
  intros N C A m. subst m. unfold model_step. rewrite C.
  assert (E : add_credentials P k c (start_headers P prev q) = start_headers P prev q)
    by (apply no_credentials_no_header_l; tauto).
  rewrite E, A.
  destruct k; try (rewrite (pm_lookup_none _ _ c N)); cbn [fst m_conns m_result m_hdrs];
    repeat split; reflexivity.
Qed.

(* no send depends on what earlier sends registered *)
Lemma history_independent_l P k c j prev pm q p :
  model_step P k c j prev pm q p = model_step P k c j prev [] q p.
Proof.
  unfold model_step. destruct k; try reflexivity.
  destruct c as [[u|] [pw|]]; [rewrite !pm_lookup_send; reflexivity | | |];
    cbn [pm_after]; unfold pm_lookup; cbn [pm_find];
    destruct (pm_find (q_path q) pm) as [found|]; reflexivity.
Qed.

(* ---------- the lookup before 2ac69bb (regression witnesses) ---------- *)
(* with the accumulating manager the configured pair was found only when no entry for another,
   shorter path stood in front *)
Lemma accumulating_manager_partial_l u pw pm q :
  pm_clear (q_path q) pm = true ->
  pm_find (q_path q) (pm_after_accumulating TChallenge (Some u, Some pw) pm q) = Some (u, pw).
Proof. intro H. cbn [pm_after_accumulating]. apply pm_find_add_l, H. Qed.

(* the unguarded statement is false: credentials first used for /svc, then changed, then a
   request to /svc/op - the manager finds the /svc entry first *)
Lemma accumulating_manager_refuted_l :
  exists path pm u p, pm_find path (pm_add path u p pm) <> Some (u, p).
Proof.
  exists [47; 115; 118; 99; 47; 111; 112], [([47; 115; 118; 99], ([97], [49]))], [98], [50].
  vm_compute. discriminate.
Qed.
