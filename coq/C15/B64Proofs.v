(* C15 - RFC 4648 base64: decoding the standard encoding of ANY byte list gives it back. *)
From Coq Require Import ZifyBool ZifyNat ZifyN.
From SV Require Import Lib.Base C15.Base64.
Local Open Scope N_scope.
Ltac Zify.zify_post_hook ::= Z.div_mod_to_equations.

(* ---------- the alphabet ---------- *)
Definition sextets : list N := map N.of_nat (seq 0 64).

Lemma sextets_all k : k < 64 -> In k sextets.
Proof.
  intro H. unfold sextets. apply in_map_iff. exists (N.to_nat k). split.
  - apply N2Nat.id.
  - apply in_seq. lia.
Qed.

Lemma std_val_sx_l k : k < 64 -> std_val (sx std_alphabet k) = Some k.
Proof.
  intro H.
  assert (A : forallb (fun k => opt_eqb N.eqb (std_val (sx std_alphabet k)) (Some k)) sextets = true)
    by (vm_compute; reflexivity).
  rewrite forallb_forall in A. specialize (A k (sextets_all k H)).
  destruct (std_val (sx std_alphabet k)) as [v|]; cbn in A; [|discriminate].
  apply N.eqb_eq in A. congruence.
Qed.

Lemma std_val_pad : std_val pad = None.
Proof. reflexivity. Qed.

Lemma sx_not_pad k : k < 64 -> (sx std_alphabet k =? pad) = false.
Proof.
  intro H. apply N.eqb_neq. intro E. pose proof (std_val_sx_l k H) as A.
  rewrite E, std_val_pad in A. discriminate.
Qed.

(* ---------- unfolding equations ---------- *)
Lemma enc3 al a b c rest :
  b64_encode al (a :: b :: c :: rest) =
  sx al (a / 4) :: sx al ((a mod 4) * 16 + b / 16) ::
  sx al ((b mod 16) * 4 + c / 64) :: sx al (c mod 64) :: b64_encode al rest.
Proof. reflexivity. Qed.

Lemma dec4 c1 c2 c3 c4 rest :
  b64_decode (c1 :: c2 :: c3 :: c4 :: rest) =
  match std_val c1, std_val c2 with
  | Some v1, Some v2 =>
      if c4 =? pad then
        match rest with
        | [] =>
            if c3 =? pad then Some [v1 * 4 + v2 / 16]
            else match std_val c3 with
                 | Some v3 => Some [v1 * 4 + v2 / 16; (v2 mod 16) * 16 + v3 / 4]
                 | None => None
                 end
        | _ :: _ => None
        end
      else
        match std_val c3, std_val c4, b64_decode rest with
        | Some v3, Some v4, Some tl =>
            Some (v1 * 4 + v2 / 16 :: (v2 mod 16) * 16 + v3 / 4 :: (v3 mod 4) * 64 + v4 :: tl)
        | _, _, _ => None
        end
  | _, _ => None
  end.
Proof. reflexivity. Qed.

(* ---------- one group ---------- *)
Lemma dec_full v1 v2 v3 v4 rest :
  v1 < 64 -> v2 < 64 -> v3 < 64 -> v4 < 64 ->
  b64_decode (sx std_alphabet v1 :: sx std_alphabet v2 :: sx std_alphabet v3 :: sx std_alphabet v4 :: rest) =
  match b64_decode rest with
  | Some tl => Some (v1 * 4 + v2 / 16 :: (v2 mod 16) * 16 + v3 / 4 :: (v3 mod 4) * 64 + v4 :: tl)
  | None => None
  end.
Proof.
  intros H1 H2 H3 H4. rewrite dec4.
  rewrite (std_val_sx_l v1 H1), (std_val_sx_l v2 H2), (std_val_sx_l v3 H3), (std_val_sx_l v4 H4).
  rewrite (sx_not_pad v4 H4). reflexivity.
Qed.

Lemma dec_two v1 v2 v3 :
  v1 < 64 -> v2 < 64 -> v3 < 64 ->
  b64_decode [sx std_alphabet v1; sx std_alphabet v2; sx std_alphabet v3; pad] =
  Some [v1 * 4 + v2 / 16; (v2 mod 16) * 16 + v3 / 4].
Proof.
  intros H1 H2 H3. rewrite dec4.
  rewrite (std_val_sx_l v1 H1), (std_val_sx_l v2 H2), (std_val_sx_l v3 H3).
  rewrite N.eqb_refl, (sx_not_pad v3 H3). reflexivity.
Qed.

Lemma dec_one v1 v2 :
  v1 < 64 -> v2 < 64 ->
  b64_decode [sx std_alphabet v1; sx std_alphabet v2; pad; pad] = Some [v1 * 4 + v2 / 16].
Proof.
  intros H1 H2. rewrite dec4.
  rewrite (std_val_sx_l v1 H1), (std_val_sx_l v2 H2), !N.eqb_refl. reflexivity.
Qed.

(* ---------- the round trip ---------- *)
Lemma byte_ok_lt b : byte_ok b = true -> b < 256.
Proof. unfold byte_ok. lia. Qed.

Lemma roundtrip_len n : forall bs, (length bs <= n)%nat -> bytes_ok bs = true ->
  b64_decode (b64_encode std_alphabet bs) = Some bs.
Proof.
  induction n as [|n IH]; intros bs L OK.
  - destruct bs; [reflexivity | cbn in L; lia].
  - destruct bs as [|a [|b [|c rest]]].
    + reflexivity.
    + cbn in OK. rewrite andb_true_r in OK. apply byte_ok_lt in OK.
      cbn [b64_encode]. rewrite dec_one by lia. f_equal. f_equal. lia.
    + cbn in OK. rewrite andb_true_r in OK. apply andb_true_iff in OK as [A B].
      apply byte_ok_lt in A. apply byte_ok_lt in B.
      cbn [b64_encode]. rewrite dec_two by lia. f_equal. f_equal; [lia|]. f_equal. lia.
    + cbn [bytes_ok forallb] in OK.
      apply andb_true_iff in OK as [A OK]. apply andb_true_iff in OK as [B OK].
      apply andb_true_iff in OK as [C OK].
      apply byte_ok_lt in A. apply byte_ok_lt in B. apply byte_ok_lt in C.
      rewrite enc3, dec_full by lia.
      rewrite IH; [| cbn in L; lia | exact OK].
      f_equal. f_equal; [lia|]. f_equal; [lia|]. f_equal. lia.
Qed.

Lemma b64_roundtrip_l bs : bytes_ok bs = true -> b64_decode (b64_encode std_alphabet bs) = Some bs.
Proof. apply (roundtrip_len (length bs)). lia. Qed.

(* the encoding is made of alphabet characters and '=' only, its length is 4 * ceil(n / 3) *)
Lemma b64_length_l al bs : length (b64_encode al bs) = (4 * ((length bs + 2) / 3))%nat.
Proof.
  assert (G : forall n bs, (length bs <= n)%nat ->
              length (b64_encode al bs) = (4 * ((length bs + 2) / 3))%nat).
  { clear bs. induction n as [|n IH]; intros bs L.
    - destruct bs; [reflexivity | cbn in L; lia].
    - destruct bs as [|a [|b [|c rest]]]; try reflexivity.
      rewrite enc3. cbn [length]. rewrite IH by (cbn in L; lia).
      replace (S (S (S (length rest))) + 2)%nat with (1 * 3 + (length rest + 2))%nat by lia.
      rewrite Nat.div_add_l by lia. lia. }
  apply (G (length bs)). lia.
Qed.

(* a standard decoder rejects what the URL-safe alphabet produces as soon as sextet 62 or 63
   occurs (this was the defect fixed in /repo; kept as the regression witness) *)
Lemma urlsafe_rejected_l : b64_decode (b64_encode urlsafe_alphabet [117; 58; 62; 62; 63]) = None.
Proof. vm_compute. reflexivity. Qed.
