(* C15 - UTF-8: decoding the encoding of ANY string of Unicode scalar values gives it back,
   and the server side of Basic credentials recovers exactly (user, password). *)
From Coq Require Import ZifyBool ZifyNat ZifyN.
From SV Require Import Lib.Base C15.Base64 C15.B64Proofs.
Local Open Scope N_scope.
Ltac Zify.zify_post_hook ::= Z.div_mod_to_equations.

Lemma dec_cons b0 r0 :
  utf8_decode (b0 :: r0) =
  if b0 <? 128 then ocons b0 (utf8_decode r0)
  else if b0 <? 192 then None
  else if b0 <? 224 then
    match r0 with
    | b1 :: r1 =>
        let c := (b0 - 192) * 64 + (b1 - 128) in
        if cont b1 && (128 <=? c) then ocons c (utf8_decode r1) else None
    | _ => None
    end
  else if b0 <? 240 then
    match r0 with
    | b1 :: b2 :: r2 =>
        let c := (b0 - 224) * 4096 + (b1 - 128) * 64 + (b2 - 128) in
        if cont b1 && cont b2 && (2048 <=? c) && scalar c then ocons c (utf8_decode r2) else None
    | _ => None
    end
  else if b0 <? 248 then
    match r0 with
    | b1 :: b2 :: b3 :: r3 =>
        let c := (b0 - 240) * 262144 + (b1 - 128) * 4096 + (b2 - 128) * 64 + (b3 - 128) in
        if cont b1 && cont b2 && cont b3 && (65536 <=? c) && scalar c
        then ocons c (utf8_decode r3) else None
    | _ => None
    end
  else None.
Proof. reflexivity. Qed.

Ltac decide_ifs :=
  repeat match goal with
         | |- context [if ?b then _ else _] =>
             first [ replace b with true by (unfold cont, scalar in *; lia)
                   | replace b with false by (unfold cont, scalar in *; lia) ]
         end.

Lemma utf8_char_dec c r : scalar c = true -> utf8_decode (utf8_char c ++ r) = ocons c (utf8_decode r).
Proof.
  intro S. unfold utf8_char.
  destruct (c <? 128) eqn:E1; [|destruct (c <? 2048) eqn:E2; [|destruct (c <? 65536) eqn:E3]];
    cbn [app]; rewrite dec_cons; cbv zeta.
  - rewrite E1. reflexivity.
  - decide_ifs. f_equal. lia.
  - decide_ifs. f_equal. lia.
  - decide_ifs. f_equal. lia.
Qed.

Lemma utf8_roundtrip_l s : scalars s = true -> utf8_decode (utf8_encode s) = Some s.
Proof.
  induction s as [|c s IH]; intro S; [reflexivity|].
  cbn in S. apply andb_true_iff in S as [Sc Ss].
  unfold utf8_encode. cbn [flat_map]. rewrite utf8_char_dec by exact Sc.
  fold (utf8_encode s). rewrite IH by exact Ss. reflexivity.
Qed.

Lemma utf8_char_bytes c : scalar c = true -> bytes_ok (utf8_char c) = true.
Proof.
  intro S. unfold utf8_char, scalar in *.
  destruct (c <? 128) eqn:E1; [|destruct (c <? 2048) eqn:E2; [|destruct (c <? 65536) eqn:E3]];
    unfold bytes_ok; cbn [forallb]; unfold byte_ok; lia.
Qed.

Lemma bytes_ok_app a b : bytes_ok (a ++ b) = bytes_ok a && bytes_ok b.
Proof. apply forallb_app. Qed.

Lemma utf8_bytes_l s : scalars s = true -> bytes_ok (utf8_encode s) = true.
Proof.
  induction s as [|c s IH]; intro S; [reflexivity|].
  cbn in S. apply andb_true_iff in S as [Sc Ss].
  unfold utf8_encode. cbn [flat_map]. rewrite bytes_ok_app, utf8_char_bytes by exact Sc.
  exact (IH Ss).
Qed.

(* ---------- credentials ---------- *)
Lemma strip_prefix_app p s : strip_prefix p (p ++ s) = Some s.
Proof. induction p as [|x p IH]; [reflexivity|]. cbn. rewrite N.eqb_refl. exact IH. Qed.

Lemma split_colon_app u p : no_colon u = true -> split_colon (cred_string u p) = Some (u, p).
Proof.
  unfold cred_string. induction u as [|c u IH]; intro H.
  - cbn. reflexivity.
  - cbn in H. apply andb_true_iff in H as [Hc Hu]. cbn [app split_colon].
    apply negb_true_iff in Hc. rewrite Hc, (IH Hu). reflexivity.
Qed.

Lemma scalars_app a b : scalars (a ++ b) = scalars a && scalars b.
Proof. apply forallb_app. Qed.

Lemma scalars_cred u p : scalars u = true -> scalars p = true -> scalars (cred_string u p) = true.
Proof.
  intros A B. unfold cred_string. rewrite scalars_app, A. cbn. exact B.
Qed.

Lemma credentials_recoverable_l u p :
  scalars u = true -> scalars p = true -> no_colon u = true ->
  server_recovers (authorization std_alphabet u p) = Some (u, p).
Proof.
  intros A B C. unfold server_recovers, authorization.
  rewrite strip_prefix_app.
  rewrite b64_roundtrip_l by (apply utf8_bytes_l, scalars_cred; assumption).
  rewrite utf8_roundtrip_l by (apply scalars_cred; assumption).
  apply split_colon_app. exact C.
Qed.

(* RFC 7617: a user-id containing ':' cannot be told from the password *)
Lemma colon_in_username_l :
  server_recovers (authorization std_alphabet [97; 58; 98] [99]) = Some ([97], [98; 58; 99]).
Proof. vm_compute. reflexivity. Qed.

(* the fixed defect, as a regression witness: with the URL-safe alphabet a standard server
   does not recover ("u", ">>?") *)
Lemma urlsafe_credentials_lost_l : server_recovers (authorization urlsafe_alphabet [117] [62; 62; 63]) = None.
Proof. vm_compute. reflexivity. Qed.

(* the unguarded statement is false: ("a:b", "c") is a witness *)
Lemma credentials_recoverable_refuted_l :
  exists u p, scalars u = true /\ scalars p = true /\
              server_recovers (authorization std_alphabet u p) <> Some (u, p).
Proof.
  exists [97; 58; 98], [99]. split; [reflexivity|]. split; [reflexivity|].
  rewrite colon_in_username_l. discriminate.
Qed.
