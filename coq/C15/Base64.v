(* C15 - byte-level codecs the HTTP transport relies on.  Definitions only.

   Bytes are N values below 256 (byte_ok); characters are Unicode scalar
   values in N (Lib.Base.str).

   - b64_encode al: RFC 4648 section 4 encoder, parameterised by the 64-entry
     alphabet (the alphabet the implementation really uses is regenerated
     from /repo into Gen/C15Tables.v; the standard one is std_alphabet here);
   - b64_decode: a strict standard-alphabet decoder (what an HTTP server does
     with the credentials of a Basic Authorization header);
   - utf8_encode / utf8_decode: RFC 3629 (str.encode() in addcredentials and
     the server reading the credentials back). *)
From SV Require Import Lib.Base.
Local Open Scope N_scope.

Definition bytes := list N.
Definition byte_ok (b : N) : bool := b <? 256.
Definition bytes_ok (bs : bytes) : bool := forallb byte_ok bs.

(* ------------------------------------------------------------------ *)
(* Base64                                                              *)
(* ------------------------------------------------------------------ *)

Definition pad : N := 61.      (* '=' *)

(* A-Z a-z 0-9 + / *)
Definition std_alphabet : list N :=
  [65; 66; 67; 68; 69; 70; 71; 72; 73; 74; 75; 76; 77; 78; 79; 80; 81; 82; 83; 84; 85; 86; 87; 88;
   89; 90; 97; 98; 99; 100; 101; 102; 103; 104; 105; 106; 107; 108; 109; 110; 111; 112; 113; 114;
   115; 116; 117; 118; 119; 120; 121; 122; 48; 49; 50; 51; 52; 53; 54; 55; 56; 57; 43; 47].

(* the RFC 4648 section 5 "URL and filename safe" alphabet: 62 -> '-', 63 -> '_' *)
Definition urlsafe_alphabet : list N := firstn 62 std_alphabet ++ [45; 95].

(* character of sextet k *)
Definition sx (al : list N) (k : N) : N := nth (N.to_nat k) al pad.

Fixpoint b64_encode (al : list N) (bs : bytes) : list N :=
  match bs with
  | [] => []
  | [a] => [sx al (a / 4); sx al ((a mod 4) * 16); pad; pad]
  | [a; b] => [sx al (a / 4); sx al ((a mod 4) * 16 + b / 16); sx al ((b mod 16) * 4); pad]
  | a :: b :: c :: rest =>
      sx al (a / 4) :: sx al ((a mod 4) * 16 + b / 16) ::
      sx al ((b mod 16) * 4 + c / 64) :: sx al (c mod 64) :: b64_encode al rest
  end.

(* value of a standard-alphabet character *)
Definition std_val (c : N) : option N :=
  if (65 <=? c) && (c <=? 90) then Some (c - 65)
  else if (97 <=? c) && (c <=? 122) then Some (c - 71)
  else if (48 <=? c) && (c <=? 57) then Some (c + 4)
  else if c =? 43 then Some 62
  else if c =? 47 then Some 63
  else None.

(* strict decoder: groups of four standard-alphabet characters, '=' padding
   only in the last group, nothing else tolerated *)
Fixpoint b64_decode (s : list N) : option bytes :=
  match s with
  | [] => Some []
  | c1 :: c2 :: c3 :: c4 :: rest =>
      match std_val c1, std_val c2 with
      | Some v1, Some v2 =>
          if c4 =? pad then
            match rest with
            | [] =>
                if c3 =? pad then Some [v1 * 4 + v2 / 16]
                else match std_val c3 with
                     | Some v3 => Some [v1 * 4 + v2 / 16; (v2 mod 16) * 16 + v3 / 4]
                     | None => None
                     end
            | _ :: _ => None
            end
          else
            match std_val c3, std_val c4, b64_decode rest with
            | Some v3, Some v4, Some tl =>
                Some (v1 * 4 + v2 / 16 :: (v2 mod 16) * 16 + v3 / 4 :: (v3 mod 4) * 64 + v4 :: tl)
            | _, _, _ => None
            end
      | _, _ => None
      end
  | _ => None
  end.

(* ------------------------------------------------------------------ *)
(* UTF-8                                                               *)
(* ------------------------------------------------------------------ *)

(* Unicode scalar value: what a Python str that can be .encode()d holds *)
Definition scalar (c : N) : bool := (c <? 55296) || ((57344 <=? c) && (c <? 1114112)).
Definition scalars (s : str) : bool := forallb scalar s.

Definition utf8_char (c : N) : bytes :=
  if c <? 128 then [c]
  else if c <? 2048 then [192 + c / 64; 128 + c mod 64]
  else if c <? 65536 then [224 + c / 4096; 128 + (c / 64) mod 64; 128 + c mod 64]
  else [240 + c / 262144; 128 + (c / 4096) mod 64; 128 + (c / 64) mod 64; 128 + c mod 64].

Definition utf8_encode (s : str) : bytes := flat_map utf8_char s.

Definition cont (b : N) : bool := (128 <=? b) && (b <? 192).

Definition ocons (c : N) (o : option str) : option str :=
  match o with Some s => Some (c :: s) | None => None end.

(* strict decoder: shortest form only, no surrogates, nothing above U+10FFFF *)
Fixpoint utf8_decode (bs : bytes) : option str :=
  match bs with
  | [] => Some []
  | b0 :: r0 =>
      if b0 <? 128 then ocons b0 (utf8_decode r0)
      else if b0 <? 192 then None
      else if b0 <? 224 then
        match r0 with
        | b1 :: r1 =>
            let c := (b0 - 192) * 64 + (b1 - 128) in
            if cont b1 && (128 <=? c) then ocons c (utf8_decode r1) else None
        | _ => None
        end
      else if b0 <? 240 then
        match r0 with
        | b1 :: b2 :: r2 =>
            let c := (b0 - 224) * 4096 + (b1 - 128) * 64 + (b2 - 128) in
            if cont b1 && cont b2 && (2048 <=? c) && scalar c then ocons c (utf8_decode r2) else None
        | _ => None
        end
      else if b0 <? 248 then
        match r0 with
        | b1 :: b2 :: b3 :: r3 =>
            let c := (b0 - 240) * 262144 + (b1 - 128) * 4096 + (b2 - 128) * 64 + (b3 - 128) in
            if cont b1 && cont b2 && cont b3 && (65536 <=? c) && scalar c
            then ocons c (utf8_decode r3) else None
        | _ => None
        end
      else None
  end.

(* ------------------------------------------------------------------ *)
(* Basic credentials (RFC 7617)                                        *)
(* ------------------------------------------------------------------ *)

Definition basic_prefix : bytes := [66; 97; 115; 105; 99; 32].     (* "Basic " *)

(* http.HttpAuthenticated.addcredentials:
     credentials = ':'.join((username, password))
     'Basic %s' % base64.b64encode(credentials.encode()).decode()          *)
Definition cred_string (user pw : str) : str := user ++ ch_colon :: pw.
Definition authorization (al : list N) (user pw : str) : bytes :=
  basic_prefix ++ b64_encode al (utf8_encode (cred_string user pw)).

(* the server side: strip the scheme, standard base64, UTF-8, split at the
   first colon *)
Fixpoint strip_prefix (p s : list N) : option (list N) :=
  match p, s with
  | [], _ => Some s
  | x :: p', y :: s' => if x =? y then strip_prefix p' s' else None
  | _ :: _, [] => None
  end.

Fixpoint split_colon (s : str) : option (str * str) :=
  match s with
  | [] => None
  | c :: s' =>
      if c =? ch_colon then Some ([], s')
      else match split_colon s' with
           | Some (u, p) => Some (c :: u, p)
           | None => None
           end
  end.

Definition server_recovers (header_value : bytes) : option (str * str) :=
  match strip_prefix basic_prefix header_value with
  | Some b64 =>
      match b64_decode b64 with
      | Some raw =>
          match utf8_decode raw with
          | Some s => split_colon s
          | None => None
          end
      | None => None
      end
  | None => None
  end.

Definition no_colon (s : str) : bool := forallb (fun c => negb (c =? ch_colon)) s.
