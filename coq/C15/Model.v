(* C15 - The HTTP transport delivers exactly the bytes and headers it was given.
   Definitions only: the model of the decision logic of

     suds/client.py            _SoapClient.__headers / send (header assembly)
     suds/transport/http.py    HttpTransport.send / open / u2open, HttpAuthenticated.addcredentials
     suds/transport/https.py   HttpAuthenticated (challenge-response; the retry itself is urllib's)
     suds/transport/__init__.py Request.__set_URL

   followed statement by statement, the executable specification written
   from the property text, and the boolean predicates the harness evaluates
   on what a loopback HTTP server and the caller really observed.

   Message and reply bodies (up to 64 KiB) are interned by the harness:
   a blob is a number, equal numbers <-> equal byte strings.  gzip/zlib are
   oracles: every case carries the harness' own decompression of the bytes
   that crossed the wire.  Sockets, urllib and http.cookiejar are run-time
   behaviour: their part of the model (urllib_outcome, u2_headers, the jar)
   is validated by correspondence only. *)
From SV Require Import Lib.Base C15.Base64 Gen.C15Tables.
Local Open Scope N_scope.

Definition blob := N.
Definition oblob_eqb (a b : option blob) : bool := opt_eqb N.eqb a b.
Definition obytes_eqb (a b : option bytes) : bool := opt_eqb str_eqb a b.

(* ------------------------------------------------------------------ *)
(* constants                                                           *)
(* ------------------------------------------------------------------ *)
Definition n_authorization : str := [65; 117; 116; 104; 111; 114; 105; 122; 97; 116; 105; 111; 110].
Definition n_content_encoding : str := [67; 111; 110; 116; 101; 110; 116; 45; 69; 110; 99; 111; 100; 105; 110; 103].
Definition n_content_type : str := [67; 111; 110; 116; 101; 110; 116; 45; 84; 121; 112; 101].
Definition n_soapaction : str := [83; 79; 65; 80; 65; 99; 116; 105; 111; 110].
Definition v_text_xml_utf8 : bytes :=
  [116; 101; 120; 116; 47; 120; 109; 108; 59; 32; 99; 104; 97; 114; 115; 101; 116; 61; 117; 116; 102; 45; 56].
Definition v_text_xml : bytes := [116; 101; 120; 116; 47; 120; 109; 108].
Definition v_gzip : bytes := [103; 122; 105; 112].
Definition v_deflate : bytes := [100; 101; 102; 108; 97; 116; 101].
Definition v_form : bytes :=      (* application/x-www-form-urlencoded: urllib's default *)
  [97; 112; 112; 108; 105; 99; 97; 116; 105; 111; 110; 47; 120; 45; 119; 119; 119; 45; 102; 111; 114; 109;
   45; 117; 114; 108; 101; 110; 99; 111; 100; 101; 100].
(* lower-case names *)
Definition l_authorization : str := [97; 117; 116; 104; 111; 114; 105; 122; 97; 116; 105; 111; 110].
Definition l_content_encoding : str := [99; 111; 110; 116; 101; 110; 116; 45; 101; 110; 99; 111; 100; 105; 110; 103].
Definition l_content_type : str := [99; 111; 110; 116; 101; 110; 116; 45; 116; 121; 112; 101].
Definition l_soapaction : str := [115; 111; 97; 112; 97; 99; 116; 105; 111; 110].
Definition l_cookie : str := [99; 111; 111; 107; 105; 101].
(* names urllib / http.client add on their own when the caller did not give them *)
Definition stdlib_names : list str :=
  [ [97; 99; 99; 101; 112; 116; 45; 101; 110; 99; 111; 100; 105; 110; 103];      (* accept-encoding *)
    [99; 111; 110; 116; 101; 110; 116; 45; 108; 101; 110; 103; 116; 104];         (* content-length *)
    [104; 111; 115; 116];                                                         (* host *)
    [117; 115; 101; 114; 45; 97; 103; 101; 110; 116];                             (* user-agent *)
    [99; 111; 110; 110; 101; 99; 116; 105; 111; 110] ].                           (* connection *)
Definition ch_slash : N := 47.

(* what the model is parameterised by (regenerated from /repo: impl_params) *)
Record params := mkParams {
  p_al : list N;          (* base64 alphabet of addcredentials *)
  p_prefix : bytes;       (* "Basic " *)
  p_ct_name : str; p_ct_value : bytes; p_sa_name : str   (* _SoapClient.__headers *)
}.
Definition impl_params : params :=
  mkParams impl_alphabet impl_auth_prefix impl_ct_name impl_ct_value impl_sa_name.
Definition std_params : params :=
  mkParams std_alphabet basic_prefix n_content_type v_text_xml_utf8 n_soapaction.

(* ------------------------------------------------------------------ *)
(* Python dict of headers (insertion ordered)                          *)
(* ------------------------------------------------------------------ *)
Definition hdict := list (str * bytes).

Fixpoint dict_set (k : str) (v : bytes) (d : hdict) : hdict :=
  match d with
  | [] => [(k, v)]
  | (k', v') :: d' => if str_eqb k k' then (k', v) :: d' else (k', v') :: dict_set k v d'
  end.

Fixpoint dict_get (k : str) (d : hdict) : option bytes :=
  match d with
  | [] => None
  | (k', v') :: d' => if str_eqb k k' then Some v' else dict_get k d'
  end.

Definition dict_update (d upd : hdict) : hdict :=
  fold_left (fun acc kv => dict_set (fst kv) (snd kv) acc) upd d.

Definition lower_c (c : N) : N := if (65 <=? c) && (c <=? 90) then c + 32 else c.
Definition lower (s : str) : str := map lower_c s.

(* ------------------------------------------------------------------ *)
(* request side                                                        *)
(* ------------------------------------------------------------------ *)

(* _SoapClient.__headers:
     result = {"Content-Type": "text/xml; charset=utf-8", "SOAPAction": action}
     result.update( **self.options.headers )                                 *)
Definition soap_headers (P : params) (action : bytes) (opts : hdict) : hdict :=
  dict_update [(p_ct_name P, p_ct_value P); (p_sa_name P, action)] opts.

Inductive tkind :=
| TPlain        (* suds.transport.http.HttpTransport *)
| TBasicPre     (* suds.transport.http.HttpAuthenticated: preemptive Basic *)
| TChallenge.   (* suds.transport.https.HttpAuthenticated: urllib answers a 401 challenge *)

Definition creds := (option str * option str)%type.

Definition model_authorization (P : params) (u p : str) : bytes :=
  p_prefix P ++ b64_encode (p_al P) (utf8_encode (cred_string u p)).

(* addcredentials: `if None not in credentials:` *)
Definition add_credentials (P : params) (k : tkind) (c : creds) (h : hdict) : hdict :=
  match k, c with
  | TBasicPre, (Some u, Some p) => dict_set n_authorization (model_authorization P u p) h
  | _, _ => h
  end.

(* the value of the LAST entry of a header dict whose name is k once lower-cased *)
Definition last_ci (k : str) (h : hdict) (dflt : option bytes) : option bytes :=
  fold_left (fun acc kv => if str_eqb k (lower (fst kv)) then Some (snd kv) else acc) h dflt.
Definition ci_eqb (a b : bytes) : bool := str_eqb (lower a) (lower b).

(* HttpTransport.send (since a506d72):
     encoding = None
     for name, value in headers.items():
         if name.lower() == 'content-encoding': encoding = value.lower()
     if encoding == 'gzip': msg = gzip.compress(msg)
     elif encoding == 'deflate': msg = zlib.compress(msg)
   (header names are ASCII tokens and values Latin-1, where str.lower() maps onto an ASCII
   letter only from an ASCII letter: comparing with 'gzip' after ASCII lower-casing is the same) *)
Inductive wire := WRaw (b : blob) | WGzip (b : blob) | WDeflate (b : blob).

Definition wire_body (h : hdict) (msg : blob) : wire :=
  match last_ci l_content_encoding h None with
  | Some v => if ci_eqb v v_gzip then WGzip msg
              else if ci_eqb v v_deflate then WDeflate msg else WRaw msg
  | None => WRaw msg
  end.

(* urllib.request.Request(url, msg, headers): for key, value in headers.items():
   self.headers[key.capitalize()] = value.  Names are compared case-insensitively
   on the wire, so the model keeps them in lower case: two keys collide after
   capitalize() exactly when they collide after lower(). *)
Definition u2_headers (h : hdict) : hdict :=
  fold_left (fun acc kv => dict_set (lower (fst kv)) (snd kv) acc) h [].

(* the same dictionary with the keys urllib really uses: str.capitalize() (ASCII names) *)
Definition upper_c (c : N) : N := if (97 <=? c) && (c <=? 122) then c - 32 else c.
Definition capitalize (s : str) : str :=
  match s with [] => [] | c :: r => upper_c c :: lower r end.
Definition u2_cap_headers (h : hdict) : hdict :=
  fold_left (fun acc kv => dict_set (capitalize (fst kv)) (snd kv) acc) h [].

(* send():  request.headers.update(u2request.headers)
   the CALLER's dict receives urllib's capitalised copies (u2request.headers: not the
   "unredirected" ones - Cookie from the jar, Content-Length, Host ... are kept apart by urllib).
   The dict belongs to the caller: a Request object sent again, or a dict shared by several
   Requests, brings it back to the next send in this state. *)
Definition writeback (h : hdict) : hdict := dict_update h (u2_cap_headers h).

(* ------------------------------------------------------------------ *)
(* cookies (http.cookiejar.CookieJar with the default policy, one host) *)
(* ------------------------------------------------------------------ *)
Record cookie := mkCookie { ck_path : str; ck_name : bytes; ck_value : bytes }.
(* Set-Cookie: name=value[; Path=path]  |  Set-Cookie: name=x; Max-Age=0[; Path=path] *)
Inductive cookie_ev :=
| CSet (path : option str) (name value : bytes)
| CExpire (path : option str) (name : bytes).
Definition jar := list cookie.

(* default path of a Netscape cookie: the request path up to, not including, the last '/' *)
Fixpoint drop_last_segment (p : str) : str :=       (* p[:p.rfind("/")] for a path containing '/' *)
  match p with
  | [] => []
  | c :: r => if existsb (N.eqb ch_slash) r then c :: drop_last_segment r else []
  end.
Definition default_path (req_path : str) : str :=
  match drop_last_segment req_path with [] => [ch_slash] | p => p end.
Definition eff_path (o : option str) (req_path : str) : str :=
  match o with Some p => p | None => default_path req_path end.

Definition same_key (p : str) (n : bytes) (c : cookie) : bool :=
  str_eqb p (ck_path c) && str_eqb n (ck_name c).

Fixpoint jar_set (p : str) (n v : bytes) (j : jar) : jar :=
  match j with
  | [] => [mkCookie p n v]
  | c :: j' => if same_key p n c then mkCookie p n v :: j' else c :: jar_set p n v j'
  end.
Definition jar_del (p : str) (n : bytes) (j : jar) : jar :=
  filter (fun c => negb (same_key p n c)) j.

(* an event resolved against the path of the request whose response carried it *)
Definition rev := (bool * str * bytes * bytes)%type.      (* (is_set, path, name, value) *)
Definition resolve (req_path : str) (e : cookie_ev) : rev :=
  match e with
  | CSet o n v => (true, eff_path o req_path, n, v)
  | CExpire o n => (false, eff_path o req_path, n, [])
  end.
Definition jar_apply (j : jar) (e : rev) : jar :=
  let '(is_set, p, n, v) := e in if is_set then jar_set p n v j else jar_del p n j.

Fixpoint is_prefix (a b : str) : bool :=
  match a, b with
  | [], _ => true
  | x :: a', y :: b' => (x =? y) && is_prefix a' b'
  | _ :: _, [] => false
  end.
(* RFC 6265 5.1.4 path-match (http.cookiejar.DefaultCookiePolicy.path_return_ok) *)
Definition path_match (cpath rpath : str) : bool :=
  str_eqb cpath rpath ||
  (is_prefix cpath rpath &&
   ((last cpath 0 =? ch_slash) || (nth (length cpath) rpath 0 =? ch_slash))).

Definition cookies_for (j : jar) (req_path : str) : list (bytes * bytes) :=
  map (fun c => (ck_name c, ck_value c)) (filter (fun c => path_match (ck_path c) req_path) j).

(* ------------------------------------------------------------------ *)
(* response side                                                       *)
(* ------------------------------------------------------------------ *)
Inductive outcome :=                (* what the urllib opener did with the request *)
| OResp (ce : option bytes) (body : blob) (gunzip inflate : option blob)
| OHttpError (code : N) (body : blob)
| OFail (e : N).                    (* any other exception (interned identity) *)

Inductive result :=
| RReply (code : N) (body : blob)
| RNone
| RTransportError (code : N) (body : blob)
| RFail (e : N)                     (* that exception object reached the caller *)
| RDecodeFail                       (* decompressing a labelled reply raised *)
| ROther (n : N).                   (* anything else *)

(* send():  message = fp.read()
            if 'Content-Encoding' in headers:     (HTTPMessage: name case-insensitive)
                encoding = headers['Content-Encoding'].lower()
                if encoding == 'gzip': message = gzip.decompress(message)
                elif encoding == 'deflate': message = zlib.decompress(message)
            reply = Reply(http.client.OK, headers, message)                  *)
Definition decode_reply (ce : option bytes) (body : blob) (gunzip inflate : option blob) : result :=
  match ce with
  | Some v =>
      if ci_eqb v v_gzip then match gunzip with Some p => RReply 200 p | None => RDecodeFail end
      else if ci_eqb v v_deflate then match inflate with Some p => RReply 200 p | None => RDecodeFail end
      else RReply 200 body
  | None => RReply 200 body
  end.

(* send():  except urllib.error.HTTPError as e:
                if e.code not in (http.client.ACCEPTED, http.client.NO_CONTENT):
                    raise TransportError(e.msg, e.code, e.fp)                *)
Definition send_result (o : outcome) : result :=
  match o with
  | OResp ce body gz zl => decode_reply ce body gz zl
  | OHttpError code body => if (code =? 202) || (code =? 204) then RNone else RTransportError code body
  | OFail e => RFail e
  end.

(* open():  return self.u2open(u2request)
            except urllib.error.HTTPError as e: raise TransportError(str(e), e.code, e.fp) *)
Definition open_result (o : outcome) : result :=
  match o with
  | OResp _ body _ _ => RReply 200 body
  | OHttpError code body => RTransportError code body
  | OFail e => RFail e
  end.

(* urllib's HTTPErrorProcessor: 2xx is a response, everything else HTTPError
   (no Location header is ever scripted, so 3xx is not followed) *)
Definition is_2xx (s : N) : bool := (200 <=? s) && (s <? 300).
Definition urllib_outcome (status : N) (ce : option bytes) (body : blob) (gz zl : option blob) : outcome :=
  if is_2xx status then OResp ce body gz zl else OHttpError status body.

(* u2open():  tm = timeout or self.options.timeout     (milliseconds here) *)
Definition choose_timeout (req_timeout : option Z) (opt_timeout : Z) : Z :=
  match req_timeout with
  | Some t => if (t =? 0)%Z then opt_timeout else t
  | None => opt_timeout
  end.

(* Request.__set_URL:  str: url.encode("ascii") ; bytes: url.decode("ascii") *)
Inductive ures := UOk (stored : str) | UUnicodeError | UOtherError.
Definition is_ascii (s : list N) : bool := forallb (fun c => c <? 128) s.
Definition request_url (url : list N) : ures := if is_ascii url then UOk url else UUnicodeError.

(* ------------------------------------------------------------------ *)
(* one exchange through a transport, and sessions                      *)
(* ------------------------------------------------------------------ *)
Record sreq := mkReq {
  q_action : option bytes;   (* Some a: sent by _SoapClient for an operation whose SOAPAction value is a,
                                q_hdrs = options.headers; None: the harness built the Request, q_hdrs = its headers *)
  q_path : str;
  q_hdrs : hdict;
  q_msg : blob;
  q_creds : creds;           (* options.username / options.password at the time of this send *)
  q_reuse : bool }.          (* the headers dict object is the one the previous send of this session used
                                (same Request object sent again, or one dict shared by the Requests):
                                q_hdrs is what the caller once put into it *)
Record sresp := mkResp {      (* what the loopback server is scripted to do *)
  p_challenge : option blob; (* Some b: requests without Authorization get 401 + WWW-Authenticate: Basic, body b *)
  p_status : N;
  p_ce : option bytes;       (* Content-Encoding label of the response *)
  p_body : blob;             (* body on the wire *)
  p_gunzip : option blob;    (* the harness' own gzip / zlib decompression of it *)
  p_inflate : option blob;
  p_cookies : list cookie_ev }.
Record sobs := mkObs {
  o_conns : N;                       (* connections the server accepted during the call *)
  o_hdrs : list (str * bytes);       (* header lines of the last request, as received *)
  o_cookies : list (bytes * bytes);  (* its Cookie header split into pairs *)
  o_body : blob;                     (* its body, as received *)
  o_gunzip : option blob;            (* the harness' own decompressions of it *)
  o_inflate : option blob;
  o_result : result }.               (* what the caller got *)

Record pred := mkPred {
  m_conns : N; m_hdrs : hdict; m_cookies : list (bytes * bytes); m_wire : wire; m_result : result }.

Definition has_key (k : str) (d : hdict) : bool :=
  match dict_get k d with Some _ => true | None => false end.

(* the headers dict a send starts from; prev = the dict as the previous send left it *)
Definition start_headers (P : params) (prev : hdict) (q : sreq) : hdict :=
  match q_action q with
  | Some a => soap_headers P a (q_hdrs q)          (* _SoapClient builds a new dict for every call *)
  | None => if q_reuse q then prev else q_hdrs q
  end.
(* ... and the state send() leaves it in: credentials set, urllib's copies written back *)
Definition headers_after (P : params) (k : tkind) (c : creds) (prev : hdict) (q : sreq) : hdict :=
  writeback (add_credentials P k c (start_headers P prev q)).

(* https.HttpAuthenticated (since 7b69e23) owns ONE password manager, _CurrentCredentials(self),
   a subclass of urllib's HTTPPasswordMgrWithDefaultRealm:
     addcredentials():  if None not in credentials: self.pm.add_password(None, request.url, u, p)
     find_user_password(realm, authuri):
         found = <urllib's lookup>;  if found == (None, None): return found
         credentials = self.transport.credentials()        (username, password configured NOW)
         if None in credentials: return None, None
         return credentials
   urllib: add_password stores under the reduced URI (here: the path; one host, no query) in a
   dict - the same path is overwritten in place, a new one appended; its lookup finds the FIRST
   entry, in insertion order, that is the request path or a path prefix of it.  So the manager's
   state is the set of URLs registered while credentials were set; what it stores with them is
   never handed out - the answer is the transport's current pair.
   (Before 2ac69bb the stored pair of the first matching entry was handed out: pm_find alone,
   kept with pm_after_accumulating as the regression witness.) *)
Definition pmgr := list (str * (str * str)).
Fixpoint pm_add (path u p : str) (pm : pmgr) : pmgr :=
  match pm with
  | [] => [(path, (u, p))]
  | (path', up) :: r => if str_eqb path path' then (path', (u, p)) :: r else (path', up) :: pm_add path u p r
  end.
(* HTTPPasswordMgr.is_suburi *)
Definition is_suburi (base test : str) : bool :=
  str_eqb base test ||
  is_prefix (if last base 0 =? ch_slash then base else base ++ [ch_slash]) test.
Fixpoint pm_find (path : str) (pm : pmgr) : option (str * str) :=
  match pm with
  | [] => None
  | (base, up) :: r => if is_suburi base path then Some up else pm_find path r
  end.
(* addcredentials: the request URL is registered when both credentials are set *)
Definition pm_after (k : tkind) (c : creds) (pm : pmgr) (q : sreq) : pmgr :=
  match k, c with
  | TChallenge, (Some u, Some p) => pm_add (q_path q) u p pm
  | _, _ => pm
  end.
(* _CurrentCredentials.find_user_password; c_now = the transport's credentials at lookup time *)
Definition pm_lookup (pm : pmgr) (path : str) (c_now : creds) : option (str * str) :=
  match pm_find path pm with
  | None => None
  | Some _ => match c_now with (Some u, Some p) => Some (u, p) | _ => None end
  end.
(* the manager before 2ac69bb *)
Definition pm_after_accumulating (k : tkind) (c : creds) (pm : pmgr) (q : sreq) : pmgr :=
  match k, c with
  | TChallenge, (Some u, Some p) => pm_add (q_path q) u p pm
  | _, _ => pm
  end.

Definition model_step (P : params) (k : tkind) (c : creds) (j : jar) (prev : hdict) (pm : pmgr)
                      (q : sreq) (p : sresp) : pred * jar :=
  let h0 := start_headers P prev q in
  let h1 := add_credentials P k c h0 in
  let w := wire_body h1 (q_msg q) in
  let u2 := u2_headers h1 in
  let cks := cookies_for j (q_path q) in
  let answered (conns : N) (hd : hdict) :=
    let out := urllib_outcome (p_status p) (p_ce p) (p_body p) (p_gunzip p) (p_inflate p) in
    let j' := match out with
              | OResp _ _ _ _ => fold_left jar_apply (map (resolve (q_path q)) (p_cookies p)) j
              | _ => j      (* getcookies() is only reached when u2open returned *)
              end in
    (mkPred conns hd cks w (send_result out), j') in
  match p_challenge p with
  | None => answered 1 u2
  | Some cb =>
      if has_key l_authorization u2 then answered 1 u2
      else match k, pm_lookup (pm_after k c pm q) (q_path q) c with
           | TChallenge, Some (u, pw) =>
               (* urllib.request.HTTPBasicAuthHandler repeats the request with
                  "Basic " + b64encode("%s:%s" % (user, pw)) (standard alphabet), user and pw
                  being what the password manager answers for the URL; in a (sequential) send
                  the lookup sees the credentials addcredentials saw a moment before *)
               answered 2 (dict_set l_authorization (authorization std_alphabet u pw) u2)
           | _, _ => (mkPred 1 u2 cks w (RTransportError 401 cb), j)
           end
  end.

(* ---------- comparing the model with what was observed ---------- *)
Definition result_eqb (a b : result) : bool :=
  match a, b with
  | RReply c x, RReply d y => (c =? d) && (x =? y)
  | RNone, RNone => true
  | RTransportError c x, RTransportError d y => (c =? d) && (x =? y)
  | RFail x, RFail y => x =? y
  | RDecodeFail, RDecodeFail => true
  | ROther x, ROther y => x =? y
  | _, _ => false
  end.

Definition wire_matches (w : wire) (o : sobs) : bool :=
  match w with
  | WRaw b => o_body o =? b
  | WGzip b => oblob_eqb (o_gunzip o) (Some b)
  | WDeflate b => oblob_eqb (o_inflate o) (Some b)
  end.

Definition mem_str (s : str) (l : list str) : bool := existsb (str_eqb s) l.
Definition pair_eqb (a b : bytes * bytes) : bool := str_eqb (fst a) (fst b) && str_eqb (snd a) (snd b).
Definition mem_pair (x : bytes * bytes) (l : list (bytes * bytes)) : bool := existsb (pair_eqb x) l.
Definition same_pairs (a b : list (bytes * bytes)) : bool :=
  Nat.eqb (length a) (length b) && forallb (fun x => mem_pair x b) a && forallb (fun x => mem_pair x a) b.

Definition lower_names (h : list (str * bytes)) : list (str * bytes) :=
  map (fun kv => (lower (fst kv), snd kv)) h.

(* the header lines a request built from model headers hd shows on the wire:
   hd itself, urllib's default Content-Type when hd has none, and the names
   urllib / http.client supply when hd does not; Cookie is compared apart *)
Definition headers_agree (hd : hdict) (obs : list (str * bytes)) : bool :=
  let obs := filter (fun kv => negb (str_eqb (fst kv) l_cookie)) (lower_names obs) in
  let hd := if has_key l_content_type hd then hd else hd ++ [(l_content_type, v_form)] in
  forallb (fun kv => mem_pair kv obs) hd &&
  forallb (fun kv => mem_pair kv hd || (mem_str (fst kv) stdlib_names && negb (has_key (fst kv) hd))) obs &&
  Nat.eqb (length (filter (fun kv => has_key (fst kv) hd) obs)) (length hd).

Definition step_agrees (m : pred) (o : sobs) : bool :=
  (o_conns o =? m_conns m) && headers_agree (m_hdrs m) (o_hdrs o) &&
  same_pairs (m_cookies m) (o_cookies o) && wire_matches (m_wire m) o &&
  result_eqb (m_result m) (o_result o).

Definition step := (sreq * sresp * sobs)%type.

Fixpoint session_agrees (P : params) (k : tkind) (j : jar) (prev : hdict) (pm : pmgr) (steps : list step) : bool :=
  match steps with
  | [] => true
  | (q, p, o) :: rest =>
      let c := q_creds q in
      let '(m, j') := model_step P k c j prev pm q p in
      step_agrees m o && session_agrees P k j' (headers_after P k c prev q) (pm_after k c pm q) rest
  end.

(* a session: one transport object, then the sends in order (each with the credentials
   configured at that time) *)
Definition xcase := (tkind * list step)%type.
Definition x_agrees (x : xcase) : bool :=
  let '(k, steps) := x in session_agrees impl_params k [] [] [] steps.

(* ------------------------------------------------------------------ *)
(* specification, from the property text                               *)
(* ------------------------------------------------------------------ *)
(* header lines as an HTTP server reads them: names case-insensitive *)
Definition hdr_all (name_lc : str) (h : list (str * bytes)) : list bytes :=
  map snd (filter (fun kv => str_eqb (lower (fst kv)) name_lc) h).
Definition hdr_one (name_lc : str) (h : list (str * bytes)) : option bytes :=
  match hdr_all name_lc h with [v] => Some v | _ => None end.
(* content codings are case-insensitive (RFC 9110 8.4.1) *)
Definition decoded_by_label (ce : option bytes) (raw : blob) (gunzip inflate : option blob) : option blob :=
  match ce with
  | Some v => if ci_eqb v v_gzip then gunzip else if ci_eqb v v_deflate then inflate else Some raw
  | None => Some raw
  end.

(* "the server receives the envelope bytes unchanged (or, when a Content-Encoding of
   gzip or deflate was requested, a body that decompresses to them)": judged the way
   the server does, by the Content-Encoding line it received *)
Definition spec_body (q : sreq) (o : sobs) : bool :=
  match hdr_all l_content_encoding (o_hdrs o) with
  | [] => o_body o =? q_msg q
  | [v] => oblob_eqb (decoded_by_label (Some v) (o_body o) (o_gunzip o) (o_inflate o)) (Some (q_msg q))
  | _ => false
  end.

(* credentials are due: at once for the preemptive transport, after the server's challenge
   for the challenge-response transport *)
Definition creds_due (k : tkind) (c : creds) (p : sresp) : bool :=
  match c with
  | (Some _, Some _) =>
      match k with
      | TBasicPre => true
      | TChallenge => match p_challenge p with Some _ => true | None => false end
      | TPlain => false
      end
  | _ => false
  end.

(* "with the caller's headers": every name the caller gave arrives exactly once, with a value
   the caller gave for that name (names are case-insensitive).  A caller who both configures
   credentials and spells out an Authorization header asks for two different things under one
   name; the credentials clause of the property decides, so that name is left to spec_credentials *)
Definition spec_caller_headers (k : tkind) (c : creds) (p : sresp) (q : sreq) (o : sobs) : bool :=
  forallb (fun kv =>
    (creds_due k c p && str_eqb (lower (fst kv)) l_authorization) ||
    match hdr_one (lower (fst kv)) (o_hdrs o) with
    | Some v => existsb (str_eqb v) (hdr_all (lower (fst kv)) (q_hdrs q))
    | None => false
    end) (q_hdrs q).

(* "Content-Type, SOAPAction": for requests sent by _SoapClient, unless the caller's
   own headers name them *)
Definition spec_soap_headers (q : sreq) (o : sobs) : bool :=
  match q_action q with
  | None => true
  | Some a =>
      (match hdr_all l_content_type (q_hdrs q) with
       | [] => match hdr_one l_content_type (o_hdrs o) with
               | Some v => is_prefix v_text_xml (lower v)
               | None => false
               end
       | _ => true
       end) &&
      (match hdr_all l_soapaction (q_hdrs q) with
       | [] => obytes_eqb (hdr_one l_soapaction (o_hdrs o)) (Some a)
       | _ => true
       end)
  end.

(* "any cookies earlier responses set for that host": a cookie (path, name) is live
   when the last event about it was a Set; it accompanies a request whose path it
   path-matches *)
Definition rev_key_eqb (a b : rev) : bool :=
  let '(_, p, n, _) := a in let '(_, p', n', _) := b in str_eqb p p' && str_eqb n n'.
Fixpoint live_from_latest (latest_first : list rev) (seen : list rev) : list cookie :=
  match latest_first with
  | [] => []
  | e :: r =>
      if existsb (rev_key_eqb e) seen then live_from_latest r seen
      else
        let '(is_set, p, n, v) := e in
        (if is_set then [mkCookie p n v] else []) ++ live_from_latest r (e :: seen)
  end.
Definition spec_live (history : list rev) : list cookie := live_from_latest (List.rev history) [].
Definition spec_cookies (history : list rev) (q : sreq) (o : sobs) : bool :=
  same_pairs (cookies_for (spec_live history) (q_path q)) (o_cookies o).

(* "when credentials are configured - an Authorization header from which the server
   recovers exactly the username and password": at once for the preemptive transport,
   after the server's challenge for the challenge-response transport *)
Definition spec_credentials (k : tkind) (c : creds) (p : sresp) (q : sreq) (o : sobs) : bool :=
  match c with
  | (Some u, Some pw) =>
      if creds_due k c p then
        match hdr_one l_authorization (o_hdrs o) with
        | Some v => match server_recovers v with
                    | Some (u', pw') => str_eqb u u' && str_eqb pw pw'
                    | None => false
                    end
        | None => false
        end
      else true
  | _ =>
      (* no (complete) credentials are configured now - also after they were configured, used and
         reset: nothing is offered; an Authorization line can only be the caller's own header *)
      forallb (fun v => existsb (str_eqb v) (hdr_all l_authorization (q_hdrs q)))
              (hdr_all l_authorization (o_hdrs o))
  end.

(* "The caller receives the response body unchanged (decompressed when the server
   labelled it compressed); HTTP error statuses surface as TransportError carrying
   the status code and body" *)
Definition spec_result (p : sresp) (o : sobs) : bool :=
  let challenged := match p_challenge p, hdr_all l_authorization (o_hdrs o) with
                    | Some cb, [] => Some cb | _, _ => None end in
  match challenged with
  | Some cb => result_eqb (o_result o) (RTransportError 401 cb)
  | None =>
      let s := p_status p in
      if is_2xx s then
        match decoded_by_label (p_ce p) (p_body p) (p_gunzip p) (p_inflate p) with
        | Some plain => match o_result o with RReply _ b => b =? plain | _ => false end
        | None => true          (* the server mislabelled its own body: nothing is promised *)
        end
      else if 400 <=? s then
        (* the body as sent, or decompressed when labelled *)
        match o_result o with
        | RTransportError c b =>
            (c =? s) && ((b =? p_body p) ||
                         oblob_eqb (decoded_by_label (p_ce p) (p_body p) (p_gunzip p) (p_inflate p)) (Some b))
        | _ => false
        end
      else
        (* 3xx without Location: not an error status; an error carrying it or the body are both fine *)
        match o_result o with
        | RTransportError c b => (c =? s) && (b =? p_body p)
        | RReply _ b => b =? p_body p
        | _ => false
        end
  end.

Definition spec_step (k : tkind) (c : creds) (history : list rev) (q : sreq) (p : sresp) (o : sobs) : bool :=
  spec_body q o && spec_caller_headers k c p q o && spec_soap_headers q o &&
  spec_cookies history q o && spec_credentials k c p q o && spec_result p o.

(* the response of a step that was challenged and not retried is the 401, which set no cookies *)
Definition response_events (q : sreq) (p : sresp) (o : sobs) : list rev :=
  match p_challenge p, hdr_all l_authorization (o_hdrs o) with
  | Some _, [] => []
  | _, _ => map (resolve (q_path q)) (p_cookies p)
  end.

Fixpoint session_spec (k : tkind) (history : list rev) (steps : list step) : bool :=
  match steps with
  | [] => true
  | (q, p, o) :: rest =>
      (* "when credentials are configured": those configured at the time of THIS request *)
      spec_step k (q_creds q) history q p o && session_spec k (history ++ response_events q p o) rest
  end.

Definition x_spec_ok (x : xcase) : bool :=
  let '(k, steps) := x in session_spec k [] steps.

(* ------------------------------------------------------------------ *)
(* small case families                                                 *)
(* ------------------------------------------------------------------ *)
(* credentials alone: (user, password, header value addcredentials produced or None) *)
Definition ccase := (str * str * option bytes)%type.
Definition cred_agrees (c : ccase) : bool :=
  let '(u, p, h) := c in obytes_eqb h (Some (model_authorization impl_params u p)).
Definition cred_spec_ok (c : ccase) : bool :=
  let '(u, p, h) := c in
  match h with
  | Some v => match server_recovers v with
              | Some (u', p') => str_eqb u u' && str_eqb p p'
              | None => false
              end
  | None => false
  end.

(* opener outcomes (injected HTTPError objects, and real socket faults) *)
Inductive meth := MSend | MOpen.
Definition ecase := (meth * outcome * result)%type.
Definition model_result (m : meth) (o : outcome) : result :=
  match m with MSend => send_result o | MOpen => open_result o end.
Definition err_agrees (c : ecase) : bool :=
  let '(m, o, r) := c in result_eqb (model_result m o) r.
Definition err_spec_ok (c : ecase) : bool :=
  let '(m, o, r) := c in
  match o with
  | OHttpError code body =>
      if match m with MSend => (code =? 202) || (code =? 204) | MOpen => false end
      then match r with RNone | RReply _ _ => true | _ => false end
      else result_eqb r (RTransportError code body)
  | OFail e => result_eqb r (RFail e)          (* non-HTTP failures propagate unchanged *)
  | OResp ce body gz zl =>
      match m with
      | MSend => match decoded_by_label ce body gz zl with
                 | Some plain => match r with RReply _ b => b =? plain | _ => false end
                 | None => true
                 end
      | MOpen => match r with RReply _ b => b =? body | _ => false end
      end
  end.

(* URLs: (url characters or bytes, a full send towards the live server was attempted,
          what Request(url) did, connections the server saw) *)
Definition ucase := (list N * bool * ures * N)%type.
Definition ures_eqb (a b : ures) : bool :=
  match a, b with
  | UOk x, UOk y => str_eqb x y
  | UUnicodeError, UUnicodeError => true
  | UOtherError, UOtherError => true
  | _, _ => false
  end.
Definition url_agrees (c : ucase) : bool :=
  let '(url, attempted, r, io) := c in
  ures_eqb (request_url url) r &&
  match request_url url with UOk _ => if attempted then 1 <=? io else io =? 0 | _ => io =? 0 end.
Definition url_spec_ok (c : ucase) : bool :=
  let '(url, attempted, r, io) := c in
  if is_ascii url then ures_eqb r (UOk url)
  else ures_eqb r UUnicodeError && (io =? 0).      (* rejected before any I/O *)

(* timeouts: (send/open, request.timeout, options.timeout, timeout given to urllib), in ms *)
Definition tcase := (meth * option Z * Z * Z)%type.
Definition model_timeout (m : meth) (rt : option Z) (ot : Z) : Z :=
  match m with MSend => choose_timeout rt ot | MOpen => ot end.
Definition tmo_agrees (c : tcase) : bool :=
  let '(m, rt, ot, used) := c in (model_timeout m rt ot =? used)%Z.
Definition tmo_spec_ok (c : tcase) : bool :=
  let '(m, rt, ot, used) := c in
  match m, rt with
  | MSend, Some t => if (0 <? t)%Z then (used =? t)%Z else true
  | _, _ => (used =? ot)%Z
  end.

(* the parts of the session specification one by one (the harness uses them to name
   the finding class of a failing session) *)
Definition spec_part (n : N) (k : tkind) (c : creds) (history : list rev)
                     (q : sreq) (p : sresp) (o : sobs) : bool :=
  match n with
  | 0 => spec_body q o
  | 1 => spec_caller_headers k c p q o && spec_soap_headers q o
  | 2 => spec_cookies history q o
  | 3 => spec_credentials k c p q o
  | _ => spec_result p o
  end.
Fixpoint session_part (n : N) (k : tkind) (history : list rev) (steps : list step) : bool :=
  match steps with
  | [] => true
  | (q, p, o) :: rest =>
      spec_part n k (q_creds q) history q p o && session_part n k (history ++ response_events q p o) rest
  end.
Definition x_part_ok (n : N) (x : xcase) : bool :=
  let '(k, steps) := x in session_part n k [] steps.

(* the model of a whole call as far as I/O is concerned: the Request is constructed first
   (suds.transport.Request(location, ...) in _SoapClient.send, or by the caller of the transport);
   connections are opened only by the exchange that follows a successful construction *)
Definition model_url_io (url : list N) (attempted : bool) : ures * N :=
  match request_url url with
  | UOk u => (UOk u, if attempted then 1 else 0)      (* at least one connection *)
  | e => (e, 0)
  end.
