(* C15 - The HTTP transport delivers exactly the bytes and headers it was given.
   Property theorems only (proved in the *Proofs files). *)
From SV Require Import Lib.Base C15.Base64 C15.Model Gen.C15Tables.

(* the alphabet, scheme prefix and default SOAP headers regenerated from /repo by calling the
   code are the documented ones: every theorem about std_params is about the implementation *)
Theorem repo_tables_are_the_standard_ones : impl_params = std_params.
Proof. reflexivity. Qed.
Print Assumptions repo_tables_are_the_standard_ones.
