(* C15 - The HTTP transport delivers exactly the bytes and headers it was given.
   Property theorems only: each is closed by `exact` of a lemma proved in the *Proofs files
   and followed by Print Assumptions.

   Partial: sockets, urllib, http.client and http.cookiejar are run-time behaviour; the model
   states what they do (urllib_outcome, u2_headers, the jar) and the loopback correspondence of
   harness/c15.py checks it; the theorems below are about suds' own decision logic. *)
From SV Require Import Lib.Base C15.Base64 C15.Model Gen.C15Tables.
From SV Require Import C15.B64Proofs C15.Utf8Proofs C15.PipeProofs C15.TablesProofs.

(* ------------------------------------------------------------------ *)
(* the tables regenerated from /repo                                   *)
(* ------------------------------------------------------------------ *)
(* the base64 alphabet addcredentials uses (read off by calling it on the 64 single-sextet
   credentials), the scheme prefix and _SoapClient's default headers are the standard ones.
   A regression to the URL-safe alphabet (the defect fixed in abd7d42) breaks this theorem. *)
Theorem repo_tables_are_the_standard_ones : impl_params = std_params.
Proof. exact impl_is_std_l. Qed.
Print Assumptions repo_tables_are_the_standard_ones.

(* ------------------------------------------------------------------ *)
(* codecs: for ALL byte lists / ALL strings of scalar values            *)
(* ------------------------------------------------------------------ *)
Theorem b64_roundtrip : forall bs, bytes_ok bs = true -> b64_decode (b64_encode std_alphabet bs) = Some bs.
Proof. exact b64_roundtrip_l. Qed.
Print Assumptions b64_roundtrip.

Theorem b64_length : forall al bs, length (b64_encode al bs) = (4 * ((length bs + 2) / 3))%nat.
Proof. exact b64_length_l. Qed.
Print Assumptions b64_length.

Theorem utf8_roundtrip : forall s, scalars s = true -> utf8_decode (utf8_encode s) = Some s.
Proof. exact utf8_roundtrip_l. Qed.
Print Assumptions utf8_roundtrip.

Example codecs_nonvacuous :
  bytes_ok [0; 255; 62; 63]%N = true /\ scalars [233; 8364; 128512; 1114111]%N = true /\
  b64_encode std_alphabet [117; 58; 62; 62; 63]%N = [100; 84; 111; 43; 80; 106; 56; 61]%N.   (* "u:>>?" -> "dTo+Pj8=" *)
Proof. repeat split; reflexivity. Qed.

(* ------------------------------------------------------------------ *)
(* credentials                                                         *)
(* ------------------------------------------------------------------ *)
(* "the server recovers exactly the username and password" for ALL strings is false of the
   faithful model (and of the Basic scheme, RFC 7617): a username containing ':' is split at its
   first colon - credentials_recoverable_refuted, reported by the harness as the known finding
   C15:colon-in-username.  Guarded form: every username without ':' and every password over
   Unicode scalar values is recovered exactly by a server doing standard base64 + UTF-8 + split
   at the first colon, from the header value the implementation's alphabet produces *)
Theorem credentials_recoverable_partial : forall u p,
  scalars u = true -> scalars p = true -> no_colon u = true ->
  server_recovers (model_authorization impl_params u p) = Some (u, p).
Proof. exact credentials_recoverable_impl_l. Qed.
Print Assumptions credentials_recoverable_partial.

Theorem credentials_recoverable_refuted :
  exists u p, scalars u = true /\ scalars p = true /\
              server_recovers (model_authorization impl_params u p) <> Some (u, p).
Proof. exact credentials_recoverable_refuted_impl_l. Qed.
Print Assumptions credentials_recoverable_refuted.

(* ... and that value is what the server finds under Authorization (any spelling) when the
   preemptive transport sends a request whose own headers do not name it *)
Theorem preemptive_credentials_on_the_wire : forall u p h,
  scalars u = true -> scalars p = true -> no_colon u = true -> no_ci l_authorization h = true ->
  exists v, dict_get l_authorization (u2_headers (add_credentials impl_params TBasicPre (Some u, Some p) h)) = Some v
            /\ server_recovers v = Some (u, p).
Proof. exact preemptive_credentials_impl_l. Qed.
Print Assumptions preemptive_credentials_on_the_wire.

(* no Authorization is invented: other transports, or a missing username/password, leave the headers alone *)
Theorem no_credentials_no_header : forall P k c h,
  (k = TPlain \/ k = TChallenge \/ fst c = None \/ snd c = None) -> add_credentials P k c h = h.
Proof. exact no_credentials_no_header_l. Qed.
Print Assumptions no_credentials_no_header.

(* the regression witness of the defect fixed in abd7d42 *)
Theorem urlsafe_alphabet_refuted :
  server_recovers (authorization urlsafe_alphabet [117]%N [62; 62; 63]%N) = None.
Proof. exact urlsafe_credentials_lost_l. Qed.
Print Assumptions urlsafe_alphabet_refuted.

Example credentials_nonvacuous :
  scalars [117; 233]%N = true /\ no_colon [117; 233]%N = true /\
  server_recovers (model_authorization impl_params [117; 233]%N [58; 62; 63; 128512]%N)
  = Some ([117; 233]%N, [58; 62; 63; 128512]%N).
Proof. repeat split; reflexivity. Qed.

(* ------------------------------------------------------------------ *)
(* request: body and headers                                           *)
(* ------------------------------------------------------------------ *)
(* (since a506d72) for EVERY header dict and message - the name spelled in any case, several
   spellings at once, the coding in any case - a server decoding by the Content-Encoding label
   it RECEIVES (case-insensitively; ideal codecs) gets the envelope back: no guard is left *)
Theorem body_fidelity : forall h msg,
  server_decodes (dict_get l_content_encoding (u2_headers h)) (wire_body h msg) = Some msg.
Proof. exact body_fidelity_l. Qed.
Print Assumptions body_fidelity.

(* ... through any transport class, with or without credentials *)
Theorem body_fidelity_on_the_wire : forall P kind c h msg,
  let h1 := add_credentials P kind c h in
  server_decodes (dict_get l_content_encoding (u2_headers h1)) (wire_body h1 msg) = Some msg.
Proof. exact body_fidelity_on_the_wire_l. Qed.
Print Assumptions body_fidelity_on_the_wire.

Theorem credentials_keep_encoding : forall P k c h msg,
  wire_body (add_credentials P k c h) msg = wire_body h msg.
Proof. exact credentials_keep_body_l. Qed.
Print Assumptions credentials_keep_encoding.

(* the switch: compressed exactly when the LAST spelling of the header says gzip / deflate in
   any case; every other label (x-gzip, br, identity ...) and no label leave the bytes alone *)
Theorem compression_switch : forall h msg,
  (forall v, last_ci l_content_encoding h None = Some v -> ci_eqb v v_gzip = true ->
             wire_body h msg = WGzip msg) /\
  (forall v, last_ci l_content_encoding h None = Some v -> ci_eqb v v_gzip = false ->
             ci_eqb v v_deflate = true -> wire_body h msg = WDeflate msg) /\
  (forall v, last_ci l_content_encoding h None = Some v -> ci_eqb v v_gzip = false ->
             ci_eqb v v_deflate = false -> wire_body h msg = WRaw msg) /\
  (last_ci l_content_encoding h None = None -> wire_body h msg = WRaw msg).
Proof. exact compression_switch_l. Qed.
Print Assumptions compression_switch.

Theorem body_unlabelled_on_the_wire : forall P kind c h msg,
  no_ci l_content_encoding h = true ->
  let h1 := add_credentials P kind c h in
  dict_get l_content_encoding (u2_headers h1) = None /\ wire_body h1 msg = WRaw msg.
Proof. exact body_unlabelled_on_the_wire_l. Qed.
Print Assumptions body_unlabelled_on_the_wire.

Example content_encoding_any_spelling :
  let h := [(n_content_encoding, [105; 100]%N);                       (* "Content-Encoding": "id" *)
            (l_content_encoding, [71; 90; 73; 80]%N)] in              (* "content-encoding": "GZIP" *)
  wire_body h 7%N = WGzip 7%N /\
  dict_get l_content_encoding (u2_headers h) = Some [71; 90; 73; 80]%N /\
  wire_body [(n_content_encoding, [120; 45; 103; 122; 105; 112]%N)] 7%N = WRaw 7%N.   (* "x-gzip" *)
Proof. repeat split; reflexivity. Qed.

(* Content-Type and SOAPAction arrive as _SoapClient set them unless the caller names them *)
Theorem soap_defaults_delivered : forall action opts,
  (no_ci l_content_type opts = true ->
     dict_get l_content_type (u2_headers (soap_headers impl_params action opts)) = Some v_text_xml_utf8) /\
  (no_ci l_soapaction opts = true ->
     dict_get l_soapaction (u2_headers (soap_headers impl_params action opts)) = Some action).
Proof. exact soap_defaults_impl_l. Qed.
Print Assumptions soap_defaults_delivered.

(* every caller header whose name is unique in the caller's map (case-insensitively) arrives
   with exactly its value, wherever it stands in a map of any size *)
Theorem caller_header_delivered : forall action pre post k1 v1,
  no_ci (lower k1) pre = true -> no_ci (lower k1) post = true ->
  str_eqb (lower k1) l_content_type = false -> str_eqb (lower k1) l_soapaction = false ->
  dict_get (lower k1) (u2_headers (soap_headers impl_params action (pre ++ (k1, v1) :: post))) = Some v1.
Proof. exact caller_header_impl_l. Qed.
Print Assumptions caller_header_delivered.

(* for ANY caller map (spellings colliding or not): whatever the server finds under a name is
   a value the caller gave for that name, or the default of Content-Type / SOAPAction *)
Theorem header_values_from_caller : forall action opts k v,
  dict_get k (u2_headers (soap_headers impl_params action opts)) = Some v ->
  (exists k', In (k', v) opts /\ str_eqb k (lower k') = true) \/
  (k = l_content_type /\ v = v_text_xml_utf8) \/ (k = l_soapaction /\ v = action).
Proof. exact header_values_from_caller_impl_l. Qed.
Print Assumptions header_values_from_caller.

Theorem request_header_delivered : forall P kind c pre post k1 v1,
  no_ci (lower k1) pre = true -> no_ci (lower k1) post = true ->
  str_eqb (lower k1) l_authorization = false ->
  dict_get (lower k1) (u2_headers (add_credentials P kind c (pre ++ (k1, v1) :: post))) = Some v1.
Proof. exact request_header_delivered_l. Qed.
Print Assumptions request_header_delivered.

Example headers_nonvacuous :
  dict_get [120; 45; 97]%N                                       (* "x-a" *)
    (u2_headers (soap_headers impl_params [34; 34]%N [([88; 45; 65]%N, [49]%N)])) = Some [49]%N.
Proof. reflexivity. Qed.

(* ------------------------------------------------------------------ *)
(* reply, errors, failures                                             *)
(* ------------------------------------------------------------------ *)
Theorem reply_fidelity : forall ce body gz zl,
  (ce = None -> decode_reply ce body gz zl = RReply 200 body) /\
  (forall v p, ce = Some v -> ci_eqb v v_gzip = true -> gz = Some p ->
               decode_reply ce body gz zl = RReply 200 p) /\
  (forall v p, ce = Some v -> ci_eqb v v_gzip = false -> ci_eqb v v_deflate = true -> zl = Some p ->
               decode_reply ce body gz zl = RReply 200 p) /\
  (forall v, ce = Some v -> ci_eqb v v_gzip = false -> ci_eqb v v_deflate = false ->
             decode_reply ce body gz zl = RReply 200 body).
Proof. exact reply_fidelity_l. Qed.
Print Assumptions reply_fidelity.

(* in one line: whenever reading the reply by its label (any case of gzip / deflate) succeeds,
   that is the body the caller gets *)
Theorem reply_matches_label : forall ce body gz zl p,
  decoded_by_label ce body gz zl = Some p -> decode_reply ce body gz zl = RReply 200 p.
Proof. exact reply_matches_label_l. Qed.
Print Assumptions reply_matches_label.

Example reply_label_any_case :
  decode_reply (Some [71; 90; 105; 112]%N) 1%N (Some 2%N) None = RReply 200 2%N /\       (* "GZip" *)
  decode_reply (Some [120; 45; 103; 122; 105; 112]%N) 1%N (Some 2%N) None = RReply 200 1%N. (* "x-gzip" *)
Proof. split; reflexivity. Qed.

(* HTTPError -> TransportError carrying code and body, except 202/204 through send() *)
Theorem error_mapping : forall code body,
  (code <> 202%N -> code <> 204%N -> send_result (OHttpError code body) = RTransportError code body) /\
  open_result (OHttpError code body) = RTransportError code body.
Proof. exact error_mapping_l. Qed.
Print Assumptions error_mapping.

(* composed with urllib's 2xx / HTTPError split: every status outside 200..299 *)
Theorem status_mapping : forall status ce body gz zl,
  (is_2xx status = true ->
     send_result (urllib_outcome status ce body gz zl) = decode_reply ce body gz zl) /\
  (is_2xx status = false ->
     send_result (urllib_outcome status ce body gz zl) = RTransportError status body /\
     open_result (urllib_outcome status ce body gz zl) = RTransportError status body).
Proof. exact status_mapping_l. Qed.
Print Assumptions status_mapping.

Theorem failures_propagate : forall e, send_result (OFail e) = RFail e /\ open_result (OFail e) = RFail e.
Proof. exact failures_propagate_l. Qed.
Print Assumptions failures_propagate.

(* ------------------------------------------------------------------ *)
(* URL and timeout                                                     *)
(* ------------------------------------------------------------------ *)
Theorem nonascii_url_rejected_before_io : forall url attempted,
  (is_ascii url = false -> model_url_io url attempted = (UUnicodeError, 0%N)) /\
  (is_ascii url = true -> fst (model_url_io url attempted) = UOk url).
Proof. exact url_check_l. Qed.
Print Assumptions nonascii_url_rejected_before_io.

Theorem timeout_choice : forall rt ot,
  (forall t, rt = Some t -> t <> 0%Z -> choose_timeout rt ot = t) /\
  (rt = None -> choose_timeout rt ot = ot) /\
  model_timeout MOpen rt ot = ot.
Proof. exact timeout_choice_l. Qed.
Print Assumptions timeout_choice.

(* ------------------------------------------------------------------ *)
(* cookies over histories of any length                                *)
(* ------------------------------------------------------------------ *)
From SV Require Import C15.CookieProofs.

(* after ANY sequence of Set-Cookie events (set / replace / expire, any paths) the jar holds a
   cookie exactly when the last event about its (path, name) was a set, with that value ... *)
Theorem cookie_history : forall history p n v,
  In (mkCookie p n v) (jar_of history) <-> In (mkCookie p n v) (spec_live history).
Proof. exact cookie_history_l. Qed.
Print Assumptions cookie_history.

(* ... so the pairs that accompany the next request to any path are the specified ones ... *)
Theorem cookie_header_matches_history : forall history path x,
  In x (cookies_for (jar_of history) path) <-> In x (cookies_for (spec_live history) path).
Proof. exact cookie_header_l. Qed.
Print Assumptions cookie_header_matches_history.

(* ... and never two values for one (path, name) *)
Theorem jar_unique : forall history, uniq (jar_of history).
Proof. exact jar_unique_l. Qed.
Print Assumptions jar_unique.

(* "any cookies earlier responses set" for ALL responses is false of the faithful model: the jar
   moves exactly on the replies urllib returned (2xx); Set-Cookie lines of an HTTPError reply
   (3xx-5xx, e.g. a 500 SOAP fault) are dropped because getcookies() is only reached after
   u2open() returned - reply_cookies_stored_refuted, reported by the harness as the known finding
   C15:cookies-of-error-replies-dropped.  Guarded form: *)
Theorem reply_cookies_stored_partial : forall P k c j prev pm q p,
  p_challenge p = None -> is_2xx (p_status p) = true ->
  snd (model_step P k c j prev pm q p) = fold_left jar_apply (map (resolve (q_path q)) (p_cookies p)) j.
Proof. exact delivered_replies_update_jar_l. Qed.
Print Assumptions reply_cookies_stored_partial.

Theorem reply_cookies_stored_refuted :
  exists P k c j prev pm q p,
    p_challenge p = None /\ p_cookies p <> [] /\
    snd (model_step P k c j prev pm q p) <> fold_left jar_apply (map (resolve (q_path q)) (p_cookies p)) j.
Proof. exact reply_cookies_stored_refuted_l. Qed.
Print Assumptions reply_cookies_stored_refuted.

Theorem error_replies_leave_jar : forall P k c j prev pm q p,
  p_challenge p = None -> is_2xx (p_status p) = false -> snd (model_step P k c j prev pm q p) = j.
Proof. exact error_replies_leave_jar_l. Qed.
Print Assumptions error_replies_leave_jar.

Example cookies_nonvacuous :
  let sl := [47]%N in let a := [97]%N in let b := [98]%N in
  let h := [(true, sl, a, [49]%N); (true, [47; 115]%N, b, [50]%N); (false, sl, a, []); (true, sl, a, [51]%N);
            (false, [47; 115]%N, b, [])] in
  cookies_for (jar_of h) [47; 115; 47; 120]%N = [(a, [51]%N)] /\
  cookies_for (spec_live h) [47; 115; 47; 120]%N = [(a, [51]%N)].
Proof. split; reflexivity. Qed.

(* ------------------------------------------------------------------ *)
(* the caller-owned headers dict across sends                          *)
(* ------------------------------------------------------------------ *)
From SV Require Import C15.WritebackProofs.

(* send() writes urllib's capitalised copies back into the caller's dict
   (request.headers.update(u2request.headers)); the dict returns when the Request object is sent
   again or the dict is shared by several Requests.  For EVERY dict: a later send finds, under
   every name, the value it would have found without the write-back ... *)
Theorem writeback_keeps_wire : forall k h,
  dict_get k (u2_headers (writeback h)) = dict_get k (u2_headers h).
Proof. exact writeback_wire_l. Qed.
Print Assumptions writeback_keeps_wire.

(* ... compresses (or not) the same way ... *)
Theorem writeback_keeps_body : forall h msg, wire_body (writeback h) msg = wire_body h msg.
Proof. exact writeback_body_l. Qed.
Print Assumptions writeback_keeps_body.

(* ... and never finds a Cookie entry the caller did not put there: the jar's Cookie header is
   one of urllib's unredirected headers, which are not written back, so the jar stays the only
   source of cookies on every later send (cookie_header_matches_history applies to all of them) *)
Theorem writeback_has_no_cookie : forall h,
  no_ci l_cookie h = true ->
  no_ci l_cookie (writeback h) = true /\ dict_get l_cookie (u2_headers (writeback h)) = None.
Proof. exact writeback_no_cookie_l. Qed.
Print Assumptions writeback_has_no_cookie.

(* the whole second send through the same transport (credentials set again into the dict the
   first send left): the same headers, the same body treatment *)
Theorem resend_carries_the_same : forall P kd c h0 k,
  no_ci l_authorization h0 = true ->
  let h1 := add_credentials P kd c h0 in
  dict_get k (u2_headers (add_credentials P kd c (writeback h1))) = dict_get k (u2_headers h1) /\
  (forall msg, wire_body (add_credentials P kd c (writeback h1)) msg = wire_body h1 msg).
Proof. exact resend_carries_the_same_l. Qed.
Print Assumptions resend_carries_the_same.

Example writeback_nonvacuous :
  writeback [([83; 79; 65; 80; 65; 99; 116; 105; 111; 110]%N, [49]%N); ([120; 45; 97]%N, [50]%N)]
  = [([83; 79; 65; 80; 65; 99; 116; 105; 111; 110]%N, [49]%N); ([120; 45; 97]%N, [50]%N);
     ([83; 111; 97; 112; 97; 99; 116; 105; 111; 110]%N, [49]%N); ([88; 45; 97]%N, [50]%N)].
     (* {"SOAPAction": "1", "x-a": "2"} gains "Soapaction": "1" and "X-a": "2" *)
Proof. reflexivity. Qed.

(* ------------------------------------------------------------------ *)
(* challenge-response credentials across a history of sends            *)
(* ------------------------------------------------------------------ *)
From SV Require Import C15.PmProofs.

(* (since 7b69e23: one manager that registers URLs and answers with the transport's CURRENT
   pair) after a Basic challenge the retried request carries the pair configured AT THE TIME of
   the request, for any set of URLs registered before - the same URL, a shorter one (so this
   request goes to a DEEPER path), others, none - no guard *)
Theorem challenge_credentials : forall P u pw j prev pm q p cb,
  p_challenge p = Some cb ->
  has_key l_authorization (u2_headers (start_headers P prev q)) = false ->
  let m := fst (model_step P TChallenge (Some u, Some pw) j prev pm q p) in
  m_conns m = 2%N /\ dict_get l_authorization (m_hdrs m) = Some (authorization std_alphabet u pw).
Proof. exact challenge_credentials_l. Qed.
Print Assumptions challenge_credentials.

(* credentials set, used, then reset to None: the next challenge is NOT answered - through any
   transport class, after any history: one connection, no Authorization added, the 401 surfaces *)
Theorem no_credentials_no_answer : forall P k c j prev pm q p cb,
  fst c = None \/ snd c = None ->
  p_challenge p = Some cb ->
  has_key l_authorization (u2_headers (start_headers P prev q)) = false ->
  let m := fst (model_step P k c j prev pm q p) in
  m_conns m = 1%N /\ m_result m = RTransportError 401%N cb /\
  m_hdrs m = u2_headers (start_headers P prev q).
Proof. exact no_credentials_no_answer_l. Qed.
Print Assumptions no_credentials_no_answer.

(* no send depends on which URLs earlier sends registered.  (The one lookup that finds nothing
   although credentials are set - a URL below no registered one, pm_lookup_unregistered in
   PmProofs.v - needs the options to change between addcredentials and the challenge of ONE
   send, i.e. another thread; through the sequential API every send registers its URL first.) *)
Theorem history_independent : forall P k c j prev pm q p,
  model_step P k c j prev pm q p = model_step P k c j prev [] q p.
Proof. exact history_independent_l. Qed.
Print Assumptions history_independent.

(* regression witnesses of the fixed finding C15:stale-credentials-for-deeper-path: the manager
   suds used before (one for the transport's life, an entry per URL) found the configured pair
   only with no entry for a shorter path in front, and not for /svc/op after /svc *)
Theorem accumulating_manager_partial : forall u pw pm q,
  pm_clear (q_path q) pm = true ->
  pm_find (q_path q) (pm_after_accumulating TChallenge (Some u, Some pw) pm q) = Some (u, pw).
Proof. exact accumulating_manager_partial_l. Qed.
Print Assumptions accumulating_manager_partial.

Theorem accumulating_manager_refuted :
  exists path pm u p, pm_find path (pm_add path u p pm) <> Some (u, p).
Proof. exact accumulating_manager_refuted_l. Qed.
Print Assumptions accumulating_manager_refuted.

Theorem same_url_history : forall path changes u p,
  pm_find path (pm_add path u p (pm_history path changes)) = Some (u, p).
Proof. exact same_url_history_l. Qed.
Print Assumptions same_url_history.

Example pm_nonvacuous :
  let q := mkReq None [47; 115; 47; 111]%N [] 1%N (Some [98]%N, Some [50]%N) false in
  let registered := [([47; 115]%N, ([97]%N, [49]%N))] in                  (* /svc, while (a, 1) was configured *)
  pm_lookup (pm_after TChallenge (q_creds q) registered q) (q_path q) (q_creds q) = Some ([98]%N, [50]%N) /\
  pm_find (q_path q) (pm_after_accumulating TChallenge (q_creds q) registered q) = Some ([97]%N, [49]%N) /\
  pm_lookup registered (q_path q) (None, Some [50]%N) = None.
Proof. repeat split; reflexivity. Qed.
