(* C15 - send() writes urllib's capitalised header copies back into the CALLER's dict
   (request.headers.update(u2request.headers)).  That dict comes back when a Request object is
   sent again or one dict is shared by several Requests: the write-back never contains a Cookie
   entry of its own and never changes what a later send puts on the wire. *)
From Coq Require Import ZifyBool ZifyNat ZifyN.
From SV Require Import Lib.Base C15.Base64 C15.Model C15.PipeProofs.
Local Open Scope N_scope.

(* ---------- capitalize vs lower (ASCII) ---------- *)
Lemma lower_c_idem c : lower_c (lower_c c) = lower_c c.
Proof.
  unfold lower_c. destruct ((65 <=? c) && (c <=? 90)) eqn:E; [|rewrite E; reflexivity].
  replace ((65 <=? c + 32) && (c + 32 <=? 90)) with false by lia. reflexivity.
Qed.

Lemma lower_idem s : lower (lower s) = lower s.
Proof. unfold lower. rewrite map_map. apply map_ext. apply lower_c_idem. Qed.

Lemma lower_upper_c c : lower_c (upper_c c) = lower_c c.
Proof.
  unfold lower_c, upper_c.
  destruct ((97 <=? c) && (c <=? 122)) eqn:E.
  - replace ((65 <=? c - 32) && (c - 32 <=? 90)) with true by lia.
    replace ((65 <=? c) && (c <=? 90)) with false by lia. lia.
  - reflexivity.
Qed.

Lemma lower_capitalize s : lower (capitalize s) = lower s.
Proof.
  destruct s as [|c r]; [reflexivity|]. cbn [capitalize lower map].
  rewrite lower_upper_c. fold (lower r). fold (lower (lower r)). rewrite lower_idem. reflexivity.
Qed.

Lemma upper_of_lower_c x y : lower_c x = lower_c y -> upper_c x = upper_c y.
Proof.
  unfold lower_c, upper_c.
  destruct ((65 <=? x) && (x <=? 90)) eqn:A; destruct ((65 <=? y) && (y <=? 90)) eqn:B;
    destruct ((97 <=? x) && (x <=? 122)) eqn:C; destruct ((97 <=? y) && (y <=? 122)) eqn:D; lia.
Qed.

Lemma capitalize_of_lower a b : lower a = lower b -> capitalize a = capitalize b.
Proof.
  destruct a as [|x a], b as [|y b]; cbn [lower map]; intro H; try discriminate; [reflexivity|].
  injection H as H1 H2. cbn [capitalize]. unfold lower. rewrite H2, (upper_of_lower_c x y H1). reflexivity.
Qed.

(* ---------- entries of a dict after a set ---------- *)
(* what dict_set builds from [] has one entry per key, like the Python dict it stands for *)
Fixpoint uniq_keys (d : hdict) : Prop :=
  match d with
  | [] => True
  | (k, _) :: r => dict_get k r = None /\ uniq_keys r
  end.

Lemma get_none_not_in k d : dict_get k d = None -> forall x, In x d -> str_eqb k (fst x) = false.
Proof.
  induction d as [|[k0 v0] d IH]; intros H x [].
  - subst x. cbn in *. destruct (str_eqb k k0); [discriminate | reflexivity].
  - cbn in H. destruct (str_eqb k k0); [discriminate|]. apply IH; assumption.
Qed.

Lemma uniq_dict_set k v d : uniq_keys d -> uniq_keys (dict_set k v d).
Proof.
  induction d as [|[k0 v0] d IH]; intro U; cbn [dict_set].
  - cbn. split; [reflexivity | exact I].
  - destruct U as [U1 U2]. destruct (str_eqb k k0) eqn:E.
    + split; assumption.
    + split; [|exact (IH U2)]. rewrite get_set, str_eqb_sym, E. exact U1.
Qed.

Lemma in_dict_set x k v d : uniq_keys d ->
  In x (dict_set k v d) -> x = (k, v) \/ (In x d /\ str_eqb k (fst x) = false).
Proof.
  induction d as [|[k0 v0] d IH]; intro U; cbn [dict_set].
  - intros [H|[]]. left. congruence.
  - destruct U as [U1 U2]. destruct (str_eqb k k0) eqn:E.
    + apply str_eqb_eq in E. subst k0. intros [H|H]; [left; congruence|].
      right. split; [right; exact H | exact (get_none_not_in k d U1 x H)].
    + intros [H|H]; [right; split; [left; exact H | subst x; exact E]|].
      apply (IH U2) in H as [H|[H F]]; [left; exact H | right; split; [right; exact H | exact F]].
Qed.

(* ---------- urllib's capitalised dict holds, per name, the last value of the caller's dict ---------- *)
Definition cap_step (acc : hdict) (kv : str * bytes) : hdict := dict_set (capitalize (fst kv)) (snd kv) acc.

Definition cap_inv (h1 acc : hdict) : Prop :=
  uniq_keys acc /\
  forall k1 v, In (k1, v) acc -> (exists k0, k1 = capitalize k0) /\ last_ci (lower k1) h1 None = Some v.

Lemma last_ci_snoc k h k' v' d :
  last_ci k (h ++ [(k', v')]) d = if str_eqb k (lower k') then Some v' else last_ci k h d.
Proof. rewrite last_ci_app. reflexivity. Qed.

Lemma cap_inv_step h1 acc k' v' :
  cap_inv h1 acc -> cap_inv (h1 ++ [(k', v')]) (cap_step acc (k', v')).
Proof.
  intros [U I]. unfold cap_step. cbn [fst snd]. split; [apply uniq_dict_set, U|].
  intros k1 v H. apply (in_dict_set _ _ _ _ U) in H as [H|[H F]].
  - injection H as -> ->. split; [exists k'; reflexivity|].
    rewrite last_ci_snoc, lower_capitalize, str_eqb_refl. reflexivity.
  - cbn [fst] in F. destruct (I k1 v H) as [[k0 ->] L]. split; [exists k0; reflexivity|].
    rewrite last_ci_snoc. rewrite lower_capitalize in *.
    destruct (str_eqb (lower k0) (lower k')) eqn:E; [|exact L].
    apply str_eqb_eq in E. apply capitalize_of_lower in E. rewrite E, str_eqb_refl in F. discriminate.
Qed.

Lemma cap_inv_fold h2 : forall h1 acc,
  cap_inv h1 acc -> cap_inv (h1 ++ h2) (fold_left cap_step h2 acc).
Proof.
  induction h2 as [|[k' v'] h2 IH]; intros h1 acc H.
  - rewrite app_nil_r. exact H.
  - cbn [fold_left]. replace (h1 ++ (k', v') :: h2) with ((h1 ++ [(k', v')]) ++ h2)
      by (rewrite <- app_assoc; reflexivity).
    apply IH, cap_inv_step, H.
Qed.

Lemma u2_cap_values h k1 v : In (k1, v) (u2_cap_headers h) -> last_ci (lower k1) h None = Some v.
Proof.
  assert (H : cap_inv ([] ++ h) (fold_left cap_step h [])).
  { apply cap_inv_fold. split; [exact I | intros ? ? []]. }
  intro X. exact (proj2 (proj2 H k1 v X)).
Qed.

(* ---------- updating a dict with values it already ends with changes nothing on the wire ---------- *)
Lemma update_stable k V U : forall d,
  last_ci k d None = V ->
  (forall k1 v, In (k1, v) U -> str_eqb k (lower k1) = true -> Some v = V) ->
  last_ci k (dict_update d U) None = V.
Proof.
  unfold dict_update. induction U as [|[k1 v1] U IH]; intros d H A; [exact H|].
  cbn [fold_left fst snd]. apply IH.
  - destruct (last_ci_set_cases k k1 v1 d None) as [[X Y]|X]; rewrite X; [|exact H].
    apply (A k1 v1); [left; reflexivity | exact Y].
  - intros k2 v2 I. apply A. right. exact I.
Qed.

Lemma writeback_last_ci k h : last_ci k (writeback h) None = last_ci k h None.
Proof.
  unfold writeback. apply update_stable; [reflexivity|].
  intros k1 v I E. apply str_eqb_eq in E. subst k. symmetry. apply u2_cap_values, I.
Qed.

(* what a later send of the same dict puts on the wire, name by name *)
Lemma writeback_wire_l k h : dict_get k (u2_headers (writeback h)) = dict_get k (u2_headers h).
Proof. rewrite !u2_get_l. apply writeback_last_ci. Qed.

Lemma writeback_body_l h msg : wire_body (writeback h) msg = wire_body h msg.
Proof. unfold wire_body. rewrite writeback_last_ci. reflexivity. Qed.

(* no Cookie entry appears in the caller's dict *)
Lemma last_ci_some_stays k d : forall x, exists y, last_ci k d (Some x) = Some y.
Proof.
  unfold last_ci. induction d as [|[k0 v0] d IH]; intro x; cbn [fold_left fst snd]; [exists x; reflexivity|].
  destruct (str_eqb k (lower k0)); apply IH.
Qed.

Lemma no_ci_of_last_none k d : last_ci k d None = None -> no_ci k d = true.
Proof.
  unfold no_ci. induction d as [|[k0 v0] d IH]; intro H; [reflexivity|].
  cbn [forallb fst]. unfold last_ci in H. cbn [fold_left fst snd] in H.
  destruct (str_eqb k (lower k0)) eqn:E.
  - fold (last_ci k d (Some v0)) in H. destruct (last_ci_some_stays k d v0) as [y Y]. congruence.
  - cbn. apply IH. exact H.
Qed.

Lemma writeback_no_cookie_l h :
  no_ci l_cookie h = true ->
  no_ci l_cookie (writeback h) = true /\ dict_get l_cookie (u2_headers (writeback h)) = None.
Proof.
  intro H.
  assert (N : last_ci l_cookie (writeback h) None = None)
    by (rewrite writeback_last_ci; apply last_ci_none; exact H).
  split; [apply no_ci_of_last_none, N | rewrite u2_get_l; exact N].
Qed.

(* the whole of a second send through the same transport: credentials are set again into the
   dict the first send left, and the server finds, name by name, what it found the first time *)
Lemma resend_carries_the_same_l P kd c h0 k :
  no_ci l_authorization h0 = true ->
  let h1 := add_credentials P kd c h0 in
  dict_get k (u2_headers (add_credentials P kd c (writeback h1))) = dict_get k (u2_headers h1) /\
  (forall msg, wire_body (add_credentials P kd c (writeback h1)) msg = wire_body h1 msg).
Proof.
  intros A h1.
  assert (G : last_ci k (add_credentials P kd c (writeback h1)) None = last_ci k h1 None).
  { destruct kd, c as [[u|] [p|]]; try (cbn [add_credentials]; apply writeback_last_ci).
    cbn [add_credentials].
    destruct (last_ci_set_cases k n_authorization (model_authorization P u p) (writeback h1) None)
      as [[X Y]|X]; rewrite X; [|apply writeback_last_ci].
    subst h1. cbn [add_credentials]. symmetry. apply last_ci_dict_set_fresh; [|exact Y].
    apply str_eqb_eq in Y. subst k. exact A. }
  split; [rewrite !u2_get_l; exact G|].
  intro msg. rewrite credentials_keep_body_l, writeback_body_l. reflexivity.
Qed.
