(* C04 - the Handler's result does not depend on how the parser cuts a run
   of character data into chunks. *)
From SV Require Import Lib.Base Gen.C04Tables C04.Model C04.EncProofs C04.TreeProofs.
From Coq Require Import ZifyBool ZifyNat ZifyN.
Local Open Scope N_scope.

Definition buf_eq (b1 b2 : list str) : Prop :=
  concat (rev b1) = concat (rev b2) /\ (b1 = [] <-> b2 = []).

Definition frame_eq (f1 f2 : frame) : Prop :=
  f_name f1 = f_name f2 /\ f_attrs f1 = f_attrs f2 /\ f_kids f1 = f_kids f2
  /\ buf_eq (f_buf f1) (f_buf f2).

Lemma close_text_eq b1 b2 n : buf_eq b1 b2 -> close_text b1 n = close_text b2 n.
Proof.
  intros [H1 H2]. unfold close_text.
  destruct b1 as [|x b1], b2 as [|y b2]; try reflexivity.
  - destruct H2 as [H2 _]. specialize (H2 eq_refl). discriminate.
  - destruct H2 as [_ H2]. specialize (H2 eq_refl). discriminate.
  - now rewrite H1.
Qed.

Lemma close_frame_eq f1 f2 : frame_eq f1 f2 -> close_frame close_text f1 = close_frame close_text f2.
Proof.
  intros (H1 & H2 & H3 & H4). unfold close_frame. now rewrite H1, H2, H3, (close_text_eq _ _ _ H4).
Qed.

Lemma frame_eq_refl f : frame_eq f f.
Proof. repeat split; auto. Qed.

Lemma sim : forall evs st1 st2 root,
  Forall2 frame_eq st1 st2 ->
  run_handler close_text evs st1 root = run_handler close_text evs st2 root.
Proof.
  induction evs as [|e evs IH]; intros st1 st2 root H.
  - cbn. destruct H; reflexivity.
  - destruct e as [n attrs|s|n]; cbn [run_handler].
    + apply IH. constructor; [apply frame_eq_refl|exact H].
    + destruct H as [|f1 f2 st1 st2 Hf Hst]; [reflexivity|].
      apply IH. constructor; [|exact Hst].
      destruct Hf as (H1 & H2 & H3 & H4 & H5). repeat split; cbn [f_name f_attrs f_kids f_buf]; auto.
      * cbn [rev]. now rewrite !concat_app, H4.
      * discriminate.
      * discriminate.
    + destruct H as [|f1 f2 st1 st2 Hf Hst]; [reflexivity|].
      pose proof (close_frame_eq _ _ Hf) as Ec. destruct Hf as (H1 & Hf').
      rewrite H1, Ec. destruct (str_eqb n (f_name f2)); [|reflexivity].
      destruct Hst as [|p1 p2 st1 st2 Hp Hst]; [reflexivity|].
      apply IH. constructor; [|exact Hst].
      destruct Hp as (P1 & P2 & P3 & P4). repeat split; cbn [f_name f_attrs f_kids f_buf]; auto.
      * now rewrite P3.
      * apply P4.
      * apply P4.
      * apply P4.
Qed.

(* two consecutive chunks or their concatenation: same result *)
Lemma merge_chunks a b r f st root :
  run_handler close_text (EvChars (a ++ b) :: r) (f :: st) root
  = run_handler close_text (EvChars a :: EvChars b :: r) (f :: st) root.
Proof.
  cbn [run_handler]. apply sim. constructor.
  - repeat split; cbn [f_name f_attrs f_kids f_buf]; auto; try discriminate.
    cbn [rev]. rewrite !concat_app. cbn [concat]. rewrite !app_nil_r. now rewrite <- app_assoc.
  - clear. induction st; constructor; [apply frame_eq_refl|assumption].
Qed.
