(* C04 - SPEC: cutting a serialised element into SAX events (XML 1.0 grammar
   for start tags, end tags, empty-element tags, attributes, character data
   with references, CDATA, comments and PIs; no DOCTYPE; Name validity is
   not checked beyond "no delimiter inside").  Used to state the tree round
   trip on the characters Element.plain() writes. *)
From SV Require Import Lib.Base Gen.C04Tables C04.Model.
Local Open Scope N_scope.


Definition name_char (c : N) : bool :=
  negb (is_ws c || (c =? SLASH) || (c =? GT) || (c =? EQS) || (c =? LT) || (c =? AMP)
        || (c =? QUOT) || (c =? APOS)).

Fixpoint take_name (s : str) : str * str :=
  match s with
  | [] => ([], [])
  | c :: r => if name_char c then let (a, b) := take_name r in (c :: a, b) else ([], s)
  end.

Fixpoint skip_ws (s : str) : str :=
  match s with
  | [] => []
  | c :: r => if is_ws c then skip_ws r else s
  end.

Fixpoint split_at (q : N) (s : str) : option (str * str) :=
  match s with
  | [] => None
  | c :: r => if c =? q then Some ([], r)
              else match split_at q r with
                   | Some (a, b) => Some (c :: a, b)
                   | None => None
                   end
  end.

(* after the element name: attributes, then > or /> ; returns (attributes,
   empty-element tag?, rest) *)
Fixpoint parse_attrs (fuel : nat) (s : str) : option (list (str * str) * bool * str) :=
  match fuel with
  | O => None
  | S f =>
    let s1 := skip_ws s in
    match s1 with
    | [] => None
    | c :: r =>
      if c =? GT then Some ([], false, r)
      else if c =? SLASH then match r with
                              | d :: r' => if d =? GT then Some ([], true, r') else None
                              | [] => None
                              end
      else
        (* [41] Attribute: S Name Eq AttValue - the S is required *)
        match s with
        | w :: _ =>
          if is_ws w then
            let (an, r1) := take_name s1 in
            match an, skip_ws r1 with
            | _ :: _, e :: r2 =>
              if e =? EQS then
                match skip_ws r2 with
                | q :: r3 =>
                  if (q =? QUOT) || (q =? APOS) then
                    match split_at q r3 with
                    | Some (raw, r4) =>
                      match xml_attvalue_decode q raw, parse_attrs f r4 with
                      | Some v, Some (rest_attrs, empty, r5) => Some ((an, v) :: rest_attrs, empty, r5)
                      | _, _ => None
                      end
                    | None => None
                    end
                  else None
                | [] => None
                end
              else None
            | _, _ => None
            end
          else None
        | [] => None
        end
    end
  end.

(* a run of character data: up to the next < that opens a tag; CDATA sections,
   comments and processing instructions are part of the run (xml_chardata_decode
   gives them their meaning) *)
Fixpoint take_run (fuel : nat) (s : str) : option (str * str) :=
  match fuel with
  | O => None
  | S f =>
    match s with
    | [] => Some ([], [])
    | c :: r =>
      if c =? LT then
        match strip_prefix cdata_open_tail r with
        | Some r1 =>
          match scan_cdata r1 with
          | Some (b, r') =>
            match take_run f r' with
            | Some (run, rest) => Some (LT :: cdata_open_tail ++ b ++ cdata_end ++ run, rest)
            | None => None
            end
          | None => None
          end
        | None =>
          match strip_prefix comment_open_tail r with
          | Some r1 =>
            match scan_until dashdash r1 with
            | Some (b, g :: r') =>
              match take_run f r' with
              | Some (run, rest) => Some (LT :: comment_open_tail ++ b ++ dashdash ++ g :: run, rest)
              | None => None
              end
            | _ => None
            end
          | None =>
            match r with
            | q :: r1 =>
              if q =? QMARK then
                match scan_until pi_close r1 with
                | Some (b, r') =>
                  match take_run f r' with
                  | Some (run, rest) => Some (LT :: QMARK :: b ++ pi_close ++ run, rest)
                  | None => None
                  end
                | None => None
                end
              else Some ([], s)
            | [] => Some ([], s)
            end
          end
        end
      else match take_run f r with
           | Some (run, rest) => Some (c :: run, rest)
           | None => None
           end
    end
  end.

(* character data is reported only when it denotes at least one character *)
Definition chars_event (v : str) (l : list ev) : list ev :=
  match v with [] => l | _ => EvChars v :: l end.

Fixpoint tokens (fuel : nat) (s : str) : option (list ev) :=
  match fuel with
  | O => None
  | S f =>
    match s with
    | [] => Some []
    | c :: r =>
      if c =? LT then
        match r with
        | [] => None
        | c2 :: r2 =>
          if c2 =? SLASH then
            (* [42] ETag *)
            let (n, r3) := take_name r2 in
            match n, skip_ws r3 with
            | _ :: _, g :: r4 => if g =? GT then option_map (cons (EvEnd n)) (tokens f r4) else None
            | _, _ => None
            end
          else if (c2 =? BANG) || (c2 =? QMARK) then
            (* CDATA section, comment or processing instruction: character data *)
            match take_run (S (length s)) s with
            | Some (run, rest) =>
              match xml_chardata_decode run with
              | Some v => option_map (chars_event v) (tokens f rest)
              | None => None
              end
            | None => None
            end
          else
            (* [40] STag / [44] EmptyElemTag *)
            let (n, r3) := take_name r in
            match n with
            | [] => None
            | _ =>
              match parse_attrs (S (length r3)) r3 with
              | Some (attrs, empty, r4) =>
                option_map (fun l => EvStart n attrs :: (if empty then EvEnd n :: l else l)) (tokens f r4)
              | None => None
              end
            end
        end
      else
        match take_run (S (length s)) s with
        | Some (run, rest) =>
          match xml_chardata_decode run with
          | Some v => option_map (chars_event v) (tokens f rest)
          | None => None
          end
        | None => None
        end
    end
  end.

Definition xml_tokens (s : str) : option (list ev) := tokens (S (length s)) s.

(* sanity: a hand-written document *)
Example tokens_example :
  xml_tokens [60;97;32;120;61;39;49;39;62;104;105;60;98;47;62;60;47;97;62]   (* <a x='1'>hi<b/></a> *)
  = Some [EvStart [97] [([120], [49])]; EvChars [104;105]; EvStart [98] []; EvEnd [98]; EvEnd [97]].
Proof. reflexivity. Qed.

Example tokens_example_comment_pi :
  xml_tokens [60;97;62;120;60;33;45;45;99;45;45;62;121;60;63;112;32;113;63;62;60;47;97;62]   (* <a>x<!--c-->y<?p q?></a> *)
  = Some [EvStart [97] []; EvChars [120;121]; EvEnd [97]].
Proof. reflexivity. Qed.

(* evaluated by the harness: on the characters the implementation wrote, this
   grammar and expat (whose events the harness recorded) lead the Handler to
   the same tree - the tokenizer above is exercised against the real parser *)
Definition tree_tokens_ok (c : tree_case) : bool :=
  let '(t, pr, out, evs, reread) := c in
  oelem_eqb (match xml_tokens out with Some e => handler e | None => None end) (handler evs).
