(* C04 - standalone trees: the events an XML processor reports for
   Element.plain() / Element.str() of a tree, fed to the Handler model, rebuild
   the tree (leaf text exactly, text of elements with children trimmed). *)
From SV Require Import Lib.Base Gen.C04Tables C04.Model C04.EncProofs.
From Coq Require Import ZifyBool ZifyNat ZifyN.
Local Open Scope N_scope.

(* ------------------------------------------------------------------ *)
(* definitions                                                         *)
(* ------------------------------------------------------------------ *)
Definition dec_or_nil (o : option str) : str := match o with Some v => v | None => [] end.

(* what the processor reports for the serialised text / attribute values:
   the XML decoding rules applied to what the serialiser wrote *)
Definition text_event (t : option text) : list ev :=
  match t with
  | Some x => if has_text t then [EvChars (dec_or_nil (xml_chardata_decode (render_text x)))] else []
  | None => []
  end.

Definition attr_events (attrs : list (str * text)) : list (str * str) :=
  map (fun a => (fst a, dec_or_nil (xml_attvalue_decode QUOT (render_attr_value (snd a))))) attrs.

Definition indent_ws (i : nat) : str := LF :: spaces (i * 3).

(* pr = true: Element.str (children on their own indented lines);
   pr = false: Element.plain (nothing added) *)
Definition sep (pr : bool) (i : nat) : list ev := if pr then [EvChars (indent_ws (S i))] else [].
Definition tail_ws (pr : bool) (i : nat) (kids : list elem) : list ev :=
  match kids with
  | [] => []
  | _ => if pr then [EvChars (indent_ws i)] else []
  end.

Fixpoint events (pr : bool) (i : nat) (e : elem) : list ev :=
  match e with
  | El n attrs t kids =>
    EvStart n (attr_events attrs) :: text_event t
    ++ flat_map (fun k => sep pr i ++ events pr (S i) k) kids
    ++ tail_ws pr i kids ++ [EvEnd n]
  end.

Definition events_plain (t : elem) : list ev := events false 0 t.
Definition events_pretty (i : nat) (t : elem) : list ev := events true i t.

Definition val_ok (x : text) : bool :=
  negb (t_escaped x) && chars_legal (t_chars x) && negb (has_entity_ref (t_chars x)).

Fixpoint tree_ok (e : elem) : bool :=
  match e with
  | El n attrs t kids =>
    forallb (fun a => val_ok (snd a)) attrs
    && match t with Some x => val_ok x | None => true end
    && forallb tree_ok kids
  end.

Definition txt_chars (t : option text) : str := match t with Some x => t_chars x | None => [] end.

(* the text suds' parser ends up with *)
Definition reread_text (pr : bool) (t : option text) (kids : list elem) : option text :=
  match kids with
  | [] => if has_text t then Some (mkText (txt_chars t) false) else None
  | _ => if pr || has_text t then Some (mkText (py_strip (txt_chars t)) false) else None
  end.

Fixpoint reread_gen (pr : bool) (e : elem) : elem :=
  match e with
  | El n attrs t kids =>
    El n (map (fun a => (fst a, mkText (t_chars (snd a)) false)) attrs)
       (reread_text pr t kids) (map (reread_gen pr) kids)
  end.

(* up to "an empty Text is no text" the two serialisers give the same tree *)
Fixpoint drop_empty (e : elem) : elem :=
  match e with
  | El n attrs t kids => El n attrs (if has_text t then t else None) (map drop_empty kids)
  end.

(* ------------------------------------------------------------------ *)
(* induction over trees                                                *)
(* ------------------------------------------------------------------ *)
Section elem_ind2.
  Variable P : elem -> Prop.
  Hypothesis H : forall n attrs t kids, Forall P kids -> P (El n attrs t kids).
  Fixpoint elem_ind2 (e : elem) : P e :=
    match e with
    | El n attrs t kids =>
      H n attrs t kids ((fix go (l : list elem) : Forall P l :=
                           match l with
                           | [] => Forall_nil P
                           | x :: r => Forall_cons x (elem_ind2 x) (go r)
                           end) kids)
    end.
End elem_ind2.

(* ------------------------------------------------------------------ *)
(* whitespace and strip                                                *)
(* ------------------------------------------------------------------ *)
Definition all_sp (s : str) : bool := forallb is_py_space s.

Lemma lstrip_all_sp w : all_sp w = true -> lstrip w = [].
Proof.
  induction w as [|c w IH]; [reflexivity|]. unfold all_sp. cbn [forallb lstrip]. intro H.
  apply andb_true_iff in H as [H1 H2]. rewrite H1. now apply IH.
Qed.

Lemma lstrip_sp_app w x : all_sp w = true -> lstrip (w ++ x) = lstrip x.
Proof.
  induction w as [|c w IH]; [reflexivity|]. unfold all_sp. cbn [forallb app lstrip]. intro H.
  apply andb_true_iff in H as [H1 H2]. rewrite H1. now apply IH.
Qed.

Lemma lstrip_app_sp s w : all_sp w = true ->
  lstrip (s ++ w) = match lstrip s with [] => [] | _ => lstrip s ++ w end.
Proof.
  intro Hw. induction s as [|c s IH].
  - cbn. now apply lstrip_all_sp.
  - cbn [app lstrip]. destruct (is_py_space c); [exact IH|reflexivity].
Qed.

Lemma all_sp_rev w : all_sp (rev w) = all_sp w.
Proof.
  unfold all_sp. induction w as [|c w IH]; [reflexivity|].
  cbn [rev forallb]. rewrite forallb_app, IH. cbn [forallb]. rewrite andb_true_r. apply andb_comm.
Qed.

Lemma py_strip_app_sp s w : all_sp w = true -> py_strip (s ++ w) = py_strip s.
Proof.
  intro Hw. unfold py_strip. rewrite (lstrip_app_sp s w Hw).
  destruct (lstrip s) as [|c l] eqn:E; [reflexivity|].
  rewrite rev_app_distr. rewrite lstrip_sp_app by (now rewrite all_sp_rev). reflexivity.
Qed.

Lemma all_sp_app a b : all_sp (a ++ b) = all_sp a && all_sp b.
Proof. apply forallb_app. Qed.

Lemma all_sp_spaces n : all_sp (spaces n) = true.
Proof. induction n; [reflexivity|]. cbn. exact IHn. Qed.

Lemma all_sp_indent i : all_sp (indent_ws i) = true.
Proof. unfold indent_ws. cbn [all_sp forallb]. change (is_py_space LF) with true. apply all_sp_spaces. Qed.

Lemma all_sp_concat_repeat w n : all_sp w = true -> all_sp (concat (repeat w n)) = true.
Proof.
  intro H. induction n; [reflexivity|]. cbn [repeat concat]. now rewrite all_sp_app, H, IHn.
Qed.

(* ------------------------------------------------------------------ *)
(* steps of the Handler                                                *)
(* ------------------------------------------------------------------ *)
Definition push_chars (s : str) (f : frame) : frame :=
  mkFrame (f_name f) (f_attrs f) (s :: f_buf f) (f_kids f).
Definition push_kid (e : elem) (f : frame) : frame :=
  mkFrame (f_name f) (f_attrs f) (f_buf f) (e :: f_kids f).

Lemma run_chars c s r f st root :
  run_handler c (EvChars s :: r) (f :: st) root = run_handler c r (push_chars s f :: st) root.
Proof. reflexivity. Qed.

Lemma run_end_inner c n r f p st root :
  f_name f = n ->
  run_handler c (EvEnd n :: r) (f :: p :: st) root
  = run_handler c r (push_kid (close_frame c f) p :: st) root.
Proof. intros <-. cbn [run_handler]. now rewrite str_eqb_refl. Qed.

Lemma run_end_top c n f :
  f_name f = n -> run_handler c [EvEnd n] [f] None = Some (close_frame c f).
Proof. intros <-. cbn [run_handler]. now rewrite str_eqb_refl. Qed.

Lemma repeat_shift {A} (w : A) n l : repeat w n ++ w :: l = w :: repeat w n ++ l.
Proof. induction n; [reflexivity|]. cbn [repeat app]. now rewrite IHn. Qed.

(* ------------------------------------------------------------------ *)
(* values under the guard                                              *)
(* ------------------------------------------------------------------ *)
Lemma val_ok_text x : val_ok x = true ->
  xml_chardata_decode (render_text x) = Some (t_chars x).
Proof.
  destruct x as [s e]. unfold val_ok. cbn [t_escaped t_chars]. intro H.
  apply andb_true_iff in H as [H H3]. apply andb_true_iff in H as [H1 H2].
  apply negb_true_iff in H1, H3. subst e.
  change (render_text (mkText s false)) with (request_text s).
  now apply text_roundtrip_partial_l.
Qed.

Lemma val_ok_attr x : val_ok x = true ->
  xml_attvalue_decode QUOT (render_attr_value x) = Some (t_chars x).
Proof.
  destruct x as [s e]. unfold val_ok. cbn [t_escaped t_chars]. intro H.
  apply andb_true_iff in H as [H H3]. apply andb_true_iff in H as [H1 H2].
  apply negb_true_iff in H1, H3. subst e.
  rewrite (attr_value_exact_l s H2). now rewrite collapse_no_entity.
Qed.

Lemma attrs_ok attrs : forallb (fun a => val_ok (snd a)) attrs = true ->
  map (fun a => (fst a, mkText (snd a) false)) (attr_events attrs)
  = map (fun a => (fst a, mkText (t_chars (snd a)) false)) attrs.
Proof.
  induction attrs as [|a l IH]; [reflexivity|]. cbn [forallb]. intro H.
  apply andb_true_iff in H as [H1 H2]. unfold attr_events in *. cbn [map fst snd].
  rewrite (val_ok_attr _ H1), (IH H2). reflexivity.
Qed.

Lemma text_event_ok t : match t with Some x => val_ok x | None => true end = true ->
  text_event t = if has_text t then [EvChars (txt_chars t)] else [].
Proof.
  destruct t as [x|]; [|reflexivity]. intro H. unfold text_event.
  rewrite (val_ok_text _ H). reflexivity.
Qed.

Lemma no_text_nil t : has_text t = false -> txt_chars t = [].
Proof. destruct t as [[[|c s] e]|]; cbn; intro H; [reflexivity|discriminate|reflexivity]. Qed.

(* ------------------------------------------------------------------ *)
(* the main induction                                                  *)
(* ------------------------------------------------------------------ *)
  Definition inner (pr : bool) (t : elem) : Prop :=
    forall i, tree_ok t = true -> forall rest p st root,
      run_handler close_text (events pr i t ++ rest) (p :: st) root
      = run_handler close_text rest (push_kid (reread_gen pr t) p :: st) root.

  Definition wsbuf (pr : bool) (i : nat) (kids : list elem) : list str :=
    if pr then repeat (indent_ws (S i)) (length kids) else [].

  Lemma kids_run pr : forall kids, Forall (inner pr) kids -> forall i rest F st root,
    forallb tree_ok kids = true ->
    run_handler close_text (flat_map (fun k => sep pr i ++ events pr (S i) k) kids ++ rest) (F :: st) root
    = run_handler close_text rest
        (mkFrame (f_name F) (f_attrs F) (wsbuf pr i kids ++ f_buf F)
                 (rev (map (reread_gen pr) kids) ++ f_kids F) :: st) root.
  Proof.
    induction kids as [|k ks IH]; intros HF i rest F st root Hok.
    - unfold wsbuf. destruct pr; destruct F; reflexivity.
    - inversion HF as [|? ? Hk Hks]; subst.
      cbn [forallb] in Hok. apply andb_true_iff in Hok as [Hok1 Hok2].
      cbn [flat_map]. rewrite <- !app_assoc.
      unfold wsbuf, sep. destruct pr.
      + cbn [app]. rewrite run_chars. rewrite (Hk (S i) Hok1).
        rewrite (IH Hks i rest _ st root Hok2). unfold wsbuf.
        unfold push_kid, push_chars. cbn [f_name f_attrs f_buf f_kids length repeat map rev].
        rewrite <- app_assoc. cbn [app]. rewrite repeat_shift. reflexivity.
      + cbn [app]. rewrite (Hk (S i) Hok1).
        rewrite (IH Hks i rest _ st root Hok2). unfold wsbuf.
        unfold push_kid. cbn [f_name f_attrs f_buf f_kids map rev app].
        rewrite <- app_assoc. reflexivity.
  Qed.

  (* from the start tag to just before the end tag *)
  Lemma body_run pr n attrs t kids : Forall (inner pr) kids ->
    tree_ok (El n attrs t kids) = true -> forall i rest st root,
    run_handler close_text (events pr i (El n attrs t kids) ++ rest) st root
    = run_handler close_text (EvEnd n :: rest)
        (mkFrame n (map (fun a => (fst a, mkText (t_chars (snd a)) false)) attrs)
                 (match kids with [] => [] | _ => if pr then [indent_ws i] else [] end
                  ++ wsbuf pr i kids ++ (if has_text t then [txt_chars t] else []))
                 (rev (map (reread_gen pr) kids)) :: st) root.
  Proof.
    intros HF Hok i rest st root. cbn [tree_ok] in Hok.
    apply andb_true_iff in Hok as [Hok Hk]. apply andb_true_iff in Hok as [Ha Ht].
    cbn [events]. cbn [app run_handler]. rewrite (attrs_ok _ Ha), (text_event_ok _ Ht).
    rewrite <- !app_assoc.
    assert (E1 : forall F,
      run_handler close_text ((if has_text t then [EvChars (txt_chars t)] else []) ++
          flat_map (fun k => sep pr i ++ events pr (S i) k) kids ++ tail_ws pr i kids ++ [EvEnd n] ++ rest)
          (F :: st) root
      = run_handler close_text (tail_ws pr i kids ++ [EvEnd n] ++ rest)
          (mkFrame (f_name F) (f_attrs F)
                   (wsbuf pr i kids ++ (if has_text t then [txt_chars t] else []) ++ f_buf F)
                   (rev (map (reread_gen pr) kids) ++ f_kids F) :: st) root).
    { intro F. destruct (has_text t).
      - cbn [app]. rewrite run_chars. rewrite (kids_run pr kids HF i _ _ st root Hk).
        unfold push_chars. cbn [f_name f_attrs f_buf f_kids]. reflexivity.
      - cbn [app]. rewrite (kids_run pr kids HF i _ _ st root Hk). reflexivity. }
    rewrite E1. cbn [f_name f_attrs f_buf f_kids]. rewrite !app_nil_r.
    unfold tail_ws. destruct kids as [|k ks]; [reflexivity|].
    destruct pr; [|reflexivity].
    cbn [app]. rewrite run_chars. unfold push_chars. cbn [f_name f_attrs f_buf f_kids]. reflexivity.
  Qed.

  Lemma closed_text (pr : bool) (t : option text) (kids : list elem) i :
    close_text (match kids with [] => @nil str | _ => if pr then [indent_ws i] else [] end
                ++ wsbuf pr i kids ++ (if has_text t then [txt_chars t] else []))
               (length (rev (map (reread_gen pr) kids)))
    = reread_text pr t kids.
  Proof.
    rewrite rev_length, map_length. unfold reread_text, wsbuf.
    destruct kids as [|k ks].
    - cbn [length repeat app]. destruct pr; cbn [app]; destruct (has_text t); cbn; now rewrite ?app_nil_r.
    - destruct pr; cbn [orb].
      + (* pretty: whitespace chunks after the text, all trimmed away *)
        cbn [app close_text length].
        set (W := repeat (indent_ws (S i)) (S (length ks))).
        assert (EW : concat (rev ((indent_ws i :: W) ++ (if has_text t then [txt_chars t] else [])))
                     = txt_chars t ++ (concat (rev W) ++ indent_ws i)).
        { rewrite rev_app_distr, concat_app. cbn [rev]. rewrite concat_app. cbn [concat]. rewrite app_nil_r.
          destruct (has_text t) eqn:E; cbn [rev concat app].
          - now rewrite app_nil_r.
          - now rewrite (no_text_nil _ E). }
        change (indent_ws i :: W ++ (if has_text t then [txt_chars t] else []))
          with ((indent_ws i :: W) ++ (if has_text t then [txt_chars t] else [])).
        rewrite EW. unfold text_trim. cbn [t_chars t_escaped].
        rewrite py_strip_app_sp; [reflexivity|].
        rewrite all_sp_app, all_sp_indent, andb_true_r.
        unfold W. assert (ER : forall n0, rev (repeat (indent_ws (S i)) n0) = repeat (indent_ws (S i)) n0).
        { induction n0; [reflexivity|]. cbn [repeat rev]. rewrite IHn0.
          change [indent_ws (S i)] with (repeat (indent_ws (S i)) 1). rewrite <- repeat_app.
          now rewrite Nat.add_1_r. }
        rewrite ER. apply all_sp_concat_repeat, all_sp_indent.
      + cbn [app length]. destruct (has_text t); [|reflexivity].
        cbn [close_text rev app concat]. rewrite app_nil_r. reflexivity.
  Qed.

  Lemma inner_all pr : forall t, inner pr t.
  Proof.
    apply elem_ind2. intros n attrs t kids HF i Hok rest p st root.
    rewrite (body_run pr n attrs t kids HF Hok i rest (p :: st) root).
    rewrite run_end_inner by reflexivity.
    unfold close_frame. cbn [f_name f_attrs f_buf f_kids].
    rewrite closed_text, rev_involutive. reflexivity.
  Qed.

  Lemma top_all pr : forall t i, tree_ok t = true ->
    handler (events pr i t) = Some (reread_gen pr t).
  Proof.
    intros [n attrs t kids] i Hok. unfold handler.
    rewrite <- (app_nil_r (events pr i (El n attrs t kids))).
    rewrite (body_run pr n attrs t kids); [|apply Forall_forall; intros; apply inner_all|exact Hok].
    rewrite run_end_top by reflexivity.
    unfold close_frame. cbn [f_name f_attrs f_buf f_kids].
    rewrite closed_text, rev_involutive. reflexivity.
  Qed.

Lemma tree_reparse_plain_l : forall t,
  tree_ok t = true -> handler (events_plain t) = Some (reread_gen false t).
Proof. intros t H. now apply top_all. Qed.

Lemma tree_reparse_pretty_l : forall t i,
  tree_ok t = true -> handler (events_pretty i t) = Some (reread_gen true t).
Proof. intros t i H. now apply top_all. Qed.

(* the two serialisers are read back alike: the only difference is an empty
   Text instead of no text on elements that have children *)
Lemma has_text_strip_nil t : has_text t = false -> py_strip (txt_chars t) = [].
Proof. intro H. now rewrite (no_text_nil _ H). Qed.

Lemma pretty_plain_same_l : forall t,
  drop_empty (reread_gen true t) = drop_empty (reread_gen false t).
Proof.
  apply elem_ind2. intros n attrs t kids HF. cbn [reread_gen drop_empty]. f_equal.
  - unfold reread_text. destruct kids as [|k ks]; [reflexivity|]. cbn [orb].
    destruct (has_text t) eqn:E; [reflexivity|].
    rewrite (has_text_strip_nil _ E). reflexivity.
  - rewrite !map_map. induction HF as [|k ks Hk _ IH]; [reflexivity|]. cbn [map]. now rewrite Hk, IH.
Qed.

(* ------------------------------------------------------------------ *)
(* str.strip is idempotent                                             *)
(* ------------------------------------------------------------------ *)
Lemma lstrip_head s c r : lstrip s = c :: r -> is_py_space c = false.
Proof.
  induction s as [|a s IH]; [discriminate|]. cbn [lstrip].
  destruct (is_py_space a) eqn:E; [exact IH|]. intro H. inversion H; subst. exact E.
Qed.

Lemma lstrip_nonspace c r : is_py_space c = false -> lstrip (c :: r) = c :: r.
Proof. intro H. cbn [lstrip]. now rewrite H. Qed.

Lemma lstrip_fix s : lstrip (lstrip s) = lstrip s.
Proof.
  destruct (lstrip s) as [|c r] eqn:E; [reflexivity|].
  apply lstrip_nonspace. now apply (lstrip_head s c r).
Qed.

Lemma lstrip_split x : exists w, all_sp w = true /\ x = w ++ lstrip x.
Proof.
  induction x as [|c x [w [Hw Hx]]].
  - now exists [].
  - cbn [lstrip]. destruct (is_py_space c) eqn:E.
    + exists (c :: w). split; [unfold all_sp in *; cbn [forallb]; now rewrite E|]. cbn [app]. now f_equal.
    + now exists [].
Qed.

Lemma py_strip_idem s : py_strip (py_strip s) = py_strip s.
Proof.
  unfold py_strip. set (a := lstrip s). set (b := lstrip (rev a)).
  assert (Hb : lstrip (rev b) = rev b).
  { destruct (lstrip_split (rev a)) as [w [Hw Hx]]. fold b in Hx.
    destruct (rev b) as [|c r] eqn:Erb; [reflexivity|].
    apply lstrip_nonspace.
    assert (Ha : a = (c :: r) ++ rev w).
    { rewrite <- Erb, <- rev_app_distr, <- Hx. now rewrite rev_involutive. }
    unfold a in Ha. cbn [app] in Ha. now apply (lstrip_head s c (r ++ rev w)). }
  rewrite Hb, rev_involutive. unfold b. now rewrite lstrip_fix.
Qed.

(* ------------------------------------------------------------------ *)
(* what is read back is the tree that was serialised                   *)
(* ------------------------------------------------------------------ *)
Lemma canon_reread pr : forall t, canon (reread_gen pr t) = canon t.
Proof.
  apply elem_ind2. intros n attrs t kids HF. cbn [reread_gen canon]. f_equal.
  - rewrite map_map. apply map_ext. intros [a v]. reflexivity.
  - f_equal. f_equal. unfold reread_text. fold (txt_chars t).
    destruct kids as [|k ks]; cbn [map].
    + destruct (has_text t) eqn:E; [reflexivity|]. now rewrite (no_text_nil _ E).
    + destruct (pr || has_text t) eqn:E; cbn [t_chars].
      * apply py_strip_idem.
      * apply orb_false_iff in E as [_ E]. now rewrite (no_text_nil _ E).
  - rewrite map_map. induction HF as [|k ks Hk _ IH]; [reflexivity|]. cbn [map]. now rewrite Hk, IH.
Qed.

Lemma tree_roundtrip_l : forall pr i t,
  tree_ok t = true -> option_map canon (handler (events pr i t)) = Some (canon t).
Proof.
  intros pr i t H. rewrite (top_all pr t i H). cbn [option_map]. now rewrite canon_reread.
Qed.
