(* C04 - Encoder.decode undoes Encoder.encode on every string that contains
   no predefined entity reference (Text.unescape after Text.escape). *)
From SV Require Import Lib.Base Gen.C04Tables C04.Model C04.EncProofs.
From Coq Require Import ZifyBool ZifyNat ZifyN.
Local Open Scope N_scope.

Lemma decodings_shape :
  decodings = [(e_lt, [60]); (e_gt, [62]); (e_quot, [34]); (e_apos, [39]); (e_amp, [38])].
Proof. reflexivity. Qed.

(* stage k: the characters whose entity the first k decoding passes have
   already turned back are plain again *)
Definition tok (k : nat) (c : N) : str :=
  if c =? 60 then (if (1 <=? k)%nat then [c] else e_lt)
  else if c =? 62 then (if (2 <=? k)%nat then [c] else e_gt)
  else if c =? 34 then (if (3 <=? k)%nat then [c] else e_quot)
  else if c =? 39 then (if (4 <=? k)%nat then [c] else e_apos)
  else if c =? 38 then (if (5 <=? k)%nat then [c] else e_amp)
  else [c].

Definition stage (k : nat) (s : str) : str := flat_map (tok k) s.

Lemma enc1_stage0 s : has_entity_ref s = false -> enc1 s = stage 0 s.
Proof.
  induction s as [|c r IH]; [reflexivity|]. cbn [has_entity_ref]. intro H.
  apply orb_false_iff in H as [H1 H2]. unfold stage in *. cbn [enc1 flat_map]. rewrite (IH H2). f_equal.
  unfold enc_char, tok. cbn [Nat.leb].
  destruct (N.eqb_spec c 38) as [->|H38].
  - cbn [andb] in H1. change (38 =? AMP) with true in H1. cbn [andb] in H1.
    rewrite lookahead_entity_names in H1. rewrite H1. reflexivity.
  - destruct (c =? 60), (c =? 62), (c =? 34), (c =? 39); reflexivity.
Qed.

(* a character other than & is copied, whatever entity is being replaced *)
Lemma pass_plain o new c rest : c <> 38 ->
  replace_aux (38 :: o) new 0 (c :: rest) = c :: replace_aux (38 :: o) new 0 rest.
Proof.
  intro H. cbn [replace_aux is_prefix].
  replace (38 =? c) with false by (symmetry; apply N.eqb_neq; congruence). reflexivity.
Qed.

Ltac tok_cases c :=
  unfold tok; cbn [Nat.leb];
  destruct (N.eqb_spec c 60) as [->|?];
  [|destruct (N.eqb_spec c 62) as [->|?];
    [|destruct (N.eqb_spec c 34) as [->|?];
      [|destruct (N.eqb_spec c 39) as [->|?];
        [|destruct (N.eqb_spec c 38) as [->|?]]]]].

Lemma pass1 s : replace_aux e_lt [60] 0 (stage 0 s) = stage 1 s.
Proof.
  unfold stage. induction s as [|c r IH]; [reflexivity|]. cbn [flat_map]. rewrite <- IH.
  tok_cases c; try reflexivity. cbn [app]. now apply pass_plain.
Qed.

Lemma pass2 s : replace_aux e_gt [62] 0 (stage 1 s) = stage 2 s.
Proof.
  unfold stage. induction s as [|c r IH]; [reflexivity|]. cbn [flat_map]. rewrite <- IH.
  tok_cases c; try reflexivity. cbn [app]. now apply pass_plain.
Qed.

Lemma pass3 s : replace_aux e_quot [34] 0 (stage 2 s) = stage 3 s.
Proof.
  unfold stage. induction s as [|c r IH]; [reflexivity|]. cbn [flat_map]. rewrite <- IH.
  tok_cases c; try reflexivity. cbn [app]. now apply pass_plain.
Qed.

Lemma pass4 s : replace_aux e_apos [39] 0 (stage 3 s) = stage 4 s.
Proof.
  unfold stage. induction s as [|c r IH]; [reflexivity|]. cbn [flat_map]. rewrite <- IH.
  tok_cases c; try reflexivity. cbn [app]. now apply pass_plain.
Qed.

Lemma pass5 s : replace_aux e_amp [38] 0 (stage 4 s) = stage 5 s.
Proof.
  unfold stage. induction s as [|c r IH]; [reflexivity|]. cbn [flat_map]. rewrite <- IH.
  tok_cases c; try reflexivity. cbn [app]. now apply pass_plain.
Qed.

Lemma stage5 s : stage 5 s = s.
Proof.
  unfold stage. induction s as [|c r IH]; [reflexivity|]. cbn [flat_map]. rewrite IH.
  unfold tok. cbn [Nat.leb]. destruct (c =? 60), (c =? 62), (c =? 34), (c =? 39), (c =? 38); reflexivity.
Qed.

Lemma all_passes s :
  fold_left (fun acc p => replace_all (fst p) (snd p) acc) decodings (stage 0 s) = s.
Proof.
  rewrite decodings_shape. cbn [fold_left fst snd]. unfold replace_all, e_lt, e_gt, e_quot, e_apos, e_amp.
  fold e_lt e_gt e_quot e_apos e_amp.
  change (replace_aux (38 :: [108; 116; 59])) with (replace_aux e_lt).
  rewrite pass1.
  change (replace_aux (38 :: [103; 116; 59])) with (replace_aux e_gt). rewrite pass2.
  change (replace_aux (38 :: [113; 117; 111; 116; 59])) with (replace_aux e_quot). rewrite pass3.
  change (replace_aux (38 :: [97; 112; 111; 115; 59])) with (replace_aux e_apos). rewrite pass4.
  change (replace_aux (38 :: [97; 109; 112; 59])) with (replace_aux e_amp). rewrite pass5.
  apply stage5.
Qed.

(* without & nothing was encoded *)
Lemma stage0_no_amp s : mem AMP (stage 0 s) = false -> stage 0 s = s.
Proof.
  unfold stage. induction s as [|c r IH]; [reflexivity|]. cbn [flat_map]. intro H.
  assert (E : forall a b, mem AMP (a ++ b) = mem AMP a || mem AMP b).
  { intros a b. unfold mem. apply existsb_app. }
  rewrite E in H. apply orb_false_iff in H as [H1 H2]. rewrite (IH H2). f_equal.
  revert H1. unfold tok. cbn [Nat.leb].
  destruct (c =? 60); [discriminate|]. destruct (c =? 62); [discriminate|].
  destruct (c =? 34); [discriminate|]. destruct (c =? 39); [discriminate|].
  destruct (c =? 38); [discriminate|]. reflexivity.
Qed.

Lemma decode_encode_partial_l : forall s,
  has_entity_ref s = false -> decode (encode s) = s.
Proof.
  intros s H. rewrite encode_single_pass_l, (enc1_stage0 s H). unfold decode.
  destruct (mem AMP (stage 0 s)) eqn:E.
  - apply all_passes.
  - now apply stage0_no_amp.
Qed.

(* Text.unescape(Text.escape(t)) gives the characters back *)
Lemma unescape_escape_l : forall s,
  has_entity_ref s = false ->
  t_chars (text_unescape (text_escape (mkText s false))) = s.
Proof.
  intros s H. unfold text_escape. cbn [t_escaped t_chars]. unfold text_unescape. cbn [t_escaped t_chars].
  destruct (str_eqb (encode s) s) eqn:E; cbn [negb].
  - apply str_eqb_eq in E. exact E.
  - cbn [t_chars]. now apply decode_encode_partial_l.
Qed.
