(* C04 - lemmas about the request direction: Encoder.encode as a single pass,
   the serialised text / attribute value decoded by the XML rules. *)
From SV Require Import Lib.Base Gen.C04Tables C04.Model.
From Coq Require Import ZifyBool ZifyNat ZifyN.
Local Open Scope N_scope.

(* ------------------------------------------------------------------ *)
(* the tables, as the proofs below know them (fails here when suds'    *)
(* tables change)                                                      *)
(* ------------------------------------------------------------------ *)
Definition e_amp : str := [38;97;109;112;59].
Definition e_lt : str := [38;108;116;59].
Definition e_gt : str := [38;103;116;59].
Definition e_quot : str := [38;113;117;111;116;59].
Definition e_apos : str := [38;97;112;111;115;59].
Definition r_cr : str := [38;35;49;51;59].
Definition r_tab : str := [38;35;57;59].
Definition r_lf : str := [38;35;49;48;59].
Definition tnames : list str := [[97;109;112]; [108;116]; [103;116]; [113;117;111;116]; [97;112;111;115]].

Lemma encodings_shape :
  encodings = [(PatAmpNot tnames, e_amp); (PatChar 60, e_lt); (PatChar 62, e_gt);
               (PatChar 34, e_quot); (PatChar 39, e_apos)].
Proof. reflexivity. Qed.

Lemma special_shape : special = [38; 60; 62; 34; 39].
Proof. reflexivity. Qed.

Lemma text_charrefs_shape : text_charrefs = [(13, r_cr)].
Proof. reflexivity. Qed.

Lemma attr_charrefs_shape : attr_charrefs = [(9, r_tab); (10, r_lf); (13, r_cr)].
Proof. reflexivity. Qed.

(* ------------------------------------------------------------------ *)
(* Encoder.encode is one left-to-right pass                            *)
(* ------------------------------------------------------------------ *)
Definition enc_char (c : N) (r : str) : str :=
  if c =? 38 then (if lookahead tnames r then [38] else e_amp)
  else if c =? 60 then e_lt
  else if c =? 62 then e_gt
  else if c =? 34 then e_quot
  else if c =? 39 then e_apos
  else [c].

Fixpoint enc1 (s : str) : str :=
  match s with
  | [] => []
  | c :: r => enc_char c r ++ enc1 r
  end.

Lemma sub_char_app c rp x y : sub_char c rp (x ++ y) = sub_char c rp x ++ sub_char c rp y.
Proof.
  induction x as [|a x IH]; cbn; [reflexivity|].
  destruct (a =? c); rewrite IH; [rewrite app_assoc|]; reflexivity.
Qed.

Definition P4 (s : str) : str :=
  sub_char 39 e_apos (sub_char 34 e_quot (sub_char 62 e_gt (sub_char 60 e_lt s))).

Lemma P4_app x y : P4 (x ++ y) = P4 x ++ P4 y.
Proof. unfold P4. now rewrite !sub_char_app. Qed.

Lemma passes s : fold_left apply_pat encodings s = P4 (sub_amp_not tnames e_amp s).
Proof. reflexivity. Qed.

Ltac neq_false :=
  repeat match goal with
         | H : ?a <> ?b |- context [?a =? ?b] => rewrite (proj2 (N.eqb_neq a b) H)
         end.

Lemma P4_single c : c <> 38 -> P4 [c] = enc_char c [].
Proof.
  intro H38. unfold enc_char. neq_false.
  destruct (N.eqb_spec c 60) as [->|H60]; [reflexivity|].
  destruct (N.eqb_spec c 62) as [->|H62]; [reflexivity|].
  destruct (N.eqb_spec c 34) as [->|H34]; [reflexivity|].
  destruct (N.eqb_spec c 39) as [->|H39]; [reflexivity|].
  unfold P4. cbn. neq_false. cbn. neq_false. cbn. neq_false. cbn. neq_false. reflexivity.
Qed.

Lemma enc_char_rest c r r' : c <> 38 -> enc_char c r = enc_char c r'.
Proof. intro H. unfold enc_char. neq_false. reflexivity. Qed.

Lemma passes_enc1 s : P4 (sub_amp_not tnames e_amp s) = enc1 s.
Proof.
  induction s as [|c r IH]; [reflexivity|].
  cbn [sub_amp_not enc1].
  destruct (N.eqb_spec c 38) as [->|H38].
  - unfold enc_char. cbn [N.eqb Pos.eqb andb AMP].
    change (38 =? AMP) with true. cbn [andb].
    destruct (lookahead tnames r); cbn [negb].
    + change (38 :: sub_amp_not tnames e_amp r) with ([38] ++ sub_amp_not tnames e_amp r).
      rewrite P4_app, IH. reflexivity.
    + rewrite P4_app, IH. reflexivity.
  - replace ((c =? AMP) && negb (lookahead tnames r)) with false
      by (unfold AMP; neq_false; reflexivity).
    change (c :: sub_amp_not tnames e_amp r) with ([c] ++ sub_amp_not tnames e_amp r).
    rewrite P4_app, IH, (P4_single c H38), (enc_char_rest c [] r H38). reflexivity.
Qed.

Lemma mem_cons c x r : mem c (x :: r) = (c =? x) || mem c r.
Proof. reflexivity. Qed.

Lemma needs_encoding_cons c r :
  needs_encoding (c :: r) =
  ((c =? 38) || (c =? 60) || (c =? 62) || (c =? 34) || (c =? 39)) || needs_encoding r.
Proof.
  unfold needs_encoding. rewrite special_shape. cbn [existsb]. rewrite !mem_cons.
  rewrite (N.eqb_sym 38 c), (N.eqb_sym 60 c), (N.eqb_sym 62 c), (N.eqb_sym 34 c), (N.eqb_sym 39 c).
  destruct (c =? 38), (c =? 60), (c =? 62), (c =? 34), (c =? 39),
    (mem 38 r), (mem 60 r), (mem 62 r), (mem 34 r), (mem 39 r); reflexivity.
Qed.

Lemma enc1_plain s : needs_encoding s = false -> enc1 s = s.
Proof.
  induction s as [|c r IH]; [reflexivity|].
  rewrite needs_encoding_cons. intro H.
  apply orb_false_iff in H as [H1 H2].
  cbn [enc1]. rewrite (IH H2). unfold enc_char.
  destruct (c =? 38), (c =? 60), (c =? 62), (c =? 34), (c =? 39); try discriminate. reflexivity.
Qed.

Lemma encode_single_pass_l : forall s, encode s = enc1 s.
Proof.
  intro s. unfold encode. destruct (needs_encoding s) eqn:E.
  - rewrite passes. apply passes_enc1.
  - symmetry. now apply enc1_plain.
Qed.

(* ------------------------------------------------------------------ *)
(* the serialised forms as one pass                                    *)
(* ------------------------------------------------------------------ *)
Definition txt_char (c : N) (r : str) : str := if c =? 13 then r_cr else enc_char c r.
Fixpoint rt1 (s : str) : str :=
  match s with [] => [] | c :: r => txt_char c r ++ rt1 r end.

Definition att_char (c : N) (r : str) : str :=
  if c =? 9 then r_tab else if c =? 10 then r_lf else if c =? 13 then r_cr else enc_char c r.
Fixpoint ra1 (s : str) : str :=
  match s with [] => [] | c :: r => att_char c r ++ ra1 r end.

Lemma enc_char_cases c r :
  enc_char c r = [38] \/ enc_char c r = e_amp \/ enc_char c r = e_lt \/ enc_char c r = e_gt
  \/ enc_char c r = e_quot \/ enc_char c r = e_apos
  \/ (enc_char c r = [c] /\ c <> 38 /\ c <> 60 /\ c <> 62 /\ c <> 34 /\ c <> 39).
Proof.
  unfold enc_char.
  destruct (N.eqb_spec c 38); [destruct (lookahead tnames r); tauto|].
  destruct (N.eqb_spec c 60); [tauto|].
  destruct (N.eqb_spec c 62); [tauto|].
  destruct (N.eqb_spec c 34); [tauto|].
  destruct (N.eqb_spec c 39); [tauto|].
  do 6 right. tauto.
Qed.

Lemma sub13_enc_char c r : sub_char 13 r_cr (enc_char c r) = txt_char c r.
Proof.
  unfold txt_char.
  destruct (N.eqb_spec c 13) as [->|H13]; [reflexivity|].
  destruct (enc_char_cases c r) as [E|[E|[E|[E|[E|[E|[E _]]]]]]]; rewrite E; try reflexivity.
  cbn. neq_false. reflexivity.
Qed.

Lemma text_one_pass s : sub_char 13 r_cr (enc1 s) = rt1 s.
Proof.
  induction s as [|c r IH]; [reflexivity|].
  cbn [enc1 rt1]. now rewrite sub_char_app, IH, sub13_enc_char.
Qed.

Lemma request_text_rt1 s : request_text s = rt1 s.
Proof.
  unfold request_text, render_text, text_escape. cbn [t_escaped t_chars].
  rewrite text_charrefs_shape. cbn [apply_charrefs fold_left fst snd].
  rewrite encode_single_pass_l. apply text_one_pass.
Qed.

Definition A3 (s : str) : str := sub_char 13 r_cr (sub_char 10 r_lf (sub_char 9 r_tab s)).

Lemma A3_app x y : A3 (x ++ y) = A3 x ++ A3 y.
Proof. unfold A3. now rewrite !sub_char_app. Qed.

Lemma A3_enc_char c r : A3 (enc_char c r) = att_char c r.
Proof.
  unfold att_char.
  destruct (N.eqb_spec c 9) as [->|H9]; [reflexivity|].
  destruct (N.eqb_spec c 10) as [->|H10]; [reflexivity|].
  destruct (N.eqb_spec c 13) as [->|H13]; [reflexivity|].
  destruct (enc_char_cases c r) as [E|[E|[E|[E|[E|[E|[E _]]]]]]]; rewrite E; try reflexivity.
  unfold A3. cbn. neq_false. cbn. neq_false. cbn. neq_false. reflexivity.
Qed.

Lemma attr_one_pass s : A3 (enc1 s) = ra1 s.
Proof.
  induction s as [|c r IH]; [reflexivity|].
  cbn [enc1 ra1]. now rewrite A3_app, IH, A3_enc_char.
Qed.

Lemma render_attr_ra1 v : render_attr_value (mkText v false) = ra1 v.
Proof.
  unfold render_attr_value, text_escape. cbn [t_escaped t_chars].
  rewrite attr_charrefs_shape. cbn [apply_charrefs fold_left fst snd].
  rewrite encode_single_pass_l. apply attr_one_pass.
Qed.

(* ------------------------------------------------------------------ *)
(* what the receiver reads: s with the entity references it already    *)
(* contained decoded once                                              *)
(* ------------------------------------------------------------------ *)
Definition ent_lookup (r : str) : option (str * N) :=
  find (fun e => is_prefix (fst e ++ [SEMI]) r) predefined.

Fixpoint collapse_aux (skip : nat) (s : str) : str :=
  match s with
  | [] => []
  | c :: r =>
    match skip with
    | S k => collapse_aux k r
    | O => if c =? AMP
           then match ent_lookup r with
                | Some (name, ch) => ch :: collapse_aux (S (length name)) r
                | None => c :: collapse_aux 0 r
                end
           else c :: collapse_aux 0 r
    end
  end.
Definition collapse (s : str) : str := collapse_aux 0 s.

Lemma collapse_skip p x : collapse_aux (length p) (p ++ x) = collapse_aux 0 x.
Proof.
  induction p as [|a p IH]; [reflexivity|]. cbn [length app collapse_aux]. exact IH.
Qed.

Lemma lookahead_tnames r :
  lookahead tnames r = existsb (fun e => is_prefix (fst e ++ [SEMI]) r) predefined.
Proof.
  unfold lookahead, tnames, predefined. cbn [existsb fst].
  destruct (is_prefix ([97; 109; 112] ++ [SEMI]) r), (is_prefix ([108; 116] ++ [SEMI]) r),
    (is_prefix ([103; 116] ++ [SEMI]) r), (is_prefix ([113; 117; 111; 116] ++ [SEMI]) r),
    (is_prefix ([97; 112; 111; 115] ++ [SEMI]) r); reflexivity.
Qed.

Lemma lookahead_entity_names r : lookahead entity_names r = lookahead tnames r.
Proof.
  rewrite lookahead_tnames. unfold lookahead, entity_names.
  induction predefined as [|e l IH]; [reflexivity|]. cbn [map existsb]. now rewrite IH.
Qed.

Lemma lookahead_lookup r :
  lookahead tnames r = match ent_lookup r with Some _ => true | None => false end.
Proof.
  rewrite lookahead_tnames. unfold ent_lookup.
  induction predefined as [|e l IH]; [reflexivity|].
  cbn [existsb find]. cbv beta.
  match goal with |- context [is_prefix ?a ?b] => destruct (is_prefix a b) end; cbn [orb]; [reflexivity|exact IH].
Qed.

Lemma is_prefix_split p s : is_prefix p s = true -> exists x, s = p ++ x.
Proof.
  revert s; induction p as [|a p IH]; intros s H.
  - now exists s.
  - destruct s as [|b s]; [discriminate|]. cbn in H.
    apply andb_true_iff in H as [H1 H2]. apply N.eqb_eq in H1. subst b.
    destruct (IH _ H2) as [x ->]. now exists x.
Qed.

Lemma ent_lookup_some r name ch :
  ent_lookup r = Some (name, ch) ->
  In (name, ch) predefined /\ exists x, r = name ++ SEMI :: x.
Proof.
  unfold ent_lookup. intro H. apply find_some in H as [H1 H2]. split; [exact H1|].
  cbn [fst] in H2. apply is_prefix_split in H2 as [x ->]. exists x. now rewrite <- app_assoc.
Qed.

Lemma collapse_no_entity s : has_entity_ref s = false -> collapse s = s.
Proof.
  unfold collapse. induction s as [|c r IH]; [reflexivity|].
  cbn [has_entity_ref collapse_aux]. intro H. apply orb_false_iff in H as [H1 H2].
  rewrite (IH H2). destruct (c =? AMP); [|reflexivity].
  cbn [andb] in H1. rewrite lookahead_entity_names, lookahead_lookup in H1.
  destruct (ent_lookup r); [discriminate|reflexivity].
Qed.

(* ------------------------------------------------------------------ *)
(* facts about references used by both decoders                        *)
(* ------------------------------------------------------------------ *)
Lemma split_semi_app name x : mem SEMI name = false -> split_semi (name ++ SEMI :: x) = Some (name, x).
Proof.
  induction name as [|a name IH]; intro H.
  - reflexivity.
  - rewrite mem_cons in H. apply orb_false_iff in H as [H1 H2].
    cbn [app split_semi]. rewrite N.eqb_sym, H1, (IH H2). reflexivity.
Qed.

Definition plainc (c : N) : bool := negb (mem c [38;60;62;34;39;13;9;10]).

Lemma predefined_facts name ch :
  In (name, ch) predefined ->
  mem SEMI name = false /\ ref_value name = Some ch /\ is_xml_char ch = true
  /\ forallb plainc name = true.
Proof.
  intro H. cbn in H.
  repeat (destruct H as [H|H]; [inversion H; subst; repeat split; reflexivity|]). destruct H.
Qed.

Lemma plainc_neq c : plainc c = true ->
  c <> 38 /\ c <> 60 /\ c <> 62 /\ c <> 34 /\ c <> 39 /\ c <> 13 /\ c <> 9 /\ c <> 10.
Proof.
  unfold plainc. cbn [mem existsb]. intro H.
  repeat split; intro E; subst c; discriminate.
Qed.

Lemma enc_char_plain c r : plainc c = true -> enc_char c r = [c].
Proof.
  intro H. apply plainc_neq in H as (?&?&?&?&?&?&?&?). unfold enc_char. neq_false. reflexivity.
Qed.

Lemma rt1_plain p x : forallb plainc p = true -> rt1 (p ++ x) = p ++ rt1 x.
Proof.
  induction p as [|a p IH]; [reflexivity|]. cbn [forallb]. intro H.
  apply andb_true_iff in H as [H1 H2]. cbn [app rt1]. rewrite (IH H2).
  unfold txt_char. rewrite (enc_char_plain _ _ H1).
  apply plainc_neq in H1 as (?&?&?&?&?&?&?&?). neq_false. reflexivity.
Qed.

Lemma ra1_plain p x : forallb plainc p = true -> ra1 (p ++ x) = p ++ ra1 x.
Proof.
  induction p as [|a p IH]; [reflexivity|]. cbn [forallb]. intro H.
  apply andb_true_iff in H as [H1 H2]. cbn [app ra1]. rewrite (IH H2).
  unfold att_char. rewrite (enc_char_plain _ _ H1).
  apply plainc_neq in H1 as (?&?&?&?&?&?&?&?). neq_false. reflexivity.
Qed.

(* ------------------------------------------------------------------ *)
(* one step of the chardata decoder                                    *)
(* ------------------------------------------------------------------ *)
Lemma cd_dec_ref f k name ch x :
  mem SEMI name = false -> ref_value name = Some ch ->
  cd_dec (S f) k (AMP :: name ++ SEMI :: x) = option_map (cons ch) (cd_dec f 0 x).
Proof.
  intros H1 H2. cbn [cd_dec]. change (AMP =? AMP) with true. cbn iota.
  now rewrite (split_semi_app _ _ H1), H2.
Qed.

Lemma cd_dec_plain f k c x :
  c <> 38 -> c <> 60 -> c <> 13 -> c <> 62 -> is_xml_char c = true ->
  cd_dec (S f) k (c :: x) = option_map (cons c) (cd_dec f (if c =? RB then S k else O) x).
Proof.
  intros. cbn [cd_dec]. unfold AMP, LT, CR, GT. neq_false. cbn [andb]. now rewrite H3.
Qed.

Lemma cd_dec_nil f k : cd_dec (S f) k [] = Some [].
Proof. reflexivity. Qed.

Lemma app_length_lt {A} (a b : list A) n : (length (a ++ b) < n)%nat -> (length b < n - length a)%nat.
Proof. rewrite app_length. lia. Qed.

(* the main lemma of the request direction, element text *)
Lemma cd_dec_rt1 : forall n s k,
  (length (rt1 s) < n)%nat -> chars_legal s = true ->
  cd_dec n k (rt1 s) = Some (collapse s).
Proof.
  induction n as [|n IH]; intros s k Hlen Hleg; [lia|].
  destruct s as [|c r]; [reflexivity|].
  cbn [chars_legal forallb] in Hleg. apply andb_true_iff in Hleg as [Hc Hr].
  cbn [rt1] in *. unfold collapse. cbn [collapse_aux]. unfold txt_char in *.
  destruct (N.eqb_spec c 13) as [->|H13].
  { (* CR -> &#13; *)
    change (r_cr ++ rt1 r) with (AMP :: [35;49;51] ++ SEMI :: rt1 r) in *.
    rewrite (cd_dec_ref n k [35;49;51] 13) by reflexivity.
    rewrite IH; [reflexivity| |exact Hr]. cbn [length app] in Hlen. lia. }
  unfold enc_char in *.
  destruct (N.eqb_spec c 38) as [->|H38].
  { change (38 =? AMP) with true. rewrite lookahead_lookup in *.
    destruct (ent_lookup r) as [[name ch]|] eqn:E.
    - (* an entity reference already in s: the & is kept *)
      apply ent_lookup_some in E as [Hin [x ->]].
      destruct (predefined_facts _ _ Hin) as (Hsemi & Hval & Hch & Hplain).
      assert (Hp : forallb plainc (name ++ [SEMI]) = true).
      { rewrite forallb_app. cbn. now rewrite Hplain. }
      assert (Hx : chars_legal x = true).
      { unfold chars_legal in Hr. rewrite forallb_app in Hr. apply andb_true_iff in Hr as [_ Hx].
        cbn [forallb] in Hx. apply andb_true_iff in Hx as [_ Hx]. exact Hx. }
      assert (Ert : rt1 (name ++ SEMI :: x) = name ++ SEMI :: rt1 x).
      { replace (name ++ SEMI :: x) with ((name ++ [SEMI]) ++ x) by (now rewrite <- app_assoc).
        rewrite (rt1_plain _ _ Hp). now rewrite <- app_assoc. }
      rewrite Ert in *. cbn [app] in *.
      rewrite (cd_dec_ref n k name ch) by assumption.
      rewrite IH; [| |exact Hx].
      2: { cbn [length] in Hlen. rewrite app_length in Hlen. cbn [length] in Hlen. lia. }
      cbn [option_map]. f_equal. f_equal.
      replace (name ++ SEMI :: x) with ((name ++ [SEMI]) ++ x) by now rewrite <- app_assoc.
      replace (S (length name)) with (length (name ++ [SEMI])) by (rewrite app_length; cbn; lia).
      now rewrite collapse_skip.
    - (* a bare & -> &amp; *)
      change (e_amp ++ rt1 r) with (AMP :: [97;109;112] ++ SEMI :: rt1 r) in *.
      rewrite (cd_dec_ref n k [97;109;112] 38) by reflexivity.
      rewrite IH; [reflexivity| |exact Hr]. cbn [length app] in Hlen. lia. }
  replace (c =? AMP) with false by (unfold AMP; neq_false; reflexivity).
  destruct (N.eqb_spec c 60) as [->|H60].
  { change (e_lt ++ rt1 r) with (AMP :: [108;116] ++ SEMI :: rt1 r) in *.
    rewrite (cd_dec_ref n k [108;116] 60) by reflexivity.
    rewrite IH; [reflexivity| |exact Hr]. cbn [length app] in Hlen. lia. }
  destruct (N.eqb_spec c 62) as [->|H62].
  { change (e_gt ++ rt1 r) with (AMP :: [103;116] ++ SEMI :: rt1 r) in *.
    rewrite (cd_dec_ref n k [103;116] 62) by reflexivity.
    rewrite IH; [reflexivity| |exact Hr]. cbn [length app] in Hlen. lia. }
  destruct (N.eqb_spec c 34) as [->|H34].
  { change (e_quot ++ rt1 r) with (AMP :: [113;117;111;116] ++ SEMI :: rt1 r) in *.
    rewrite (cd_dec_ref n k [113;117;111;116] 34) by reflexivity.
    rewrite IH; [reflexivity| |exact Hr]. cbn [length app] in Hlen. lia. }
  destruct (N.eqb_spec c 39) as [->|H39].
  { change (e_apos ++ rt1 r) with (AMP :: [97;112;111;115] ++ SEMI :: rt1 r) in *.
    rewrite (cd_dec_ref n k [97;112;111;115] 39) by reflexivity.
    rewrite IH; [reflexivity| |exact Hr]. cbn [length app] in Hlen. lia. }
  cbn [app] in *. rewrite cd_dec_plain by assumption.
  rewrite IH; [reflexivity| |exact Hr]. cbn [length] in Hlen. lia.
Qed.

Lemma text_roundtrip_exact_l : forall s,
  chars_legal s = true -> xml_chardata_decode (request_text s) = Some (collapse s).
Proof.
  intros s H. unfold xml_chardata_decode. rewrite request_text_rt1.
  apply cd_dec_rt1; [lia|exact H].
Qed.

Lemma encode_wellformed_l : forall s,
  chars_legal s = true -> exists v, xml_chardata_decode (request_text s) = Some v.
Proof. intros s H. eexists. now apply text_roundtrip_exact_l. Qed.

Lemma text_roundtrip_partial_l : forall s,
  chars_legal s = true -> has_entity_ref s = false ->
  xml_chardata_decode (request_text s) = Some s.
Proof.
  intros s H1 H2. rewrite (text_roundtrip_exact_l s H1). now rewrite collapse_no_entity.
Qed.

Lemma text_roundtrip_refuted_l :
  exists s, chars_legal s = true /\ xml_chardata_decode (request_text s) <> Some s.
Proof. exists [38;108;116;59]. split; [reflexivity|]. vm_compute. discriminate. Qed.

(* ------------------------------------------------------------------ *)
(* attribute values                                                    *)
(* ------------------------------------------------------------------ *)
Lemma att_dec_ref f q name ch x :
  mem SEMI name = false -> ref_value name = Some ch ->
  att_dec (S f) q (AMP :: name ++ SEMI :: x) = option_map (cons ch) (att_dec f q x).
Proof.
  intros H1 H2. cbn [att_dec]. change (AMP =? AMP) with true. cbn iota.
  now rewrite (split_semi_app _ _ H1), H2.
Qed.

Lemma att_dec_plain f q c x :
  c <> 38 -> c <> 60 -> c <> q -> c <> 13 -> c <> 10 -> c <> 9 -> is_xml_char c = true ->
  att_dec (S f) q (c :: x) = option_map (cons c) (att_dec f q x).
Proof.
  intros. cbn [att_dec]. unfold AMP, LT, CR, LF, TAB. neq_false. cbn [orb]. now rewrite H5.
Qed.

Lemma att_dec_ra1 : forall n s,
  (length (ra1 s) < n)%nat -> chars_legal s = true ->
  att_dec n QUOT (ra1 s) = Some (collapse s).
Proof.
  induction n as [|n IH]; intros s Hlen Hleg; [lia|].
  destruct s as [|c r]; [reflexivity|].
  cbn [chars_legal forallb] in Hleg. apply andb_true_iff in Hleg as [Hc Hr].
  cbn [ra1] in *. unfold collapse. cbn [collapse_aux]. unfold att_char in *.
  destruct (N.eqb_spec c 9) as [->|H9].
  { change (r_tab ++ ra1 r) with (AMP :: [35;57] ++ SEMI :: ra1 r) in *.
    rewrite (att_dec_ref n QUOT [35;57] 9) by reflexivity.
    rewrite IH; [reflexivity| |exact Hr]. cbn [length app] in Hlen. lia. }
  destruct (N.eqb_spec c 10) as [->|H10].
  { change (r_lf ++ ra1 r) with (AMP :: [35;49;48] ++ SEMI :: ra1 r) in *.
    rewrite (att_dec_ref n QUOT [35;49;48] 10) by reflexivity.
    rewrite IH; [reflexivity| |exact Hr]. cbn [length app] in Hlen. lia. }
  destruct (N.eqb_spec c 13) as [->|H13].
  { change (r_cr ++ ra1 r) with (AMP :: [35;49;51] ++ SEMI :: ra1 r) in *.
    rewrite (att_dec_ref n QUOT [35;49;51] 13) by reflexivity.
    rewrite IH; [reflexivity| |exact Hr]. cbn [length app] in Hlen. lia. }
  unfold enc_char in *.
  destruct (N.eqb_spec c 38) as [->|H38].
  { change (38 =? AMP) with true. rewrite lookahead_lookup in *.
    destruct (ent_lookup r) as [[name ch]|] eqn:E.
    - apply ent_lookup_some in E as [Hin [x ->]].
      destruct (predefined_facts _ _ Hin) as (Hsemi & Hval & Hch & Hplain).
      assert (Hp : forallb plainc (name ++ [SEMI]) = true).
      { rewrite forallb_app. cbn. now rewrite Hplain. }
      assert (Hx : chars_legal x = true).
      { unfold chars_legal in Hr. rewrite forallb_app in Hr. apply andb_true_iff in Hr as [_ Hx].
        cbn [forallb] in Hx. apply andb_true_iff in Hx as [_ Hx]. exact Hx. }
      assert (Ert : ra1 (name ++ SEMI :: x) = name ++ SEMI :: ra1 x).
      { replace (name ++ SEMI :: x) with ((name ++ [SEMI]) ++ x) by (now rewrite <- app_assoc).
        rewrite (ra1_plain _ _ Hp). now rewrite <- app_assoc. }
      rewrite Ert in *. cbn [app] in *.
      rewrite (att_dec_ref n QUOT name ch) by assumption.
      rewrite IH; [| |exact Hx].
      2: { cbn [length] in Hlen. rewrite app_length in Hlen. cbn [length] in Hlen. lia. }
      cbn [option_map]. f_equal. f_equal.
      replace (name ++ SEMI :: x) with ((name ++ [SEMI]) ++ x) by now rewrite <- app_assoc.
      replace (S (length name)) with (length (name ++ [SEMI])) by (rewrite app_length; cbn; lia).
      now rewrite collapse_skip.
    - change (e_amp ++ ra1 r) with (AMP :: [97;109;112] ++ SEMI :: ra1 r) in *.
      rewrite (att_dec_ref n QUOT [97;109;112] 38) by reflexivity.
      rewrite IH; [reflexivity| |exact Hr]. cbn [length app] in Hlen. lia. }
  replace (c =? AMP) with false by (unfold AMP; neq_false; reflexivity).
  destruct (N.eqb_spec c 60) as [->|H60].
  { change (e_lt ++ ra1 r) with (AMP :: [108;116] ++ SEMI :: ra1 r) in *.
    rewrite (att_dec_ref n QUOT [108;116] 60) by reflexivity.
    rewrite IH; [reflexivity| |exact Hr]. cbn [length app] in Hlen. lia. }
  destruct (N.eqb_spec c 62) as [->|H62].
  { change (e_gt ++ ra1 r) with (AMP :: [103;116] ++ SEMI :: ra1 r) in *.
    rewrite (att_dec_ref n QUOT [103;116] 62) by reflexivity.
    rewrite IH; [reflexivity| |exact Hr]. cbn [length app] in Hlen. lia. }
  destruct (N.eqb_spec c 34) as [->|H34].
  { change (e_quot ++ ra1 r) with (AMP :: [113;117;111;116] ++ SEMI :: ra1 r) in *.
    rewrite (att_dec_ref n QUOT [113;117;111;116] 34) by reflexivity.
    rewrite IH; [reflexivity| |exact Hr]. cbn [length app] in Hlen. lia. }
  destruct (N.eqb_spec c 39) as [->|H39].
  { change (e_apos ++ ra1 r) with (AMP :: [97;112;111;115] ++ SEMI :: ra1 r) in *.
    rewrite (att_dec_ref n QUOT [97;112;111;115] 39) by reflexivity.
    rewrite IH; [reflexivity| |exact Hr]. cbn [length app] in Hlen. lia. }
  cbn [app] in *. rewrite att_dec_plain by (unfold QUOT; assumption).
  rewrite IH; [reflexivity| |exact Hr]. cbn [length] in Hlen. lia.
Qed.

Lemma attr_value_exact_l : forall v,
  chars_legal v = true ->
  xml_attvalue_decode QUOT (render_attr_value (mkText v false)) = Some (collapse v).
Proof.
  intros v H. unfold xml_attvalue_decode. rewrite render_attr_ra1.
  apply att_dec_ra1; [lia|exact H].
Qed.

Lemma attr_wellformed_l : forall scope pi s raw,
  request_attr scope pi s = Some raw ->
  (forall v, refit_value scope pi s = Some v -> chars_legal v = true) ->
  exists v, xml_attvalue_decode QUOT raw = Some v.
Proof.
  intros scope pi s raw H L. unfold request_attr in H.
  destruct (refit_value scope pi s) as [v|] eqn:E; [|discriminate].
  inversion H; subst. eexists. apply attr_value_exact_l. now apply L.
Qed.

Lemma attr_roundtrip_partial_l : forall scope pi s,
  chars_legal s = true -> has_entity_ref s = false -> qname_rewritten scope pi s = false ->
  exists raw, request_attr scope pi s = Some raw /\ xml_attvalue_decode QUOT raw = Some s.
Proof.
  intros scope pi s H1 H2 H3. unfold qname_rewritten in H3. unfold request_attr.
  destruct (refit_value scope pi s) as [v|]; [|discriminate].
  apply negb_false_iff, str_eqb_eq in H3. subst v.
  eexists. split; [reflexivity|].
  rewrite (attr_value_exact_l s H1). now rewrite collapse_no_entity.
Qed.

Lemma attr_roundtrip_refuted_entity_l :
  exists s, chars_legal s = true /\ qname_rewritten [] [] s = false /\
            request_attr [] [] s <> None /\
            forall raw, request_attr [] [] s = Some raw -> xml_attvalue_decode QUOT raw <> Some s.
Proof.
  exists [38;108;116;59]. repeat split; try reflexivity; try discriminate.
  intros raw H. vm_compute in H. inversion H; subst. vm_compute. discriminate.
Qed.

(* p:x with p bound to urn:a, which the normaliser calls ns0 *)
Lemma attr_roundtrip_refuted_qname_l :
  exists scope pi s, chars_legal s = true /\ has_entity_ref s = false /\
    exists raw v, request_attr scope pi s = Some raw /\ xml_attvalue_decode QUOT raw = Some v /\ v <> s.
Proof.
  exists [([112], [117;114;110;58;97])], [([117;114;110;58;97], [110;115;48])], [112;58;120].
  split; [reflexivity|]. split; [reflexivity|].
  eexists. eexists. split; [vm_compute; reflexivity|]. split; [vm_compute; reflexivity|]. discriminate.
Qed.

(* ------------------------------------------------------------------ *)
(* the escaped flag: escaping twice is escaping once                   *)
(* ------------------------------------------------------------------ *)
Lemma escape_once_l : forall t,
  t_chars (text_escape (text_escape t)) = t_chars (text_escape t) \/
  t_escaped (text_escape t) = false.
Proof.
  intro t. unfold text_escape at 1.
  destruct (t_escaped (text_escape t)) eqn:E; [left; reflexivity|right; reflexivity].
Qed.

(* escaped = false after escape means nothing needed escaping, and then a
   second escape changes nothing either *)
Lemma escape_idempotent_l : forall t,
  t_chars (text_escape (text_escape t)) = t_chars (text_escape t).
Proof.
  intro t. unfold text_escape at 1.
  destruct (t_escaped (text_escape t)) eqn:E; [reflexivity|].
  cbn [t_chars]. unfold text_escape in *.
  destruct (t_escaped t) eqn:Et.
  - congruence.
  - cbn [t_chars t_escaped] in *. apply negb_false_iff, str_eqb_eq in E. now rewrite E, E.
Qed.
