(* C04 - requests as whole documents: the characters Document.plain() / str()
   write for an element tree with prefixes and namespace declarations, cut by
   the XML grammar, decoded and namespace-resolved, are the tree suds meant. *)
From SV Require Import Lib.Base Gen.C04Tables C04.Model C04.EncProofs C04.TreeProofs C04.Tokens
     C04.TokenProofs C04.Chunks C04.PrettyTokens C04.NsModel.
From Coq Require Import ZifyBool ZifyNat ZifyN.
Local Open Scope N_scope.

(* ------------------------------------------------------------------ *)
(* the tree builder of the specification and the Handler agree up to   *)
(* canon (absent text = empty text, text of non-leaf elements trimmed) *)
(* ------------------------------------------------------------------ *)
Definition spec_close (buf : list str) (n : nat) : option text := Some (mkText (concat (rev buf)) false).

Definition frel (f1 f2 : frame) : Prop :=
  f_name f1 = f_name f2 /\ f_attrs f1 = f_attrs f2 /\ f_buf f1 = f_buf f2
  /\ map canon (f_kids f1) = map canon (f_kids f2).

Lemma canon_closed f1 f2 : frel f1 f2 ->
  canon (close_frame spec_close f1) = canon (close_frame close_text f2).
Proof.
  intros (H1 & H2 & H3 & H4). unfold close_frame. cbn [canon]. rewrite H1, H2, H3.
  assert (L : length (f_kids f1) = length (f_kids f2)).
  { rewrite <- (map_length canon (f_kids f1)), H4. apply map_length. }
  f_equal.
  - f_equal. f_equal. unfold spec_close, close_text. cbn [t_chars].
    destruct (f_buf f2) as [|b l] eqn:Eb.
    + cbn. destruct (rev (f_kids f1)), (rev (f_kids f2)); reflexivity.
    + assert (K : forall (A : Type) (l : list A), (rev l = []) <-> (length l = 0)%nat).
      { intros A l0. rewrite <- (rev_length l0). destruct (rev l0); cbn; split; congruence || lia. }
      destruct (rev (f_kids f1)) as [|k1 r1] eqn:E1, (rev (f_kids f2)) as [|k2 r2] eqn:E2.
      * apply K in E2. rewrite E2. reflexivity.
      * apply K in E1. assert (E2' : rev (f_kids f2) <> []) by (rewrite E2; discriminate).
        exfalso. apply E2'. apply K. lia.
      * apply K in E2. assert (E1' : rev (f_kids f1) <> []) by (rewrite E1; discriminate).
        exfalso. apply E1'. apply K. lia.
      * destruct (length (f_kids f2)) eqn:E3.
        { assert (E2' : rev (f_kids f2) <> []) by (rewrite E2; discriminate). exfalso. apply E2'. now apply K. }
        unfold text_trim. cbn [t_chars]. now rewrite py_strip_idem.
  - rewrite !map_rev. now rewrite H4.
Qed.

Lemma canon_sim : forall evs st1 st2 r1 r2,
  Forall2 frel st1 st2 -> option_map canon r1 = option_map canon r2 ->
  option_map canon (run_handler spec_close evs st1 r1) = option_map canon (run_handler close_text evs st2 r2).
Proof.
  induction evs as [|e evs IH]; intros st1 st2 r1 r2 H Hr.
  - cbn. destruct H; [exact Hr|reflexivity].
  - destruct e as [n attrs|s|n]; cbn [run_handler].
    + apply IH; [|exact Hr]. constructor; [repeat split|exact H].
    + destruct H as [|f1 f2 st1 st2 Hf Hst]; [reflexivity|].
      apply IH; [|exact Hr]. constructor; [|exact Hst].
      destruct Hf as (H1 & H2 & H3 & H4). repeat split; cbn [f_name f_attrs f_kids f_buf]; congruence.
    + destruct H as [|f1 f2 st1 st2 Hf Hst]; [reflexivity|].
      pose proof (canon_closed _ _ Hf) as Ec. destruct Hf as (H1 & Hf').
      rewrite H1. destruct (str_eqb n (f_name f2)); [|reflexivity].
      destruct Hst as [|p1 p2 st1 st2 Hp Hst].
      * apply IH; [constructor|]. cbn [option_map]. now rewrite Ec.
      * apply IH; [|exact Hr]. constructor; [|exact Hst].
        destruct Hp as (P1 & P2 & P3 & P4). repeat split; cbn [f_name f_attrs f_kids f_buf]; auto.
        cbn [map]. now rewrite Ec, P4.
Qed.

Lemma spec_tree_canon_l : forall evs,
  option_map canon (tree_of_events evs) = option_map canon (handler evs).
Proof. intro evs. unfold tree_of_events, handler. apply canon_sim; [constructor|reflexivity]. Qed.

(* ------------------------------------------------------------------ *)
(* guards                                                              *)
(* ------------------------------------------------------------------ *)
Definition uri_ok (u : str) : bool := nonempty u && forallb plainc u && chars_legal u.

Definition no_colon (s : str) : bool := negb (mem COLON s).

Definition prefix_ok (p : str) : bool :=
  nonempty p && forallb name_char p && no_colon p && negb (str_eqb p xml_prefix).

Fixpoint keys_nodup (l : list (str * str)) : bool :=
  match l with
  | [] => true
  | (k, _) :: r => match assoc k r with Some _ => false | None => keys_nodup r end
  end.

Definition attr_ok (a : str * text) : bool :=
  val_ok (snd a) && name_ok (fst a) && negb (is_prefix [COLON] (fst a))
  && match decl_of a with Some _ => false | None => true end.

Fixpoint nelem_ok (e : nelem) : bool :=
  match e with
  | NEl pf n ex nsp attrs t kids =>
    name_ok (qname pf n) && no_colon n
    && match pf with Some p => nonempty p && no_colon p | None => true end
    && match ex with Some u => uri_ok u | None => true end
    && forallb (fun pu => prefix_ok (fst pu) && uri_ok (snd pu)) nsp && keys_nodup nsp
    && forallb attr_ok attrs
    && match t with Some x => val_ok x | None => true end
    && forallb nelem_ok kids
  end.

Section nelem_ind2.
  Variable P : nelem -> Prop.
  Hypothesis H : forall pf n ex nsp attrs t kids, Forall P kids -> P (NEl pf n ex nsp attrs t kids).
  Fixpoint nelem_ind2 (e : nelem) : P e :=
    match e with
    | NEl pf n ex nsp attrs t kids =>
      H pf n ex nsp attrs t kids ((fix go (l : list nelem) : Forall P l :=
                                    match l with
                                    | [] => Forall_nil P
                                    | x :: r => Forall_cons x (nelem_ind2 x) (go r)
                                    end) kids)
    end.
End nelem_ind2.

Lemma nelem_ok_inv pf n ex nsp attrs t kids :
  nelem_ok (NEl pf n ex nsp attrs t kids) = true ->
  name_ok (qname pf n) = true /\ no_colon n = true
  /\ match pf with Some p => nonempty p && no_colon p | None => true end = true
  /\ match ex with Some u => uri_ok u | None => true end = true
  /\ forallb (fun pu => prefix_ok (fst pu) && uri_ok (snd pu)) nsp = true /\ keys_nodup nsp = true
  /\ forallb attr_ok attrs = true
  /\ match t with Some x => val_ok x | None => true end = true
  /\ forallb nelem_ok kids = true.
Proof. cbn [nelem_ok]. rewrite !andb_true_iff. tauto. Qed.

Lemma attr_ok_inv a : attr_ok a = true ->
  val_ok (snd a) = true /\ name_ok (fst a) = true /\ is_prefix [COLON] (fst a) = false /\ decl_of a = None.
Proof.
  unfold attr_ok. rewrite !andb_true_iff, negb_true_iff. intros (((H1 & H2) & H3) & H4).
  repeat split; try assumption. destruct (decl_of a); [discriminate|reflexivity].
Qed.

Lemma prefix_ok_inv p : prefix_ok p = true ->
  nonempty p = true /\ forallb name_char p = true /\ no_colon p = true /\ str_eqb p xml_prefix = false.
Proof. unfold prefix_ok. rewrite !andb_true_iff, negb_true_iff. tauto. Qed.

Ltac split_ok H :=
  repeat match type of H with
         | (_ && _) = true => let H2 := fresh "Hk" in apply andb_true_iff in H as [H H2]
         end.

(* ------------------------------------------------------------------ *)
(* the declarations are written exactly as attributes would be         *)
(* ------------------------------------------------------------------ *)
Lemma ra1_plain_all u : forallb plainc u = true -> ra1 u = u.
Proof. intro H. rewrite <- (app_nil_r u) at 1. rewrite (ra1_plain u [] H). cbn. apply app_nil_r. Qed.

Lemma uri_render u : uri_ok u = true -> render_attr_value (mkText u false) = u.
Proof.
  unfold uri_ok. intro H. apply andb_true_iff in H as [H _]. apply andb_true_iff in H as [_ H].
  rewrite render_attr_ra1. now apply ra1_plain_all.
Qed.

Lemma nsdecls_attrs par ex nsp :
  match ex with Some u => uri_ok u | None => true end = true ->
  forallb (fun pu => prefix_ok (fst pu) && uri_ok (snd pu)) nsp = true ->
  render_attrs (decl_attrs par ex nsp) = nsdecls par ex nsp.
Proof.
  intros Hex Hn. unfold decl_attrs, nsdecls, render_attrs. rewrite flat_map_app. f_equal.
  - destruct ex as [u|]; [|reflexivity]. destruct (default_declared par (Some u)); [|reflexivity].
    cbn [flat_map fst snd app]. rewrite (uri_render u Hex), app_nil_r. reflexivity.
  - induction nsp as [|[p u] l IH]; [reflexivity|].
    cbn [forallb fst snd] in Hn. apply andb_true_iff in Hn as [H1 H2]. apply andb_true_iff in H1 as [_ Hu].
    cbn [filter flat_map]. destruct (prefix_declared par (p, u)).
    + cbn [map flat_map fst snd]. rewrite (IH H2), (uri_render u Hu). cbn [fst snd].
      rewrite <- !app_assoc. reflexivity.
    + rewrite (IH H2). reflexivity.
Qed.

Lemma render_attrs_app a b : render_attrs (a ++ b) = render_attrs a ++ render_attrs b.
Proof. unfold render_attrs. apply flat_map_app. Qed.

Lemma is_empty_flatten par t (kids : list nelem) :
  is_empty t (map (flatten par) kids) = n_is_empty t kids.
Proof. destruct kids; reflexivity. Qed.

Lemma plain_ns_flatten_l : forall e par, nelem_ok e = true -> plain_ns par e = plain (flatten par e).
Proof.
  apply (nelem_ind2 (fun e => forall par, nelem_ok e = true -> plain_ns par e = plain (flatten par e))).
  intros pf n ex nsp attrs t kids HF par Hok.
  destruct (nelem_ok_inv _ _ _ _ _ _ _ Hok) as (Hq & Hnc & Hpf & Hex & Hnsp & Hnd & Hat & Ht & Hk).
  cbn [plain_ns flatten plain]. rewrite render_attrs_app, (nsdecls_attrs par ex nsp) by assumption.
  rewrite is_empty_flatten, <- app_assoc.
  assert (E : flat_map (plain_ns (child_info par ex nsp)) kids
              = flat_map plain (map (flatten (child_info par ex nsp)) kids)).
  { clear -HF Hk. induction HF as [|k ks Hk0 _ IH]; [reflexivity|].
    cbn [forallb] in Hk. apply andb_true_iff in Hk as [H1 H2].
    cbn [flat_map map]. now rewrite (Hk0 _ H1), (IH H2). }
  rewrite E. reflexivity.
Qed.

Lemma pretty_ns_flatten_l : forall e par i, nelem_ok e = true -> pretty_ns i par e = pretty i (flatten par e).
Proof.
  apply (nelem_ind2 (fun e => forall par i, nelem_ok e = true -> pretty_ns i par e = pretty i (flatten par e))).
  intros pf n ex nsp attrs t kids HF par i Hok.
  destruct (nelem_ok_inv _ _ _ _ _ _ _ Hok) as (Hq & Hnc & Hpf & Hex & Hnsp & Hnd & Hat & Ht & Hk).
  cbn [pretty_ns flatten pretty]. rewrite render_attrs_app, (nsdecls_attrs par ex nsp) by assumption.
  rewrite is_empty_flatten, <- app_assoc.
  assert (E : flat_map (fun k => LF :: pretty_ns (S i) (child_info par ex nsp) k) kids
              = flat_map (fun k => LF :: pretty (S i) k) (map (flatten (child_info par ex nsp)) kids)).
  { clear -HF Hk. induction HF as [|k ks Hk0 _ IH]; [reflexivity|].
    cbn [forallb] in Hk. apply andb_true_iff in Hk as [H1 H2].
    cbn [flat_map map]. now rewrite (Hk0 _ _ H1), (IH H2). }
  rewrite E. destruct kids; reflexivity.
Qed.

(* ------------------------------------------------------------------ *)
(* the flattened tree meets the guards of the tree theorems            *)
(* ------------------------------------------------------------------ *)
Lemma plain_no_entity u : forallb plainc u = true -> has_entity_ref u = false.
Proof.
  induction u as [|c u IH]; [reflexivity|]. cbn [forallb has_entity_ref]. intro H.
  apply andb_true_iff in H as [H1 H2]. rewrite (IH H2), orb_false_r.
  apply plainc_neq in H1 as (H38 & _). unfold AMP.
  replace (c =? 38) with false by (symmetry; now apply N.eqb_neq). reflexivity.
Qed.

Lemma uri_val_ok u : uri_ok u = true -> val_ok (mkText u false) = true.
Proof.
  unfold uri_ok, val_ok. cbn [t_escaped t_chars negb andb]. intro H.
  apply andb_true_iff in H as [H H3]. apply andb_true_iff in H as [_ H2].
  now rewrite H3, (plain_no_entity u H2).
Qed.

Lemma decl_attrs_val_ok par ex nsp :
  match ex with Some u => uri_ok u | None => true end = true ->
  forallb (fun pu => prefix_ok (fst pu) && uri_ok (snd pu)) nsp = true ->
  forallb (fun a => val_ok (snd a)) (decl_attrs par ex nsp) = true.
Proof.
  intros Hex Hn. unfold decl_attrs. rewrite forallb_app. apply andb_true_iff. split.
  - destruct ex as [u|]; [|reflexivity]. destruct (default_declared par (Some u)); [|reflexivity].
    cbn [forallb snd]. now rewrite (uri_val_ok u Hex).
  - induction nsp as [|[p u] l IH]; [reflexivity|].
    cbn [forallb fst snd] in Hn. apply andb_true_iff in Hn as [H1 H2]. apply andb_true_iff in H1 as [_ Hu].
    cbn [filter]. destruct (prefix_declared par (p, u)); [|now apply IH].
    cbn [map forallb snd]. now rewrite (uri_val_ok u Hu), (IH H2).
Qed.

Lemma decl_attrs_names_ok par ex nsp :
  forallb (fun pu => prefix_ok (fst pu) && uri_ok (snd pu)) nsp = true ->
  forallb (fun a => name_ok (fst a)) (decl_attrs par ex nsp) = true.
Proof.
  intros Hn. unfold decl_attrs. rewrite forallb_app. apply andb_true_iff. split.
  - destruct ex as [u|]; [|reflexivity]. destruct (default_declared par (Some u)); reflexivity.
  - induction nsp as [|[p u] l IH]; [reflexivity|].
    cbn [forallb fst snd] in Hn. apply andb_true_iff in Hn as [H1 H2]. apply andb_true_iff in H1 as [Hp _].
    cbn [filter]. destruct (prefix_declared par (p, u)); [|now apply IH].
    cbn [map forallb fst]. rewrite (IH H2), andb_true_r.
    destruct (prefix_ok_inv _ Hp) as (_ & Hpc & _ & _).
    unfold name_ok, xmlns_name. cbn [app]. cbn [forallb]. rewrite Hpc. reflexivity.
Qed.

Lemma flatten_ok : forall e par, nelem_ok e = true ->
  tree_ok (flatten par e) = true /\ names_ok (flatten par e) = true.
Proof.
  apply (nelem_ind2 (fun e => forall par, nelem_ok e = true ->
                       tree_ok (flatten par e) = true /\ names_ok (flatten par e) = true)).
  intros pf n ex nsp attrs t kids HF par Hok.
  destruct (nelem_ok_inv _ _ _ _ _ _ _ Hok) as (Hq & Hnc & Hpf & Hex & Hnsp & Hnd & Hat & Ht & Hk).
  assert (Hkids : forallb tree_ok (map (flatten (child_info par ex nsp)) kids) = true
                  /\ forallb names_ok (map (flatten (child_info par ex nsp)) kids) = true).
  { clear -HF Hk. induction HF as [|k ks Hk0 _ IH]; [split; reflexivity|].
    cbn [forallb] in Hk. apply andb_true_iff in Hk as [H1 H2].
    destruct (Hk0 (child_info par ex nsp) H1) as [A B]. destruct (IH H2) as [C D].
    cbn [map forallb]. now rewrite A, B, C, D. }
  destruct Hkids as [Hkt Hkn].
  assert (Ha : forallb (fun a => val_ok (snd a)) attrs = true /\ forallb (fun a => name_ok (fst a)) attrs = true).
  { clear -Hat. induction attrs as [|a l IH]; [split; reflexivity|].
    cbn [forallb] in Hat. apply andb_true_iff in Hat as [H1 H2]. destruct (IH H2) as [A B].
    destruct (attr_ok_inv _ H1) as (V & N & _ & _). cbn [forallb]. now rewrite V, N, A, B. }
  destruct Ha as [Hav Han].
  cbn [flatten tree_ok names_ok]. rewrite !forallb_app.
  rewrite (decl_attrs_val_ok par ex nsp Hex Hnsp), (decl_attrs_names_ok par ex nsp Hnsp).
  rewrite Hav, Han, Hkt, Hkn, Ht, Hq. split; reflexivity.
Qed.

(* ------------------------------------------------------------------ *)
(* namespaces: what a parser resolves from the written declarations is *)
(* what Element.namespace() / Attribute.namespace() mean               *)
(* ------------------------------------------------------------------ *)
Lemma assoc_app {B} k (a b : list (str * B)) :
  assoc k (a ++ b) = match assoc k a with Some v => Some v | None => assoc k b end.
Proof.
  induction a as [|[k' v] a IH]; [reflexivity|]. cbn [app assoc]. destruct (str_eqb k k'); [reflexivity|exact IH].
Qed.

Lemma assoc_filter (f : str * str -> bool) : forall l p, keys_nodup l = true ->
  assoc p (filter f l) = match assoc p l with
                         | Some u => if f (p, u) then Some u else None
                         | None => None
                         end.
Proof.
  induction l as [|[k v] r IH]; intros p Hn; [reflexivity|].
  cbn [keys_nodup] in Hn. destruct (assoc k r) eqn:Ek; [discriminate|].
  cbn [filter assoc]. destruct (str_eqb p k) eqn:Epk.
  - apply str_eqb_eq in Epk. subst k. destruct (f (p, v)).
    + cbn [assoc]. now rewrite str_eqb_refl.
    + rewrite (IH p Hn), Ek. reflexivity.
  - destruct (f (k, v)).
    + cbn [assoc]. rewrite Epk. now apply IH.
    + now apply IH.
Qed.

Definition cattr (a : str * text) : str * text := (fst a, mkText (t_chars (snd a)) false).

Lemma decl_of_cattr a : decl_of (cattr a) = decl_of a.
Proof. reflexivity. Qed.

Lemma decls_of_cattr l : decls_of (map cattr l) = decls_of l.
Proof. unfold decls_of. induction l as [|a l IH]; [reflexivity|]. cbn [map flat_map]. now rewrite decl_of_cattr, IH. Qed.

Lemma real_attrs_cattr l : real_attrs (map cattr l) = map cattr (real_attrs l).
Proof.
  unfold real_attrs. induction l as [|a l IH]; [reflexivity|]. cbn [map filter]. rewrite decl_of_cattr, IH.
  destruct (decl_of a); reflexivity.
Qed.

Lemma decl_of_prefixed p u : decl_of (xmlns_name ++ COLON :: p, mkText u false) = Some (p, u).
Proof. reflexivity. Qed.

Lemma decls_of_app a b : decls_of (a ++ b) = decls_of a ++ decls_of b.
Proof. unfold decls_of. apply flat_map_app. Qed.

Lemma real_attrs_app a b : real_attrs (a ++ b) = real_attrs a ++ real_attrs b.
Proof. unfold real_attrs. apply filter_app. Qed.

Definition default_decl (par : parent_info) (ex : option str) : list (str * str) :=
  match ex with Some u => if default_declared par ex then [([], u)] else [] | None => [] end.

Lemma decls_of_decl_attrs par ex nsp :
  decls_of (decl_attrs par ex nsp) = default_decl par ex ++ filter (prefix_declared par) nsp.
Proof.
  unfold decl_attrs. rewrite decls_of_app. f_equal.
  - unfold default_decl. destruct ex as [u|]; [|reflexivity]. destruct (default_declared par (Some u)); reflexivity.
  - induction (filter (prefix_declared par) nsp) as [|[p u] l IH]; [reflexivity|].
    unfold decls_of in *. cbn [map flat_map fst snd]. rewrite decl_of_prefixed, IH. reflexivity.
Qed.

Lemma real_attrs_decl_attrs par ex nsp : real_attrs (decl_attrs par ex nsp) = [].
Proof.
  unfold decl_attrs. rewrite real_attrs_app.
  assert (E1 : real_attrs (match ex with
                           | Some u => if default_declared par ex then [(xmlns_name, mkText u false)] else []
                           | None => [] end) = []).
  { destruct ex as [u|]; [|reflexivity]. destruct (default_declared par (Some u)); reflexivity. }
  rewrite E1. cbn [app].
  induction (filter (prefix_declared par) nsp) as [|[p u] l IH]; [reflexivity|].
  unfold real_attrs in *. cbn [map filter fst snd]. rewrite decl_of_prefixed. exact IH.
Qed.

Lemma attrs_no_decls attrs : forallb attr_ok attrs = true -> decls_of attrs = [] /\ real_attrs attrs = attrs.
Proof.
  induction attrs as [|a l IH]; [split; reflexivity|]. cbn [forallb]. intro H.
  apply andb_true_iff in H as [H1 H2]. destruct (IH H2) as [A B].
  destruct (attr_ok_inv _ H1) as (_ & _ & _ & D). unfold decls_of, real_attrs in *.
  cbn [flat_map filter]. rewrite D. cbn [app]. now rewrite A, B.
Qed.

Record Ctx (par : parent_info) (dflt : option str) (ctx : nsctx) (scope : list (str * str)) : Prop := {
  cx_pref : forall p, p <> [] -> p <> xml_prefix -> assoc p scope = resolve_ctx ctx p;
  cx_dflt : assoc [] scope = dflt;
  cx_dflt_ne : dflt <> Some [];
  cx_par : match par with
           | None => ctx = []
           | Some (pe, pctx) => pctx = ctx /\ (forall u, pe = Some u -> dflt = Some u)
           end }.

Lemma ctx_root : Ctx None None [] [].
Proof. constructor; try reflexivity; discriminate. Qed.

Lemma nsp_keys nsp : forallb (fun pu => prefix_ok (fst pu) && uri_ok (snd pu)) nsp = true ->
  assoc [] nsp = None /\ assoc xml_prefix nsp = None.
Proof.
  induction nsp as [|[p u] l IH]; [split; reflexivity|]. cbn [forallb fst snd]. intro H.
  apply andb_true_iff in H as [H1 H2]. apply andb_true_iff in H1 as [Hp _].
  destruct (prefix_ok_inv _ Hp) as (Hne & _ & _ & Hx). destruct (IH H2) as [A B].
  cbn [assoc]. split.
  - destruct p; [discriminate|]. exact A.
  - destruct (str_eqb xml_prefix p) eqn:E; [|exact B].
    apply str_eqb_eq in E. subst p. now rewrite str_eqb_refl in Hx.
Qed.

Lemma child_ctx par dflt ctx scope ex nsp :
  Ctx par dflt ctx scope ->
  match ex with Some u => uri_ok u | None => true end = true ->
  forallb (fun pu => prefix_ok (fst pu) && uri_ok (snd pu)) nsp = true -> keys_nodup nsp = true ->
  Ctx (child_info par ex nsp) (match ex with Some u => Some u | None => dflt end) (nsp :: ctx)
      ((default_decl par ex ++ filter (prefix_declared par) nsp) ++ scope).
Proof.
  intros [Cp Cd Cn Cpar] Hex Hnsp Hnd. destruct (nsp_keys nsp Hnsp) as [K0 Kx].
  assert (Hctx : match par with Some (_, c) => c | None => [] end = ctx).
  { destruct par as [[pe pctx]|]; [now destruct Cpar|now subst]. }
  constructor.
  - (* prefixes *)
    intros p Hp Hx. rewrite <- app_assoc, !assoc_app.
    assert (E0 : assoc p (default_decl par ex) = None).
    { unfold default_decl. destruct ex as [u|]; [|reflexivity].
      destruct (default_declared par (Some u)); [|reflexivity]. cbn [assoc]. destruct p; [congruence|reflexivity]. }
    rewrite E0, (assoc_filter _ nsp p Hnd). cbn [resolve_ctx].
    assert (Ex : str_eqb p xml_prefix = false).
    { destruct (str_eqb p xml_prefix) eqn:E; [|reflexivity]. apply str_eqb_eq in E. congruence. }
    rewrite Ex. destruct (assoc p nsp) as [u|] eqn:Ea; [|now apply Cp].
    unfold prefix_declared. destruct par as [[pe pctx]|]; [|reflexivity].
    destruct Cpar as [-> _]. cbn [fst snd].
    destruct (opt_eqb str_eqb (resolve_ctx ctx p) (Some u)) eqn:Eo; cbn [negb]; [|reflexivity].
    rewrite (Cp p Hp Hx). destruct (resolve_ctx ctx p) as [u'|]; [|discriminate].
    cbn [opt_eqb] in Eo. apply str_eqb_eq in Eo. now subst.
  - (* default namespace *)
    rewrite <- app_assoc, !assoc_app.
    assert (E1 : assoc [] (filter (prefix_declared par) nsp) = None).
    { rewrite (assoc_filter _ nsp [] Hnd), K0. reflexivity. }
    rewrite E1. unfold default_decl. destruct ex as [u|]; [|exact Cd].
    destruct (default_declared par (Some u)) eqn:Ed; [reflexivity|].
    cbn [assoc]. unfold default_declared in Ed. apply negb_false_iff in Ed.
    destruct par as [[pe pctx]|]; [|discriminate]. destruct pe as [u'|]; [|discriminate].
    cbn [opt_eqb] in Ed. apply str_eqb_eq in Ed. subst u'. destruct Cpar as [_ Cpe].
    rewrite Cd. now apply Cpe.
  - destruct ex as [u|]; [|exact Cn]. intro E. inversion E; subst. discriminate.
  - unfold child_info. split; [f_equal; exact Hctx|]. intros u ->. reflexivity.
Qed.

Lemma lookup_resolve par dflt ctx scope nsp p :
  Ctx par dflt (nsp :: ctx) scope -> assoc xml_prefix nsp = None -> p <> [] ->
  lookup_ns scope p = resolve_ctx (nsp :: ctx) p.
Proof.
  intros [Cp _ _ _] Kx Hp. unfold lookup_ns. destruct (str_eqb p xml_prefix) eqn:E.
  - apply str_eqb_eq in E. subst p. cbn [resolve_ctx]. rewrite Kx, str_eqb_refl. reflexivity.
  - apply Cp; [exact Hp|]. intro E'. subst p. now rewrite str_eqb_refl in E.
Qed.

Lemma split_colon_qname p n : no_colon p = true ->
  split_colon (p ++ COLON :: n) = Some (p, n).
Proof.
  unfold no_colon. rewrite negb_true_iff. induction p as [|c p IH]; intro H.
  - reflexivity.
  - rewrite mem_cons in H. apply orb_false_iff in H as [H1 H2].
    cbn [app split_colon]. rewrite N.eqb_sym, H1, (IH H2). reflexivity.
Qed.

Lemma split_colon_nocolon n : no_colon n = true -> split_colon n = None.
Proof.
  unfold no_colon. rewrite negb_true_iff. induction n as [|c n IH]; intro H; [reflexivity|].
  rewrite mem_cons in H. apply orb_false_iff in H as [H1 H2].
  cbn [split_colon]. rewrite N.eqb_sym, H1, (IH H2). reflexivity.
Qed.

Lemma split_colon_prefix_ne q p l : is_prefix [COLON] q = false -> split_colon q = Some (p, l) -> p <> [].
Proof.
  destruct q as [|c q]; [discriminate|]. cbn [is_prefix split_colon]. rewrite andb_true_r, N.eqb_sym.
  intros H. rewrite H. destruct (split_colon q) as [[a b]|]; [|discriminate]. intro E. inversion E. discriminate.
Qed.

Lemma infoset_flatten_l : forall e par dflt ctx scope,
  nelem_ok e = true -> Ctx par dflt ctx scope ->
  infoset scope (canon (flatten par e)) = ninfoset dflt ctx e.
Proof.
  apply (nelem_ind2 (fun e => forall par dflt ctx scope, nelem_ok e = true -> Ctx par dflt ctx scope ->
                       infoset scope (canon (flatten par e)) = ninfoset dflt ctx e)).
  intros pf n ex nsp attrs t kids HF par dflt ctx scope Hok C.
  destruct (nelem_ok_inv _ _ _ _ _ _ _ Hok) as (Hq & Hnc & Hpf & Hex & Hnsp & Hnd & Hat & Ht & Hk).
  destruct (nsp_keys nsp Hnsp) as [K0 Kx]. destruct (attrs_no_decls attrs Hat) as [Ad Ar].
  pose proof (child_ctx par dflt ctx scope ex nsp C Hex Hnsp Hnd) as C'.
  set (dflt' := match ex with Some u => Some u | None => dflt end) in *.
  set (scope' := (default_decl par ex ++ filter (prefix_declared par) nsp) ++ scope) in *.
  cbn [flatten canon infoset ninfoset].
  change (map (fun a : str * text => (fst a, mkText (t_chars (snd a)) false)) (decl_attrs par ex nsp ++ attrs))
    with (map cattr (decl_attrs par ex nsp ++ attrs)).
  rewrite decls_of_cattr, real_attrs_cattr, decls_of_app, real_attrs_app,
    decls_of_decl_attrs, real_attrs_decl_attrs, Ad, Ar, app_nil_r. cbn [app].
  fold scope'. fold dflt'.
  (* the element's own name *)
  assert (En : expand_elem scope' (qname pf n)
               = match pf with
                 | None => Some (dflt', n)
                 | Some p => match resolve_ctx (nsp :: ctx) p with Some u => Some (Some u, n) | None => None end
                 end).
  { unfold expand_elem. destruct pf as [p|]; cbn [qname].
    - apply andb_true_iff in Hpf as [Hpne Hpc]. rewrite (split_colon_qname p n Hpc).
      rewrite (lookup_resolve _ _ _ _ _ p C' Kx); [reflexivity|]. destruct p; [discriminate|discriminate].
    - rewrite (split_colon_nocolon n Hnc). destruct C' as [_ Cd Cn _]. rewrite Cd.
      clearbody dflt'. destruct dflt' as [[|c u]|]; [exfalso; now apply Cn|reflexivity|reflexivity]. }
  rewrite En. clear En.
  (* attributes *)
  assert (Ea : map_opt (fun a => match expand_attr scope' (fst a) with
                                 | Some en => Some (en, t_chars (snd a))
                                 | None => None end) (map cattr attrs)
               = map_opt (fun a => match split_colon (fst a) with
                                   | Some (p, l) => match resolve_ctx (nsp :: ctx) p with
                                                    | Some u => Some ((Some u, l), t_chars (snd a))
                                                    | None => None end
                                   | None => Some ((None, fst a), t_chars (snd a)) end) attrs).
  { clear -Hat C' Kx. induction attrs as [|a l IH]; [reflexivity|].
    cbn [forallb] in Hat. apply andb_true_iff in Hat as [H1 H2].
    destruct (attr_ok_inv _ H1) as (_ & _ & Hc & _).
    cbn [map map_opt]. rewrite (IH H2). unfold cattr at 1 2. cbn [fst snd t_chars].
    unfold expand_attr. destruct (split_colon (fst a)) as [[p l0]|] eqn:Es; [|reflexivity].
    rewrite (lookup_resolve _ _ _ _ _ p C' Kx); [|now apply (split_colon_prefix_ne (fst a) p l0)].
    destruct (resolve_ctx (nsp :: ctx) p); reflexivity. }
  rewrite Ea. clear Ea.
  (* children *)
  assert (Ek : (fix go (l : list elem) : option (list itree) :=
                  match l with
                  | [] => Some []
                  | k :: r => match infoset scope' k, go r with
                              | Some x, Some xs => Some (x :: xs)
                              | _, _ => None end
                  end) (map canon (map (flatten (child_info par ex nsp)) kids))
               = (fix go (l : list nelem) : option (list itree) :=
                    match l with
                    | [] => Some []
                    | k :: r => match ninfoset dflt' (nsp :: ctx) k, go r with
                                | Some x, Some xs => Some (x :: xs)
                                | _, _ => None end
                    end) kids).
  { clear -HF Hk C'. induction HF as [|k ks Hk0 _ IH]; [reflexivity|].
    cbn [forallb] in Hk. apply andb_true_iff in Hk as [H1 H2].
    cbn [map]. rewrite (Hk0 _ _ _ _ H1 C'), (IH H2). reflexivity. }
  rewrite Ek. clear Ek.
  destruct kids; reflexivity.
Qed.

(* ------------------------------------------------------------------ *)
(* whole documents                                                     *)
(* ------------------------------------------------------------------ *)
Lemma strip_prolog_decl x : strip_prolog (xml_decl ++ x) = skip_ws x.
Proof. reflexivity. Qed.

Lemma plain_ns_head par e : exists x, plain_ns par e = LT :: x.
Proof. destruct e. cbn [plain_ns]. eexists. reflexivity. Qed.

Lemma tree_of_events_canon evs t :
  option_map canon (handler evs) = Some t -> exists tr, tree_of_events evs = Some tr /\ canon tr = t.
Proof.
  intro H. rewrite <- spec_tree_canon_l in H. destruct (tree_of_events evs) as [tr|]; [|discriminate].
  exists tr. split; [reflexivity|]. now inversion H.
Qed.

Lemma request_end_to_end_l : forall e (pr : bool),
  nelem_ok e = true ->
  xml_infoset (if pr then doc_pretty e else doc_plain e) = ninfoset None [] e.
Proof.
  intros e pr Hok. destruct (flatten_ok e None Hok) as [Ht Hn].
  unfold xml_infoset, xml_document.
  assert (E : xml_tokens (strip_prolog (if pr then doc_pretty e else doc_plain e))
              = Some (if pr then mevents 0 (flatten None e) else events_plain (flatten None e))).
  { destruct pr.
    - unfold doc_pretty. rewrite strip_prolog_decl. cbn [skip_ws]. change (is_ws LF) with true. cbv iota.
      rewrite (pretty_ns_flatten_l e None 0 Hok).
      assert (S0 : skip_ws (pretty 0 (flatten None e)) = pretty 0 (flatten None e)).
      { rewrite pretty_pbody. destruct (flatten None e). reflexivity. }
      rewrite S0. now apply pretty_tokens_l.
    - unfold doc_plain. rewrite strip_prolog_decl, (plain_ns_flatten_l e None Hok).
      assert (S0 : skip_ws (plain (flatten None e)) = plain (flatten None e)).
      { destruct (flatten None e). reflexivity. }
      rewrite S0. now apply plain_tokens_l. }
  rewrite E. clear E.
  assert (Hh : option_map canon (handler (if pr then mevents 0 (flatten None e) else events_plain (flatten None e)))
               = Some (canon (flatten None e))).
  { destruct pr.
    - rewrite (mtop_all _ 0 Ht). cbn [option_map]. now rewrite canon_reread.
    - now apply tree_roundtrip_l. }
  destruct (tree_of_events_canon _ _ Hh) as (tr & -> & Ec). rewrite Ec.
  apply infoset_flatten_l; [exact Hok|apply ctx_root].
Qed.
