From SV Require Import Lib.Base Gen.C04Tables C04.Model C04.EncProofs.
Local Open Scope N_scope.

(* the only attribute values the prefix normaliser touches: p:rest with p bound,
   on the element or an ancestor, to a namespace that is not one of the three
   skipped (xs, xsi, xml) pairs *)
Lemma refit_only_bound_prefixes_l : forall scope pi v,
  qname_rewritten scope pi v = true ->
  exists p name u, split_colon v = Some (p, name) /\ resolve scope p = Some (p, u)
                   /\ ns_skip (p, u) = false.
Proof.
  intros scope pi v. unfold qname_rewritten, refit_value.
  destruct (split_colon v) as [[p name]|] eqn:E.
  2: { rewrite str_eqb_refl. discriminate. }
  destruct (resolve scope p) as [[p' u]|] eqn:R.
  2: { rewrite str_eqb_refl. discriminate. }
  assert (p' = p) as ->.
  { unfold resolve in R. destruct (assoc p scope); [now inversion R|].
    destruct (str_eqb p (fst ns_xml)) eqn:X; [|discriminate].
    apply str_eqb_eq in X. inversion R. now subst. }
  destruct (ns_skip (p, u)) eqn:S.
  { rewrite str_eqb_refl. discriminate. }
  intros _. now exists p, name, u.
Qed.

Lemma split_colon_none v : mem COLON v = false -> split_colon v = None.
Proof.
  induction v as [|c r IH]; [reflexivity|]. rewrite mem_cons. intro H.
  apply orb_false_iff in H as [H1 H2]. cbn [split_colon]. rewrite N.eqb_sym, H1, (IH H2). reflexivity.
Qed.

Lemma attr_without_colon_l : forall scope pi s,
  chars_legal s = true -> has_entity_ref s = false -> mem COLON s = false ->
  exists raw, request_attr scope pi s = Some raw /\ xml_attvalue_decode QUOT raw = Some s.
Proof.
  intros scope pi s H1 H2 H3. apply attr_roundtrip_partial_l; try assumption.
  unfold qname_rewritten, refit_value. rewrite (split_colon_none _ H3). now rewrite str_eqb_refl.
Qed.
