From SV Require Import Lib.Base Gen.C04Tables C04.Model C04.EncProofs.
From Coq Require Import ZifyBool ZifyNat ZifyN.
Local Open Scope N_scope.

(* element text followed by more character data w that decodes to w' *)
Lemma cd_dec_rt1_tail : forall w w',
  (forall m k', (length w < m)%nat -> cd_dec m k' w = Some w') ->
  forall n s k,
  (length (rt1 s ++ w) < n)%nat -> chars_legal s = true ->
  cd_dec n k (rt1 s ++ w) = Some (collapse s ++ w').
Proof.
  intros w w' Hw.
  induction n as [|n IH]; intros s k Hlen Hleg; [lia|].
  destruct s as [|c r]; [cbn [rt1 app collapse collapse_aux] in *; unfold collapse; cbn [collapse_aux app]; now apply Hw|].
  cbn [chars_legal forallb] in Hleg. apply andb_true_iff in Hleg as [Hc Hr].
  cbn [rt1] in *. unfold collapse in *. cbn [collapse_aux]. unfold txt_char in *. rewrite <- app_assoc in *.
  destruct (N.eqb_spec c 13) as [->|H13].
  { (* CR -> &#13; *)
    change (r_cr ++ rt1 r ++ w) with (AMP :: [35;49;51] ++ SEMI :: (rt1 r ++ w)) in *.
    rewrite (cd_dec_ref n k [35;49;51] 13) by reflexivity.
    rewrite IH; [reflexivity| |exact Hr]. cbn [length app] in Hlen. rewrite ?app_length in *. cbn [length] in *. lia. }
  unfold enc_char in *.
  destruct (N.eqb_spec c 38) as [->|H38].
  { change (38 =? AMP) with true. rewrite lookahead_lookup in *.
    destruct (ent_lookup r) as [[name ch]|] eqn:E.
    - (* an entity reference already in s: the & is kept *)
      apply ent_lookup_some in E as [Hin [x ->]].
      destruct (predefined_facts _ _ Hin) as (Hsemi & Hval & Hch & Hplain).
      assert (Hp : forallb plainc (name ++ [SEMI]) = true).
      { rewrite forallb_app. cbn. now rewrite Hplain. }
      assert (Hx : chars_legal x = true).
      { unfold chars_legal in Hr. rewrite forallb_app in Hr. apply andb_true_iff in Hr as [_ Hx].
        cbn [forallb] in Hx. apply andb_true_iff in Hx as [_ Hx]. exact Hx. }
      assert (Ert : rt1 (name ++ SEMI :: x) = name ++ SEMI :: rt1 x).
      { replace (name ++ SEMI :: x) with ((name ++ [SEMI]) ++ x) by (now rewrite <- app_assoc).
        rewrite (rt1_plain _ _ Hp). now rewrite <- app_assoc. }
      rewrite Ert in *. cbn [app] in *. rewrite <- app_assoc in *. cbn [app] in *.
      rewrite (cd_dec_ref n k name ch) by assumption.
      rewrite IH; [| |exact Hx].
      2: { cbn [length] in Hlen. rewrite !app_length in Hlen. cbn [length] in Hlen.
           rewrite !app_length in *. lia. }
      cbn [option_map]. f_equal. f_equal. f_equal.
      replace (name ++ SEMI :: x) with ((name ++ [SEMI]) ++ x) by now rewrite <- app_assoc.
      replace (S (length name)) with (length (name ++ [SEMI])) by (rewrite app_length; cbn; lia).
      now rewrite collapse_skip.
    - (* a bare & -> &amp; *)
      change (e_amp ++ rt1 r ++ w) with (AMP :: [97;109;112] ++ SEMI :: (rt1 r ++ w)) in *.
      rewrite (cd_dec_ref n k [97;109;112] 38) by reflexivity.
      rewrite IH; [reflexivity| |exact Hr]. cbn [length app] in Hlen. rewrite ?app_length in *. cbn [length] in *. lia. }
  replace (c =? AMP) with false by (unfold AMP; neq_false; reflexivity).
  destruct (N.eqb_spec c 60) as [->|H60].
  { change (e_lt ++ rt1 r ++ w) with (AMP :: [108;116] ++ SEMI :: (rt1 r ++ w)) in *.
    rewrite (cd_dec_ref n k [108;116] 60) by reflexivity.
    rewrite IH; [reflexivity| |exact Hr]. cbn [length app] in Hlen. rewrite ?app_length in *. cbn [length] in *. lia. }
  destruct (N.eqb_spec c 62) as [->|H62].
  { change (e_gt ++ rt1 r ++ w) with (AMP :: [103;116] ++ SEMI :: (rt1 r ++ w)) in *.
    rewrite (cd_dec_ref n k [103;116] 62) by reflexivity.
    rewrite IH; [reflexivity| |exact Hr]. cbn [length app] in Hlen. rewrite ?app_length in *. cbn [length] in *. lia. }
  destruct (N.eqb_spec c 34) as [->|H34].
  { change (e_quot ++ rt1 r ++ w) with (AMP :: [113;117;111;116] ++ SEMI :: (rt1 r ++ w)) in *.
    rewrite (cd_dec_ref n k [113;117;111;116] 34) by reflexivity.
    rewrite IH; [reflexivity| |exact Hr]. cbn [length app] in Hlen. rewrite ?app_length in *. cbn [length] in *. lia. }
  destruct (N.eqb_spec c 39) as [->|H39].
  { change (e_apos ++ rt1 r ++ w) with (AMP :: [97;112;111;115] ++ SEMI :: (rt1 r ++ w)) in *.
    rewrite (cd_dec_ref n k [97;112;111;115] 39) by reflexivity.
    rewrite IH; [reflexivity| |exact Hr]. cbn [length app] in Hlen. rewrite ?app_length in *. cbn [length] in *. lia. }
  cbn [app] in *. rewrite cd_dec_plain by assumption.
  rewrite IH; [reflexivity| |exact Hr]. cbn [length] in Hlen. lia.
Qed.

