(* C04 - request_end_to_end read position by position: wherever a leaf element
   sits in the document that is sent, the infoset read back has, at the same
   path, exactly its text and its attribute values. *)
From SV Require Import Lib.Base Gen.C04Tables C04.Model C04.Tokens C04.NsModel C04.NsProofs.
Local Open Scope N_scope.

Definition n_kids (e : nelem) : list nelem := match e with NEl _ _ _ _ _ _ k => k end.
Definition it_kids (t : itree) : list itree := match t with IT _ _ _ k => k end.
Definition it_txt (t : itree) : str := match t with IT _ _ x _ => x end.
Definition it_attrs (t : itree) : list (ename * str) := match t with IT _ a _ _ => a end.

(* follow child indexes *)
Fixpoint n_sub (path : list nat) (e : nelem) : option nelem :=
  match path with
  | [] => Some e
  | i :: r => match nth_error (n_kids e) i with Some k => n_sub r k | None => None end
  end.

Fixpoint it_sub (path : list nat) (t : itree) : option itree :=
  match path with
  | [] => Some t
  | i :: r => match nth_error (it_kids t) i with Some k => it_sub r k | None => None end
  end.

Lemma go_nth dflt ctx : forall (kids : list nelem) ik i k,
  (fix go (l : list nelem) : option (list itree) :=
     match l with
     | [] => Some []
     | k :: r => match ninfoset dflt ctx k, go r with
                 | Some x, Some xs => Some (x :: xs)
                 | _, _ => None
                 end
     end) kids = Some ik ->
  nth_error kids i = Some k ->
  exists x, nth_error ik i = Some x /\ ninfoset dflt ctx k = Some x.
Proof.
  induction kids as [|k0 ks IH]; intros ik i k H Hn.
  - destruct i; discriminate.
  - destruct (ninfoset dflt ctx k0) as [x0|] eqn:E0; [|discriminate].
    match type of H with match ?g with _ => _ end = _ => destruct g as [xs|] eqn:Eg; [|discriminate] end.
    inversion H; subst ik. destruct i as [|i].
    + cbn in Hn. inversion Hn; subst k. exists x0. split; [reflexivity|exact E0].
    + cbn [nth_error] in *. now apply (IH xs i k eq_refl Hn).
Qed.

Lemma ninfoset_sub : forall path e dflt ctx it e',
  ninfoset dflt ctx e = Some it -> n_sub path e = Some e' ->
  exists dflt' ctx' it', it_sub path it = Some it' /\ ninfoset dflt' ctx' e' = Some it'.
Proof.
  induction path as [|i r IH]; intros e dflt ctx it e' H Hs.
  - cbn in Hs. inversion Hs; subst e'. now exists dflt, ctx, it.
  - destruct e as [pf n ex nsp attrs t kids]. cbn [n_sub n_kids] in Hs.
    destruct (nth_error kids i) as [k|] eqn:En; [|discriminate].
    cbn [ninfoset] in H.
    repeat match type of H with
           | match ?g with _ => _ end = _ => let E := fresh "E" in destruct g eqn:E; try discriminate
           end.
    inversion H; subst it. cbn [it_sub it_kids].
    match goal with E : _ = Some ?l |- context [nth_error ?l i] =>
      destruct (go_nth _ _ kids l i k E En) as (x & Hx & Hk) end.
    rewrite Hx. now apply (IH k _ _ x e' Hk Hs).
Qed.

Lemma ninfoset_leaf dflt ctx pf n ex nsp attrs x it :
  ninfoset dflt ctx (NEl pf n ex nsp attrs (Some x) []) = Some it ->
  it_txt it = t_chars x /\ map snd (it_attrs it) = map (fun a => t_chars (snd a)) attrs /\ it_kids it = [].
Proof.
  cbn [ninfoset]. intro H.
  repeat match type of H with
         | match ?g with _ => _ end = _ => let E := fresh "E" in destruct g eqn:E; try discriminate
         end.
  inversion H; subst it. cbn [it_txt it_attrs it_kids]. repeat split. clear H.
  match goal with E' : map_opt _ attrs = Some ?l |- _ => revert l E' end.
  clear. induction attrs as [|a l IH]; intros ia E.
  - inversion E. reflexivity.
  - cbn [map_opt] in E.
    repeat match type of E with
           | match ?g with _ => _ end = _ => let E' := fresh "E" in destruct g eqn:E'; try discriminate
           end.
    inversion E; subst. cbn [map snd]. f_equal; [|now apply IH].
    match goal with
    | E0 : match split_colon ?q with _ => _ end = Some _ |- _ =>
      destruct (split_colon q) as [[? ?]|];
        [match type of E0 with match ?g with _ => _ end = _ => destruct g; [|discriminate] end|];
        inversion E0; reflexivity
    end.
Qed.

Lemma request_position_l : forall env (pr : bool) path pf n ex nsp attrs x,
  nelem_ok env = true ->
  ninfoset None [] env <> None ->          (* every prefix that is used is declared *)
  n_sub path env = Some (NEl pf n ex nsp attrs (Some x) []) ->
  exists root leaf,
    xml_infoset (if pr then doc_pretty env else doc_plain env) = Some root /\
    it_sub path root = Some leaf /\
    it_txt leaf = t_chars x /\ map snd (it_attrs leaf) = map (fun a => t_chars (snd a)) attrs.
Proof.
  intros env pr path pf n ex nsp attrs x Hok Hwf Hs.
  rewrite (request_end_to_end_l env pr Hok).
  destruct (ninfoset None [] env) as [root|] eqn:E; [|congruence].
  destruct (ninfoset_sub path env None [] root _ E Hs) as (d' & c' & leaf & Hl & Hn).
  destruct (ninfoset_leaf _ _ _ _ _ _ _ _ _ Hn) as (T & A & _).
  now exists root, leaf.
Qed.
