(* C04 - Element.str() (the pretty serialiser) end to end: its characters cut
   into events by the XML grammar; the whitespace it adds is part of the
   character data of elements that have children and is trimmed by the Handler. *)
From SV Require Import Lib.Base Gen.C04Tables C04.Model C04.EncProofs C04.TreeProofs C04.Tokens
     C04.TokenProofs C04.Chunks C04.TailProofs.
From Coq Require Import ZifyBool ZifyNat ZifyN.
Local Open Scope N_scope.

(* the events an XML processor reports for Element.str(): the text of an
   element and the line break + indentation before its first child are ONE run
   of character data *)
Fixpoint mevents (i : nat) (e : elem) : list ev :=
  match e with
  | El n attrs t kids =>
    EvStart n (attr_events attrs) ::
    (match kids with
     | [] => text_event t
     | k :: ks =>
       EvChars ((if has_text t then txt_chars t else []) ++ indent_ws (S i)) :: mevents (S i) k
       ++ flat_map (fun k' => EvChars (indent_ws (S i)) :: mevents (S i) k') ks
       ++ [EvChars (indent_ws i)]
     end) ++ [EvEnd n]
  end.

(* ------------------------------------------------------------------ *)
(* the Handler on these events                                         *)
(* ------------------------------------------------------------------ *)
Definition minner (t : elem) : Prop :=
  forall i, tree_ok t = true -> forall rest p st root,
    run_handler close_text (mevents i t ++ rest) (p :: st) root
    = run_handler close_text rest (push_kid (reread_gen true t) p :: st) root.

Lemma mkids_run : forall kids, Forall minner kids -> forall i rest F st root,
  forallb tree_ok kids = true ->
  run_handler close_text (flat_map (fun k => EvChars (indent_ws (S i)) :: mevents (S i) k) kids ++ rest) (F :: st) root
  = run_handler close_text rest
      (mkFrame (f_name F) (f_attrs F) (repeat (indent_ws (S i)) (length kids) ++ f_buf F)
               (rev (map (reread_gen true) kids) ++ f_kids F) :: st) root.
Proof.
  induction kids as [|k ks IH]; intros HF i rest F st root Hok.
  - destruct F; reflexivity.
  - inversion HF as [|? ? Hk Hks]; subst.
    cbn [forallb] in Hok. apply andb_true_iff in Hok as [Hok1 Hok2].
    cbn [flat_map app]. rewrite <- app_assoc. rewrite run_chars. rewrite (Hk (S i) Hok1).
    rewrite (IH Hks i rest _ st root Hok2).
    unfold push_kid, push_chars. cbn [f_name f_attrs f_buf f_kids length repeat map rev].
    rewrite <- app_assoc. cbn [app]. rewrite repeat_shift. reflexivity.
Qed.

Lemma run_start c n a r st root :
  run_handler c (EvStart n a :: r) st root
  = run_handler c r (mkFrame n (map (fun x => (fst x, mkText (snd x) false)) a) [] [] :: st) root.
Proof. reflexivity. Qed.

Lemma mbody_run n attrs t kids : Forall minner kids ->
  tree_ok (El n attrs t kids) = true -> forall i rest st root,
  run_handler close_text (mevents i (El n attrs t kids) ++ rest) st root
  = run_handler close_text (EvEnd n :: rest)
      (mkFrame n (map (fun a => (fst a, mkText (t_chars (snd a)) false)) attrs)
               (match kids with [] => [] | _ => [indent_ws i] end
                ++ wsbuf true i kids ++ (if has_text t then [txt_chars t] else []))
               (rev (map (reread_gen true) kids)) :: st) root.
Proof.
  intros HF Hok i rest st root. cbn [tree_ok] in Hok.
  apply andb_true_iff in Hok as [Hok Hk]. apply andb_true_iff in Hok as [Ha Ht].
  cbn [mevents app]. rewrite run_start. rewrite (attrs_ok _ Ha).
  destruct kids as [|k ks].
  - rewrite (text_event_ok _ Ht). unfold wsbuf. cbn [length repeat app map rev].
    destruct (has_text t); [cbn [app]; rewrite run_chars|]; reflexivity.
  - inversion HF as [|? ? Hk0 Hks]; subst.
    cbn [forallb] in Hk. apply andb_true_iff in Hk as [Hk1 Hk2].
    cbn [app]. rewrite <- !app_assoc.
    assert (First : forall R F,
      run_handler close_text (EvChars ((if has_text t then txt_chars t else []) ++ indent_ws (S i)) :: R) (F :: st) root
      = run_handler close_text R
          (mkFrame (f_name F) (f_attrs F)
                   (indent_ws (S i) :: (if has_text t then [txt_chars t] else []) ++ f_buf F) (f_kids F) :: st) root).
    { intros R F. destruct (has_text t).
      - rewrite merge_chunks, !run_chars. reflexivity.
      - cbn [app]. rewrite run_chars. reflexivity. }
    rewrite First. cbn [f_name f_attrs f_buf f_kids].
    rewrite (Hk0 (S i) Hk1).
    rewrite (mkids_run ks Hks i _ _ st root Hk2).
    unfold push_kid. cbn [f_name f_attrs f_buf f_kids app].
    rewrite run_chars. unfold push_chars. cbn [f_name f_attrs f_buf f_kids].
    unfold wsbuf. cbn [length repeat map rev app]. rewrite !app_nil_r.
    rewrite repeat_shift. reflexivity.
Qed.

Lemma minner_all : forall t, minner t.
Proof.
  apply elem_ind2. intros n attrs t kids HF i Hok rest p st root.
  rewrite (mbody_run n attrs t kids HF Hok i rest (p :: st) root).
  rewrite run_end_inner by reflexivity.
  unfold close_frame. cbn [f_name f_attrs f_buf f_kids].
  pose proof (closed_text true t kids i) as C. cbv iota in C. rewrite C, rev_involutive. reflexivity.
Qed.

Lemma mtop_all : forall t i, tree_ok t = true ->
  handler (mevents i t) = Some (reread_gen true t).
Proof.
  intros [n attrs t kids] i Hok. unfold handler.
  rewrite <- (app_nil_r (mevents i (El n attrs t kids))).
  rewrite (mbody_run n attrs t kids); [|apply Forall_forall; intros; apply minner_all|exact Hok].
  rewrite run_end_top by reflexivity.
  unfold close_frame. cbn [f_name f_attrs f_buf f_kids].
  pose proof (closed_text true t kids i) as C. cbv iota in C. rewrite C, rev_involutive. reflexivity.
Qed.

(* ------------------------------------------------------------------ *)
(* cutting Element.str() into events                                   *)
(* ------------------------------------------------------------------ *)
(* Element.str(indent) without its own leading indentation *)
Fixpoint pbody (i : nat) (e : elem) : str :=
  match e with
  | El n attrs t kids =>
    LT :: n ++ render_attrs attrs ++
    (if is_empty t kids then [SLASH; GT]
     else GT :: opt_text_render t
          ++ flat_map (fun k => indent_ws (S i) ++ pbody (S i) k) kids
          ++ (match kids with [] => [] | _ => indent_ws i end)
          ++ LT :: SLASH :: n ++ [GT])
  end.

Lemma pretty_pbody : forall e i, pretty i e = spaces (i * 3) ++ pbody i e.
Proof.
  apply (elem_ind2 (fun e => forall i, pretty i e = spaces (i * 3) ++ pbody i e)).
  intros n attrs t kids HF i. cbn [pretty pbody]. f_equal. f_equal. f_equal. f_equal.
  destruct (is_empty t kids); [reflexivity|]. f_equal. f_equal.
  assert (E : flat_map (fun k => LF :: pretty (S i) k) kids
              = flat_map (fun k => indent_ws (S i) ++ pbody (S i) k) kids).
  { clear -HF. induction HF as [|k ks Hk _ IH]; [reflexivity|].
    cbn [flat_map]. rewrite IH, (Hk (S i)). unfold indent_ws. reflexivity. }
  rewrite E. reflexivity.
Qed.

Lemma good_start n attrs e X evsX :
  name_ok n = true ->
  forallb (fun a => val_ok (snd a)) attrs = true ->
  forallb (fun a => name_ok (fst a)) attrs = true ->
  Good X evsX ->
  Good (LT :: n ++ render_attrs attrs ++ tag_end e X)
       (EvStart n (attr_values attrs) :: (if e then EvEnd n :: evsX else evsX)).
Proof.
  intros Hn Ha Hna GX f Hf. destruct f as [|f]; [cbn in Hf; lia|].
  destruct (name_ok_facts _ Hn) as (c & n' & En & Hb & Hq & Hsl & _ & _ & _ & Hnc). subst n.
  set (n := c :: n') in *.
  assert (HX : (length X < f)%nat).
  { cbn [length] in Hf. rewrite !app_length in Hf. unfold tag_end in Hf.
    destruct e; cbn [length] in Hf; lia. }
  cbn [tokens]. change (LT =? LT) with true. cbv iota. unfold n at 1. cbn [app].
  replace (c =? SLASH) with false by (symmetry; now apply N.eqb_neq).
  replace ((c =? BANG) || (c =? QMARK)) with false.
  2: { symmetry. apply orb_false_iff. split; now apply N.eqb_neq. }
  cbv iota.
  change (c :: n' ++ render_attrs attrs ++ tag_end e X) with (n ++ render_attrs attrs ++ tag_end e X).
  rewrite (take_name_app n _); [|exact Hnc|apply stops_attrs].
  unfold n at 1. cbv iota. fold n.
  rewrite parse_attrs_render; [|exact Ha|exact Hna|lia].
  rewrite (GX f HX). reflexivity.
Qed.

(* a run of character data that ends at a tag *)
Lemma good_run a v x evs :
  a <> [] -> v <> [] -> mem LT a = false -> xml_chardata_decode a = Some v -> opens x ->
  Good (LT :: x) evs -> Good (a ++ LT :: x) (EvChars v :: evs).
Proof.
  intros Hne Hv Hm Hd Hx G f Hf. destruct f as [|f]; [cbn in Hf; lia|].
  destruct a as [|c0 r0] eqn:E; [congruence|].
  pose proof Hm as Hm'. rewrite mem_cons in Hm'. apply orb_false_iff in Hm' as [Hm1 Hm2].
  cbn [app tokens]. rewrite N.eqb_sym, Hm1.
  change (c0 :: r0 ++ LT :: x) with ((c0 :: r0) ++ LT :: x).
  rewrite take_run_text; [|exact Hm|rewrite app_length; cbn [length]; lia|exact Hx].
  rewrite Hd. rewrite G; [destruct v; [congruence|reflexivity]|].
  rewrite app_length in Hf. cbn [length] in Hf |- *. lia.
Qed.

Definition wsc (c : N) : bool := (c =? LF) || (c =? SP).

Lemma cd_dec_ws : forall w, forallb wsc w = true ->
  forall m k, (length w < m)%nat -> cd_dec m k w = Some w.
Proof.
  induction w as [|c w IH]; intros Hw m k Hl; (destruct m as [|m]; [cbn in Hl; lia|]); [reflexivity|].
  cbn [forallb] in Hw. apply andb_true_iff in Hw as [Hc Hw].
  assert (c = LF \/ c = SP) as [-> | ->].
  { unfold wsc in Hc. apply orb_true_iff in Hc as [Hc|Hc]; apply N.eqb_eq in Hc; auto. }
  - rewrite cd_dec_plain by (try discriminate; reflexivity).
    rewrite (IH Hw); [reflexivity|cbn [length] in Hl; lia].
  - rewrite cd_dec_plain by (try discriminate; reflexivity).
    rewrite (IH Hw); [reflexivity|cbn [length] in Hl; lia].
Qed.

Lemma wsc_indent j : forallb wsc (indent_ws j) = true.
Proof.
  unfold indent_ws. cbn [forallb]. change (wsc LF) with true. cbn [andb].
  induction (j * 3)%nat; [reflexivity|]. cbn. exact IHn.
Qed.

Lemma indent_no_lt j : mem LT (indent_ws j) = false.
Proof.
  unfold indent_ws. rewrite mem_cons. change (LT =? LF) with false. cbn [orb].
  induction (j * 3)%nat; [reflexivity|]. cbn [spaces repeat]. rewrite mem_cons. exact IHn.
Qed.

Lemma indent_nonempty j : indent_ws j <> [].
Proof. discriminate. Qed.

Lemma decode_indent j : xml_chardata_decode (indent_ws j) = Some (indent_ws j).
Proof. unfold xml_chardata_decode. apply cd_dec_ws; [apply wsc_indent|lia]. Qed.

Lemma decode_text_indent s j :
  chars_legal s = true -> has_entity_ref s = false ->
  xml_chardata_decode (rt1 s ++ indent_ws j) = Some (s ++ indent_ws j).
Proof.
  intros Hl He. unfold xml_chardata_decode.
  rewrite (cd_dec_rt1_tail (indent_ws j) (indent_ws j)); [| |lia|exact Hl].
  - unfold collapse. fold (collapse s). now rewrite (collapse_no_entity s He).
  - intros m k' Hm. apply cd_dec_ws; [apply wsc_indent|exact Hm].
Qed.

Definition pelem_good (t : elem) : Prop :=
  tree_ok t = true -> names_ok t = true -> forall i rest evs,
  Good rest evs -> Good (pbody i t ++ rest) (mevents i t ++ evs).

Lemma pbody_opens i t y : names_ok t = true -> exists x, pbody i t ++ y = LT :: x /\ opens x.
Proof.
  destruct t as [n attrs t kids]. cbn [names_ok]. intro H.
  apply andb_true_iff in H as [H _]. apply andb_true_iff in H as [Hn _].
  cbn [pbody app]. eexists. split; [reflexivity|]. rewrite <- app_assoc. now apply opens_name.
Qed.

Lemma pkids_good : forall kids, Forall pelem_good kids ->
  forallb tree_ok kids = true -> forallb names_ok kids = true ->
  forall i rest evs, Good rest evs ->
  Good (flat_map (fun k => indent_ws (S i) ++ pbody (S i) k) kids ++ rest)
       (flat_map (fun k => EvChars (indent_ws (S i)) :: mevents (S i) k) kids ++ evs).
Proof.
  induction kids as [|k ks IH]; intros HF Ho Hn i rest evs G; [exact G|].
  inversion HF as [|? ? Hk Hks]; subst.
  cbn [forallb] in Ho, Hn. apply andb_true_iff in Ho as [Ho1 Ho2]. apply andb_true_iff in Hn as [Hn1 Hn2].
  cbn [flat_map app]. rewrite <- !app_assoc.
  pose proof (Hk Ho1 Hn1 (S i) _ _ (IH Hks Ho2 Hn2 i rest evs G)) as Gk.
  destruct (pbody_opens (S i) k (flat_map (fun k0 => indent_ws (S i) ++ pbody (S i) k0) ks ++ rest) Hn1)
    as (x & Ex & Hx).
  rewrite Ex in *.
  apply good_run; [apply indent_nonempty|apply indent_nonempty|apply indent_no_lt|apply decode_indent|exact Hx|exact Gk].
Qed.

Lemma pbody_head i n attrs t kids rest :
  pbody i (El n attrs t kids) ++ rest
  = LT :: n ++ render_attrs attrs ++
    tag_end (is_empty t kids)
            (if is_empty t kids then rest
             else opt_text_render t ++ flat_map (fun k => indent_ws (S i) ++ pbody (S i) k) kids
                  ++ (match kids with [] => [] | _ => indent_ws i end)
                  ++ LT :: SLASH :: n ++ GT :: rest).
Proof.
  cbn [pbody]. destruct (is_empty t kids); unfold tag_end; cbn [app];
    repeat (rewrite <- app_assoc; cbn [app]); reflexivity.
Qed.

Lemma pelem_good_all : forall t, pelem_good t.
Proof.
  apply elem_ind2. intros n attrs t kids HF Hok Hnames i rest evs G.
  cbn [tree_ok] in Hok. apply andb_true_iff in Hok as [Hok Hk]. apply andb_true_iff in Hok as [Ha Ht].
  cbn [names_ok] in Hnames. apply andb_true_iff in Hnames as [Hnames Hnk].
  apply andb_true_iff in Hnames as [Hn Hna].
  rewrite pbody_head. cbn [mevents]. rewrite (attr_events_values _ Ha).
  pose proof (good_end n rest evs Hn G) as G1.
  (* text of this element, as written and as meant *)
  assert (Htext : forall x, t = Some x -> has_text t = true ->
            render_text x = rt1 (t_chars x) /\ chars_legal (t_chars x) = true
            /\ has_entity_ref (t_chars x) = false /\ t_chars x <> []).
  { intros x -> Etext. destruct x as [s e]. unfold val_ok in Ht. cbn [t_escaped t_chars] in *.
    apply andb_true_iff in Ht as [Ht He]. apply andb_true_iff in Ht as [Hesc Hl].
    apply negb_true_iff in Hesc, He. subst e. repeat split; try assumption.
    - apply request_text_rt1.
    - unfold has_text in Etext. cbn [t_chars] in Etext. destruct s; [discriminate|discriminate]. }
  destruct (is_empty t kids) eqn:Eempty.
  - (* <n .../> *)
    unfold is_empty in Eempty. destruct kids; [|discriminate]. destruct t; [discriminate|].
    cbn [text_event app].
    apply (good_start n attrs true rest evs Hn Ha Hna G).
  - destruct kids as [|k ks].
    + (* no children: exactly as in the plain form *)
      cbn [app]. rewrite <- app_assoc. cbn [app].
      apply (good_start n attrs false _ _ Hn Ha Hna).
      cbn [flat_map app]. rewrite (text_event_ok _ Ht). unfold opt_text_render.
      destruct t as [x|]; [|exact G1].
      destruct (has_text (Some x)) eqn:Etext; [|exact G1].
      destruct (Htext x eq_refl eq_refl) as (Ex & Hl & He & Hne). rewrite Ex. cbn [txt_chars app].
      apply good_text; try assumption. apply opens_slash.
    + inversion HF as [|? ? Hk0 Hks]; subst.
      cbn [forallb] in Hk, Hnk. apply andb_true_iff in Hk as [Hk1 Hk2].
      apply andb_true_iff in Hnk as [Hnk1 Hnk2].
      (* after the last child: line break, indentation, end tag *)
      assert (G2 : Good (indent_ws i ++ LT :: SLASH :: n ++ GT :: rest)
                        (EvChars (indent_ws i) :: EvEnd n :: evs)).
      { apply good_run; [apply indent_nonempty|apply indent_nonempty|apply indent_no_lt|apply decode_indent|apply opens_slash|exact G1]. }
      pose proof (pkids_good ks Hks Hk2 Hnk2 i _ _ G2) as G3.
      pose proof (Hk0 Hk1 Hnk1 (S i) _ _ G3) as G4.
      (* the events, flattened *)
      cbn [app]. rewrite <- ?app_assoc. cbn [app]. rewrite <- ?app_assoc. cbn [app].
      apply (good_start n attrs false _ _ Hn Ha Hna).
      cbn [flat_map app]. rewrite <- ?app_assoc. cbn [app].
      destruct (pbody_opens (S i) k
                  (flat_map (fun k0 => indent_ws (S i) ++ pbody (S i) k0) ks
                   ++ indent_ws i ++ LT :: SLASH :: n ++ GT :: rest) Hnk1) as (x & Ex & Hx).
      rewrite Ex in *.
      unfold opt_text_render.
      destruct t as [tx|].
      2: { cbn [has_text app]. apply good_run;
             [apply indent_nonempty|apply indent_nonempty|apply indent_no_lt|apply decode_indent|exact Hx|exact G4]. }
      destruct (has_text (Some tx)) eqn:Etext.
      * destruct (Htext tx eq_refl eq_refl) as (Etx & Hl & He & Hne). rewrite Etx. cbn [txt_chars].
        rewrite app_assoc.
        apply good_run; [| | |now apply decode_text_indent|exact Hx|exact G4].
        -- intro E0. apply app_eq_nil in E0 as [_ E0]. discriminate.
        -- intro E0. apply app_eq_nil in E0 as [_ E0]. discriminate.
        -- rewrite mem_app, rt1_no_lt, indent_no_lt. reflexivity.
      * cbn [app]. apply good_run;
          [apply indent_nonempty|apply indent_nonempty|apply indent_no_lt|apply decode_indent|exact Hx|exact G4].
Qed.

Lemma pretty_tokens_l : forall t,
  tree_ok t = true -> names_ok t = true -> xml_tokens (pretty 0 t) = Some (mevents 0 t).
Proof.
  intros t H1 H2. unfold xml_tokens. rewrite pretty_pbody. cbn [Nat.mul spaces repeat app].
  pose proof (pelem_good_all t H1 H2 0%nat [] [] good_nil) as G. rewrite !app_nil_r in G.
  apply G. lia.
Qed.

(* Element.str() cut by the XML grammar and fed to the Handler gives back the tree *)
Lemma pretty_end_to_end_l : forall t,
  tree_ok t = true -> names_ok t = true ->
  option_map canon (match xml_tokens (pretty 0 t) with Some evs => handler evs | None => None end)
  = Some (canon t).
Proof.
  intros t H1 H2. rewrite (pretty_tokens_l t H1 H2), (mtop_all t 0 H1).
  cbn [option_map]. now rewrite canon_reread.
Qed.
