(* C04 - lemmas about the reply direction: whatever mix of literal text,
   entity references, decimal / hexadecimal character references and CDATA
   sections an independent writer uses, the XML decoding of what it wrote is
   the string it meant; and the Handler hands over exactly the concatenation
   of the character events (trimmed only when the element has children). *)
From SV Require Import Lib.Base Gen.C04Tables C04.Model C04.EncProofs.
From Coq Require Import ZifyBool ZifyNat ZifyN.
Local Open Scope N_scope.

(* ------------------------------------------------------------------ *)
(* CDATA scanning                                                      *)
(* ------------------------------------------------------------------ *)
Lemma is_prefix_cdend_app x rest :
  x <> [] -> is_prefix cdata_end x = false -> is_prefix cdata_end (x ++ cdata_end ++ rest) = false.
Proof.
  intros Hne H. unfold cdata_end in *.
  destruct x as [|a [|b [|c x]]]; [congruence| | |].
  - cbn [is_prefix app]. change (62 =? 93) with false. change (93 =? 93) with true.
    destruct (93 =? a); reflexivity.
  - cbn [is_prefix app]. change (62 =? 93) with false.
    destruct (93 =? a), (93 =? b); reflexivity.
  - cbn [is_prefix app] in *. exact H.
Qed.

Lemma scan_cdata_ok b rest :
  has_sub cdata_end b = false -> scan_cdata (b ++ cdata_end ++ rest) = Some (b, rest).
Proof.
  induction b as [|c b IH]; intro H.
  - reflexivity.
  - cbn [has_sub] in H. apply orb_false_iff in H as [H1 H2].
    change ((c :: b) ++ cdata_end ++ rest) with (c :: (b ++ cdata_end ++ rest)).
    cbn [scan_cdata].
    change (c :: b ++ cdata_end ++ rest) with ((c :: b) ++ cdata_end ++ rest).
    rewrite (is_prefix_cdend_app (c :: b) rest) by (congruence || exact H1).
    cbn [app]. now rewrite (IH H2).
Qed.

Lemma norm_eol_id b : mem CR b = false -> norm_eol b = b.
Proof.
  induction b as [|c b IH]; [reflexivity|].
  rewrite mem_cons. intro H. apply orb_false_iff in H as [H1 H2].
  cbn [norm_eol]. rewrite N.eqb_sym, H1, (IH H2). reflexivity.
Qed.

Lemma cd_dec_cdata f k b x :
  chars_legal b = true -> mem CR b = false -> has_sub cdata_end b = false ->
  cd_dec (S f) k (LT :: cdata_open_tail ++ b ++ cdata_end ++ x) = option_map (app b) (cd_dec f 0 x).
Proof.
  intros H1 H2 H3. cbn [cd_dec]. change (LT =? AMP) with false. change (LT =? LT) with true. cbn iota.
  assert (E : strip_prefix cdata_open_tail (cdata_open_tail ++ b ++ cdata_end ++ x) = Some (b ++ cdata_end ++ x))
    by reflexivity.
  rewrite E, (scan_cdata_ok _ _ H3), H1, (norm_eol_id _ H2). reflexivity.
Qed.

(* ------------------------------------------------------------------ *)
(* references                                                          *)
(* ------------------------------------------------------------------ *)
Lemma digits_no_semi ds : forallb is_digit ds = true -> mem SEMI ds = false.
Proof.
  induction ds as [|d ds IH]; [reflexivity|]. cbn [forallb]. intro H.
  apply andb_true_iff in H as [H1 H2]. rewrite mem_cons, (IH H2).
  unfold is_digit in H1. destruct (N.eqb_spec SEMI d) as [<-|]; [discriminate|reflexivity].
Qed.

Definition is_hex (c : N) : bool := match hex_digit c with Some _ => true | None => false end.

Lemma hex_no_semi ds : forallb is_hex ds = true -> mem SEMI ds = false.
Proof.
  induction ds as [|d ds IH]; [reflexivity|]. cbn [forallb]. intro H.
  apply andb_true_iff in H as [H1 H2]. rewrite mem_cons, (IH H2).
  destruct (N.eqb_spec SEMI d) as [<-|]; [discriminate|reflexivity].
Qed.

Lemma ref_value_dec ds c :
  nonempty ds = true -> forallb is_digit ds = true ->
  num_of 10 dec_digit 0 ds = Some c -> is_xml_char c = true ->
  ref_value (HASH :: ds) = Some c.
Proof.
  intros Hne Hd Hn Hc. destruct ds as [|d ds]; [discriminate|].
  cbn [ref_value]. change (HASH =? HASH) with true. cbn iota.
  cbn [forallb] in Hd. apply andb_true_iff in Hd as [Hd _].
  assert (d =? LOWX = false) as ->.
  { unfold is_digit in Hd. destruct (N.eqb_spec d LOWX) as [->|]; [discriminate|reflexivity]. }
  rewrite Hn. unfold legal_char. now rewrite Hc.
Qed.

Lemma ref_value_hex ds c :
  nonempty ds = true -> num_of 16 hex_digit 0 ds = Some c -> is_xml_char c = true ->
  ref_value (HASH :: LOWX :: ds) = Some c.
Proof.
  intros Hne Hn Hc. destruct ds as [|d ds]; [discriminate|].
  cbn [ref_value]. change (HASH =? HASH) with true. change (LOWX =? LOWX) with true. cbn iota.
  rewrite Hn. unfold legal_char. now rewrite Hc.
Qed.

(* comments and processing instructions *)
Lemma scan_until2 p1 p2 : forall b rest,
  has_sub [p1; p2] (b ++ [p1]) = false ->
  scan_until [p1; p2] (b ++ p1 :: p2 :: rest) = Some (b, rest).
Proof.
  induction b as [|c b IH]; intros rest H.
  - cbn [app scan_until is_prefix]. rewrite !N.eqb_refl. reflexivity.
  - cbn [app has_sub] in H. apply orb_false_iff in H as [H1 H2].
    cbn [app scan_until].
    assert (E : is_prefix [p1; p2] (c :: b ++ p1 :: p2 :: rest) = false).
    { destruct b as [|d b]; cbn [app is_prefix] in *; exact H1 || (rewrite andb_true_r in *; exact H1). }
    rewrite E, (IH rest H2). reflexivity.
Qed.

Lemma cd_dec_comment f k b x :
  chars_legal b = true -> has_sub dashdash (b ++ [DASH]) = false ->
  cd_dec (S f) k (LT :: comment_open_tail ++ b ++ dashdash ++ [GT] ++ x) = cd_dec f 0 x.
Proof.
  intros H1 H2. cbn [cd_dec]. change (LT =? AMP) with false. change (LT =? LT) with true. cbv iota.
  assert (E0 : strip_prefix cdata_open_tail (comment_open_tail ++ b ++ dashdash ++ [GT] ++ x) = None) by reflexivity.
  assert (E1 : strip_prefix comment_open_tail (comment_open_tail ++ b ++ dashdash ++ [GT] ++ x)
               = Some (b ++ DASH :: DASH :: GT :: x)) by reflexivity.
  rewrite E0, E1. change dashdash with [DASH; DASH]. rewrite (scan_until2 DASH DASH b (GT :: x) H2).
  change (GT =? GT) with true. now rewrite H1.
Qed.

Lemma cd_dec_pi f k b x :
  pi_ok b = true -> has_sub pi_close (b ++ [QMARK]) = false ->
  cd_dec (S f) k (LT :: QMARK :: b ++ pi_close ++ x) = cd_dec f 0 x.
Proof.
  intros H1 H2. cbn [cd_dec]. change (LT =? AMP) with false. change (LT =? LT) with true. cbv iota.
  assert (E0 : strip_prefix cdata_open_tail (QMARK :: b ++ pi_close ++ x) = None) by reflexivity.
  assert (E1 : strip_prefix comment_open_tail (QMARK :: b ++ pi_close ++ x) = None) by reflexivity.
  rewrite E0, E1. change (QMARK =? QMARK) with true. cbv iota.
  change pi_close with [QMARK; GT] in *. change (b ++ [QMARK; GT] ++ x) with (b ++ QMARK :: GT :: x).
  rewrite (scan_until2 QMARK GT b x H2). now rewrite H1.
Qed.

(* value and "reads as" of one non-literal piece *)
Lemma ref_piece_cd p f k x :
  ref_piece_ok p = true ->
  cd_dec (S f) k (render_piece p ++ x) = option_map (app (piece_value p)) (cd_dec f 0 x).
Proof.
  destruct p as [s|n|ds|ds|b|b|b]; cbn [ref_piece_ok]; intro H; try discriminate.
  - (* entity *)
    destruct (assoc n predefined) as [ch|] eqn:E; [|discriminate].
    apply negb_true_iff in H.
    cbn [render_piece piece_value]. rewrite E. cbn [opt_char].
    change ((AMP :: n ++ [SEMI]) ++ x) with (AMP :: (n ++ [SEMI]) ++ x). rewrite <- app_assoc. cbn [app].
    rewrite (cd_dec_ref f k n ch _ H).
    + destruct (cd_dec f 0 x); reflexivity.
    + unfold ref_value. destruct n as [|c1 r1]; [discriminate|].
      assert (c1 =? HASH = false) as ->; [|exact E].
      destruct (N.eqb_spec c1 HASH) as [->|]; [|reflexivity]. exfalso.
      cbn in E. discriminate.
  - (* decimal *)
    apply andb_true_iff in H as [H Hc]. apply andb_true_iff in H as [Hne Hd].
    cbn [render_piece piece_value].
    destruct (num_of 10 dec_digit 0 ds) as [c|] eqn:E; [|discriminate]. cbn [char_opt_legal opt_char] in *.
    change ((AMP :: HASH :: ds ++ [SEMI]) ++ x) with (AMP :: ((HASH :: ds) ++ [SEMI]) ++ x).
    rewrite <- app_assoc. cbn [app].
    change (AMP :: HASH :: ds ++ SEMI :: x) with (AMP :: (HASH :: ds) ++ SEMI :: x).
    rewrite (cd_dec_ref f k (HASH :: ds) c).
    + destruct (cd_dec f 0 x); reflexivity.
    + rewrite mem_cons, (digits_no_semi _ Hd). reflexivity.
    + now apply ref_value_dec.
  - (* hexadecimal *)
    apply andb_true_iff in H as [H Hc]. apply andb_true_iff in H as [Hne Hd].
    cbn [render_piece piece_value].
    destruct (num_of 16 hex_digit 0 ds) as [c|] eqn:E; [|discriminate]. cbn [char_opt_legal opt_char] in *.
    change ((AMP :: HASH :: LOWX :: ds ++ [SEMI]) ++ x) with (AMP :: ((HASH :: LOWX :: ds) ++ [SEMI]) ++ x).
    rewrite <- app_assoc. cbn [app].
    change (AMP :: HASH :: LOWX :: ds ++ SEMI :: x) with (AMP :: (HASH :: LOWX :: ds) ++ SEMI :: x).
    rewrite (cd_dec_ref f k (HASH :: LOWX :: ds) c).
    + destruct (cd_dec f 0 x); reflexivity.
    + rewrite !mem_cons, (hex_no_semi _ Hd). reflexivity.
    + now apply ref_value_hex.
  - (* CDATA *)
    apply andb_true_iff in H as [H H3]. apply andb_true_iff in H as [H1 H2].
    apply negb_true_iff in H2, H3.
    cbn [render_piece piece_value].
    change ((LT :: cdata_open_tail ++ b ++ cdata_end) ++ x) with (LT :: (cdata_open_tail ++ b ++ cdata_end) ++ x).
    rewrite <- !app_assoc. now apply cd_dec_cdata.
  - (* comment *)
    apply andb_true_iff in H as [H1 H2]. apply negb_true_iff in H2.
    cbn [render_piece piece_value].
    change ((LT :: comment_open_tail ++ b ++ dashdash ++ [GT]) ++ x)
      with (LT :: (comment_open_tail ++ b ++ dashdash ++ [GT]) ++ x).
    rewrite <- !app_assoc. rewrite (cd_dec_comment f k b x H1 H2).
    destruct (cd_dec f 0 x); reflexivity.
  - (* processing instruction *)
    apply andb_true_iff in H as [H1 H2]. apply negb_true_iff in H2.
    cbn [render_piece piece_value].
    change ((LT :: QMARK :: b ++ pi_close) ++ x) with (LT :: QMARK :: (b ++ pi_close) ++ x).
    rewrite <- !app_assoc. rewrite (cd_dec_pi f k b x H1 H2).
    destruct (cd_dec f 0 x); reflexivity.
Qed.

(* literal text *)
Lemma lit_cd : forall s k k' n x,
  lit_ok k s = Some k' ->
  cd_dec (length s + n) k (s ++ x) = option_map (app s) (cd_dec n k' x).
Proof.
  induction s as [|c s IH]; intros k k' n x H.
  - cbn in H. inversion H; subst. cbn. destruct (cd_dec n k' x); reflexivity.
  - cbn [lit_ok] in H.
    destruct ((c =? AMP) || (c =? LT) || (c =? CR) || negb (is_xml_char c) || ((c =? GT) && (2 <=? k)%nat)) eqn:E;
      [discriminate|].
    apply orb_false_iff in E as [E E5]. apply orb_false_iff in E as [E E4].
    apply orb_false_iff in E as [E E3]. apply orb_false_iff in E as [E1 E2].
    apply negb_false_iff in E4.
    cbn [length app Nat.add cd_dec]. rewrite E1, E2, E3, E5, E4.
    rewrite (IH _ _ _ _ H). destruct (cd_dec n k' x); reflexivity.
Qed.

Lemma render_length_lit s ps : length (render_pieces (PLit s :: ps)) = (length s + length (render_pieces ps))%nat.
Proof. unfold render_pieces. cbn [flat_map render_piece]. now rewrite app_length. Qed.

Lemma render_length_pos p ps : ref_piece_ok p = true ->
  (length (render_pieces ps) < length (render_pieces (p :: ps)))%nat.
Proof.
  intro H. unfold render_pieces. cbn [flat_map]. rewrite app_length.
  destruct p; cbn [ref_piece_ok] in H; try discriminate; cbn [render_piece length]; lia.
Qed.

Lemma pieces_cd : forall ps k n,
  pieces_ok k ps = true -> (length (render_pieces ps) < n)%nat ->
  cd_dec n k (render_pieces ps) = Some (pieces_value ps).
Proof.
  induction ps as [|p ps IH]; intros k n Hok Hlen.
  - destruct n; [cbn in Hlen; lia|reflexivity].
  - destruct p as [s|nm|ds|ds|b|b|b].
    + (* literal *)
      cbn [pieces_ok] in Hok. destruct (lit_ok k s) as [k'|] eqn:E; [|discriminate].
      rewrite render_length_lit in Hlen.
      replace n with (length s + (n - length s))%nat by lia.
      unfold render_pieces, pieces_value. cbn [flat_map render_piece piece_value].
      rewrite (lit_cd _ _ _ _ _ E).
      fold (render_pieces ps). rewrite (IH k' _ Hok) by lia. reflexivity.
    + cbn [pieces_ok] in Hok. apply andb_true_iff in Hok as [Hp Hok].
      pose proof (render_length_pos _ ps Hp). destruct n; [lia|].
      unfold render_pieces, pieces_value. cbn [flat_map].
      rewrite (ref_piece_cd _ _ _ _ Hp). fold (render_pieces ps). rewrite (IH 0%nat _ Hok) by lia. reflexivity.
    + cbn [pieces_ok] in Hok. apply andb_true_iff in Hok as [Hp Hok].
      pose proof (render_length_pos _ ps Hp). destruct n; [lia|].
      unfold render_pieces, pieces_value. cbn [flat_map].
      rewrite (ref_piece_cd _ _ _ _ Hp). fold (render_pieces ps). rewrite (IH 0%nat _ Hok) by lia. reflexivity.
    + cbn [pieces_ok] in Hok. apply andb_true_iff in Hok as [Hp Hok].
      pose proof (render_length_pos _ ps Hp). destruct n; [lia|].
      unfold render_pieces, pieces_value. cbn [flat_map].
      rewrite (ref_piece_cd _ _ _ _ Hp). fold (render_pieces ps). rewrite (IH 0%nat _ Hok) by lia. reflexivity.
    + cbn [pieces_ok] in Hok. apply andb_true_iff in Hok as [Hp Hok].
      pose proof (render_length_pos _ ps Hp). destruct n; [lia|].
      unfold render_pieces, pieces_value. cbn [flat_map].
      rewrite (ref_piece_cd _ _ _ _ Hp). fold (render_pieces ps). rewrite (IH 0%nat _ Hok) by lia. reflexivity.
    + cbn [pieces_ok] in Hok. apply andb_true_iff in Hok as [Hp Hok].
      pose proof (render_length_pos _ ps Hp). destruct n; [lia|].
      unfold render_pieces, pieces_value. cbn [flat_map].
      rewrite (ref_piece_cd _ _ _ _ Hp). fold (render_pieces ps). rewrite (IH 0%nat _ Hok) by lia. reflexivity.
    + cbn [pieces_ok] in Hok. apply andb_true_iff in Hok as [Hp Hok].
      pose proof (render_length_pos _ ps Hp). destruct n; [lia|].
      unfold render_pieces, pieces_value. cbn [flat_map].
      rewrite (ref_piece_cd _ _ _ _ Hp). fold (render_pieces ps). rewrite (IH 0%nat _ Hok) by lia. reflexivity.
Qed.

Lemma reply_any_encoding_l : forall ps,
  pieces_ok 0 ps = true -> xml_chardata_decode (render_pieces ps) = Some (pieces_value ps).
Proof. intros ps H. unfold xml_chardata_decode. apply pieces_cd; [exact H|lia]. Qed.

(* ------------------------------------------------------------------ *)
(* attribute values                                                    *)
(* ------------------------------------------------------------------ *)
Lemma ref_piece_att p f q x :
  ref_piece_ok p = true -> (forall b, p <> PCData b) -> (forall b, p <> PComment b) -> (forall b, p <> PPI b) ->
  att_dec (S f) q (render_piece p ++ x) = option_map (app (piece_value p)) (att_dec f q x).
Proof.
  destruct p as [s|n|ds|ds|b|b|b]; cbn [ref_piece_ok]; intros H Hnc Hnm Hnp; try discriminate.
  - destruct (assoc n predefined) as [ch|] eqn:E; [|discriminate].
    apply negb_true_iff in H.
    cbn [render_piece piece_value]. rewrite E. cbn [opt_char].
    change ((AMP :: n ++ [SEMI]) ++ x) with (AMP :: (n ++ [SEMI]) ++ x). rewrite <- app_assoc. cbn [app].
    rewrite (att_dec_ref f q n ch _ H).
    + destruct (att_dec f q x); reflexivity.
    + unfold ref_value. destruct n as [|c1 r1]; [discriminate|].
      assert (c1 =? HASH = false) as ->; [|exact E].
      destruct (N.eqb_spec c1 HASH) as [->|]; [|reflexivity]. exfalso.
      cbn in E. discriminate.
  - apply andb_true_iff in H as [H Hc]. apply andb_true_iff in H as [Hne Hd].
    cbn [render_piece piece_value].
    destruct (num_of 10 dec_digit 0 ds) as [c|] eqn:E; [|discriminate]. cbn [char_opt_legal opt_char] in *.
    change ((AMP :: HASH :: ds ++ [SEMI]) ++ x) with (AMP :: ((HASH :: ds) ++ [SEMI]) ++ x).
    rewrite <- app_assoc. cbn [app].
    change (AMP :: HASH :: ds ++ SEMI :: x) with (AMP :: (HASH :: ds) ++ SEMI :: x).
    rewrite (att_dec_ref f q (HASH :: ds) c).
    + destruct (att_dec f q x); reflexivity.
    + rewrite mem_cons, (digits_no_semi _ Hd). reflexivity.
    + now apply ref_value_dec.
  - apply andb_true_iff in H as [H Hc]. apply andb_true_iff in H as [Hne Hd].
    cbn [render_piece piece_value].
    destruct (num_of 16 hex_digit 0 ds) as [c|] eqn:E; [|discriminate]. cbn [char_opt_legal opt_char] in *.
    change ((AMP :: HASH :: LOWX :: ds ++ [SEMI]) ++ x) with (AMP :: ((HASH :: LOWX :: ds) ++ [SEMI]) ++ x).
    rewrite <- app_assoc. cbn [app].
    change (AMP :: HASH :: LOWX :: ds ++ SEMI :: x) with (AMP :: (HASH :: LOWX :: ds) ++ SEMI :: x).
    rewrite (att_dec_ref f q (HASH :: LOWX :: ds) c).
    + destruct (att_dec f q x); reflexivity.
    + rewrite !mem_cons, (hex_no_semi _ Hd). reflexivity.
    + now apply ref_value_hex.
  - exfalso. now apply (Hnc b).
  - exfalso. now apply (Hnm b).
  - exfalso. now apply (Hnp b).
Qed.

Lemma alit_att : forall s q n x,
  alit_ok q s = true ->
  att_dec (length s + n) q (s ++ x) = option_map (app s) (att_dec n q x).
Proof.
  induction s as [|c s IH]; intros q n x H.
  - cbn. destruct (att_dec n q x); reflexivity.
  - unfold alit_ok in H. cbn [forallb] in H. apply andb_true_iff in H as [H Hs].
    apply andb_true_iff in H as [Hc H]. apply negb_true_iff in H.
    apply orb_false_iff in H as [H E6]. apply orb_false_iff in H as [H E5].
    apply orb_false_iff in H as [H E4]. apply orb_false_iff in H as [H E3].
    apply orb_false_iff in H as [E1 E2].
    cbn [length app Nat.add att_dec]. rewrite E1, E2, E3, E4, E5, E6, Hc. cbn [orb].
    rewrite (IH _ _ _ Hs). destruct (att_dec n q x); reflexivity.
Qed.

Lemma apieces_att : forall ps q n,
  apieces_ok q ps = true -> (length (render_pieces ps) < n)%nat ->
  att_dec n q (render_pieces ps) = Some (pieces_value ps).
Proof.
  induction ps as [|p ps IH]; intros q n Hok Hlen.
  - destruct n; [cbn in Hlen; lia|reflexivity].
  - unfold apieces_ok in Hok. cbn [forallb] in Hok. apply andb_true_iff in Hok as [Hp Hok].
    destruct p as [s|nm|ds|ds|b|b|b]; cbn [apiece_ok] in Hp; try discriminate.
    + rewrite render_length_lit in Hlen.
      replace n with (length s + (n - length s))%nat by lia.
      unfold render_pieces, pieces_value. cbn [flat_map render_piece piece_value].
      rewrite (alit_att _ _ _ _ Hp). fold (render_pieces ps). rewrite (IH q _ Hok) by lia. reflexivity.
    + pose proof (render_length_pos _ ps Hp). destruct n; [lia|].
      unfold render_pieces, pieces_value. cbn [flat_map].
      rewrite (ref_piece_att _ _ _ _ Hp) by discriminate.
      fold (render_pieces ps). rewrite (IH q _ Hok) by lia. reflexivity.
    + pose proof (render_length_pos _ ps Hp). destruct n; [lia|].
      unfold render_pieces, pieces_value. cbn [flat_map].
      rewrite (ref_piece_att _ _ _ _ Hp) by discriminate.
      fold (render_pieces ps). rewrite (IH q _ Hok) by lia. reflexivity.
    + pose proof (render_length_pos _ ps Hp). destruct n; [lia|].
      unfold render_pieces, pieces_value. cbn [flat_map].
      rewrite (ref_piece_att _ _ _ _ Hp) by discriminate.
      fold (render_pieces ps). rewrite (IH q _ Hok) by lia. reflexivity.
Qed.

Lemma reply_attr_any_encoding_l : forall q ps,
  apieces_ok q ps = true -> xml_attvalue_decode q (render_pieces ps) = Some (pieces_value ps).
Proof. intros q ps H. unfold xml_attvalue_decode. apply apieces_att; [exact H|lia]. Qed.

(* ------------------------------------------------------------------ *)
(* Handler: concatenation, trimming only with children                 *)
(* ------------------------------------------------------------------ *)
Lemma reply_text_exact_l : forall chunks,
  none_is_empty (suds_leaf_value chunks) = concat chunks.
Proof.
  intro chunks. unfold suds_leaf_value, close_text. rewrite rev_involutive.
  destruct (rev chunks) as [|c l] eqn:E.
  - apply (f_equal (@rev str)) in E. rewrite rev_involutive in E. subst. reflexivity.
  - unfold has_text. cbn [t_chars]. destruct (concat chunks); reflexivity.
Qed.

Lemma trim_only_nonleaf_l : forall buf n,
  close_text buf 0 = match buf with [] => None | _ => Some (mkText (concat (rev buf)) false) end
  /\ close_text buf (S n) = option_map text_trim (close_text buf 0).
Proof. intros buf n. destruct buf; split; reflexivity. Qed.
