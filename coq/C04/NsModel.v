(* C04 - requests as whole documents.

   MODEL: suds/sax/element.py Element with prefix, expns and nsprefixes:
          qname, resolvePrefix, defaultNamespace, nsdeclarations, plain, str;
          suds/sax/document.py Document.plain / str (the XML declaration).
   SPEC : Namespaces in XML 1.0 - from the elements and attributes a parser
          reports (xmlns declarations are ordinary attributes for the grammar
          of Tokens.v) to the infoset: expanded names, attribute values, text. *)
From SV Require Import Lib.Base Gen.C04Tables C04.Model C04.Tokens.
Local Open Scope N_scope.

(* ================================================================== *)
(* MODEL                                                               *)
(* ================================================================== *)
Inductive nelem :=
  NEl (prefix : option str) (name : str) (expns : option str) (nsprefixes : list (str * str))
      (attrs : list (str * text)) (txt : option text) (kids : list nelem).

Definition qname (pf : option str) (n : str) : str :=
  match pf with None => n | Some p => p ++ COLON :: n end.

Definition xml_prefix : str := fst ns_xml.
Definition xml_uri : str := snd ns_xml.

(* the nsprefixes of an element and its ancestors, nearest first *)
Definition nsctx := list (list (str * str)).

(* Element.resolvePrefix: at each level the element's own mapping, then the
   special prefix xml, then the parent *)
Fixpoint resolve_ctx (ctx : nsctx) (p : str) : option str :=
  match ctx with
  | [] => None
  | m :: up => match assoc p m with
               | Some u => Some u
               | None => if str_eqb p xml_prefix then Some xml_uri else resolve_ctx up p
               end
  end.

(* what nsdeclarations() looks at: the parent's OWN expns and the parent's chain *)
Definition parent_info := option (option str * nsctx).

Definition xmlns_name : str := [120; 109; 108; 110; 115].

Definition default_declared (par : parent_info) (ex : option str) : bool :=
  match ex with
  | None => false
  | Some u => negb (opt_eqb str_eqb (Some u) (match par with Some (pe, _) => pe | None => None end))
  end.

Definition prefix_declared (par : parent_info) (pu : str * str) : bool :=
  match par with
  | None => true
  | Some (_, pctx) => negb (opt_eqb str_eqb (resolve_ctx pctx (fst pu)) (Some (snd pu)))
  end.

(* Element.nsdeclarations: the values are written as they are (no escaping) *)
Definition nsdecls (par : parent_info) (ex : option str) (nsp : list (str * str)) : str :=
  (match ex with
   | Some u => if default_declared par ex then SP :: xmlns_name ++ [EQS; QUOT] ++ u ++ [QUOT] else []
   | None => []
   end)
  ++ flat_map (fun pu => if prefix_declared par pu
                         then SP :: xmlns_name ++ COLON :: fst pu ++ [EQS; QUOT] ++ snd pu ++ [QUOT]
                         else []) nsp.

Definition n_is_empty (t : option text) (kids : list nelem) : bool :=
  match kids, t with [], None => true | _, _ => false end.

Definition child_info (par : parent_info) (ex : option str) (nsp : list (str * str)) : parent_info :=
  Some (ex, nsp :: match par with Some (_, c) => c | None => [] end).

Fixpoint plain_ns (par : parent_info) (e : nelem) : str :=
  match e with
  | NEl pf n ex nsp attrs t kids =>
    let q := qname pf n in
    LT :: q ++ nsdecls par ex nsp ++ render_attrs attrs ++
    (if n_is_empty t kids then [SLASH; GT]
     else GT :: opt_text_render t ++ flat_map (plain_ns (child_info par ex nsp)) kids
          ++ [LT; SLASH] ++ q ++ [GT])
  end.

Fixpoint pretty_ns (indent : nat) (par : parent_info) (e : nelem) : str :=
  match e with
  | NEl pf n ex nsp attrs t kids =>
    let q := qname pf n in
    spaces (indent * 3) ++ LT :: q ++ nsdecls par ex nsp ++ render_attrs attrs ++
    (if n_is_empty t kids then [SLASH; GT]
     else GT :: opt_text_render t
          ++ flat_map (fun k => LF :: pretty_ns (S indent) (child_info par ex nsp) k) kids
          ++ (match kids with [] => [] | _ => LF :: spaces (indent * 3) end)
          ++ [LT; SLASH] ++ q ++ [GT])
  end.

(* Document.DECL = <?xml version="1.0" encoding="UTF-8"?> *)
Definition xml_decl : str :=
  [60;63;120;109;108;32;118;101;114;115;105;111;110;61;34;49;46;48;34;32;101;110;99;111;100;105;110;103;61;34;85;84;70;45;56;34;63;62].

(* Document.plain() / Document.str() *)
Definition doc_plain (root : nelem) : str := xml_decl ++ plain_ns None root.
Definition doc_pretty (root : nelem) : str := xml_decl ++ LF :: pretty_ns 0 None root.

(* the SOAP frame of bindings/binding.py: Envelope(Header(...), Body(...)) *)
Definition soap_envelope (pe pb : str) (decls : list (str * str)) (env_attrs : list (str * text))
           (header body : list nelem) : nelem :=
  NEl (Some pe) [69;110;118;101;108;111;112;101] None decls env_attrs None
      [NEl (Some pe) [72;101;97;100;101;114] None [] [] None header;
       NEl (Some pb) [66;111;100;121] None [] [] None body].

(* the same tree with the declarations as the attributes they are written as *)
Definition decl_attrs (par : parent_info) (ex : option str) (nsp : list (str * str)) : list (str * text) :=
  (match ex with
   | Some u => if default_declared par ex then [(xmlns_name, mkText u false)] else []
   | None => []
   end)
  ++ map (fun pu => (xmlns_name ++ COLON :: fst pu, mkText (snd pu) false)) (filter (prefix_declared par) nsp).

Fixpoint flatten (par : parent_info) (e : nelem) : elem :=
  match e with
  | NEl pf n ex nsp attrs t kids =>
    El (qname pf n) (decl_attrs par ex nsp ++ attrs) t (map (flatten (child_info par ex nsp)) kids)
  end.

(* ================================================================== *)
(* SPEC: Namespaces in XML                                             *)
(* ================================================================== *)
Definition ename := (option str * str)%type.        (* namespace name (None = none), local part *)
Inductive itree := IT (name : ename) (attrs : list (ename * str)) (txt : str) (kids : list itree).

(* an attribute that is a namespace declaration: (prefix, [] for the default; value) *)
Definition decl_of (a : str * text) : option (str * str) :=
  if str_eqb (fst a) xmlns_name then Some ([], t_chars (snd a))
  else match strip_prefix (xmlns_name ++ [COLON]) (fst a) with
       | Some p => Some (p, t_chars (snd a))
       | None => None
       end.

Definition decls_of (attrs : list (str * text)) : list (str * str) :=
  flat_map (fun a => match decl_of a with Some d => [d] | None => [] end) attrs.

Definition real_attrs (attrs : list (str * text)) : list (str * text) :=
  filter (fun a => match decl_of a with Some _ => false | None => true end) attrs.

(* in-scope declarations, nearest first; key [] is the default namespace *)
Definition lookup_ns (scope : list (str * str)) (p : str) : option str :=
  if str_eqb p xml_prefix then Some xml_uri else assoc p scope.

Definition expand_elem (scope : list (str * str)) (q : str) : option ename :=
  match split_colon q with
  | Some (p, l) => match lookup_ns scope p with Some u => Some (Some u, l) | None => None end
  | None => Some (match assoc [] scope with Some [] => None | o => o end, q)
  end.

(* an unprefixed attribute is in no namespace *)
Definition expand_attr (scope : list (str * str)) (q : str) : option ename :=
  match split_colon q with
  | Some (p, l) => match lookup_ns scope p with Some u => Some (Some u, l) | None => None end
  | None => Some (None, q)
  end.

Fixpoint map_opt {A B} (f : A -> option B) (l : list A) : option (list B) :=
  match l with
  | [] => Some []
  | x :: r => match f x, map_opt f r with
              | Some y, Some ys => Some (y :: ys)
              | _, _ => None
              end
  end.

(* None = a prefix is used that is not declared: not namespace-well-formed *)
Fixpoint infoset (scope : list (str * str)) (e : elem) : option itree :=
  match e with
  | El q attrs t kids =>
    let scope' := decls_of attrs ++ scope in
    match expand_elem scope' q,
          map_opt (fun a => match expand_attr scope' (fst a) with
                            | Some en => Some (en, t_chars (snd a))
                            | None => None
                            end) (real_attrs attrs),
          (fix go (l : list elem) : option (list itree) :=
             match l with
             | [] => Some []
             | k :: r => match infoset scope' k, go r with
                         | Some x, Some xs => Some (x :: xs)
                         | _, _ => None
                         end
             end) kids with
    | Some en, Some ia, Some ik => Some (IT en ia (match t with Some x => t_chars x | None => [] end) ik)
    | _, _, _ => None
    end
  end.

(* what suds means by the tree: Element.namespace() / Attribute.namespace() *)
Fixpoint ninfoset (dflt : option str) (ctx : nsctx) (e : nelem) : option itree :=
  match e with
  | NEl pf n ex nsp attrs t kids =>
    let dflt' := match ex with Some u => Some u | None => dflt end in
    let ctx' := nsp :: ctx in
    match (match pf with
           | None => Some (dflt', n)
           | Some p => match resolve_ctx ctx' p with Some u => Some (Some u, n) | None => None end
           end),
          map_opt (fun a => match split_colon (fst a) with
                            | Some (p, l) => match resolve_ctx ctx' p with
                                             | Some u => Some ((Some u, l), t_chars (snd a))
                                             | None => None
                                             end
                            | None => Some ((None, fst a), t_chars (snd a))
                            end) attrs,
          (fix go (l : list nelem) : option (list itree) :=
             match l with
             | [] => Some []
             | k :: r => match ninfoset dflt' ctx' k, go r with
                         | Some x, Some xs => Some (x :: xs)
                         | _, _ => None
                         end
             end) kids with
    | Some en, Some ia, Some ik =>
      Some (IT en ia (let s := match t with Some x => t_chars x | None => [] end in
                      match kids with [] => s | _ => py_strip s end) ik)
    | _, _, _ => None
    end
  end.

(* the prolog: the XML declaration and white space before the root element *)
Definition xml_decl_open : str := [60; 63; 120; 109; 108].    (* <?xml *)
Definition strip_prolog (s : str) : str :=
  match strip_prefix xml_decl_open s with
  | Some r => match scan_until pi_close r with
              | Some (_, r') => skip_ws r'
              | None => s
              end
  | None => skip_ws s
  end.

(* characters of a document -> grammar -> tree of what was reported -> infoset *)
Definition xml_document (s : str) : option elem :=
  match xml_tokens (strip_prolog s) with
  | Some evs => tree_of_events evs
  | None => None
  end.

Definition xml_infoset (s : str) : option itree :=
  match xml_document s with
  | Some tr => infoset [] (canon tr)
  | None => None
  end.

(* ================================================================== *)
(* predicates evaluated by the harness on whole request documents      *)
(* ================================================================== *)
Definition ename_eqb (a b : ename) : bool := opt_eqb str_eqb (fst a) (fst b) && str_eqb (snd a) (snd b).
Definition it_name (t : itree) : ename := match t with IT n _ _ _ => n end.

Fixpoint it_at (path : list (nat * ename)) (t : itree) : option itree :=
  match path with
  | [] => Some t
  | (i, en) :: r =>
    match t with
    | IT _ _ _ kids => match nth_error kids i with
                       | Some k => if ename_eqb (it_name k) en then it_at r k else None
                       | None => None
                       end
    end
  end.

(* a position: path from the root (each step: child index and the expanded
   name expected there), None = the text / Some a = the attribute a, the string *)
Definition position_t := (list (nat * ename) * option ename * str)%type.

Fixpoint it_attr (a : ename) (l : list (ename * str)) : option str :=
  match l with
  | [] => None
  | (n, v) :: r => if ename_eqb n a then Some v else it_attr a r
  end.

Definition position_ok (root : itree) (p : position_t) : bool :=
  let '(path, what, s) := p in
  match path with
  | [] => false
  | (_, en) :: r =>
    ename_eqb (it_name root) en &&
    match it_at r root with
    | Some (IT _ attrs txt _) =>
      match what with
      | None => str_eqb txt s
      | Some a => opt_eqb str_eqb (it_attr a attrs) (Some s)
      end
    | None => false
    end
  end.

(* the tree handed to the serialiser (dumped at the `marshalled` hook), pretty?,
   the document as sent, the positions holding the strings given to the operation *)
Definition doc_case := (nelem * bool * str * list position_t)%type.

(* Element.plain/str with nsdeclarations + Document: the model writes the same characters *)
Definition doc_agrees (c : doc_case) : bool :=
  let '(t, pr, doc, _) := c in str_eqb (if pr then doc_pretty t else doc_plain t) doc.

(* the property, on the whole document: characters -> grammar -> decoding ->
   infoset; at every position the string that was given, under the expanded names
   an independent namespace-aware parser reports *)
Definition doc_spec_ok (c : doc_case) : bool :=
  let '(_, _, doc, ps) := c in
  match xml_infoset doc with
  | Some root => forallb (position_ok root) ps
  | None => false
  end.
