(* C04 - bounded exhaustive classification: over a small alphabet of
   markup-significant characters and entity fragments, EXACTLY the strings
   that already contain a predefined entity reference (and, for attribute
   values, those the prefix normaliser rewrites) fail to survive; every other
   string up to the bound is recovered exactly.  Checks that the guards of the
   unbounded _partial theorems are the weakest ones.  vm_compute over the whole
   finite set, lifted to a forall by forallb_forall. *)
From SV Require Import Lib.Base Gen.C04Tables C04.Model.
Local Open Scope N_scope.

Fixpoint strings_upto (n : nat) (alpha : list N) : list str :=
  match n with
  | O => [[]]
  | S k => [] :: flat_map (fun c => map (cons c) (strings_upto k alpha)) alpha
  end.

Lemma in_strings_upto alpha : forall n s,
  (length s <= n)%nat -> (forall c, In c s -> In c alpha) -> In s (strings_upto n alpha).
Proof.
  induction n as [|n IH]; intros s Hl Hc.
  - destruct s; [now left|cbn in Hl; lia].
  - destruct s as [|c s]; [now left|]. right.
    apply in_flat_map. exists c. split; [apply Hc; now left|].
    apply in_map. apply IH; [cbn in Hl; lia|]. intros d Hd. apply Hc. now right.
Qed.

(* amp semicolon lt gt quot apos l t g a m p CR *)
Definition alphabet_text : list N := [38; 59; 60; 62; 34; 39; 108; 116; 103; 97; 109; 112; 13].

Definition text_survives (s : str) : bool :=
  ostr_eqb (xml_chardata_decode (request_text s)) (Some s).

Lemma text_sweep :
  forallb (fun s => Bool.eqb (text_survives s) (negb (has_entity_ref s)))
          (strings_upto 5 alphabet_text) = true.
Proof. vm_compute. reflexivity. Qed.

Lemma text_roundtrip_bounded_l : forall s,
  (length s <= 5)%nat -> (forall c, In c s -> In c alphabet_text) ->
  text_survives s = negb (has_entity_ref s).
Proof.
  intros s Hl Hc. pose proof text_sweep as H. rewrite forallb_forall in H.
  apply eqb_prop. apply H. now apply in_strings_upto.
Qed.

(* Encoder.decode undoes Encoder.encode (Text.unescape after Text.escape) exactly
   on the strings without an entity reference; length <= 4 over the same alphabet *)
Definition decode_undoes_encode (s : str) : bool := str_eqb (decode (encode s)) s.

Lemma decode_sweep :
  forallb (fun s => Bool.eqb (decode_undoes_encode s) (negb (has_entity_ref s)))
          (strings_upto 4 alphabet_text) = true.
Proof. vm_compute. reflexivity. Qed.

Lemma decode_encode_bounded_l : forall s,
  (length s <= 4)%nat -> (forall c, In c s -> In c alphabet_text) ->
  decode_undoes_encode s = negb (has_entity_ref s).
Proof.
  intros s Hl Hc. pose proof decode_sweep as H. rewrite forallb_forall in H.
  apply eqb_prop. apply H. now apply in_strings_upto.
Qed.

(* p colon amp semicolon l t lt TAB LF CR quot, with p bound to urn:a which the normaliser calls ns0 *)
Definition alphabet_attr : list N := [112; 58; 38; 59; 108; 116; 60; 9; 10; 13; 34].
Definition sweep_scope : list (str * str) := [([112], [117; 114; 110; 58; 97])].
Definition sweep_pi : list (str * str) := [([117; 114; 110; 58; 97], [110; 115; 48])].

Definition attr_survives (s : str) : bool :=
  match request_attr sweep_scope sweep_pi s with
  | Some raw => ostr_eqb (xml_attvalue_decode QUOT raw) (Some s)
  | None => false
  end.

Lemma attr_sweep :
  forallb (fun s => Bool.eqb (attr_survives s)
                             (negb (has_entity_ref s) && negb (qname_rewritten sweep_scope sweep_pi s)))
          (strings_upto 5 alphabet_attr) = true.
Proof. vm_compute. reflexivity. Qed.

Lemma attr_roundtrip_bounded_l : forall s,
  (length s <= 5)%nat -> (forall c, In c s -> In c alphabet_attr) ->
  attr_survives s = negb (has_entity_ref s) && negb (qname_rewritten sweep_scope sweep_pi s).
Proof.
  intros s Hl Hc. pose proof attr_sweep as H. rewrite forallb_forall in H.
  apply eqb_prop. apply H. now apply in_strings_upto.
Qed.
