(* C04 - Character data survives the wire unchanged in both directions.

   MODEL  (mirrors the suds code as it is now, quirks included)
     suds/sax/enc.py        Encoder.encode / decode / __needs_encoding   (tables regenerated: Gen/C04Tables.v)
     suds/sax/text.py       Text.escape / unescape / trim / __add__      (the `escaped` flag)
     suds/sax/attribute.py  Attribute.__unicode__                        (charrefs for TAB LF CR)
     suds/sax/element.py    Element.__escaped_text, plain, str, PrefixNormalizer.refitValue
     suds/sax/parser.py     Handler.characters / endElement              (concatenate, trim non-leaf only)
     suds/umx/core.py       postprocess for leaf text

   SPEC   (written from XML 1.0, not from the code)
     xml_chardata_decode    2.4 character data, 2.7 CDATA, 2.11 line ends, 4.1 references, 4.6 predefined
     xml_attvalue_decode    3.3.3 attribute-value normalisation (no DTD: CDATA type)
     pieces / apieces       what an independent writer may emit for a string

   Tokenising characters into tags is not modelled: that is expat's part and is
   covered by the executed correspondence (harness/c04.py). *)
From SV Require Import Lib.Base Gen.C04Tables.

Local Open Scope N_scope.

(* ------------------------------------------------------------------ *)
(* characters                                                          *)
(* ------------------------------------------------------------------ *)
Definition AMP : N := 38.   Definition LT : N := 60.   Definition GT : N := 62.
Definition QUOT : N := 34.  Definition APOS : N := 39. Definition SEMI : N := 59.
Definition HASH : N := 35.  Definition CR : N := 13.   Definition LF : N := 10.
Definition TAB : N := 9.    Definition SP : N := 32.   Definition COLON : N := 58.
Definition RB : N := 93.    Definition LOWX : N := 120. Definition SLASH : N := 47.
Definition EQS : N := 61.
Definition BANG : N := 33.  Definition QMARK : N := 63. Definition DASH : N := 45.

(* XML 1.0 production [2] Char *)
Definition is_xml_char (c : N) : bool :=
  (c =? 9) || (c =? 10) || (c =? 13) || ((32 <=? c) && (c <=? 55295))
  || ((57344 <=? c) && (c <=? 65533)) || ((65536 <=? c) && (c <=? 1114111)).

Definition chars_legal (s : str) : bool := forallb is_xml_char s.

Fixpoint is_prefix (p s : str) : bool :=
  match p, s with
  | [], _ => true
  | x :: p', y :: s' => (x =? y) && is_prefix p' s'
  | _ :: _, [] => false
  end.

Fixpoint has_sub (p s : str) : bool :=
  match s with
  | [] => is_prefix p []
  | _ :: r => is_prefix p s || has_sub p r
  end.

Definition mem (c : N) (s : str) : bool := existsb (N.eqb c) s.

Fixpoint assoc {B} (k : str) (l : list (str * B)) : option B :=
  match l with
  | [] => None
  | (k', v) :: r => if str_eqb k k' then Some v else assoc k r
  end.

(* ================================================================== *)
(* MODEL: suds/sax/enc.py                                              *)
(* ================================================================== *)

(* re.sub("&(?!(n1|..|nk);)", repl, s): the match is the single character
   `&` (the look-ahead consumes nothing), scanning resumes right after it. *)
Definition lookahead (names : list str) (r : str) : bool :=
  existsb (fun n => is_prefix (n ++ [SEMI]) r) names.

Fixpoint sub_amp_not (names : list str) (repl s : str) : str :=
  match s with
  | [] => []
  | c :: r => if (c =? AMP) && negb (lookahead names r)
              then repl ++ sub_amp_not names repl r
              else c :: sub_amp_not names repl r
  end.

(* re.sub(<one literal character>, repl, s)  ==  s.replace(c, repl) *)
Fixpoint sub_char (c : N) (repl s : str) : str :=
  match s with
  | [] => []
  | x :: r => if x =? c then repl ++ sub_char c repl r else x :: sub_char c repl r
  end.

Definition apply_pat (acc : str) (pr : enc_pat * str) : str :=
  match fst pr with
  | PatChar c => sub_char c (snd pr) acc
  | PatAmpNot names => sub_amp_not names (snd pr) acc
  end.

Definition needs_encoding (s : str) : bool := existsb (fun c => mem c s) special.

(* Encoder.encode: the substitutions are applied one after the other *)
Definition encode (s : str) : str :=
  if needs_encoding s then fold_left apply_pat encodings s else s.

(* str.replace(old, new): leftmost, non-overlapping; `skip` = characters of a
   match still to be dropped *)
Fixpoint replace_aux (old new : str) (skip : nat) (s : str) : str :=
  match s with
  | [] => []
  | c :: r =>
    match skip with
    | S k => replace_aux old new k r
    | O => if is_prefix old s then new ++ replace_aux old new (length old - 1) r
           else c :: replace_aux old new 0 r
    end
  end.
Definition replace_all (old new s : str) : str :=
  match old with [] => s | _ => replace_aux old new 0 s end.

(* Encoder.decode *)
Definition decode (s : str) : str :=
  if mem AMP s then fold_left (fun acc p => replace_all (fst p) (snd p) acc) decodings s else s.

(* ================================================================== *)
(* MODEL: suds/sax/text.py                                             *)
(* ================================================================== *)
Record text := mkText { t_chars : str; t_escaped : bool }.

Definition text_eqb (a b : text) : bool :=
  str_eqb (t_chars a) (t_chars b) && Bool.eqb (t_escaped a) (t_escaped b).

Definition text_escape (t : text) : text :=
  if t_escaped t then t
  else let post := encode (t_chars t) in mkText post (negb (str_eqb post (t_chars t))).

Definition text_unescape (t : text) : text :=
  if t_escaped t then mkText (decode (t_chars t)) false else t.

Definition is_py_space (c : N) : bool := mem c py_space.

Fixpoint lstrip (s : str) : str :=
  match s with
  | [] => []
  | c :: r => if is_py_space c then lstrip r else s
  end.
Definition py_strip (s : str) : str := rev (lstrip (rev (lstrip s))).

Definition text_trim (t : text) : text := mkText (py_strip (t_chars t)) (t_escaped t).

(* Text.__add__(other): other a Text (Some flag) or a plain str (None) *)
Definition text_add (a : text) (b : str) (b_flag : option bool) : text :=
  mkText (t_chars a ++ b)
         (match b_flag with Some f => t_escaped a || f | None => t_escaped a end).

(* ================================================================== *)
(* MODEL: serialisation of text and attribute values                   *)
(* ================================================================== *)
Definition apply_charrefs (tbl : list (N * str)) (s : str) : str :=
  fold_left (fun acc p => sub_char (fst p) (snd p) acc) tbl s.

(* Element.__escaped_text (non-Raw text) *)
Definition render_text (t : text) : str := apply_charrefs text_charrefs (t_chars (text_escape t)).

(* Attribute.__unicode__, the part between the quotes *)
Definition render_attr_value (t : text) : str :=
  apply_charrefs attr_charrefs (t_chars (text_escape t)).

(* splitPrefix: name.split(":", 1) *)
Fixpoint split_colon (s : str) : option (str * str) :=
  match s with
  | [] => None
  | c :: r => if c =? COLON then Some ([], r)
              else match split_colon r with
                   | Some (a, b) => Some (c :: a, b)
                   | None => None
                   end
  end.

(* PrefixNormalizer.skip((p, u)) - tuple comparison with the four fixed pairs
   (the prefix is part of the comparison).  An unresolved prefix gives
   Namespace.default and is skipped before this is called. *)
Definition ns_xml : str * str := ([120;109;108], [104;116;116;112;58;47;47;119;119;119;46;119;51;46;111;114;103;47;88;77;76;47;49;57;57;56;47;110;97;109;101;115;112;97;99;101]).
Definition ns_xsd : str * str := ([120;115], [104;116;116;112;58;47;47;119;119;119;46;119;51;46;111;114;103;47;50;48;48;49;47;88;77;76;83;99;104;101;109;97]).
Definition ns_xsi : str * str := ([120;115;105], [104;116;116;112;58;47;47;119;119;119;46;119;51;46;111;114;103;47;50;48;48;49;47;88;77;76;83;99;104;101;109;97;45;105;110;115;116;97;110;99;101]).
Definition pair_eqb (a b : str * str) : bool := str_eqb (fst a) (fst b) && str_eqb (snd a) (snd b).
Definition ns_skip (ns : str * str) : bool :=
  pair_eqb ns ns_xsd || pair_eqb ns ns_xsi || pair_eqb ns ns_xml.

(* Element.resolvePrefix for the element carrying the attribute: `scope` is the
   in-scope prefix -> URI map (nearest first); `xml` is a special prefix. *)
Definition resolve (scope : list (str * str)) (p : str) : option (str * str) :=
  match assoc p scope with
  | Some u => Some (p, u)
  | None => if str_eqb p (fst ns_xml) then Some ns_xml else None
  end.

(* PrefixNormalizer.refitValue.  `pi` = the normaliser's generated URI -> prefix
   map (the order of a Python set decides which URI gets ns0, ns1...: abstract).
   None models the KeyError of self.prefixes[...] (never seen on real trees). *)
Definition refit_value (scope pi : list (str * str)) (v : str) : option str :=
  match split_colon v with
  | None => Some v
  | Some (p, name) =>
    match resolve scope p with
    | None => Some v
    | Some ns => if ns_skip ns then Some v
                 else match assoc (snd ns) pi with
                      | Some q => Some (q ++ COLON :: name)
                      | None => None
                      end
    end
  end.

(* what the request carries for an element value / an attribute value *)
Definition request_text (s : str) : str := render_text (mkText s false).
Definition request_attr (scope pi : list (str * str)) (s : str) : option str :=
  match refit_value scope pi s with
  | Some v => Some (render_attr_value (mkText v false))
  | None => None
  end.

(* ================================================================== *)
(* MODEL: standalone trees, Element.plain / Element.str                *)
(* (no namespace declarations: the generated standalone trees have none) *)
(* ================================================================== *)
Inductive elem := El (name : str) (attrs : list (str * text)) (txt : option text) (kids : list elem).

Definition e_name (e : elem) := match e with El n _ _ _ => n end.
Definition e_attrs (e : elem) := match e with El _ a _ _ => a end.
Definition e_txt (e : elem) := match e with El _ _ t _ => t end.
Definition e_kids (e : elem) := match e with El _ _ _ k => k end.

Definition has_text (t : option text) : bool :=
  match t with Some x => match t_chars x with [] => false | _ => true end | None => false end.

Definition render_attrs (attrs : list (str * text)) : str :=
  flat_map (fun a => SP :: fst a ++ [EQS; QUOT] ++ render_attr_value (snd a) ++ [QUOT]) attrs.

Definition opt_text_render (t : option text) : str :=
  match t with Some x => if has_text t then render_text x else [] | None => [] end.

Definition is_empty (t : option text) (kids : list elem) : bool :=
  match kids, t with [], None => true | _, _ => false end.

Fixpoint plain (e : elem) : str :=
  match e with
  | El n attrs t kids =>
    LT :: n ++ render_attrs attrs ++
    (if is_empty t kids then [SLASH; GT]
     else GT :: opt_text_render t ++ flat_map plain kids ++ [LT; SLASH] ++ n ++ [GT])
  end.

Definition spaces (n : nat) : str := repeat SP n.

Fixpoint pretty (indent : nat) (e : elem) : str :=
  match e with
  | El n attrs t kids =>
    spaces (indent * 3) ++ LT :: n ++ render_attrs attrs ++
    (if is_empty t kids then [SLASH; GT]
     else GT :: opt_text_render t
          ++ flat_map (fun k => LF :: pretty (S indent) k) kids
          ++ (match kids with [] => [] | _ => LF :: spaces (indent * 3) end)
          ++ [LT; SLASH] ++ n ++ [GT])
  end.

(* ================================================================== *)
(* MODEL: suds/sax/parser.py Handler over SAX events                   *)
(* ================================================================== *)
Inductive ev := EvStart (n : str) (attrs : list (str * str)) | EvChars (s : str) | EvEnd (n : str).

Record frame := mkFrame { f_name : str; f_attrs : list (str * text);
                          f_buf : list str;      (* charbuffer, newest first *)
                          f_kids : list elem }.  (* children, newest first *)

(* endElement: text only when the buffer is non-empty; `if current: trim()`
   where the truth of an Element is len(children) *)
Definition close_text (buf : list str) (nkids : nat) : option text :=
  match buf with
  | [] => None
  | _ => let t := mkText (concat (rev buf)) false in
         Some (match nkids with O => t | _ => text_trim t end)
  end.

Definition close_frame (close : list str -> nat -> option text) (f : frame) : elem :=
  El (f_name f) (f_attrs f) (close (f_buf f) (length (f_kids f))) (rev (f_kids f)).

Fixpoint run_handler (close : list str -> nat -> option text)
         (evs : list ev) (stack : list frame) (root : option elem) : option elem :=
  match evs with
  | [] => match stack with [] => root | _ => None end
  | EvStart n attrs :: r =>
      run_handler close r (mkFrame n (map (fun a => (fst a, mkText (snd a) false)) attrs) [] [] :: stack) root
  | EvChars s :: r =>
      match stack with
      | f :: st => run_handler close r (mkFrame (f_name f) (f_attrs f) (s :: f_buf f) (f_kids f) :: st) root
      | [] => None
      end
  | EvEnd n :: r =>
      match stack with
      | f :: st =>
        if str_eqb n (f_name f) then
          let e := close_frame close f in
          match st with
          | p :: st' => run_handler close r (mkFrame (f_name p) (f_attrs p) (f_buf p) (e :: f_kids p) :: st') root
          | [] => run_handler close r [] (Some e)
          end
        else None      (* raise Exception("malformed document") *)
      | [] => None
      end
  end.

Definition handler (evs : list ev) : option elem := run_handler close_text evs [] None.

(* SPEC side: the tree an XML processor reports - all character data of an
   element concatenated, nothing trimmed *)
Definition tree_of_events (evs : list ev) : option elem :=
  run_handler (fun buf _ => Some (mkText (concat (rev buf)) false)) evs [] None.

(* what a leaf element's text becomes for the caller: Handler + umx postprocess
   (a string-typed leaf without text gives None: xsd:string is nillable in suds) *)
Definition suds_leaf_value (chunks : list str) : option str :=
  match close_text (rev chunks) 0 with
  | Some t => if has_text (Some t) then Some (t_chars t) else None
  | None => None
  end.

(* ================================================================== *)
(* SPEC: XML 1.0 decoding of character data and attribute values       *)
(* ================================================================== *)
Definition predefined : list (str * N) :=
  [([108;116], LT); ([103;116], GT); ([97;109;112], AMP); ([113;117;111;116], QUOT); ([97;112;111;115], APOS)].

Fixpoint split_semi (s : str) : option (str * str) :=
  match s with
  | [] => None
  | c :: r => if c =? SEMI then Some ([], r)
              else match split_semi r with
                   | Some (a, b) => Some (c :: a, b)
                   | None => None
                   end
  end.

Definition dec_digit (c : N) : option N := if is_digit c then Some (c - 48) else None.
Definition hex_digit (c : N) : option N :=
  if is_digit c then Some (c - 48)
  else if (97 <=? c) && (c <=? 102) then Some (c - 87)
  else if (65 <=? c) && (c <=? 70) then Some (c - 55)
  else None.

Fixpoint num_of (base : N) (dig : N -> option N) (acc : N) (ds : str) : option N :=
  match ds with
  | [] => Some acc
  | d :: r => match dig d with Some v => num_of base dig (acc * base + v) r | None => None end
  end.

(* [66] CharRef, [68] EntityRef restricted to the predefined entities (4.6);
   a character reference must denote a Char (WFC: Legal Character) *)
Definition legal_char (o : option N) : option N :=
  match o with Some c => if is_xml_char c then Some c else None | None => None end.

Definition ref_value (name : str) : option N :=
  match name with
  | [] => None
  | c1 :: r1 =>
    if c1 =? HASH then
      match r1 with
      | [] => None
      | c2 :: r2 =>
        if c2 =? LOWX then match r2 with
                           | [] => None
                           | _ => legal_char (num_of 16 hex_digit 0 r2)
                           end
        else legal_char (num_of 10 dec_digit 0 r1)
      end
    else assoc name predefined
  end.

Definition cdata_open_tail : str := [33; 91; 67; 68; 65; 84; 65; 91].      (* ![CDATA[ *)
Definition cdata_end : str := [93; 93; 62].                               (* ]]> *)

Fixpoint strip_prefix (p s : str) : option str :=
  match p, s with
  | [], _ => Some s
  | x :: p', y :: s' => if x =? y then strip_prefix p' s' else None
  | _ :: _, [] => None
  end.

Fixpoint scan_cdata (s : str) : option (str * str) :=
  match s with
  | [] => None
  | c :: r => if is_prefix cdata_end s then Some ([], skipn 3 s)
              else match scan_cdata r with
                   | Some (b, rest) => Some (c :: b, rest)
                   | None => None
                   end
  end.

(* 2.11: CR LF and lone CR become LF (applies to literal text and CDATA alike) *)
Fixpoint norm_eol (s : str) : str :=
  match s with
  | [] => []
  | c :: r => if c =? CR then LF :: match r with
                                     | x :: r' => if x =? LF then norm_eol r' else norm_eol r
                                     | [] => []
                                     end
              else c :: norm_eol r
  end.

(* first occurrence of pat: (what precedes it, what follows it) *)
Fixpoint scan_until (pat s : str) : option (str * str) :=
  match s with
  | [] => None
  | c :: r => if is_prefix pat s then Some ([], skipn (length pat) s)
              else match scan_until pat r with
                   | Some (b, rest) => Some (c :: b, rest)
                   | None => None
                   end
  end.

Definition comment_open_tail : str := [33; 45; 45].     (* !-- *)
Definition dashdash : str := [45; 45].
Definition pi_close : str := [63; 62].                  (* ?> *)

Definition is_ws (c : N) : bool := (c =? 32) || (c =? 9) || (c =? 10) || (c =? 13).
Fixpoint take_nonws (s : str) : str :=
  match s with
  | [] => []
  | c :: r => if is_ws c then [] else c :: take_nonws r
  end.
Definition lower (c : N) : N := if (65 <=? c) && (c <=? 90) then c + 32 else c.

(* [16] PI: a target that is not (x|X)(m|M)(l|L); the body must not contain ?> *)
Definition pi_ok (body : str) : bool :=
  chars_legal body
  && match take_nonws body with
     | [] => false
     | t => negb (str_eqb (map lower t) [120; 109; 108])
     end.

(* content of an element without child elements -> the string it denotes, or
   None when it is not well-formed.  k = number of `]` just seen in literal
   text (the sequence ]]> must not occur there, 2.4).  Comments and processing
   instructions inside the content contribute nothing. *)
Fixpoint cd_dec (fuel : nat) (k : nat) (s : str) : option str :=
  match fuel with
  | O => None
  | S f =>
    match s with
    | [] => Some []
    | c :: r =>
      if c =? AMP then
        match split_semi r with
        | Some (name, r') =>
          match ref_value name with
          | Some ch => option_map (cons ch) (cd_dec f 0 r')
          | None => None
          end
        | None => None
        end
      else if c =? LT then
        match strip_prefix cdata_open_tail r with
        | Some r1 =>
          match scan_cdata r1 with
          | Some (body, r') => if chars_legal body
                               then option_map (app (norm_eol body)) (cd_dec f 0 r')
                               else None
          | None => None
          end
        | None =>
          (* [15] Comment: no -- inside, so the first -- must be the closing one *)
          match strip_prefix comment_open_tail r with
          | Some r1 =>
            match scan_until dashdash r1 with
            | Some (body, g :: r') => if (g =? GT) && chars_legal body then cd_dec f 0 r' else None
            | _ => None
            end
          | None =>
            match r with
            | q :: r1 =>
              if q =? QMARK then
                match scan_until pi_close r1 with
                | Some (body, r') => if pi_ok body then cd_dec f 0 r' else None
                | None => None
                end
              else None
            | [] => None
            end
          end
        end
      else if c =? CR then
        option_map (cons LF) (cd_dec f 0 (match r with
                                          | x :: r2 => if x =? LF then r2 else r
                                          | [] => r
                                          end))
      else if (c =? GT) && (2 <=? k)%nat then None
      else if is_xml_char c then option_map (cons c) (cd_dec f (if c =? RB then S k else O) r)
      else None
    end
  end.

Definition xml_chardata_decode (s : str) : option str := cd_dec (S (length s)) 0 s.

(* attribute value between quotes q: references give their character
   unchanged; literal TAB/LF/CR give a space (CR LF one space); `<` and the
   quote itself cannot occur literally. *)
Fixpoint att_dec (fuel : nat) (q : N) (s : str) : option str :=
  match fuel with
  | O => None
  | S f =>
    match s with
    | [] => Some []
    | c :: r =>
      if c =? AMP then
        match split_semi r with
        | Some (name, r') =>
          match ref_value name with
          | Some ch => option_map (cons ch) (att_dec f q r')
          | None => None
          end
        | None => None
        end
      else if (c =? LT) || (c =? q) then None
      else if c =? CR then
        option_map (cons SP) (att_dec f q (match r with
                                           | x :: r2 => if x =? LF then r2 else r
                                           | [] => r
                                           end))
      else if (c =? LF) || (c =? TAB) then option_map (cons SP) (att_dec f q r)
      else if is_xml_char c then option_map (cons c) (att_dec f q r)
      else None
    end
  end.

Definition xml_attvalue_decode (q : N) (s : str) : option str := att_dec (S (length s)) q s.

(* ------------------------------------------------------------------ *)
(* SPEC: what an independent writer may emit for a string              *)
(* ------------------------------------------------------------------ *)
Inductive piece :=
| PLit (s : str)            (* literal text *)
| PEnt (name : str)         (* &name; *)
| PDec (digits : str)       (* &#digits; *)
| PHex (digits : str)       (* &#xdigits; *)
| PCData (body : str)       (* <![CDATA[body]]> - element content only *)
| PComment (body : str)     (* <!--body-->      - element content only, denotes nothing *)
| PPI (body : str).         (* <?body?>         - element content only, denotes nothing *)

Definition render_piece (p : piece) : str :=
  match p with
  | PLit s => s
  | PEnt n => AMP :: n ++ [SEMI]
  | PDec ds => AMP :: HASH :: ds ++ [SEMI]
  | PHex ds => AMP :: HASH :: LOWX :: ds ++ [SEMI]
  | PCData b => LT :: cdata_open_tail ++ b ++ cdata_end
  | PComment b => LT :: comment_open_tail ++ b ++ dashdash ++ [GT]
  | PPI b => LT :: QMARK :: b ++ pi_close
  end.

Definition render_pieces (ps : list piece) : str := flat_map render_piece ps.

Definition opt_char (o : option N) : str := match o with Some c => [c] | None => [] end.

Definition piece_value (p : piece) : str :=
  match p with
  | PLit s => s
  | PEnt n => opt_char (assoc n predefined)
  | PDec ds => opt_char (num_of 10 dec_digit 0 ds)
  | PHex ds => opt_char (num_of 16 hex_digit 0 ds)
  | PCData b => b
  | PComment _ => []
  | PPI _ => []
  end.

Definition pieces_value (ps : list piece) : str := flat_map piece_value ps.

Definition char_opt_legal (o : option N) : bool := match o with Some c => is_xml_char c | None => false end.
Definition nonempty (s : str) : bool := match s with [] => false | _ => true end.

(* literal text in element content: a legal Char that is not & < or CR
   (a literal CR does not denote CR), and never completing ]]> *)
Fixpoint lit_ok (k : nat) (s : str) : option nat :=
  match s with
  | [] => Some k
  | c :: r =>
    if (c =? AMP) || (c =? LT) || (c =? CR) || negb (is_xml_char c) || ((c =? GT) && (2 <=? k)%nat)
    then None
    else lit_ok (if c =? RB then S k else O) r
  end.

Definition ref_piece_ok (p : piece) : bool :=
  match p with
  | PLit _ => false
  | PEnt n => match assoc n predefined with Some _ => negb (mem SEMI n) | None => false end
  | PDec ds => nonempty ds && forallb is_digit ds && char_opt_legal (num_of 10 dec_digit 0 ds)
  | PHex ds => nonempty ds && forallb (fun c => match hex_digit c with Some _ => true | None => false end) ds
               && char_opt_legal (num_of 16 hex_digit 0 ds)
  | PCData b => chars_legal b && negb (mem CR b) && negb (has_sub cdata_end b)
  | PComment b => chars_legal b && negb (has_sub dashdash (b ++ [DASH]))
  | PPI b => pi_ok b && negb (has_sub pi_close (b ++ [QMARK]))
  end.

Fixpoint pieces_ok (k : nat) (ps : list piece) : bool :=
  match ps with
  | [] => true
  | PLit s :: r => match lit_ok k s with Some k' => pieces_ok k' r | None => false end
  | p :: r => ref_piece_ok p && pieces_ok 0 r
  end.

(* attribute values: no CDATA; literal text additionally excludes the quote
   and TAB / LF (they would denote a space) *)
Definition alit_ok (q : N) (s : str) : bool :=
  forallb (fun c => is_xml_char c && negb ((c =? AMP) || (c =? LT) || (c =? q) || (c =? CR) || (c =? LF) || (c =? TAB))) s.

Definition apiece_ok (q : N) (p : piece) : bool :=
  match p with
  | PLit s => alit_ok q s
  | PCData _ => false
  | PComment _ => false
  | PPI _ => false
  | _ => ref_piece_ok p
  end.

Definition apieces_ok (q : N) (ps : list piece) : bool := forallb (apiece_ok q) ps.

(* ================================================================== *)
(* guards of the partial theorems                                      *)
(* ================================================================== *)
Definition entity_names : list str := map fst predefined.

(* s contains `&name;` for a predefined name: the encoder leaves it alone *)
Fixpoint has_entity_ref (s : str) : bool :=
  match s with
  | [] => false
  | c :: r => ((c =? AMP) && lookahead entity_names r) || has_entity_ref r
  end.

(* the attribute value is of the form p:rest with p bound (and not skipped)
   and the normaliser renames it *)
Definition qname_rewritten (scope pi : list (str * str)) (v : str) : bool :=
  match refit_value scope pi v with
  | Some v' => negb (str_eqb v v')
  | None => true
  end.

(* ================================================================== *)
(* predicates evaluated by the harness (true = fine)                   *)
(* ================================================================== *)
Definition ostr_eqb := opt_eqb str_eqb.

(* --- Encoder.encode / decode called directly ----------------------- *)
Definition enc_case := (str * (str * str))%type.     (* s, impl encode(s), impl decode(s) *)
Definition enc_agrees (c : enc_case) : bool :=
  let '(s, (e, d)) := c in str_eqb (encode s) e && str_eqb (decode s) d.

(* --- Text operations ------------------------------------------------ *)
Inductive textop :=
| OpEscape (t : text) | OpUnescape (t : text) | OpTrim (t : text)
| OpAdd (a : text) (b : str) (bf : option bool)
| OpEscape2 (t : text).        (* t.escape().escape() : escaped exactly once *)
Definition textop_model (o : textop) : text :=
  match o with
  | OpEscape t => text_escape t
  | OpUnescape t => text_unescape t
  | OpTrim t => text_trim t
  | OpAdd a b bf => text_add a b bf
  | OpEscape2 t => text_escape (text_escape t)
  end.
Definition txt_case := (textop * text)%type.
Definition txt_agrees (c : txt_case) : bool := text_eqb (textop_model (fst c)) (snd c).

(* --- Text with the escaped flag, and Raw text, through the serialisers - *)
(* Raw.escape returns self: Element.__escaped_text leaves Raw text untouched;
   Attribute.__unicode__ has no Raw case and still writes TAB LF CR as references *)
Definition render_raw_text (s : str) : str := s.
Definition render_raw_attr (s : str) : str := apply_charrefs attr_charrefs s.

(* characters, kind (0 Text, 1 Text escaped=True, 2 Raw), attribute position?, raw slice written *)
Definition esc_case := (str * N * bool * str)%type.
Definition esc_agrees (c : esc_case) : bool :=
  let '(s, kind, isattr, raw) := c in
  str_eqb (if kind =? 2 then (if isattr then render_raw_attr s else render_raw_text s)
           else (if isattr then render_attr_value else render_text) (mkText s (kind =? 1))) raw.

(* --- request: one value in element or attribute position ----------- *)
Inductive position := PosText | PosAttr (scope pi : list (str * str)).
(* value, position, raw slice of the request between the tags / quotes (as
   located by an independent tokenizer), what expat recovered *)
Definition req_case := (str * position * str * option str)%type.

Definition req_model (s : str) (p : position) : option str :=
  match p with
  | PosText => Some (request_text s)
  | PosAttr scope pi => request_attr scope pi s
  end.

Definition spec_decode (p : position) (raw : str) : option str :=
  match p with
  | PosText => xml_chardata_decode raw
  | PosAttr _ _ => xml_attvalue_decode QUOT raw
  end.

Definition req_agrees (c : req_case) : bool :=
  let '(s, p, raw, _) := c in ostr_eqb (req_model s p) (Some raw).

(* the property: what is on the wire is well-formed and denotes exactly s *)
Definition req_spec_ok (c : req_case) : bool :=
  let '(s, p, raw, _) := c in ostr_eqb (spec_decode p raw) (Some s).

(* well-formed whatever the string contains (second half of the sentence) *)
Definition req_wf_ok (c : req_case) : bool :=
  let '(s, p, raw, _) := c in match spec_decode p raw with Some _ => true | None => false end.

(* the spec decoder and the independent parser (expat) agree on this slice *)
Definition req_oracle_ok (c : req_case) : bool :=
  let '(s, p, raw, seen) := c in ostr_eqb (spec_decode p raw) seen.

(* compact form used for the cases where expat recovered exactly s *)
Definition req_case3 := (str * position * str)%type.
Definition expand3 (c : req_case3) : req_case := let '(s, p, raw) := c in (s, p, raw, Some s).

(* --- reply: pieces written by the independent writer ---------------- *)
(* pieces, in attribute position?, quote, raw as written, SAX chunks an
   independent expat run delivered, value suds handed back (None = no value) *)
Definition rep_case := (list piece * bool * N * str * list str * option str)%type.

Definition none_is_empty (o : option str) : str := match o with Some s => s | None => [] end.

Definition rep_writer_ok (c : rep_case) : bool :=
  let '(ps, isattr, q, raw, _, _) := c in
  str_eqb (render_pieces ps) raw && (if isattr then apieces_ok q ps else pieces_ok 0 ps).

Definition rep_model (c : rep_case) : option str :=
  let '(ps, isattr, q, raw, chunks, _) := c in
  if isattr then Some (concat chunks)      (* expat hands the normalised value over in one piece *)
  else suds_leaf_value chunks.

Definition rep_agrees (c : rep_case) : bool :=
  let '(ps, isattr, q, raw, chunks, got) := c in
  str_eqb (none_is_empty (rep_model c)) (none_is_empty got).

(* the property: suds hands back exactly the string XML says the document
   contains (an absent value is read as the empty string) *)
Definition rep_spec_ok (c : rep_case) : bool :=
  let '(ps, isattr, q, raw, chunks, got) := c in
  match (if isattr then xml_attvalue_decode q raw else xml_chardata_decode raw) with
  | Some v => str_eqb v (none_is_empty got)
  | None => false
  end.

(* the XML value equals what the writer meant, and the chunks concatenate to it *)
Definition rep_oracle_ok (c : rep_case) : bool :=
  let '(ps, isattr, q, raw, chunks, got) := c in
  ostr_eqb (if isattr then xml_attvalue_decode q raw else xml_chardata_decode raw) (Some (pieces_value ps))
  && str_eqb (concat chunks) (pieces_value ps).

(* --- standalone trees ------------------------------------------------ *)
(* canonical content of a tree for comparison: attribute values, leaf text
   exact, non-leaf text trimmed, absent text = empty text *)
Fixpoint canon (e : elem) : elem :=
  match e with
  | El n attrs t kids =>
    let s := match t with Some x => t_chars x | None => [] end in
    El n (map (fun a => (fst a, mkText (t_chars (snd a)) false)) attrs)
       (Some (mkText (match kids with [] => s | _ => py_strip s end) false))
       (map canon kids)
  end.

Fixpoint elem_eqb (a b : elem) {struct a} : bool :=
  match a, b with
  | El n1 a1 t1 k1, El n2 a2 t2 k2 =>
    str_eqb n1 n2
    && list_eqb (fun x y => str_eqb (fst x) (fst y) && text_eqb (snd x) (snd y)) a1 a2
    && opt_eqb text_eqb t1 t2
    && (fix kids_eqb (l1 l2 : list elem) {struct l1} : bool :=
          match l1, l2 with
          | [], [] => true
          | x :: r1, y :: r2 => elem_eqb x y && kids_eqb r1 r2
          | _, _ => false
          end) k1 k2
  end.

Definition oelem_eqb := opt_eqb elem_eqb.

(* tree, is pretty?, serialisation by the implementation, SAX events an
   independent run delivered for it, tree suds' own parser built from it *)
Definition tree_case := (elem * bool * str * list ev * option elem)%type.

Definition tree_agrees (c : tree_case) : bool :=
  let '(t, pr, out, evs, reread) := c in
  str_eqb (if pr then pretty 0 t else plain t) out
  && oelem_eqb (handler evs) reread.

(* the property for standalone trees: what the independent parser saw is the
   tree that was serialised (leaf text exactly; text of elements with children
   up to surrounding whitespace), and suds' own parser gives the same *)
Definition tree_spec_ok (c : tree_case) : bool :=
  let '(t, pr, out, evs, reread) := c in
  oelem_eqb (option_map canon (tree_of_events evs)) (Some (canon t))
  && oelem_eqb (option_map canon reread) (Some (canon t)).
