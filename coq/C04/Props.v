(* C04 - Character data survives the wire unchanged in both directions.
   Property theorems only: each is closed by `exact` of a lemma proved in
   EncProofs / ReplyProofs / TreeProofs / Bounded and followed by Print Assumptions.

   Reading guide.  `request_text s` / `request_attr scope pi s` are what suds
   writes between the tags / the quotes for the value s (Model.v mirrors
   Text.escape, Encoder.encode over the regenerated tables, the character
   references added by Element.__escaped_text and Attribute.__unicode__, and
   PrefixNormalizer.refitValue).  `xml_chardata_decode` / `xml_attvalue_decode`
   are the XML 1.0 rules an independent parser applies (None = not well-formed). *)
From SV Require Import Lib.Base Gen.C04Tables C04.Model C04.EncProofs C04.DecodeProofs C04.RefitProofs C04.ReplyProofs
     C04.TreeProofs C04.Chunks C04.Tokens C04.TokenProofs C04.PrettyTokens C04.NsModel C04.NsProofs C04.PositionProofs C04.Bounded.
Local Open Scope N_scope.

(* ------------------------------------------------------------------ *)
(* request direction                                                   *)
(* ------------------------------------------------------------------ *)

(* The five sequential re.sub passes of Encoder.encode are one left-to-right
   pass: a character's image depends only on it and (for `&`) on what follows. *)
Theorem encode_single_pass : forall s, encode s = enc1 s.
Proof. exact encode_single_pass_l. Qed.
Print Assumptions encode_single_pass.

(* The document is well-formed whatever the string contains: UNGUARDED. *)
Theorem encode_wellformed : forall s,
  chars_legal s = true -> exists v, xml_chardata_decode (request_text s) = Some v.
Proof. exact encode_wellformed_l. Qed.
Print Assumptions encode_wellformed.

Theorem attr_wellformed : forall scope pi s raw,
  request_attr scope pi s = Some raw ->
  (forall v, refit_value scope pi s = Some v -> chars_legal v = true) ->
  exists v, xml_attvalue_decode QUOT raw = Some v.
Proof. exact attr_wellformed_l. Qed.
Print Assumptions attr_wellformed.

(* FULL STATEMENT (false of the faithful model, kept visible):
     forall s, chars_legal s = true -> xml_chardata_decode (request_text s) = Some s.
   What holds for every s: the receiver gets s with the predefined entity
   references s already contained decoded once (`collapse`). *)
Theorem text_roundtrip_exact : forall s,
  chars_legal s = true -> xml_chardata_decode (request_text s) = Some (collapse s).
Proof. exact text_roundtrip_exact_l. Qed.
Print Assumptions text_roundtrip_exact.

Theorem text_roundtrip_partial : forall s,
  chars_legal s = true -> has_entity_ref s = false ->
  xml_chardata_decode (request_text s) = Some s.
Proof. exact text_roundtrip_partial_l. Qed.
Print Assumptions text_roundtrip_partial.

(* witness "&lt;" : sent verbatim, read back as "<"
   (finding C04:text-contains-entity-reference) *)
Theorem text_roundtrip_refuted :
  exists s, chars_legal s = true /\ xml_chardata_decode (request_text s) <> Some s.
Proof. exact text_roundtrip_refuted_l. Qed.
Print Assumptions text_roundtrip_refuted.

(* attribute values: additionally the value must not be a prefix:rest that the
   prefix normaliser rewrites.  TAB, LF, CR need no guard any more. *)
Theorem attr_roundtrip_partial : forall scope pi s,
  chars_legal s = true -> has_entity_ref s = false -> qname_rewritten scope pi s = false ->
  exists raw, request_attr scope pi s = Some raw /\ xml_attvalue_decode QUOT raw = Some s.
Proof. exact attr_roundtrip_partial_l. Qed.
Print Assumptions attr_roundtrip_partial.

Theorem attr_roundtrip_refuted_entity :
  exists s, chars_legal s = true /\ qname_rewritten [] [] s = false /\
            request_attr [] [] s <> None /\
            forall raw, request_attr [] [] s = Some raw -> xml_attvalue_decode QUOT raw <> Some s.
Proof. exact attr_roundtrip_refuted_entity_l. Qed.
Print Assumptions attr_roundtrip_refuted_entity.

(* witness "p:x" with p bound: read back as "ns0:x"
   (finding C04:attr-value-looks-like-qname) *)
Theorem attr_roundtrip_refuted_qname :
  exists scope pi s, chars_legal s = true /\ has_entity_ref s = false /\
    exists raw v, request_attr scope pi s = Some raw /\ xml_attvalue_decode QUOT raw = Some v /\ v <> s.
Proof. exact attr_roundtrip_refuted_qname_l. Qed.
Print Assumptions attr_roundtrip_refuted_qname.

(* exactly which attribute values the prefix normaliser touches: p:rest with p
   bound to a namespace other than the three skipped (xs, xsi, xml) pairs *)
Theorem refit_only_bound_prefixes : forall scope pi v,
  qname_rewritten scope pi v = true ->
  exists p name u, split_colon v = Some (p, name) /\ resolve scope p = Some (p, u)
                   /\ ns_skip (p, u) = false.
Proof. exact refit_only_bound_prefixes_l. Qed.
Print Assumptions refit_only_bound_prefixes.

(* in particular a value without a colon always survives *)
Theorem attr_without_colon : forall scope pi s,
  chars_legal s = true -> has_entity_ref s = false -> mem COLON s = false ->
  exists raw, request_attr scope pi s = Some raw /\ xml_attvalue_decode QUOT raw = Some s.
Proof. exact attr_without_colon_l. Qed.
Print Assumptions attr_without_colon.

(* the escaped flag: escaping an escaped Text changes nothing *)
Theorem escape_once : forall t,
  t_chars (text_escape (text_escape t)) = t_chars (text_escape t).
Proof. exact escape_idempotent_l. Qed.
Print Assumptions escape_once.

(* Encoder.decode undoes Encoder.encode, Text.unescape undoes Text.escape -
   on every string without an entity reference (with one, "&lt;" comes back as "<") *)
Theorem decode_encode_partial : forall s,
  has_entity_ref s = false -> decode (encode s) = s.
Proof. exact decode_encode_partial_l. Qed.
Print Assumptions decode_encode_partial.

Theorem unescape_escape : forall s,
  has_entity_ref s = false -> t_chars (text_unescape (text_escape (mkText s false))) = s.
Proof. exact unescape_escape_l. Qed.
Print Assumptions unescape_escape.

Example request_nonvacuous :
  let s := [97; 60; 98; 38; 13; 93; 93; 62] in          (* a<b& CR ]]> *)
  chars_legal s = true /\ has_entity_ref s = false /\ qname_rewritten [] [] s = false /\
  request_text s = [97; 38;108;116;59; 98; 38;97;109;112;59; 38;35;49;51;59; 93; 93; 38;103;116;59].
Proof. repeat split; reflexivity. Qed.

(* ------------------------------------------------------------------ *)
(* bounded exhaustive classification (the guards are the weakest ones) *)
(* ------------------------------------------------------------------ *)

(* every string of length <= 5 over  & ; < > quot apos l t g a m p CR : it survives
   as element text EXACTLY when it contains no predefined entity reference *)
Theorem text_roundtrip_bounded : forall s,
  (length s <= 5)%nat -> (forall c, In c s -> In c alphabet_text) ->
  text_survives s = negb (has_entity_ref s).
Proof. exact text_roundtrip_bounded_l. Qed.
Print Assumptions text_roundtrip_bounded.

(* length <= 4, same alphabet: decode(encode s) = s EXACTLY when s has no entity reference *)
Theorem decode_encode_bounded : forall s,
  (length s <= 4)%nat -> (forall c, In c s -> In c alphabet_text) ->
  decode_undoes_encode s = negb (has_entity_ref s).
Proof. exact decode_encode_bounded_l. Qed.
Print Assumptions decode_encode_bounded.

(* every string of length <= 5 over  p : & ; l t < TAB LF CR quot  (p a bound prefix) *)
Theorem attr_roundtrip_bounded : forall s,
  (length s <= 5)%nat -> (forall c, In c s -> In c alphabet_attr) ->
  attr_survives s = negb (has_entity_ref s) && negb (qname_rewritten sweep_scope sweep_pi s).
Proof. exact attr_roundtrip_bounded_l. Qed.
Print Assumptions attr_roundtrip_bounded.

(* ------------------------------------------------------------------ *)
(* reply direction                                                     *)
(* ------------------------------------------------------------------ *)

(* whatever mix of literal text, entity references, decimal and hexadecimal
   character references and CDATA sections the writer uses (any number of
   pieces, any order, leading zeros, either hex case), with comments and
   processing instructions anywhere between the pieces (they denote nothing:
   piece_value (PComment _) = piece_value (PPI _) = []), the content denotes
   the string the writer meant *)
Theorem reply_any_encoding : forall ps,
  pieces_ok 0 ps = true -> xml_chardata_decode (render_pieces ps) = Some (pieces_value ps).
Proof. exact reply_any_encoding_l. Qed.
Print Assumptions reply_any_encoding.

Theorem reply_attr_any_encoding : forall q ps,
  apieces_ok q ps = true -> xml_attvalue_decode q (render_pieces ps) = Some (pieces_value ps).
Proof. exact reply_attr_any_encoding_l. Qed.
Print Assumptions reply_attr_any_encoding.

(* the Handler hands over exactly the concatenation of the character events of
   a leaf element, however the parser cut them (absent text = empty string) *)
Theorem reply_text_exact : forall chunks,
  none_is_empty (suds_leaf_value chunks) = concat chunks.
Proof. exact reply_text_exact_l. Qed.
Print Assumptions reply_text_exact.

(* ... however the parser cuts a run of character data into chunks *)
Theorem chunking_irrelevant : forall a b r f st root,
  run_handler close_text (EvChars (a ++ b) :: r) (f :: st) root
  = run_handler close_text (EvChars a :: EvChars b :: r) (f :: st) root.
Proof. exact merge_chunks. Qed.
Print Assumptions chunking_irrelevant.

(* trimming happens only for elements with children *)
Theorem trim_only_nonleaf : forall buf n,
  close_text buf 0 = match buf with [] => None | _ => Some (mkText (concat (rev buf)) false) end
  /\ close_text buf (S n) = option_map text_trim (close_text buf 0).
Proof. exact trim_only_nonleaf_l. Qed.
Print Assumptions trim_only_nonleaf.

Example reply_nonvacuous :
  let ps := [PLit [97; 93; 93]; PComment [60; 45; 38]; PEnt [108; 116]; PDec [48; 49; 51];
             PPI [112; 32; 63; 60]; PHex [49; 70; 54; 48; 48]; PCData [60; 38; 93; 93]; PLit [62]] in
  pieces_ok 0 ps = true /\
  pieces_value ps = [97; 93; 93; 60; 13; 128512; 60; 38; 93; 93; 62] /\
  apieces_ok QUOT [PLit [97; 39]; PEnt [113; 117; 111; 116]; PHex [65]] = true.
Proof. repeat split; reflexivity. Qed.

(* ------------------------------------------------------------------ *)
(* standalone trees, plain and pretty serialiser                       *)
(* ------------------------------------------------------------------ *)

(* An XML processor reading Element.plain() / Element.str() of a tree whose
   texts and attribute values contain no entity reference reports events from
   which suds' Handler rebuilds the tree: leaf text exactly, text of elements
   with children trimmed, absent for empty.  (`events_plain/pretty` apply the
   XML decoding rules to the serialised text and attribute values; cutting
   the character stream into tags is expat's part, see the harness.) *)
Theorem tree_reparse_plain : forall t,
  tree_ok t = true -> handler (events_plain t) = Some (reread_gen false t).
Proof. exact tree_reparse_plain_l. Qed.
Print Assumptions tree_reparse_plain.

(* at any indentation; the whitespace the pretty serialiser adds lands in
   elements that have children and is trimmed away *)
Theorem tree_reparse_pretty : forall t i,
  tree_ok t = true -> handler (events_pretty i t) = Some (reread_gen true t).
Proof. exact tree_reparse_pretty_l. Qed.
Print Assumptions tree_reparse_pretty.

(* ... and that is the tree that was serialised: same names, attribute values,
   leaf text exactly, text of elements with children up to surrounding whitespace,
   for both serialisers and any indentation *)
Theorem tree_roundtrip : forall pr i t,
  tree_ok t = true -> option_map canon (handler (events pr i t)) = Some (canon t).
Proof. exact tree_roundtrip_l. Qed.
Print Assumptions tree_roundtrip.

(* both serialisers are read back alike (an empty Text counts as no text) *)
Theorem pretty_plain_same : forall t,
  drop_empty (reread_gen true t) = drop_empty (reread_gen false t).
Proof. exact pretty_plain_same_l. Qed.
Print Assumptions pretty_plain_same.

Example tree_nonvacuous :
  let t := El [97] [([120], mkText [34; 9] false)] (Some (mkText [32; 60; 32] false))
              [El [98] [] (Some (mkText [32; 121; 32] false)) []] in
  tree_ok t = true /\
  reread_gen true t = El [97] [([120], mkText [34; 9] false)] (Some (mkText [60] false))
                         [El [98] [] (Some (mkText [32; 121; 32] false)) []] /\
  handler (events_pretty 0 t) = Some (reread_gen true t).
Proof. repeat split; reflexivity. Qed.


(* ------------------------------------------------------------------ *)
(* ... on the CHARACTERS the serialisers write                         *)
(* ------------------------------------------------------------------ *)
(* `xml_tokens` (Tokens.v) cuts a serialised element into events following the
   XML 1.0 grammar (start / end / empty-element tags, attributes in either
   quote, character data with references and CDATA).  Both serialisers, any
   tree whose names contain no delimiter and whose values contain no entity
   reference: the characters written, cut by the grammar and fed to the
   Handler, give back the tree. *)
Theorem plain_tokens : forall t,
  tree_ok t = true -> names_ok t = true -> xml_tokens (plain t) = Some (events_plain t).
Proof. exact plain_tokens_l. Qed.
Print Assumptions plain_tokens.

Theorem pretty_tokens : forall t,
  tree_ok t = true -> names_ok t = true -> xml_tokens (pretty 0 t) = Some (mevents 0 t).
Proof. exact pretty_tokens_l. Qed.
Print Assumptions pretty_tokens.

Theorem plain_end_to_end : forall t,
  tree_ok t = true -> names_ok t = true ->
  option_map canon (match xml_tokens (plain t) with Some evs => handler evs | None => None end)
  = Some (canon t).
Proof. exact plain_end_to_end_l. Qed.
Print Assumptions plain_end_to_end.

Theorem pretty_end_to_end : forall t,
  tree_ok t = true -> names_ok t = true ->
  option_map canon (match xml_tokens (pretty 0 t) with Some evs => handler evs | None => None end)
  = Some (canon t).
Proof. exact pretty_end_to_end_l. Qed.
Print Assumptions pretty_end_to_end.

Example end_to_end_nonvacuous :
  let t := El [97] [([120], mkText [34; 9] false)] (Some (mkText [32; 60; 32] false))
              [El [98] [] (Some (mkText [32; 121; 32] false)) []; El [99] [] None []] in
  tree_ok t = true /\ names_ok t = true /\
  pretty 0 t = [60;97;32;120;61;34;38;113;117;111;116;59;38;35;57;59;34;62;32;38;108;116;59;32;
                10;32;32;32;60;98;62;32;121;32;60;47;98;62;10;32;32;32;60;99;47;62;10;60;47;97;62].
Proof. repeat split; reflexivity. Qed.

(* ------------------------------------------------------------------ *)
(* requests as whole documents (NsModel.v)                             *)
(* ------------------------------------------------------------------ *)
(* `nelem` is the Element tree with prefixes, explicit namespaces and prefix
   mappings; `doc_plain` / `doc_pretty` are Document.plain() / str(): the XML
   declaration, qualified names, nsdeclarations() (a declaration is left out
   when the parent already provides it), attributes, text, children.
   `xml_infoset` = strip the prolog -> cut by the XML grammar -> decode ->
   build the tree (spec builder, nothing trimmed) -> canon -> resolve namespaces. *)

(* the declarations are written exactly like attributes: the namespaced tree is
   the plain tree with the declarations as attributes *)
Theorem plain_ns_flatten : forall e par, nelem_ok e = true -> plain_ns par e = plain (flatten par e).
Proof. exact plain_ns_flatten_l. Qed.
Print Assumptions plain_ns_flatten.

Theorem pretty_ns_flatten : forall e par i,
  nelem_ok e = true -> pretty_ns i par e = pretty i (flatten par e).
Proof. exact pretty_ns_flatten_l. Qed.
Print Assumptions pretty_ns_flatten.

(* the tree builder of the specification and suds' Handler agree up to canon *)
Theorem spec_tree_canon : forall evs,
  option_map canon (tree_of_events evs) = option_map canon (handler evs).
Proof. exact spec_tree_canon_l. Qed.
Print Assumptions spec_tree_canon.

(* what a namespace-aware parser resolves from the declarations that were
   written (and those that were left out) is what Element.namespace() and
   Attribute.namespace() mean, for every element and attribute of the tree *)
Theorem infoset_flatten : forall e par dflt ctx scope,
  nelem_ok e = true -> Ctx par dflt ctx scope ->
  infoset scope (canon (flatten par e)) = ninfoset dflt ctx e.
Proof. exact infoset_flatten_l. Qed.
Print Assumptions infoset_flatten.

(* THE REQUEST, END TO END.  Any document tree (in particular soap_envelope ...:
   Envelope(Header(...), Body(...)) with any content), either serialiser: the
   characters sent, read by grammar + XML decoding + namespace resolution, are
   the infoset suds meant - every element and attribute under its expanded
   name, every attribute value and every leaf text exactly the string that was
   given, wherever it sits (text of elements with children up to surrounding
   white space).  Guard nelem_ok: names and prefixes without delimiters, plain
   namespace URIs, no duplicate prefix in one mapping, and values without a
   predefined entity reference (finding C04:text-contains-entity-reference). *)
Theorem request_end_to_end : forall e (pr : bool),
  nelem_ok e = true ->
  xml_infoset (if pr then doc_pretty e else doc_plain e) = ninfoset None [] e.
Proof. exact request_end_to_end_l. Qed.
Print Assumptions request_end_to_end.

(* ... read position by position: wherever a leaf element sits in the document
   (any path of child indexes: Envelope / Body / operation / ... ), the infoset
   read back has at the same path exactly its text and its attribute values *)
Theorem request_position : forall env (pr : bool) path pf n ex nsp attrs x,
  nelem_ok env = true ->
  ninfoset None [] env <> None ->
  n_sub path env = Some (NEl pf n ex nsp attrs (Some x) []) ->
  exists root leaf,
    xml_infoset (if pr then doc_pretty env else doc_plain env) = Some root /\
    it_sub path root = Some leaf /\
    it_txt leaf = t_chars x /\ map snd (it_attrs leaf) = map (fun a => t_chars (snd a)) attrs.
Proof. exact request_position_l. Qed.
Print Assumptions request_position.

Example request_end_to_end_nonvacuous :
  let soapenv := [117; 114; 110; 58; 101] in                       (* urn:e *)
  let tns := [117; 114; 110; 58; 116] in                           (* urn:t *)
  let v := [32; 60; 38; 13; 34; 32] in                             (* " <& CR quot " *)
  let body := [NEl (Some [110; 115; 48]) [102] None [] [] None
                 [NEl (Some [110; 115; 48]) [115] None [] [([97], mkText v false)] (Some (mkText v false)) []]] in
  let env := soap_envelope [83; 79; 65; 80] [110; 115; 49] [([83; 79; 65; 80], soapenv); ([110; 115; 48], tns); ([110; 115; 49], soapenv)]
                           [] [] body in
  nelem_ok env = true /\
  xml_infoset (doc_pretty env)
  = Some (IT (Some soapenv, [69;110;118;101;108;111;112;101]) [] []
            [IT (Some soapenv, [72;101;97;100;101;114]) [] [] [];
             IT (Some soapenv, [66;111;100;121]) [] []
                [IT (Some tns, [102]) [] []
                    [IT (Some tns, [115]) [((None, [97]), v)] v []]]]).
Proof. split; vm_compute; reflexivity. Qed.
