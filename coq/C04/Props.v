(* C04 - property theorems (under construction) *)
From SV Require Import Lib.Base Gen.C04Tables C04.Model.

Theorem stub_true : True.
Proof. exact I. Qed.
Print Assumptions stub_true.
