(* C04 - the characters Element.plain() writes, cut into events by the XML
   grammar (Tokens.v), are the events the tree theorems are about. *)
From SV Require Import Lib.Base Gen.C04Tables C04.Model C04.EncProofs C04.TreeProofs C04.Tokens.
From Coq Require Import ZifyBool ZifyNat ZifyN.
Local Open Scope N_scope.

(* ------------------------------------------------------------------ *)
(* names                                                               *)
(* ------------------------------------------------------------------ *)
Definition name_ok (n : str) : bool :=
  match n with
  | [] => false
  | c :: _ => negb (c =? BANG) && negb (c =? QMARK) && forallb name_char n
  end.

Fixpoint names_ok (e : elem) : bool :=
  match e with
  | El n attrs t kids =>
    name_ok n && forallb (fun a => name_ok (fst a)) attrs && forallb names_ok kids
  end.

Definition stops (x : str) : bool := match x with [] => true | c :: _ => negb (name_char c) end.

Lemma take_name_app n x : forallb name_char n = true -> stops x = true -> take_name (n ++ x) = (n, x).
Proof.
  induction n as [|c n IH]; intros Hn Hx.
  - cbn [app]. destruct x as [|c x]; [reflexivity|]. cbn [take_name]. cbn in Hx.
    apply negb_true_iff in Hx. now rewrite Hx.
  - cbn [forallb] in Hn. apply andb_true_iff in Hn as [H1 H2].
    cbn [app take_name]. rewrite H1, (IH H2 Hx). reflexivity.
Qed.

Lemma name_ok_facts n : name_ok n = true ->
  exists c n', n = c :: n' /\ c <> BANG /\ c <> QMARK /\ c <> SLASH /\ c <> LT /\ c <> GT
               /\ is_ws c = false /\ forallb name_char n = true.
Proof.
  destruct n as [|c n']; [discriminate|]. unfold name_ok. intro H.
  apply andb_true_iff in H as [H H3]. apply andb_true_iff in H as [H1 H2].
  apply negb_true_iff in H1, H2. exists c, n'.
  pose proof H3 as H3'. cbn [forallb] in H3'. apply andb_true_iff in H3' as [Hc _].
  unfold name_char in Hc. apply negb_true_iff in Hc.
  repeat (apply orb_false_iff in Hc as [Hc ?]).
  repeat split; try assumption; try (intro E; subst c; discriminate).
  unfold is_ws. now rewrite Hc, H11, H10, H9.
Qed.

(* ------------------------------------------------------------------ *)
(* what the serialiser writes contains no delimiter                    *)
(* ------------------------------------------------------------------ *)
Lemma mem_app c a b : mem c (a ++ b) = mem c a || mem c b.
Proof. unfold mem. apply existsb_app. Qed.

Lemma enc_char_no c r d : (d = 34 \/ d = 60) -> mem d (enc_char c r) = false.
Proof.
  intros Hd. destruct (enc_char_cases c r) as [E|[E|[E|[E|[E|[E|[E (H38 & H60 & H62 & H34 & H39)]]]]]]];
    rewrite E; destruct Hd; subst d; try reflexivity.
  - unfold mem. cbn [existsb]. rewrite orb_false_r. apply N.eqb_neq. congruence.
  - unfold mem. cbn [existsb]. rewrite orb_false_r. apply N.eqb_neq. congruence.
Qed.

Lemma ra1_no_quot v : mem QUOT (ra1 v) = false.
Proof.
  induction v as [|c r IH]; [reflexivity|]. cbn [ra1]. rewrite mem_app, IH, orb_false_r.
  unfold att_char. destruct (c =? 9); [reflexivity|]. destruct (c =? 10); [reflexivity|].
  destruct (c =? 13); [reflexivity|]. apply enc_char_no. now left.
Qed.

Lemma rt1_no_lt s : mem LT (rt1 s) = false.
Proof.
  induction s as [|c r IH]; [reflexivity|]. cbn [rt1]. rewrite mem_app, IH, orb_false_r.
  unfold txt_char. destruct (c =? 13); [reflexivity|]. apply enc_char_no. now right.
Qed.

Lemma split_at_app q a r : mem q a = false -> split_at q (a ++ q :: r) = Some (a, r).
Proof.
  induction a as [|c a IH]; intro H.
  - cbn. now rewrite N.eqb_refl.
  - rewrite mem_cons in H. apply orb_false_iff in H as [H1 H2].
    cbn [app split_at]. rewrite N.eqb_sym, H1, (IH H2). reflexivity.
Qed.

(* ------------------------------------------------------------------ *)
(* attributes                                                          *)
(* ------------------------------------------------------------------ *)
Definition attr_values (attrs : list (str * text)) : list (str * str) :=
  map (fun a => (fst a, t_chars (snd a))) attrs.

Lemma attr_events_values attrs :
  forallb (fun a => val_ok (snd a)) attrs = true -> attr_events attrs = attr_values attrs.
Proof.
  induction attrs as [|a l IH]; [reflexivity|]. cbn [forallb]. intro H.
  apply andb_true_iff in H as [H1 H2]. unfold attr_events, attr_values in *. cbn [map].
  rewrite (val_ok_attr _ H1), (IH H2). reflexivity.
Qed.

Lemma val_ok_render x : val_ok x = true -> render_attr_value x = ra1 (t_chars x).
Proof.
  destruct x as [s e]. unfold val_ok. cbn [t_escaped t_chars]. intro H.
  apply andb_true_iff in H as [H _]. apply andb_true_iff in H as [H _].
  apply negb_true_iff in H. subst e. apply render_attr_ra1.
Qed.

Definition tag_end (empty : bool) (x : str) : str := if empty then SLASH :: GT :: x else GT :: x.

Lemma skip_ws_stop c y : is_ws c = false -> skip_ws (c :: y) = c :: y.
Proof. intro H. cbn [skip_ws]. now rewrite H. Qed.

Lemma parse_attrs_step f an v rest0 :
  name_ok an = true ->
  parse_attrs (S f) (SP :: an ++ EQS :: QUOT :: ra1 v ++ QUOT :: rest0)
  = match xml_attvalue_decode QUOT (ra1 v), parse_attrs f rest0 with
    | Some v', Some (ra, e, r5) => Some ((an, v') :: ra, e, r5)
    | _, _ => None
    end.
Proof.
  intro Hn. destruct (name_ok_facts _ Hn) as (c & an' & -> & _ & _ & Hsl & _ & Hgt & Hws & Hnc).
  cbn [parse_attrs app]. change (is_ws SP) with true. cbv iota.
  cbn [skip_ws]. change (is_ws SP) with true. cbv iota.
  rewrite Hws. cbv iota.
  replace (c =? GT) with false by (symmetry; now apply N.eqb_neq).
  replace (c =? SLASH) with false by (symmetry; now apply N.eqb_neq).
  change (c :: an' ++ EQS :: QUOT :: ra1 v ++ QUOT :: rest0)
    with ((c :: an') ++ EQS :: QUOT :: ra1 v ++ QUOT :: rest0).
  rewrite (take_name_app _ _ Hnc) by reflexivity.
  cbn [skip_ws]. change (is_ws EQS) with false. cbv iota. change (EQS =? EQS) with true. cbv iota.
  cbn [skip_ws]. change (is_ws QUOT) with false. cbv iota.
  change ((QUOT =? QUOT) || (QUOT =? APOS)) with true. cbv iota.
  rewrite (split_at_app QUOT _ _ (ra1_no_quot v)). reflexivity.
Qed.

Lemma parse_attrs_render : forall attrs f empty x,
  forallb (fun a => val_ok (snd a)) attrs = true ->
  forallb (fun a => name_ok (fst a)) attrs = true ->
  (length (render_attrs attrs ++ tag_end empty x) < f)%nat ->
  parse_attrs f (render_attrs attrs ++ tag_end empty x) = Some (attr_values attrs, empty, x).
Proof.
  induction attrs as [|[an v] attrs IH]; intros f empty x Hv Hn Hl.
  - destruct f as [|f]; [cbn in Hl; lia|]. cbn [render_attrs flat_map app].
    destruct empty; reflexivity.
  - destruct f as [|f]; [cbn in Hl; lia|].
    cbn [forallb fst snd] in Hv, Hn.
    apply andb_true_iff in Hv as [Hv1 Hv2]. apply andb_true_iff in Hn as [Hn1 Hn2].
    assert (E : render_attrs ((an, v) :: attrs) ++ tag_end empty x
                = SP :: an ++ EQS :: QUOT :: ra1 (t_chars v) ++ QUOT :: (render_attrs attrs ++ tag_end empty x)).
    { unfold render_attrs. cbn [flat_map fst snd]. rewrite (val_ok_render _ Hv1).
      cbn [app]. repeat (rewrite <- app_assoc; cbn [app]). reflexivity. }
    rewrite E in *. rewrite (parse_attrs_step _ _ _ _ Hn1).
    assert (D : xml_attvalue_decode QUOT (ra1 (t_chars v)) = Some (t_chars v)).
    { rewrite <- (val_ok_render _ Hv1). now apply val_ok_attr. }
    rewrite D, (IH f empty x Hv2 Hn2).
    + reflexivity.
    + set (R := render_attrs attrs ++ tag_end empty x) in *.
      cbn [length] in Hl. rewrite app_length in Hl. cbn [length] in Hl.
      rewrite app_length in Hl. cbn [length] in Hl. lia.
Qed.

(* ------------------------------------------------------------------ *)
(* character data                                                      *)
(* ------------------------------------------------------------------ *)
(* what follows the < is neither ! nor ? : a tag, not a CDATA section, comment or PI *)
Definition opens (x : str) : Prop :=
  match x with [] => True | c :: _ => c <> BANG /\ c <> QMARK end.

Lemma take_run_stop x f : opens x -> take_run (S f) (LT :: x) = Some ([], LT :: x).
Proof.
  intro Hx. cbn [take_run]. change (LT =? LT) with true. cbv iota.
  destruct x as [|c x]; [reflexivity|]. destruct Hx as [Hb Hq].
  unfold cdata_open_tail, comment_open_tail. cbn [strip_prefix].
  replace (33 =? c) with false by (symmetry; apply N.eqb_neq; unfold BANG in Hb; congruence).
  replace (c =? QMARK) with false by (symmetry; now apply N.eqb_neq). reflexivity.
Qed.

Lemma take_run_text : forall a x f,
  mem LT a = false -> (length a < f)%nat -> opens x ->
  take_run f (a ++ LT :: x) = Some (a, LT :: x).
Proof.
  induction a as [|c a IH]; intros x f Hm Hl Hx; (destruct f as [|f]; [cbn in Hl; lia|]).
  - cbn [app]. now apply take_run_stop.
  - rewrite mem_cons in Hm. apply orb_false_iff in Hm as [H1 H2].
    cbn [app take_run]. rewrite N.eqb_sym, H1. rewrite (IH x f H2); [reflexivity| |exact Hx].
    cbn [length] in Hl. lia.
Qed.

Lemma txt_char_nonempty c r : txt_char c r <> [].
Proof.
  unfold txt_char. destruct (c =? 13); [discriminate|].
  destruct (enc_char_cases c r) as [E|[E|[E|[E|[E|[E|[E _]]]]]]]; rewrite E; discriminate.
Qed.

Lemma rt1_nonempty s : s <> [] -> rt1 s <> [].
Proof.
  destruct s as [|c r]; [congruence|]. intros _. cbn [rt1].
  pose proof (txt_char_nonempty c r). destruct (txt_char c r); [congruence|discriminate].
Qed.

(* ------------------------------------------------------------------ *)
(* Good s evs: with any sufficient fuel, s is cut into evs             *)
(* ------------------------------------------------------------------ *)
Definition Good (s : str) (evs : list ev) : Prop :=
  forall f, (length s < f)%nat -> tokens f s = Some evs.

Lemma good_nil : Good [] [].
Proof. intros f Hf. destruct f; [cbn in Hf; lia|reflexivity]. Qed.

Lemma good_end n rest evs :
  name_ok n = true -> Good rest evs -> Good (LT :: SLASH :: n ++ GT :: rest) (EvEnd n :: evs).
Proof.
  intros Hn G f Hf. destruct f as [|f]; [cbn in Hf; lia|].
  destruct (name_ok_facts _ Hn) as (c & n' & -> & _ & _ & _ & _ & _ & _ & Hnc).
  cbn [tokens]. change (LT =? LT) with true. cbv iota. change (SLASH =? SLASH) with true. cbv iota.
  rewrite (take_name_app _ _ Hnc) by reflexivity.
  cbn [skip_ws]. change (is_ws GT) with false. cbv iota. change (GT =? GT) with true. cbv iota.
  rewrite G; [reflexivity|]. cbn [length] in Hf. rewrite app_length in Hf. cbn [length] in Hf. lia.
Qed.

Lemma good_text s x evs :
  s <> [] -> chars_legal s = true -> has_entity_ref s = false -> opens x ->
  Good (LT :: x) evs -> Good (rt1 s ++ LT :: x) (EvChars s :: evs).
Proof.
  intros Hne Hl He Hx G f Hf. destruct f as [|f]; [cbn in Hf; lia|].
  pose proof (rt1_nonempty s Hne) as Hr. pose proof (rt1_no_lt s) as Hm.
  destruct (rt1 s) as [|c0 r0] eqn:E; [congruence|].
  rewrite mem_cons in Hm. apply orb_false_iff in Hm as [Hm1 Hm2].
  cbn [app tokens]. rewrite N.eqb_sym, Hm1.
  change (c0 :: r0 ++ LT :: x) with ((c0 :: r0) ++ LT :: x).
  rewrite take_run_text; [| |rewrite app_length; cbn [length]; lia|exact Hx].
  2: { rewrite mem_cons, Hm1, Hm2. reflexivity. }
  rewrite <- E. rewrite <- request_text_rt1, (text_roundtrip_partial_l s Hl He).
  rewrite G; [destruct s; [congruence|reflexivity]|].
  rewrite app_length in Hf. cbn [length] in Hf |- *. lia.
Qed.

Lemma opens_slash y : opens (SLASH :: y).
Proof. split; discriminate. Qed.

Lemma opens_name n y : name_ok n = true -> opens (n ++ y).
Proof.
  intro Hn. destruct (name_ok_facts _ Hn) as (c & n' & -> & Hb & Hq & _).
  cbn [app opens]. now split.
Qed.

Lemma stops_attrs attrs e x : stops (render_attrs attrs ++ tag_end e x) = true.
Proof.
  destruct attrs as [|a l]; [destruct e; reflexivity|]. reflexivity.
Qed.

(* ------------------------------------------------------------------ *)
(* the main induction                                                  *)
(* ------------------------------------------------------------------ *)
Definition elem_good (t : elem) : Prop :=
  tree_ok t = true -> names_ok t = true -> forall i rest evs,
  Good rest evs -> Good (plain t ++ rest) (events false i t ++ evs).

Lemma plain_head n attrs t kids rest :
  plain (El n attrs t kids) ++ rest
  = LT :: n ++ render_attrs attrs ++
    tag_end (is_empty t kids)
            (if is_empty t kids then rest
             else opt_text_render t ++ flat_map plain kids ++ LT :: SLASH :: n ++ GT :: rest).
Proof.
  cbn [plain]. destruct (is_empty t kids); unfold tag_end; cbn [app];
    repeat (rewrite <- app_assoc; cbn [app]); reflexivity.
Qed.

Lemma kids_good : forall kids, Forall elem_good kids ->
  forallb tree_ok kids = true -> forallb names_ok kids = true ->
  forall i rest evs, Good rest evs ->
  Good (flat_map plain kids ++ rest) (flat_map (fun k => sep false i ++ events false (S i) k) kids ++ evs).
Proof.
  induction kids as [|k ks IH]; intros HF Ho Hn i rest evs G; [exact G|].
  inversion HF as [|? ? Hk Hks]; subst.
  cbn [forallb] in Ho, Hn. apply andb_true_iff in Ho as [Ho1 Ho2]. apply andb_true_iff in Hn as [Hn1 Hn2].
  cbn [flat_map sep app]. rewrite <- !app_assoc.
  apply (Hk Ho1 Hn1). now apply IH.
Qed.

Lemma elem_good_all : forall t, elem_good t.
Proof.
  apply elem_ind2. intros n attrs t kids HF Hok Hnames i rest evs G f Hf.
  cbn [tree_ok] in Hok. apply andb_true_iff in Hok as [Hok Hk]. apply andb_true_iff in Hok as [Ha Ht].
  cbn [names_ok] in Hnames. apply andb_true_iff in Hnames as [Hnames Hnk].
  apply andb_true_iff in Hnames as [Hn Hna].
  rewrite plain_head in *.
  destruct f as [|f]; [cbn in Hf; lia|].
  destruct (name_ok_facts _ Hn) as (c & n' & En & Hb & Hq & Hsl & _ & _ & _ & Hnc). subst n.
  set (n := c :: n') in *.
  set (X := if is_empty t kids then rest
            else opt_text_render t ++ flat_map plain kids ++ LT :: SLASH :: n ++ GT :: rest) in *.
  assert (HX : (length X < f)%nat).
  { cbn [length] in Hf. rewrite !app_length in Hf. unfold tag_end in Hf.
    destruct (is_empty t kids); cbn [length] in Hf; lia. }
  assert (Step : tokens (S f) (LT :: n ++ render_attrs attrs ++ tag_end (is_empty t kids) X)
          = option_map (fun l => EvStart n (attr_values attrs) :: (if is_empty t kids then EvEnd n :: l else l))
                       (tokens f X)).
  { cbn [tokens]. change (LT =? LT) with true. cbv iota. unfold n at 1. cbn [app].
    replace (c =? SLASH) with false by (symmetry; now apply N.eqb_neq).
    replace ((c =? BANG) || (c =? QMARK)) with false.
    2: { symmetry. apply orb_false_iff. split; now apply N.eqb_neq. }
    cbv iota.
    change (c :: n' ++ render_attrs attrs ++ tag_end (is_empty t kids) X)
      with (n ++ render_attrs attrs ++ tag_end (is_empty t kids) X).
    rewrite (take_name_app n _); [|exact Hnc|apply stops_attrs].
    unfold n at 1. cbv iota. fold n.
    rewrite parse_attrs_render; [reflexivity|exact Ha|exact Hna|lia]. }
  rewrite Step. clear Step.
  (* what the rest of the element is cut into *)
  assert (GX : Good X (if is_empty t kids then evs
                       else text_event t ++ flat_map (fun k => sep false i ++ events false (S i) k) kids
                            ++ EvEnd n :: evs)).
  { unfold X. destruct (is_empty t kids) eqn:Eempty; [exact G|].
    pose proof (good_end n rest evs Hn G) as G1.
    pose proof (kids_good kids HF Hk Hnk i _ _ G1) as G2.
    rewrite (text_event_ok _ Ht). unfold opt_text_render.
    destruct t as [x|]; [|exact G2].
    destruct (has_text (Some x)) eqn:Etext; [|exact G2].
    cbn [app].
    assert (Ex : render_text x = rt1 (t_chars x)).
    { destruct x as [s e]. unfold val_ok in Ht. cbn [t_escaped t_chars] in Ht.
      apply andb_true_iff in Ht as [Ht _]. apply andb_true_iff in Ht as [Ht _].
      apply negb_true_iff in Ht. subst e. apply request_text_rt1. }
    rewrite Ex. unfold val_ok in Ht.
    apply andb_true_iff in Ht as [Ht He]. apply andb_true_iff in Ht as [_ Hl].
    apply negb_true_iff in He.
    assert (Hne : t_chars x <> []).
    { unfold has_text in Etext. destruct (t_chars x); [discriminate|discriminate]. }
    cbn [txt_chars].
    destruct kids as [|k ks].
    - cbn [flat_map app] in *. apply good_text; try assumption. apply opens_slash.
    - cbn [flat_map] in *. rewrite <- app_assoc in *.
      cbn [forallb] in Hnk. apply andb_true_iff in Hnk as [Hnk1 _].
      destruct k as [kn ka kt kk]. cbn [names_ok] in Hnk1.
      apply andb_true_iff in Hnk1 as [Hnk1 _]. apply andb_true_iff in Hnk1 as [Hkn _].
      rewrite plain_head in *. cbn [app] in *.
      apply good_text; try assumption. now apply opens_name. }
  rewrite (GX f HX). cbn [option_map]. f_equal.
  cbn [events]. rewrite (attr_events_values _ Ha).
  destruct (is_empty t kids) eqn:Eempty.
  - (* <n .../> *)
    unfold is_empty in Eempty. destruct kids; [|discriminate]. destruct t; [discriminate|]. reflexivity.
  - cbn [app]. f_equal. rewrite <- !app_assoc. f_equal. f_equal.
    unfold tail_ws. destruct kids; reflexivity.
Qed.

Lemma plain_tokens_l : forall t,
  tree_ok t = true -> names_ok t = true -> xml_tokens (plain t) = Some (events_plain t).
Proof.
  intros t H1 H2. unfold xml_tokens, events_plain.
  pose proof (elem_good_all t H1 H2 0%nat [] [] good_nil) as G. rewrite !app_nil_r in G.
  apply G. lia.
Qed.

(* the characters Element.plain() writes, cut by the XML grammar and fed to the
   Handler, give back the tree *)
Lemma plain_end_to_end_l : forall t,
  tree_ok t = true -> names_ok t = true ->
  option_map canon (match xml_tokens (plain t) with Some evs => handler evs | None => None end)
  = Some (canon t).
Proof.
  intros t H1 H2. rewrite (plain_tokens_l t H1 H2). now apply tree_roundtrip_l.
Qed.
