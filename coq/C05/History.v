(* C05 -- a client over time.  Binding.marshaller() builds the marshaller anew
   for every request from the options then in force, and Binding.get_message /
   _SoapClient.send read prefixes / prettyxml when the request is made: the
   request sent under a setting is a function of that setting alone, whatever
   settings the same client (or the shared WSDL/binding objects) served before.
   Definitions and lemmas. *)
From SV Require Import Lib.Base C05.Model.

(* env_q / env_u: the tree the marshaller builds for the call under xstq=True / False *)
Definition client_send (wfix : bool) (env_q env_u : pel) (o : options) : dtree :=
  let env := if o_xstq o then env_q else env_u in
  request o wfix (default_ord env) env.

Definition client_run (wfix : bool) (env_q env_u : pel) (hist : list options) : list dtree :=
  map (client_send wfix env_q env_u) hist.

(* the variant that memoises the marshaller on the (shared) binding at first use:
   the xstq of the first request sticks *)
Definition client_run_memo (wfix : bool) (env_q env_u : pel) (hist : list options) : list dtree :=
  match hist with
  | [] => []
  | o0 :: _ =>
      map (fun o => client_send wfix env_q env_u
                      (mkOpt (o_prefixes o) (o_prettyxml o) (o_xstq o0) (o_sortNamespaces o))) hist
  end.

Lemma history_irrelevant_l : forall wfix env_q env_u h o d,
  last (client_run wfix env_q env_u (h ++ [o])) d = client_send wfix env_q env_u o.
Proof.
  intros. unfold client_run. rewrite map_app. cbn [map]. apply last_last.
Qed.

Lemma same_setting_same_request_l : forall wfix env_q env_u h1 h2 o d,
  last (client_run wfix env_q env_u (h1 ++ [o])) d = last (client_run wfix env_q env_u (h2 ++ [o])) d.
Proof. intros. rewrite !history_irrelevant_l. reflexivity. Qed.

Lemma memoised_marshaller_refuted_l : exists wfix env_q env_u h o d,
  last (client_run_memo wfix env_q env_u (h ++ [o])) d <> client_send wfix env_q env_u o.
Proof.
  exists true,
         (PEl None 11 None [(1, 4); (1000001, 27)] [(Some 1, 8, AQ 1000001 28)] None [])%N,
         (PEl None 11 None [(1, 4)] [(Some 1, 8, AText 28)] None [])%N,
         [mkOpt true false false true], (mkOpt true false true true),
         (DEl None 0 None [] [] None [])%N.
  vm_compute. discriminate.
Qed.
