(* C05: prefixes=False (refitPrefixes) and Typer.genprefix. *)
From SV Require Import Lib.Base C05.Model C05.RenderProofs.

Lemma sequence_some_iff {A B} (f : A -> option B) l :
  is_some (sequence (map f l)) = forallb (fun x => is_some (f x)) l.
Proof.
  induction l as [|x l IH]; cbn; [reflexivity|].
  destruct (f x); cbn; [|reflexivity].
  rewrite <- IH. destruct (sequence (map f l)); reflexivity.
Qed.

Lemma is_some_mk_iel ns n ia tx ik :
  is_some (mk_iel ns n ia tx ik) = is_some ns && is_some ia && is_some ik.
Proof. destruct ns, ia, ik; reflexivity. Qed.

Lemma attr_info_some_d sc d1 d2 a : is_some (attr_info sc d1 a) = is_some (attr_info sc d2 a).
Proof.
  destruct a as [[p n] v]. unfold attr_info.
  destruct (name_ns sc 0 p); [|reflexivity].
  destruct (is_qattr n0 n); [|reflexivity].
  destruct v; [reflexivity|]. destruct (resolve sc p0); reflexivity.
Qed.

(* with the mapping tables kept, a well-formed tree stays well-formed *)
Lemma refit_wellformed_gen : forall t sc d1 d2,
  is_some (infoset sc d1 t) = true -> is_some (infoset sc d2 (refit sc t)) = true.
Proof.
  induction t as [p n e nsp a tx ks IH|p n e nsp c IH] using pel_ind2; intros sc d1 d2 H.
  - cbn [refit infoset] in *. rewrite map_map. rewrite is_some_mk_iel in *.
    apply andb_true_iff in H as [H Hk]. apply andb_true_iff in H as [Hn Ha].
    rewrite !sequence_some_iff in *.
    apply andb_true_iff; split; [apply andb_true_iff; split|].
    + reflexivity.
    + rewrite forallb_forall in *. intros x Hx. rewrite (attr_info_some_d _ _ (match e with Some u => u | None => d1 end)).
      apply Ha, Hx.
    + rewrite forallb_forall in *. rewrite Forall_forall in IH.
      intros x Hx. eapply IH; [exact Hx|]. apply Hk, Hx.
  - cbn [refit infoset] in *. (* the wrapped element itself is untouched *)
    destruct (infoset sc d1 c) eqn:E; [|discriminate].
    clear IH H.
    (* well-formedness of the content does not depend on the default namespace *)
    revert sc d1 d2 i E.
    induction c as [p' n' e' nsp' a' tx' ks' IH'|p' n' e' nsp' c' IH'] using pel_ind2; intros sc d1 d2 i E.
    + cbn [infoset] in *.
      assert (H : is_some (mk_iel (name_ns (nsp' ++ sc) (match e' with Some u => u | None => d1 end) p') n'
                    (sequence (map (attr_info (nsp' ++ sc) (match e' with Some u => u | None => d1 end)) a')) tx'
                    (sequence (map (infoset (nsp' ++ sc) (match e' with Some u => u | None => d1 end)) ks'))) = true)
        by (rewrite E; reflexivity).
      rewrite is_some_mk_iel in *.
      apply andb_true_iff in H as [H Hk]. apply andb_true_iff in H as [Hn Ha].
      rewrite !sequence_some_iff in *.
      apply andb_true_iff; split; [apply andb_true_iff; split|].
      * destruct p'; cbn in *; [exact Hn|reflexivity].
      * rewrite forallb_forall in *. intros x Hx.
        rewrite (attr_info_some_d _ _ (match e' with Some u => u | None => d1 end)). apply Ha, Hx.
      * rewrite forallb_forall in *. rewrite Forall_forall in IH'. intros x Hx.
        specialize (Hk x Hx). destruct (infoset (nsp' ++ sc) (match e' with Some u => u | None => d1 end) x) eqn:Ex;
          [|discriminate]. eapply IH'; [exact Hx|exact Ex].
    + cbn [infoset] in *. eapply IH'. exact E.
Qed.

Lemma refit_wellformed_l : forall t,
  nswf [] 0 t = true -> nswf [] 0 (refit [] t) = true.
Proof. intros t H. unfold nswf in *. eapply refit_wellformed_gen. exact H. Qed.

Lemma attr_info_noq sc d1 d2 a : attr_noq sc a = true -> attr_info sc d1 a = attr_info sc d2 a.
Proof.
  destruct a as [[p n] v]. unfold attr_noq, attr_info.
  destruct v; [|reflexivity].
  destruct (name_ns sc 0 p); [|reflexivity].
  intro H. apply negb_true_iff in H. rewrite H. reflexivity.
Qed.

Lemma refit_partial_gen : forall t sc dold dnew same,
  (same = true -> dold = dnew) ->
  refit_guard sc same t = true ->
  infoset sc dnew (refit sc t) = infoset sc dold t.
Proof.
  induction t as [p n e nsp a tx ks IH|p n e nsp c IH] using pel_ind2; intros sc dold dnew same Hs G.
  - cbn [refit infoset refit_guard] in *.
    apply andb_true_iff in G as [G Gk]. apply andb_true_iff in G as [Gp Ga].
    set (sc' := nsp ++ sc) in *.
    set (deq := match p with Some _ => false | None => is_some e || same end) in *.
    set (e' := match p with
               | Some q => match resolve sc' q with Some u => Some u | None => e end
               | None => e end).
    set (dn := match e' with Some u => u | None => dnew end).
    set (do := match e with Some u => u | None => dold end).
    assert (Hd : deq = true -> do = dn).
    { subst deq do dn e'. destruct p; [discriminate|]. destruct e; cbn; [reflexivity|]. exact Hs. }
    assert (Hname : name_ns sc' dn None = name_ns sc' do p).
    { subst dn do e'. destruct p as [q|]; cbn in *.
      - unfold resolve. destruct (lookup q sc'); [reflexivity|discriminate].
      - destruct e; cbn in *; [reflexivity|]. rewrite Hs; [reflexivity|exact Gp]. }
    rewrite Hname.
    assert (Hattrs : map (attr_info sc' dn) a = map (attr_info sc' do) a).
    { destruct deq eqn:Ed.
      - rewrite Hd; reflexivity.
      - cbn in Ga. apply map_ext_in. intros x Hx. apply attr_info_noq.
        rewrite forallb_forall in Ga. apply Ga, Hx. }
    rewrite Hattrs. rewrite map_map.
    assert (Hkids : map (fun x => infoset sc' dn (refit sc' x)) ks = map (infoset sc' do) ks).
    { apply map_ext_in. intros x Hx. rewrite Forall_forall in IH. rewrite forallb_forall in Gk.
      apply (IH x Hx sc' do dn deq); [intro Hq; apply Hd, Hq|apply Gk, Hx]. }
    rewrite Hkids. reflexivity.
  - cbn [refit infoset refit_guard] in *. rewrite Hs; [reflexivity|exact G].
Qed.

Lemma refit_partial_l : forall t,
  refit_guard [] true t = true -> infoset [] 0 (refit [] t) = infoset [] 0 t.
Proof. intros t G. apply (refit_partial_gen t [] 0 0 true); auto. Qed.

(* <p:a xmlns:p="U"><b/></p:a> : b is in no namespace; after refit a carries
   xmlns="U" and b has joined U *)
Lemma refit_refuted_captured_l :
  exists t i j, nswf [] 0 t = true /\ infoset [] 0 t = Some i /\
                infoset [] 0 (refit [] t) = Some j /\ itree_eqb false i j = false.
Proof.
  exists (PEl (Some 10) 11 None [(10, 12)] [] None [PEl None 13 None [] [] (Some 14) []])%N.
  exists (IEl 12 11 [] None [IEl 0 13 [] (Some 14) []])%N.
  exists (IEl 12 11 [] None [IEl 12 13 [] (Some 14) []])%N.
  vm_compute. repeat split.
Qed.

(* ------------------------------------------------------------------ *)
(* Typer.genprefix                                                     *)
(* ------------------------------------------------------------------ *)

Lemma genprefix_from_fresh : forall fuel i sc p,
  genprefix_from fuel i sc = Some p ->
  lookup p sc = None /\ exists k, p = gp k /\ (i <= k < i + fuel)%nat.
Proof.
  induction fuel as [|f IH]; cbn [genprefix_from]; intros i sc p H; [discriminate|].
  unfold resolve in H. destruct (lookup (gp i) sc) eqn:E.
  - apply IH in H as [H1 [k [H2 H3]]]. split; [exact H1|]. exists k. split; [exact H2|lia].
  - inversion H; subst. split; [exact E|]. exists i. split; [reflexivity|lia].
Qed.

Lemma genprefix_fresh_l : forall sc p,
  genprefix sc = Some p -> lookup p sc = None /\ exists k, p = gp k /\ (1 <= k <= 1023)%nat.
Proof.
  intros sc p H. unfold genprefix in H. apply genprefix_from_fresh in H as [H1 [k [H2 H3]]].
  split; [exact H1|]. exists k. split; [exact H2|]. change (1 + 1023)%nat with 1024%nat in H3. lia.
Qed.
