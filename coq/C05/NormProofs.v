(* C05: PrefixNormalizer preserves the infoset, for every iteration order. *)
From SV Require Import Lib.Base C05.Model C05.RenderProofs.
From Coq Require Import ZifyBool ZifyNat ZifyN.

Lemma gp_eqb a b : N.eqb (gp a) (gp b) = Nat.eqb a b.
Proof.
  unfold gp. destruct (Nat.eqb_spec a b) as [->|H].
  - apply N.eqb_refl.
  - apply N.eqb_neq. lia.
Qed.

Lemma lookup_newmap_small p j ord : (p < GP_BASE)%N -> lookup p (newmap_from j ord) = None.
Proof.
  intro H. revert j. induction ord as [|x r IH]; intro j; cbn [newmap_from lookup]; [reflexivity|].
  destruct (N.eqb_spec (gp j) p) as [E|_]; [|apply IH].
  unfold gp in E. lia.
Qed.

Lemma lookup_newmap_index u ord : forall j k,
  index_of u ord = Some k -> lookup (gp (j + k)) (newmap_from j ord) = Some u.
Proof.
  induction ord as [|x r IH]; intros j k H; cbn [newmap_from lookup index_of] in *; [discriminate|].
  destruct (N.eqb_spec x u) as [->|Hne].
  - inversion H; subst. rewrite Nat.add_0_r, N.eqb_refl. reflexivity.
  - destruct (index_of u r) as [k'|]; cbn [option_map] in H; [|discriminate]. inversion H; subst.
    rewrite gp_eqb. destruct (Nat.eqb_spec j (j + S k')); [lia|].
    replace (j + S k')%nat with (S j + k')%nat by lia. apply IH. reflexivity.
Qed.

Lemma index_of_in u ord : In u ord -> exists k, index_of u ord = Some k.
Proof.
  induction ord as [|x r IH]; cbn; [contradiction|]. intros [->|H].
  - rewrite N.eqb_refl. eauto.
  - destruct (N.eqb x u); [eauto|]. destruct (IH H) as [k ->]. cbn. eauto.
Qed.

Lemma skip_small p u : permit p u = false -> (p < GP_BASE)%N.
Proof.
  unfold permit, skip_pair. intro H. apply negb_false_iff in H.
  unfold XS_P, XSI_P, XML_P, GP_BASE in *.
  repeat (apply orb_true_iff in H as [H|H]); apply andb_true_iff in H as [H _];
    apply N.eqb_eq in H; subst; reflexivity.
Qed.

(* every permitted binding in scope has its URI among the generated prefixes *)
Definition cov (ord : list N) (sc : nsmap) : Prop :=
  forall p u, lookup p sc = Some u -> permit p u = true -> In u ord.

Lemma cov_pset ord sc : incl (pset sc) ord -> cov ord sc.
Proof.
  intros H p u Hl Hp. apply H. unfold pset. apply lookup_in in Hl.
  apply in_map_iff. exists (p, u). split; [reflexivity|].
  apply filter_In. split; [exact Hl|exact Hp].
Qed.

Lemma cov_app ord a b : cov ord a -> cov ord b -> cov ord (a ++ b).
Proof.
  intros Ha Hb p u Hl Hp. rewrite lookup_app in Hl.
  destruct (lookup p a) eqn:E.
  - inversion Hl; subst. eapply Ha; eauto.
  - eapply Hb; eauto.
Qed.

Lemma rw_ok ord sc0 sc p :
  cov ord sc -> use_ok sc0 sc p = true ->
  lookup (rw ord sc p) (newmap ord ++ sc0) = lookup p sc.
Proof.
  intros Hc Hu. unfold use_ok in Hu. unfold rw, resolve.
  destruct (lookup p sc) as [u|] eqn:E; [|discriminate].
  destruct (permit p u) eqn:Ep.
  - destruct (index_of_in u ord (Hc p u E Ep)) as [k Hk]. rewrite Hk.
    rewrite lookup_app. unfold newmap.
    pose proof (lookup_newmap_index u ord 0 k Hk) as Hl. change (0 + k)%nat with k in Hl.
    rewrite Hl. reflexivity.
  - cbn in Hu. apply oN_eqb_eq in Hu. rewrite lookup_app.
    unfold newmap. rewrite (lookup_newmap_small p 0 ord (skip_small p u Ep)). exact Hu.
Qed.

Lemma rw_id ord sc p :
  match lookup p sc with None => true | Some u => negb (permit p u) end = true ->
  rw ord sc p = p.
Proof.
  unfold rw, resolve. destruct (lookup p sc) as [u|]; [|reflexivity].
  intro H. apply negb_true_iff in H. rewrite H. reflexivity.
Qed.

Lemma attr_rw_ok ord sc0 sc d a :
  cov ord sc -> attr_ok sc0 sc a = true ->
  attr_info (newmap ord ++ sc0) d (rw_attr ord sc a) = attr_info sc d a.
Proof.
  intros Hc Ha. destruct a as [[p n] v]. unfold attr_ok in Ha.
  apply andb_true_iff in Ha as [Hp Hv]. unfold rw_attr, attr_info.
  assert (Hn : name_ns (newmap ord ++ sc0) 0 (option_map (rw ord sc) p) = name_ns sc 0 p).
  { destruct p as [p|]; cbn; [|reflexivity]. unfold resolve. apply rw_ok; assumption. }
  rewrite Hn. destruct (name_ns sc 0 p) as [ns|] eqn:En; [|reflexivity].
  destruct v as [t|q l]; [reflexivity|].
  destruct (is_qattr ns n).
  - unfold resolve. rewrite (rw_ok ord sc0 sc q Hc Hv). reflexivity.
  - rewrite (rw_id ord sc q Hv). reflexivity.
Qed.

(* a self-contained element reads the same in every context *)
Lemma closed_infoset : forall c loc sc d,
  closed loc c = true -> infoset (loc ++ sc) d c = infoset loc d c.
Proof.
  induction c as [p n e nsp a tx ks IH|p n e nsp c IH] using pel_ind2; intros loc sc d H.
  - cbn [closed infoset] in *.
    apply andb_true_iff in H as [H Hk]. apply andb_true_iff in H as [Hp Ha].
    rewrite app_assoc. set (L := nsp ++ loc) in *.
    set (d' := match e with Some u => u | None => d end).
    assert (Hl : forall q, is_some (lookup q L) = true -> lookup q (L ++ sc) = lookup q L).
    { intros q Hq. rewrite lookup_app. destruct (lookup q L); [reflexivity|discriminate]. }
    assert (Hn : name_ns (L ++ sc) d' p = name_ns L d' p).
    { destruct p as [q|]; cbn; [|reflexivity]. unfold resolve. apply Hl, Hp. }
    rewrite Hn.
    assert (Hat : map (attr_info (L ++ sc) d') a = map (attr_info L d') a).
    { apply map_ext_in. intros [[q m] v] Hx. rewrite forallb_forall in Ha. specialize (Ha _ Hx).
      cbn in Ha. apply andb_true_iff in Ha as [Hq Hv]. unfold attr_info.
      assert (Hn' : name_ns (L ++ sc) 0 q = name_ns L 0 q).
      { destruct q as [q|]; cbn; [|reflexivity]. unfold resolve. apply Hl, Hq. }
      rewrite Hn'. destruct (name_ns L 0 q); [|reflexivity].
      destruct (is_qattr n0 m) eqn:Eq; [|reflexivity].
      destruct v as [t|r l]; [reflexivity|]. unfold resolve.
      rewrite (is_qattr_name _ _ Eq) in Hv. cbn in Hv. rewrite orb_false_r in Hv.
      rewrite (Hl r Hv). reflexivity. }
    rewrite Hat.
    assert (Hks : map (infoset (L ++ sc) d') ks = map (infoset L d') ks).
    { apply map_ext_in. intros k Hin. rewrite Forall_forall in IH. rewrite forallb_forall in Hk.
      apply IH; auto. }
    rewrite Hks. reflexivity.
  - cbn [closed infoset] in *. apply IH, H.
Qed.

Lemma norm_node_infoset ord sc0 : forall t sc d,
  cov ord sc -> incl (branch_uris t) ord -> norm_ok sc0 sc t = true ->
  infoset (newmap ord ++ sc0) d (norm_node ord sc t) = infoset sc d t.
Proof.
  induction t as [p n e nsp a tx ks IH|p n e nsp c IH] using pel_ind2; intros sc d Hc Hi G.
  - cbn [norm_node infoset norm_ok branch_uris app] in *.
    apply andb_true_iff in G as [G Gk]. apply andb_true_iff in G as [Gp Ga].
    set (sc' := nsp ++ sc) in *. set (d' := match e with Some u => u | None => d end).
    assert (Hc' : cov ord sc').
    { apply cov_app; [|exact Hc]. apply cov_pset. intros u Hu. apply Hi.
      apply in_or_app. right. apply in_or_app. left. exact Hu. }
    assert (Hn : name_ns (newmap ord ++ sc0) d' (option_map (rw ord sc') p) = name_ns sc' d' p).
    { destruct p as [q|]; cbn; [|reflexivity]. unfold resolve. apply rw_ok; assumption. }
    rewrite Hn. rewrite !map_map.
    assert (Hat : map (fun x => attr_info (newmap ord ++ sc0) d' (rw_attr ord sc' x)) a
                  = map (attr_info sc' d') a).
    { apply map_ext_in. intros x Hx. rewrite forallb_forall in Ga. apply attr_rw_ok; auto. }
    rewrite Hat.
    assert (Hks : map (fun x => infoset (newmap ord ++ sc0) d' (norm_node ord sc' x)) ks
                  = map (infoset sc' d') ks).
    { apply map_ext_in. intros k Hin. rewrite Forall_forall in IH. rewrite forallb_forall in Gk.
      apply IH; auto. intros u Hu. apply Hi. apply in_or_app. right. apply in_or_app. right.
      apply in_flat_map. exists k. split; assumption. }
    rewrite Hks. reflexivity.
  - cbn [norm_node infoset norm_ok] in *.
    pose proof (closed_infoset c [] (newmap ord ++ sc0) d G) as H1.
    pose proof (closed_infoset c [] sc d G) as H2. cbn [app] in H1, H2.
    rewrite H1, H2. reflexivity.
Qed.

Lemma normalize_preserves_gen : forall sc0 ord t d,
  incl (branch_uris t ++ pset sc0) ord ->
  norm_ok sc0 sc0 t = true ->
  infoset sc0 d (normalize sc0 ord t) = infoset sc0 d t.
Proof.
  intros sc0 ord t d Hi G.
  assert (H := norm_node_infoset ord sc0 t sc0 d).
  unfold normalize. destruct t as [p n e nsp a tx ks|p n e nsp c].
  - cbn [norm_node] in *. cbn [infoset] in *. cbn [app] in H. apply H; auto.
    + apply cov_pset. intros u Hu. apply Hi. apply in_or_app. right. exact Hu.
    + intros u Hu. apply Hi. apply in_or_app. left. exact Hu.
  - cbn [norm_node infoset]. reflexivity.
Qed.

Lemma nodupN_in x l : In x l -> In x (nodupN l).
Proof.
  induction l as [|y l IH]; cbn; [auto|]. intros [->|H].
  - destruct (existsb (N.eqb x) l) eqn:E.
    + apply IH. apply existsb_exists in E as [z [Hz Hx]]. apply N.eqb_eq in Hx. subst. exact Hz.
    + left. reflexivity.
  - destruct (existsb (N.eqb y) l); [apply IH, H|right; apply IH, H].
Qed.

(* the theorem as stated for the property: ord = ANY list containing the
   namespaces the normaliser collected (in particular every permutation of
   that set, i.e. every iteration order of the Python set) *)
Lemma normalize_preserves_infoset_l : forall sc0 aexp ord t d,
  (forall u, In u (namespaces sc0 aexp t) -> In u ord) ->
  norm_ok sc0 sc0 t = true ->
  infoset sc0 d (normalize sc0 ord t) = infoset sc0 d t.
Proof.
  intros sc0 aexp ord t d H G. apply normalize_preserves_gen; [|exact G].
  intros u Hu. apply H. unfold namespaces. apply nodupN_in.
  rewrite app_assoc. apply in_or_app. left. exact Hu.
Qed.
