(* C05 -- Wire-format options never change what a request means.

   Model of the prefix passes suds applies to an outgoing envelope
   (suds/sax/element.py: PrefixNormalizer, Element.promotePrefixes,
   Element.refitPrefixes, Element.nsdeclarations, Element.str/plain;
   suds/mx/appender.py: ElementWrapper; suds/mx/typer.py: Typer.genprefix;
   suds/bindings/binding.py: Binding.get_message) over a prefix-level rose
   tree, and the reading of such trees prescribed by "Namespaces in XML"
   (the namespace infoset), written independently of the code.

   All strings (names, prefixes, URIs, texts) are interned as N by the harness:
     0            "no namespace" / the URI ""      (also: WS marker for texts)
     1..9         fixed names below
     >= GP_BASE   the generated prefixes  ns<k>  =  GP_BASE + k                *)
From SV Require Import Lib.Base.

Definition XSI_P : N := 1.        (* prefix "xsi" *)
Definition XS_P : N := 2.         (* prefix "xs"  *)
Definition XML_P : N := 3.        (* prefix "xml" *)
Definition XSI_U : N := 4.        (* http://www.w3.org/2001/XMLSchema-instance *)
Definition XS_U : N := 5.         (* http://www.w3.org/2001/XMLSchema *)
Definition XML_U : N := 6.        (* http://www.w3.org/XML/1998/namespace *)
Definition ENC_U : N := 7.        (* http://schemas.xmlsoap.org/soap/encoding/ *)
Definition N_TYPE : N := 8.       (* local name "type" *)
Definition N_ARRAYTYPE : N := 9.  (* local name "arrayType" *)
Definition WS : N := 0.           (* a whitespace-only text *)
Definition GP_BASE : N := 1000000.
Definition gp (k : nat) : N := GP_BASE + N.of_nat k.      (* "ns%d" % k *)

(* ------------------------------------------------------------------ *)
(* trees                                                               *)
(* ------------------------------------------------------------------ *)

(* an attribute value: without a colon, or "p:l" split at the first colon
   (sax.splitPrefix) *)
Inductive aval := AText (t : N) | AQ (p l : N).
Definition attr := (option N * N * aval)%type.
Definition nsmap := list (N * N).          (* Element.nsprefixes, (prefix, uri) *)

Inductive pel :=
| PEl (prefix : option N) (name : N) (expns : option N) (nsp : nsmap)
      (attrs : list attr) (text : option N) (kids : list pel)
| PRaw (prefix : option N) (name : N) (expns : option N) (nsp : nsmap) (content : pel).
    (* mx.appender.ElementWrapper(content): an element of its own (no attributes, no
       children) for the prefix passes, printed by str() as its content *)

Section pel_ind2.
  Variable P : pel -> Prop.
  Hypothesis HEl : forall p n e nsp a tx ks, Forall P ks -> P (PEl p n e nsp a tx ks).
  Hypothesis HRaw : forall p n e nsp c, P c -> P (PRaw p n e nsp c).
  Fixpoint pel_ind2 (t : pel) : P t :=
    match t with
    | PEl p n e nsp a tx ks =>
        HEl p n e nsp a tx ks
          ((fix go ks := match ks return Forall P ks with
                         | [] => Forall_nil _
                         | k :: r => Forall_cons _ (pel_ind2 k) (go r)
                         end) ks)
    | PRaw p n e nsp c => HRaw p n e nsp c (pel_ind2 c)
    end.
End pel_ind2.

(* the namespace infoset: every name carries its namespace (0 = none), QName
   valued attributes (xsi:type, SOAP-ENC:arrayType) carry the namespace their
   prefix denotes; no prefixes, no declarations *)
Inductive ival := IText (t : N) | ITextQ (p l : N) | IQ (ns l : N).
Inductive itree :=
| IEl (ns name : N) (attrs : list (N * N * ival)) (text : option N) (kids : list itree).

(* ------------------------------------------------------------------ *)
(* small helpers                                                       *)
(* ------------------------------------------------------------------ *)

Fixpoint lookup (p : N) (sc : nsmap) : option N :=
  match sc with
  | [] => None
  | (q, u) :: r => if N.eqb q p then Some u else lookup p r
  end.

(* Element.resolvePrefix: own mappings first, then the ancestors'.  (The built-in
   binding of the prefix "xml" is left out: xml:* names are not generated.) *)
Definition resolve (sc : nsmap) (p : N) : option N := lookup p sc.

Fixpoint sequence {A} (l : list (option A)) : option (list A) :=
  match l with
  | [] => Some []
  | None :: _ => None
  | Some a :: r => match sequence r with Some r' => Some (a :: r') | None => None end
  end.

Definition opt_list {A} (o : option A) : list A := match o with Some a => [a] | None => [] end.
Definition oN_eqb := opt_eqb N.eqb.

Definition is_qattr (ns name : N) : bool :=
  (N.eqb ns XSI_U && N.eqb name N_TYPE) || (N.eqb ns ENC_U && N.eqb name N_ARRAYTYPE).

(* ------------------------------------------------------------------ *)
(* SPEC: the infoset of a prefix-level tree (Namespaces in XML 1.0:     *)
(* a prefixed name needs an in-scope declaration; an unprefixed element *)
(* takes the default namespace, an unprefixed attribute none; XSD:      *)
(* an unprefixed QName value takes the default namespace)               *)
(* ------------------------------------------------------------------ *)

Definition name_ns (sc : nsmap) (d : N) (p : option N) : option N :=
  match p with None => Some d | Some p => resolve sc p end.

Definition attr_info (sc : nsmap) (d : N) (a : attr) : option (N * N * ival) :=
  let '(p, n, v) := a in
  match name_ns sc 0 p with
  | None => None
  | Some ns =>
      if is_qattr ns n then
        match v with
        | AText l => Some (ns, n, IQ d l)
        | AQ q l => match resolve sc q with Some u => Some (ns, n, IQ u l) | None => None end
        end
      else Some (ns, n, match v with AText t => IText t | AQ q l => ITextQ q l end)
  end.

Definition mk_iel (ns : option N) (n : N) (ia : option (list (N * N * ival))) (tx : option N)
           (ik : option (list itree)) : option itree :=
  match ns, ia, ik with
  | Some ns, Some ia, Some ik => Some (IEl ns n ia tx ik)
  | _, _, _ => None
  end.

Fixpoint infoset (sc : nsmap) (d : N) (t : pel) : option itree :=
  match t with
  | PEl p n e nsp attrs tx ks =>
      let sc' := nsp ++ sc in
      let d' := match e with Some u => u | None => d end in
      mk_iel (name_ns sc' d' p) n (sequence (map (attr_info sc' d') attrs)) tx
             (sequence (map (infoset sc' d') ks))
  | PRaw _ _ _ _ c => infoset sc d c
  end.

(* ------------------------------------------------------------------ *)
(* serialised form: what str()/plain() print, as a tree of start tags   *)
(* with their xmlns declarations                                        *)
(* ------------------------------------------------------------------ *)

Inductive dtree :=
| DEl (prefix : option N) (name : N) (dflt : option N) (decls : nsmap)
      (attrs : list attr) (text : option N) (kids : list dtree).

Section dtree_ind2.
  Variable P : dtree -> Prop.
  Hypothesis HEl : forall p n dd dc a tx ks, Forall P ks -> P (DEl p n dd dc a tx ks).
  Fixpoint dtree_ind2 (t : dtree) : P t :=
    match t with
    | DEl p n dd dc a tx ks =>
        HEl p n dd dc a tx ks
          ((fix go ks := match ks return Forall P ks with
                         | [] => Forall_nil _
                         | k :: r => Forall_cons _ (dtree_ind2 k) (go r)
                         end) ks)
    end.
End dtree_ind2.

(* SPEC for serialised documents: xmlns="u" sets the default namespace (u = ""
   unsets it), xmlns:p="u" binds p; both scope over the element and its content *)
Fixpoint infoset_d (sc : nsmap) (d : N) (t : dtree) : option itree :=
  match t with
  | DEl p n dd decls attrs tx ks =>
      let sc' := decls ++ sc in
      let d' := match dd with Some u => u | None => d end in
      mk_iel (name_ns sc' d' p) n (sequence (map (attr_info sc' d') attrs)) tx
             (sequence (map (infoset_d sc' d') ks))
  end.

(* Element.nsdeclarations.  pe = the parent's OWN expns (None also when there is
   no parent), psc = the scope in which the parent resolves prefixes ([] when
   there is no parent: then nothing is found and every mapping is printed). *)
Definition nsdecls (pe : option N) (psc : nsmap) (e : option N) (nsp : nsmap) : option N * nsmap :=
  (if oN_eqb e pe then None else e,
   filter (fun pu => negb (oN_eqb (resolve psc (fst pu)) (Some (snd pu)))) nsp).

(* pretty: an element with children and no text of its own gets line breaks
   and indentation between the children (whitespace-only text) *)
Definition pretty_text (pretty : bool) (tx : option N) (ks : list pel) : option N :=
  match tx, ks with
  | None, _ :: _ => if pretty then Some WS else None
  | _, _ => tx
  end.

(* wfix = does ElementWrapper override plain() as it overrides str()?  The
   unchanged code does not: under plain() a wrapper prints as an empty element.
   The wrapped element is printed as the parentless node it is. *)
Fixpoint render (pretty wfix : bool) (pe : option N) (psc : nsmap) (t : pel) : dtree :=
  match t with
  | PEl p n e nsp attrs tx ks =>
      DEl p n (fst (nsdecls pe psc e nsp)) (snd (nsdecls pe psc e nsp)) attrs (pretty_text pretty tx ks)
          (map (render pretty wfix e (nsp ++ psc)) ks)
  | PRaw p n e nsp c =>
      if pretty || wfix then render pretty wfix None [] c
      else DEl p n (fst (nsdecls pe psc e nsp)) (snd (nsdecls pe psc e nsp)) [] None []
  end.

(* ------------------------------------------------------------------ *)
(* PrefixNormalizer                                                    *)
(* ------------------------------------------------------------------ *)

(* PrefixNormalizer.skip on a (prefix, uri) pair: only the exact pairs *)
Definition skip_pair (p u : N) : bool :=
  (N.eqb p XS_P && N.eqb u XS_U) || (N.eqb p XSI_P && N.eqb u XSI_U) ||
  (N.eqb p XML_P && N.eqb u XML_U).
Definition permit (p u : N) : bool := negb (skip_pair p u).

Definition pset (m : nsmap) : list N :=
  map snd (filter (fun pu => permit (fst pu) (snd pu)) m).

(* getNamespaces: expns is handed to permit() as a string, so every expns counts *)
Fixpoint branch_uris (t : pel) : list N :=
  match t with
  | PEl _ _ e nsp _ _ ks => opt_list e ++ pset nsp ++ flat_map branch_uris ks
  | PRaw _ _ e nsp _ => opt_list e ++ pset nsp
  end.

Fixpoint nodupN (l : list N) : list N :=
  match l with
  | [] => []
  | x :: r => if existsb (N.eqb x) r then nodupN r else x :: nodupN r
  end.

(* sc0 / aexp: mappings and expns of the ancestors of the normalised node *)
Definition namespaces (sc0 : nsmap) (aexp : list N) (t : pel) : list N :=
  nodupN (branch_uris t ++ pset sc0 ++ aexp).

Fixpoint index_of (u : N) (l : list N) : option nat :=
  match l with
  | [] => None
  | x :: r => if N.eqb x u then Some O else option_map S (index_of u r)
  end.

(* genPrefixes: `ord` is the order in which the Python set is iterated *)
Fixpoint newmap_from (k : nat) (ord : list N) : nsmap :=
  match ord with [] => [] | u :: r => (gp k, u) :: newmap_from (S k) r end.
Definition newmap (ord : list N) : nsmap := newmap_from 0 ord.

(* refitNodes / refitAddr / refitValue on one prefix resolved in the ORIGINAL scope *)
Definition rw (ord : list N) (sc : nsmap) (p : N) : N :=
  match resolve sc p with
  | Some u => if permit p u then
                match index_of u ord with Some k => gp k | None => p end
              else p
  | None => p
  end.

Definition rw_attr (ord : list N) (sc : nsmap) (a : attr) : attr :=
  let '(p, n, v) := a in
  (option_map (rw ord sc) p, n,
   match v with AText t => AText t | AQ q l => AQ (rw ord sc q) l end).

Fixpoint norm_node (ord : list N) (sc : nsmap) (t : pel) : pel :=
  match t with
  | PEl p n e nsp attrs tx ks =>
      let sc' := nsp ++ sc in
      PEl (option_map (rw ord sc') p) n e [] (map (rw_attr ord sc') attrs) tx
          (map (norm_node ord sc') ks)
  | PRaw p n e nsp c => PRaw (option_map (rw ord (nsp ++ sc)) p) n e [] c
  end.

(* refit = refitNodes; refitMappings *)
Definition normalize (sc0 : nsmap) (ord : list N) (t : pel) : pel :=
  match norm_node ord sc0 t with
  | PEl p n e _ a tx ks => PEl p n e (newmap ord) a tx ks
  | PRaw p n e _ c => PRaw p n e (newmap ord) c
  end.

(* ------------------------------------------------------------------ *)
(* Element.promotePrefixes                                             *)
(* ------------------------------------------------------------------ *)

(* one node handing its mappings `cn` to its parent (prefix pp, mappings pn):
   (what the node keeps, the parent's mappings afterwards) *)
Fixpoint push_up (pp : option N) (pn cn : nsmap) : nsmap * nsmap :=
  match cn with
  | [] => ([], pn)
  | (p, u) :: r =>
      match lookup p pn with
      | Some pu =>
          let '(keep, pn') := push_up pp pn r in
          (if N.eqb pu u then keep else (p, u) :: keep, pn')
      | None =>
          if oN_eqb (Some p) pp then
            let '(keep, pn') := push_up pp pn r in ((p, u) :: keep, pn')
          else
            let '(keep, pn') := push_up pp (pn ++ [(p, u)]) r in (keep, pn')
      end
  end.

(* the (already promoted) children push one after the other *)
Fixpoint push_kids (pp : option N) (pn : nsmap) (ks : list pel) : nsmap * list pel :=
  match ks with
  | [] => (pn, [])
  | PEl kp kn ke knsp ka kt kk :: r =>
      let '(keep, pn1) := push_up pp pn knsp in
      let '(pnF, r') := push_kids pp pn1 r in
      (pnF, PEl kp kn ke keep ka kt kk :: r')
  | PRaw kp kn ke knsp c :: r =>
      let '(keep, pn1) := push_up pp pn knsp in
      let '(pnF, r') := push_kids pp pn1 r in
      (pnF, PRaw kp kn ke keep c :: r')
  end.

Fixpoint promote (t : pel) : pel :=
  match t with
  | PEl p n e nsp a tx ks =>
      let '(nsp', ks') := push_kids p nsp (map promote ks) in
      PEl p n e nsp' a tx ks'
  | PRaw p n e nsp c => PRaw p n e nsp c
  end.

(* ------------------------------------------------------------------ *)
(* Element.refitPrefixes (prefix -> xmlns=; the mapping tables are     *)
(* kept, since attributes and QName values still use them)             *)
(* ------------------------------------------------------------------ *)

Fixpoint refit (sc : nsmap) (t : pel) : pel :=
  match t with
  | PEl p n e nsp a tx ks =>
      let sc' := nsp ++ sc in
      let e' := match p with
                | Some q => match resolve sc' q with Some u => Some u | None => e end
                | None => e
                end in
      PEl None n e' nsp a tx (map (refit sc') ks)
  | PRaw p n e nsp c =>
      let e' := match p with
                | Some q => match resolve (nsp ++ sc) q with Some u => Some u | None => e end
                | None => e
                end in
      PRaw None n e' nsp c
  end.

(* ------------------------------------------------------------------ *)
(* Binding.get_message + _SoapClient.send                              *)
(* ------------------------------------------------------------------ *)

(* body = second child of the envelope (the header is always present) *)
Definition map_body (f : nsmap -> pel -> pel) (env : pel) : pel :=
  match env with
  | PEl p n e nsp a tx (h :: b :: r) => PEl p n e nsp a tx (h :: f nsp b :: r)
  | _ => env
  end.

(* body.normalizePrefixes(): the envelope is the root, its mappings are the
   whole outer scope of the body *)
Definition norm_env (ord : list N) (env : pel) : pel :=
  map_body (fun sc0 b => normalize sc0 ord b) env.

Definition prefix_pass (ord : list N) (env : pel) : pel := promote (norm_env ord env).

Definition default_ord (env : pel) : list N :=
  match env with
  | PEl _ _ e nsp _ _ (_ :: b :: _) => namespaces nsp (opt_list e) b
  | _ => []
  end.

(* the options: sortNamespaces is not an input of this function at all *)
Definition message (prefixes pretty wfix : bool) (ord : list N) (env : pel) : dtree :=
  render pretty wfix None [] (if prefixes then prefix_pass ord env else refit [] env).

Record options := mkOpt { o_prefixes : bool; o_prettyxml : bool; o_xstq : bool; o_sortNamespaces : bool }.
(* xstq acts before this stage (it selects which tree the marshaller builds);
   sortNamespaces is read by ServiceDefinition only *)
Definition request (o : options) (wfix : bool) (ord : list N) (env : pel) : dtree :=
  message (o_prefixes o) (o_prettyxml o) wfix ord env.

Definition request_infoset (prefixes pretty wfix : bool) (ord : list N) (env : pel) : option itree :=
  infoset_d [] 0 (message prefixes pretty wfix ord env).

(* ------------------------------------------------------------------ *)
(* Typer.genprefix                                                     *)
(* ------------------------------------------------------------------ *)

(* resolvePrefix(.., default=None) returns a TUPLE or None and the result is
   compared with (None, uri-string): only None ever matches, so the first
   unbound ns<i>, i >= 1, is taken *)
Fixpoint genprefix_from (fuel i : nat) (sc : nsmap) : option N :=
  match fuel with
  | O => None
  | S f => match resolve sc (gp i) with
           | None => Some (gp i)
           | Some _ => genprefix_from f (S i) sc
           end
  end.
Definition genprefix (sc : nsmap) : option N := genprefix_from 1023 1 sc.

(* ------------------------------------------------------------------ *)
(* comparing infosets                                                  *)
(* ------------------------------------------------------------------ *)

Definition ival_eqb (a b : ival) : bool :=
  match a, b with
  | IText x, IText y => N.eqb x y
  | ITextQ p l, ITextQ q m => N.eqb p q && N.eqb l m
  | IQ n l, IQ m k => N.eqb n m && N.eqb l k
  | _, _ => false
  end.

Definition iattr_eqb (a b : N * N * ival) : bool :=
  let '(n1, l1, v1) := a in let '(n2, l2, v2) := b in
  N.eqb n1 n2 && N.eqb l1 l2 && ival_eqb v1 v2.

(* attribute ORDER is not part of the infoset *)
Definition attrs_sim (a b : list (N * N * ival)) : bool :=
  Nat.eqb (length a) (length b) &&
  forallb (fun x => existsb (iattr_eqb x) b) a &&
  forallb (fun x => existsb (iattr_eqb x) a) b.

Fixpoint itree_eqb (exact : bool) (a b : itree) : bool :=
  match a, b with
  | IEl n1 l1 a1 t1 k1, IEl n2 l2 a2 t2 k2 =>
      N.eqb n1 n2 && N.eqb l1 l2 &&
      (if exact then list_eqb iattr_eqb a1 a2 else attrs_sim a1 a2) &&
      oN_eqb t1 t2 &&
      (fix go (x : list itree) (y : list itree) : bool :=
         match x, y with
         | [], [] => true
         | p :: x', q :: y' => itree_eqb exact p q && go x' y'
         | _, _ => false
         end) k1 k2
  end.

(* indentation: whitespace-only text of an element that has element children *)
Fixpoint strip_ws (t : itree) : itree :=
  match t with
  | IEl ns n a tx ks =>
      IEl ns n a (match tx, ks with Some 0%N, _ :: _ => None | _, _ => tx end) (map strip_ws ks)
  end.

(* "ignoring the namespace part of xsi:type values" *)
Definition erase_attr (a : N * N * ival) : N * N * ival :=
  let '(ns, n, v) := a in
  (ns, n, if N.eqb ns XSI_U && N.eqb n N_TYPE then
            match v with IQ _ l => IQ 0 l | _ => v end else v).
Fixpoint erase_tns (t : itree) : itree :=
  match t with
  | IEl ns n a tx ks => IEl ns n (map erase_attr a) tx (map erase_tns ks)
  end.

Definition oitree_eqb (exact : bool) (a b : option itree) : bool :=
  opt_eqb (itree_eqb exact) a b.

(* ------------------------------------------------------------------ *)
(* the predicates the harness evaluates                                *)
(* ------------------------------------------------------------------ *)

(* one generated request: the envelope before the prefix pass under xstq=True
   and xstq=False, the 16 requests observed from the implementation (parsed by
   expat; None = not namespace-well-formed) as indexes into `distinct`, in the
   order  i = 8*prefixes + 4*pretty + 2*xstq + sortNamespaces ; the raw
   elements passed as values with the infoset each has on its own *)
Record rcase := mkR {
  r_wfix : bool;
  r_env_q : pel;
  r_env_u : pel;
  r_distinct : list (option itree);
  r_idx : list nat;
  r_raws : list (N * itree);
  r_walk : list (nat * nat)
    (* ONE client switched through a sequence of settings: (setting, index into
       r_distinct of the request it then sent); r_idx are the requests of FRESH
       clients, one per setting *)
}.

Definition obs (c : rcase) (i : nat) : option itree :=
  nth (nth i (r_idx c) 0%nat) (r_distinct c) None.

Definition settings : list nat := seq 0 16.
Definition s_prefixes (i : nat) := Nat.leb 8 i.
Definition s_pretty (i : nat) := Nat.leb 4 (Nat.modulo i 8).
Definition s_xstq (i : nat) := Nat.leb 2 (Nat.modulo i 4).

Definition model_out (c : rcase) (i : nat) : option itree :=
  let env := if s_xstq i then r_env_q c else r_env_u c in
  request_infoset (s_prefixes i) (s_pretty i) (r_wfix c) (default_ord env) env.

(* SPEC: the request sent under a setting is determined by the setting (and the
   call): whatever settings the client went through before, it sends what a
   fresh client sends *)
Definition req_history_independent (c : rcase) : bool :=
  forallb (fun st => oitree_eqb true (nth (snd st) (r_distinct c) None) (obs c (fst st))) (r_walk c).

(* the implementation produces what the model produces, setting by setting *)
Definition req_agrees_on (sel : nat -> bool) (c : rcase) : bool :=
  forallb (fun i => negb (sel i) || oitree_eqb true (obs c i) (model_out c i)) settings.
Definition req_agrees (c : rcase) : bool := req_agrees_on (fun _ => true) c.

Fixpoint find_el (name : N) (t : itree) : option itree :=
  match t with
  | IEl ns n a tx ks =>
      if N.eqb n name then Some t
      else (fix go (l : list itree) : option itree :=
              match l with
              | [] => None
              | k :: r => match find_el name k with Some x => Some x | None => go r end
              end) ks
  end.

Definition norm_i (t : itree) : itree := erase_tns (strip_ws t).

(* SPEC (property text): over the selected settings every request is
   namespace-well-formed; those with qualified xsi:type denote one infoset up
   to indentation; all of them denote one infoset up to indentation and the
   namespace part of xsi:type; every raw element arrives intact *)
Definition req_spec_on (sel : nat -> bool) (c : rcase) : bool :=
  let S := filter sel settings in
  match S with
  | [] => true
  | i0 :: _ =>
      forallb (fun i => match obs c i with Some _ => true | None => false end) S &&
      match obs c i0 with
      | None => false
      | Some ref =>
          forallb (fun i => match obs c i with
                            | Some t => itree_eqb false (norm_i t) (norm_i ref)
                            | None => false end) S
      end &&
      (let Q := filter s_xstq S in
       match Q with
       | [] => true
       | q0 :: _ =>
           match obs c q0 with
           | None => false
           | Some ref => forallb (fun i => match obs c i with
                                           | Some t => itree_eqb false (strip_ws t) (strip_ws ref)
                                           | None => false end) Q
           end
       end) &&
      forallb (fun i => match obs c i with
                        | Some t => forallb (fun r => match find_el (fst r) t with
                                                      | Some x => itree_eqb false (strip_ws x) (strip_ws (snd r))
                                                      | None => false end) (r_raws c)
                        | None => false end) S
  end.

Definition req_spec_ok (c : rcase) : bool := req_spec_on (fun _ => true) c.
(* the part of the lattice the known defects do not reach: prefixes=True, and
   pretty output when a raw element is present and the wrapper has no plain() *)
Definition sel_sound (c : rcase) (i : nat) : bool :=
  s_prefixes i && (s_pretty i || r_wfix c || match r_raws c with [] => true | _ => false end).
Definition req_spec_sound_part (c : rcase) : bool := req_spec_on (sel_sound c) c.
Definition req_agrees_sound_part (c : rcase) : bool := req_agrees_on (sel_sound c) c.

(* Typer.genprefix correspondence: (own mappings of the node, prefix returned) *)
Definition genprefix_agrees (c : nsmap * option N) : bool :=
  oN_eqb (genprefix (fst c)) (snd c).

(* ------------------------------------------------------------------ *)
(* guards of the theorems (all boolean, all evaluated on every case)   *)
(* ------------------------------------------------------------------ *)

Definition is_some {A} (o : option A) : bool := match o with Some _ => true | None => false end.

Fixpoint nodup_keys (m : nsmap) : bool :=
  match m with
  | [] => true
  | (p, _) :: r => negb (is_some (lookup p r)) && nodup_keys r
  end.

(* nsprefixes are Python dicts: no prefix twice in one table *)
Fixpoint wf_maps (t : pel) : bool :=
  match t with
  | PEl _ _ _ nsp _ _ ks => nodup_keys nsp && forallb wf_maps ks
  | PRaw _ _ _ nsp c => nodup_keys nsp && wf_maps c
  end.

Fixpoint no_raw (t : pel) : bool :=
  match t with
  | PEl _ _ _ _ _ _ ks => forallb no_raw ks
  | PRaw _ _ _ _ _ => false
  end.

(* every prefix used by an element, an attribute or the value of an attribute
   named type / arrayType (the QName-typed ones are among these) is declared *)
Definition qname_like (n : N) : bool := N.eqb n N_TYPE || N.eqb n N_ARRAYTYPE.

Definition attr_visible (sc : nsmap) (a : attr) : bool :=
  let '(p, n, v) := a in
  match p with None => true | Some p => is_some (lookup p sc) end &&
  match v with AText _ => true | AQ q _ => is_some (lookup q sc) || negb (qname_like n) end.

Fixpoint visible (sc : nsmap) (t : pel) : bool :=
  match t with
  | PEl p _ _ nsp attrs _ ks =>
      let sc' := nsp ++ sc in
      match p with None => true | Some p => is_some (lookup p sc') end &&
      forallb (attr_visible sc') attrs && forallb (visible sc') ks
  | PRaw _ _ _ _ c => visible sc c
  end.

(* nswf: the tree has an infoset at all *)
Definition nswf (sc : nsmap) (d : N) (t : pel) : bool := is_some (infoset sc d t).

(* all mappings of the tree (a wrapped raw element counts: it is printed inside) *)
Fixpoint bindings (t : pel) : nsmap :=
  match t with
  | PEl _ _ _ nsp _ _ ks => nsp ++ flat_map bindings ks
  | PRaw _ _ _ nsp c => nsp ++ bindings c
  end.

(* a prefix never stands for two URIs *)
Definition consistent_b (B : nsmap) : bool :=
  forallb (fun pu => oN_eqb (lookup (fst pu) B) (Some (snd pu))) B.

(* no_capture: promotion cannot capture a use, because no prefix has two
   meanings anywhere in the tree or its context *)
Definition no_capture (sc : nsmap) (t : pel) : bool :=
  consistent_b (sc ++ bindings t) && visible sc t.

(* guard of the normaliser: a use is rewritten (permit) or keeps a prefix that
   the context outside the normalised branch binds to the same URI (xsi, xs:
   skipped, hence not redeclared on the branch root); a colon-containing value
   of an attribute that is NOT QName-typed must not look like a bound prefix
   (the normaliser would rewrite plain text); raw elements are self-contained *)
Definition use_ok (sc0 sc : nsmap) (p : N) : bool :=
  match lookup p sc with
  | None => false
  | Some u => permit p u || oN_eqb (lookup p sc0) (Some u)
  end.

Definition attr_ok (sc0 sc : nsmap) (a : attr) : bool :=
  let '(p, n, v) := a in
  match p with None => true | Some p => use_ok sc0 sc p end &&
  match v with
  | AText _ => true
  | AQ q _ =>
      match name_ns sc 0 p with
      | Some ns => if is_qattr ns n then use_ok sc0 sc q
                   else match lookup q sc with None => true | Some u => negb (permit q u) end
      | None => false
      end
  end.

Fixpoint closed (sc : nsmap) (t : pel) : bool :=
  match t with
  | PEl p _ _ nsp attrs _ ks =>
      let sc' := nsp ++ sc in
      match p with None => true | Some p => is_some (lookup p sc') end &&
      forallb (attr_visible sc') attrs &&
      forallb (closed sc') ks
  | PRaw _ _ _ _ c => closed sc c
  end.

Fixpoint norm_ok (sc0 sc : nsmap) (t : pel) : bool :=
  match t with
  | PEl p _ _ nsp attrs _ ks =>
      let sc' := nsp ++ sc in
      match p with None => true | Some p => use_ok sc0 sc' p end &&
      forallb (attr_ok sc0 sc') attrs && forallb (norm_ok sc0 sc') ks
  | PRaw _ _ _ _ c => closed [] c
  end.

(* guard under which prefixes=False is harmless.  `same` = the default namespace
   in force here is the one the original tree had here.  Below a prefixed
   element that is no longer so (it now carries xmlns=its namespace): an
   unprefixed element without an xmlns= of its own, an unprefixed QName value,
   or an unqualified raw element would silently join that namespace. *)
Definition attr_noq (sc : nsmap) (a : attr) : bool :=
  let '(p, n, v) := a in
  match v with
  | AQ _ _ => true
  | AText _ => match name_ns sc 0 p with Some ns => negb (is_qattr ns n) | None => true end
  end.

Fixpoint refit_guard (sc : nsmap) (same : bool) (t : pel) : bool :=
  match t with
  | PEl p _ e nsp attrs _ ks =>
      let sc' := nsp ++ sc in
      let deq := match p with Some _ => false | None => is_some e || same end in
      match p with Some q => is_some (lookup q sc') | None => is_some e || same end &&
      (deq || forallb (attr_noq sc') attrs) &&
      forallb (refit_guard sc' deq) ks
  | PRaw _ _ _ _ _ => same
  end.

(* the guards of normalize_promote_preserves_infoset for an envelope *)
Definition env_guard (ord : list N) (env : pel) : bool :=
  match env with
  | PEl _ _ _ nsp _ _ (_ :: b :: _) => norm_ok nsp nsp b
  | _ => true
  end && no_capture [] (norm_env ord env).

Definition ord_covers (ord : list N) (env : pel) : bool :=
  match env with
  | PEl _ _ _ nsp _ _ (_ :: b :: _) => forallb (fun u => existsb (N.eqb u) ord) (branch_uris b ++ pset nsp)
  | _ => true
  end.

(* what is printed must be printable faithfully: dict-like tables, and raw
   elements only when the wrapper prints its content under plain() too *)
Definition out_ok (wfix : bool) (t : pel) : bool := wf_maps t && (wfix || no_raw t).

(* guard of options_lattice: both branches of get_message keep the infoset *)
Definition lattice_guard (wfix : bool) (ord : list N) (env : pel) : bool :=
  ord_covers ord env && env_guard ord env && out_ok wfix (prefix_pass ord env) &&
  refit_guard [] true env && out_ok wfix (refit [] env).

(* evaluated by the harness: how many generated requests the theorems speak
   about, and (sanity) that the theorem's conclusion computes on them *)
Definition thm_guard (c : rcase) : bool :=
  env_guard (default_ord (r_env_q c)) (r_env_q c) && env_guard (default_ord (r_env_u c)) (r_env_u c).

Definition lattice_guard_case (c : rcase) : bool :=
  lattice_guard (r_wfix c) (default_ord (r_env_q c)) (r_env_q c).

Definition thm_instance (c : rcase) : bool :=
  forallb (fun env =>
     (negb (env_guard (default_ord env) env && ord_covers (default_ord env) env) ||
        (is_some (infoset [] 0 env) &&
         oitree_eqb true (infoset [] 0 (prefix_pass (default_ord env) env)) (infoset [] 0 env))) &&
     (negb (refit_guard [] true env) ||
        oitree_eqb true (infoset [] 0 (refit [] env)) (infoset [] 0 env)))
    [r_env_q c; r_env_u c].
