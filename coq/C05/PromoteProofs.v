(* C05: promotePrefixes preserves the infoset when no prefix has two meanings,
   and the envelope-level composition with the normaliser. *)
From SV Require Import Lib.Base C05.Model C05.RenderProofs C05.NormProofs C05.RefitProofs.

(* the tree with every mapping table emptied: read in ONE fixed scope *)
Fixpoint strip (t : pel) : pel :=
  match t with
  | PEl p n e _ a tx ks => PEl p n e [] a tx (map strip ks)
  | PRaw p n e _ c => PRaw p n e [] (strip c)
  end.

Lemma is_some_lookup p sc : is_some (lookup p sc) = true -> exists u, lookup p sc = Some u.
Proof. destruct (lookup p sc); [eauto|discriminate]. Qed.

(* Lemma A: if every binding of the tree and its context agrees with B, the
   tree reads in its own scopes as its stripped form reads in B *)
Lemma infoset_fixed B : forall t sc d,
  (forall p u, In (p, u) (sc ++ bindings t) -> lookup p B = Some u) ->
  visible sc t = true ->
  infoset sc d t = infoset B d (strip t).
Proof.
  induction t as [p n e nsp a tx ks IH|p n e nsp c IH] using pel_ind2; intros sc d HB V.
  - cbn [strip infoset visible bindings app] in *.
    apply andb_true_iff in V as [V Vk]. apply andb_true_iff in V as [Vp Va].
    set (sc' := nsp ++ sc) in *. set (d' := match e with Some u => u | None => d end).
    assert (Hsc : forall q u, lookup q sc' = Some u -> lookup q B = Some u).
    { intros q u Hq. apply HB. apply lookup_in in Hq. subst sc'.
      apply in_app_or in Hq as [Hq|Hq]; apply in_or_app; [right|left; exact Hq].
      apply in_or_app. left. exact Hq. }
    assert (Hn : name_ns sc' d' p = name_ns B d' p).
    { destruct p as [q|]; cbn; [|reflexivity]. unfold resolve.
      destruct (is_some_lookup q sc' Vp) as [u Hu]. rewrite Hu. symmetry. apply Hsc, Hu. }
    rewrite Hn.
    assert (Hat : map (attr_info sc' d') a = map (attr_info B d') a).
    { apply map_ext_in. intros [[q m] v] Hx. rewrite forallb_forall in Va. specialize (Va _ Hx).
      cbn in Va. apply andb_true_iff in Va as [Vq Vv]. unfold attr_info.
      assert (Hn' : name_ns sc' 0 q = name_ns B 0 q).
      { destruct q as [q|]; cbn; [|reflexivity]. unfold resolve.
        destruct (is_some_lookup q sc' Vq) as [u Hu]. rewrite Hu. symmetry. apply Hsc, Hu. }
      rewrite Hn'. destruct (name_ns B 0 q); [|reflexivity].
      destruct (is_qattr n0 m) eqn:Eq; [|reflexivity].
      destruct v as [t|r l]; [reflexivity|]. unfold resolve.
      rewrite (is_qattr_name _ _ Eq) in Vv. cbn in Vv. rewrite orb_false_r in Vv.
      destruct (is_some_lookup r sc' Vv) as [u Hu]. rewrite Hu. rewrite (Hsc r u Hu). reflexivity. }
    rewrite Hat. rewrite map_map.
    assert (Hks : map (infoset sc' d') ks = map (fun x => infoset B d' (strip x)) ks).
    { apply map_ext_in. intros k Hin. rewrite Forall_forall in IH. rewrite forallb_forall in Vk.
      apply IH; auto. intros q u Hq. apply HB. subst sc'.
      apply in_app_or in Hq as [Hq|Hq].
      - apply in_app_or in Hq as [Hq|Hq]; apply in_or_app; [right|left; exact Hq].
        apply in_or_app. left. exact Hq.
      - apply in_or_app. right. apply in_or_app. right. apply in_flat_map. exists k. split; assumption. }
    rewrite Hks. reflexivity.
  - cbn [strip infoset visible bindings] in *. apply IH; [|exact V].
    intros q u Hq. apply HB. apply in_app_or in Hq as [Hq|Hq]; apply in_or_app; [left; exact Hq|right].
    apply in_or_app. right. exact Hq.
Qed.

(* ---- promote changes mapping tables only ---- *)

Lemma push_kids_strip pp : forall l pn, map strip (snd (push_kids pp pn l)) = map strip l.
Proof.
  induction l as [|k l IH]; intro pn; cbn; [reflexivity|].
  destruct k as [kp kn ke knsp ka kt kk|kp kn ke knsp c];
    destruct (push_up pp pn knsp) as [keep pn1] eqn:E1;
    specialize (IH pn1); destruct (push_kids pp pn1 l) as [pnF r'] eqn:E2; cbn in *;
    rewrite IH; reflexivity.
Qed.

Lemma promote_strip : forall t, strip (promote t) = strip t.
Proof.
  induction t as [p n e nsp a tx ks IH|p n e nsp c IH] using pel_ind2.
  - cbn [promote]. pose proof (push_kids_strip p (map promote ks) nsp) as H.
    destruct (push_kids p nsp (map promote ks)) as [nsp' ks'] eqn:E. cbn in H. cbn [strip].
    rewrite H. rewrite map_map. f_equal. apply map_ext_in. intros k Hin.
    rewrite Forall_forall in IH. apply IH, Hin.
  - reflexivity.
Qed.

(* ---- promote creates no binding ---- *)

Lemma push_up_incl pp : forall cn pn keep pn',
  push_up pp pn cn = (keep, pn') -> incl keep cn /\ incl pn' (pn ++ cn).
Proof.
  induction cn as [|[p u] r IH]; intros pn keep pn' H; cbn [push_up] in H.
  - inversion H; subst. split; [apply incl_refl|rewrite app_nil_r; apply incl_refl].
  - destruct (lookup p pn) as [pu|] eqn:El.
    + destruct (push_up pp pn r) as [k1 p1] eqn:E. destruct (IH _ _ _ E) as [H1 H2].
      inversion H; subst. split.
      * destruct (N.eqb pu u); [apply incl_tl, H1|].
        apply incl_cons; [left; reflexivity|apply incl_tl, H1].
      * intros x Hx. apply H2 in Hx. apply in_app_or in Hx as [Hx|Hx]; apply in_or_app; [left; exact Hx|right; right; exact Hx].
    + destruct (oN_eqb (Some p) pp).
      * destruct (push_up pp pn r) as [k1 p1] eqn:E. destruct (IH _ _ _ E) as [H1 H2].
        inversion H; subst. split.
        -- apply incl_cons; [left; reflexivity|apply incl_tl, H1].
        -- intros x Hx. apply H2 in Hx. apply in_app_or in Hx as [Hx|Hx]; apply in_or_app; [left; exact Hx|right; right; exact Hx].
      * destruct (push_up pp (pn ++ [(p, u)]) r) as [k1 p1] eqn:E. destruct (IH _ _ _ E) as [H1 H2].
        inversion H; subst. split.
        -- apply incl_tl, H1.
        -- intros x Hx. apply H2 in Hx. apply in_app_or in Hx as [Hx|Hx].
           ++ apply in_app_or in Hx as [Hx|Hx]; apply in_or_app; [left; exact Hx|right].
              destruct Hx as [<-|[]]. left. reflexivity.
           ++ apply in_or_app. right. right. exact Hx.
Qed.

Lemma push_kids_incl pp : forall l pn pnF l',
  push_kids pp pn l = (pnF, l') ->
  incl (pnF ++ flat_map bindings l') (pn ++ flat_map bindings l).
Proof.
  induction l as [|k l IH]; intros pn pnF l' H; cbn in H.
  - inversion H; subst. apply incl_refl.
  - destruct k as [kp kn ke knsp ka kt kk|kp kn ke knsp c];
      destruct (push_up pp pn knsp) as [keep pn1] eqn:E1;
      destruct (push_kids pp pn1 l) as [pnF' r'] eqn:E2;
      inversion H; subst; clear H;
      destruct (push_up_incl pp _ _ _ _ E1) as [H1 H2];
      specialize (IH _ _ _ E2);
      cbn [flat_map bindings]; intros x Hx.
    + apply in_app_or in Hx as [Hx|Hx].
      * assert (Hy : In x (pnF ++ flat_map bindings r')) by (apply in_or_app; left; exact Hx).
        apply IH in Hy. apply in_app_or in Hy as [Hy|Hy].
        -- apply H2 in Hy. apply in_app_or in Hy as [Hy|Hy]; apply in_or_app; [left; exact Hy|right].
           apply in_or_app. left. apply in_or_app. left. exact Hy.
        -- apply in_or_app. right. apply in_or_app. right. exact Hy.
      * apply in_app_or in Hx as [Hx|Hx].
        -- apply in_app_or in Hx as [Hx|Hx]; apply in_or_app; right; apply in_or_app; left; apply in_or_app;
             [left; apply H1, Hx|right; exact Hx].
        -- assert (Hy : In x (pnF ++ flat_map bindings r')) by (apply in_or_app; right; exact Hx).
           apply IH in Hy. apply in_app_or in Hy as [Hy|Hy].
           ++ apply H2 in Hy. apply in_app_or in Hy as [Hy|Hy]; apply in_or_app; [left; exact Hy|right].
              apply in_or_app. left. apply in_or_app. left. exact Hy.
           ++ apply in_or_app. right. apply in_or_app. right. exact Hy.
    + apply in_app_or in Hx as [Hx|Hx].
      * assert (Hy : In x (pnF ++ flat_map bindings r')) by (apply in_or_app; left; exact Hx).
        apply IH in Hy. apply in_app_or in Hy as [Hy|Hy].
        -- apply H2 in Hy. apply in_app_or in Hy as [Hy|Hy]; apply in_or_app; [left; exact Hy|right].
           apply in_or_app. left. apply in_or_app. left. exact Hy.
        -- apply in_or_app. right. apply in_or_app. right. exact Hy.
      * apply in_app_or in Hx as [Hx|Hx].
        -- apply in_app_or in Hx as [Hx|Hx]; apply in_or_app; right; apply in_or_app; left; apply in_or_app;
             [left; apply H1, Hx|right; exact Hx].
        -- assert (Hy : In x (pnF ++ flat_map bindings r')) by (apply in_or_app; right; exact Hx).
           apply IH in Hy. apply in_app_or in Hy as [Hy|Hy].
           ++ apply H2 in Hy. apply in_app_or in Hy as [Hy|Hy]; apply in_or_app; [left; exact Hy|right].
              apply in_or_app. left. apply in_or_app. left. exact Hy.
           ++ apply in_or_app. right. apply in_or_app. right. exact Hy.
Qed.

Lemma flat_map_incl {A B} (f g : A -> list B) l :
  (forall x, In x l -> incl (f x) (g x)) -> incl (flat_map f l) (flat_map g l).
Proof.
  intros H y Hy. apply in_flat_map in Hy as [x [Hx Hy]]. apply in_flat_map. exists x.
  split; [exact Hx|apply (H x Hx), Hy].
Qed.

Lemma promote_bindings : forall t, incl (bindings (promote t)) (bindings t).
Proof.
  induction t as [p n e nsp a tx ks IH|p n e nsp c IH] using pel_ind2.
  - cbn [promote]. destruct (push_kids p nsp (map promote ks)) as [nsp' ks'] eqn:E.
    cbn [bindings]. apply push_kids_incl in E. intros x Hx. apply E in Hx.
    apply in_app_or in Hx as [Hx|Hx]; apply in_or_app; [left; exact Hx|right].
    rewrite flat_map_concat_map, map_map, <- flat_map_concat_map in Hx.
    revert x Hx. apply flat_map_incl. rewrite Forall_forall in IH. exact IH.
  - apply incl_refl.
Qed.

(* ---- promote keeps every use declared ---- *)

Definition dom_le (a b : nsmap) : Prop :=
  forall p, is_some (lookup p a) = true -> is_some (lookup p b) = true.

Lemma dom_le_app a b c : dom_le b c -> dom_le (a ++ b) (a ++ c).
Proof.
  intros H p. rewrite !lookup_app. destruct (lookup p a); [auto|apply H].
Qed.

Lemma dom_le_app2 a a' b : dom_le a a' -> dom_le (a ++ b) (a' ++ b).
Proof.
  intros H p. rewrite !lookup_app. specialize (H p).
  destruct (lookup p a); cbn in *.
  - intros _. specialize (H eq_refl). destruct (lookup p a'); [reflexivity|discriminate].
  - intro Hb. destruct (lookup p a'); [reflexivity|exact Hb].
Qed.

Lemma attr_visible_mono s1 s2 a : dom_le s1 s2 -> attr_visible s1 a = true -> attr_visible s2 a = true.
Proof.
  intros H. destruct a as [[p n] v]. cbn. intro V. apply andb_true_iff in V as [V1 V2].
  apply andb_true_iff; split.
  - destruct p; [apply H, V1|reflexivity].
  - destruct v; [reflexivity|]. apply orb_true_iff in V2 as [V2|V2]; apply orb_true_iff;
      [left; apply H, V2|right; exact V2].
Qed.

Lemma vis_mono : forall t s1 s2, dom_le s1 s2 -> visible s1 t = true -> visible s2 t = true.
Proof.
  induction t as [p n e nsp a tx ks IH|p n e nsp c IH] using pel_ind2; intros s1 s2 H V.
  - cbn [visible] in *. apply andb_true_iff in V as [V Vk]. apply andb_true_iff in V as [Vp Va].
    pose proof (dom_le_app nsp s1 s2 H) as H'.
    apply andb_true_iff; split; [apply andb_true_iff; split|].
    + destruct p; [apply H', Vp|reflexivity].
    + rewrite forallb_forall in *. intros x Hx. eapply attr_visible_mono; [exact H'|apply Va, Hx].
    + rewrite forallb_forall in *. rewrite Forall_forall in IH. intros x Hx.
      eapply IH; [exact Hx|exact H'|apply Vk, Hx].
  - cbn [visible] in *. eapply IH; eauto.
Qed.

(* same node, other mapping table: enough that the combined scope does not shrink *)
Lemma vis_node_mono p n e nsp nsp' a tx ks s1 s2 :
  dom_le (nsp ++ s1) (nsp' ++ s2) ->
  visible s1 (PEl p n e nsp a tx ks) = true -> visible s2 (PEl p n e nsp' a tx ks) = true.
Proof.
  intros H V. cbn [visible] in *. apply andb_true_iff in V as [V Vk]. apply andb_true_iff in V as [Vp Va].
  apply andb_true_iff; split; [apply andb_true_iff; split|].
  - destruct p; [apply H, Vp|reflexivity].
  - rewrite forallb_forall in *. intros x Hx. eapply attr_visible_mono; [exact H|apply Va, Hx].
  - rewrite forallb_forall in *. intros x Hx. eapply vis_mono; [exact H|apply Vk, Hx].
Qed.

Lemma push_up_dom pp : forall cn pn keep pn',
  push_up pp pn cn = (keep, pn') ->
  dom_le pn pn' /\
  (forall p, is_some (lookup p cn) = true -> is_some (lookup p keep) || is_some (lookup p pn') = true).
Proof.
  induction cn as [|[p u] r IH]; intros pn keep pn' H; cbn [push_up] in H.
  - inversion H; subst. split; [intros q Hq; exact Hq|intros q Hq; discriminate].
  - destruct (lookup p pn) as [pu|] eqn:El.
    + destruct (push_up pp pn r) as [k1 p1] eqn:E. destruct (IH _ _ _ E) as [H1 H2].
      inversion H; subst. split; [exact H1|]. intros q Hq. cbn in Hq.
      destruct (N.eqb_spec p q) as [->|Hne].
      * apply orb_true_iff. right. apply H1. rewrite El. reflexivity.
      * specialize (H2 q Hq). destruct (N.eqb pu u); [exact H2|]. cbn.
        destruct (N.eqb_spec p q); [contradiction|exact H2].
    + destruct (oN_eqb (Some p) pp).
      * destruct (push_up pp pn r) as [k1 p1] eqn:E. destruct (IH _ _ _ E) as [H1 H2].
        inversion H; subst. split; [exact H1|]. intros q Hq. cbn in Hq. cbn.
        destruct (N.eqb_spec p q); [reflexivity|apply H2, Hq].
      * destruct (push_up pp (pn ++ [(p, u)]) r) as [k1 p1] eqn:E. destruct (IH _ _ _ E) as [H1 H2].
        inversion H; subst. split.
        -- intros q Hq. apply H1. rewrite lookup_app. destruct (lookup q pn); [reflexivity|discriminate].
        -- intros q Hq. cbn in Hq. destruct (N.eqb_spec p q) as [->|Hne]; [|apply H2, Hq].
           apply orb_true_iff. right. apply H1. rewrite lookup_app, El. cbn. rewrite N.eqb_refl. reflexivity.
Qed.

Lemma dom_le_trans a b c : dom_le a b -> dom_le b c -> dom_le a c.
Proof. intros H1 H2 p Hp. apply H2, H1, Hp. Qed.

Lemma push_kids_vis pp S : forall l pn pnF l',
  push_kids pp pn l = (pnF, l') ->
  Forall (fun k => visible (pn ++ S) k = true) l ->
  dom_le pn pnF /\ Forall (fun k => visible (pnF ++ S) k = true) l'.
Proof.
  induction l as [|k l IH]; intros pn pnF l' H V; cbn in H.
  - inversion H; subst. split; [intros q Hq; exact Hq|constructor].
  - inversion V as [|? ? Vk Vl]; subst.
    destruct k as [kp kn ke knsp ka kt kk|kp kn ke knsp c];
      destruct (push_up pp pn knsp) as [keep pn1] eqn:E1;
      destruct (push_kids pp pn1 l) as [pnF' r'] eqn:E2;
      inversion H; subst; clear H;
      destruct (push_up_dom pp _ _ _ _ E1) as [D1 D2];
      assert (Vl' : Forall (fun k => visible (pn1 ++ S) k = true) l)
        by (rewrite Forall_forall in *; intros x Hx; eapply vis_mono; [apply dom_le_app2, D1|apply Vl, Hx]);
      destruct (IH _ _ _ E2 Vl') as [D3 V3];
      (split; [eapply dom_le_trans; eassumption|constructor; [|exact V3]]).
    + eapply vis_node_mono; [|exact Vk].
      intros q Hq. rewrite lookup_app in Hq. rewrite lookup_app.
      destruct (lookup q knsp) eqn:Eq.
      * specialize (D2 q). rewrite Eq in D2. specialize (D2 eq_refl).
        destruct (lookup q keep); [reflexivity|]. cbn in D2.
        rewrite lookup_app. apply D3 in D2. destruct (lookup q pnF); [reflexivity|discriminate].
      * destruct (lookup q keep); [reflexivity|].
        revert Hq. apply (dom_le_app2 pn pnF S). eapply dom_le_trans; eassumption.
    + cbn [visible] in *. eapply vis_mono; [|exact Vk]. apply dom_le_app2.
      eapply dom_le_trans; eassumption.
Qed.

Lemma promote_visible : forall t sc, visible sc t = true -> visible sc (promote t) = true.
Proof.
  induction t as [p n e nsp a tx ks IH|p n e nsp c IH] using pel_ind2; intros sc V.
  - cbn [promote]. destruct (push_kids p nsp (map promote ks)) as [nsp' ks'] eqn:E.
    cbn [visible] in *. apply andb_true_iff in V as [V Vk]. apply andb_true_iff in V as [Vp Va].
    assert (Vm : Forall (fun k => visible (nsp ++ sc) k = true) (map promote ks)).
    { rewrite Forall_forall in *. rewrite forallb_forall in Vk. intros x Hx.
      apply in_map_iff in Hx as [y [<- Hy]]. apply IH; auto. }
    destruct (push_kids_vis p sc _ _ _ _ E Vm) as [D Vf].
    pose proof (dom_le_app2 nsp nsp' sc D) as D'.
    apply andb_true_iff; split; [apply andb_true_iff; split|].
    + destruct p; [apply D', Vp|reflexivity].
    + rewrite forallb_forall in *. intros x Hx. eapply attr_visible_mono; [exact D'|apply Va, Hx].
    + rewrite forallb_forall. rewrite Forall_forall in Vf. exact Vf.
  - exact V.
Qed.

(* ---- the theorem ---- *)

Lemma consistent_lookup B : consistent_b B = true -> forall p u, In (p, u) B -> lookup p B = Some u.
Proof.
  intros H p u Hin. unfold consistent_b in H. rewrite forallb_forall in H.
  specialize (H _ Hin). cbn in H. apply oN_eqb_eq in H. exact H.
Qed.

Lemma promote_preserves_infoset_l : forall t sc d,
  no_capture sc t = true -> infoset sc d (promote t) = infoset sc d t.
Proof.
  intros t sc d H. unfold no_capture in H. apply andb_true_iff in H as [HC V].
  pose proof (consistent_lookup _ HC) as HB.
  rewrite (infoset_fixed (sc ++ bindings t) t sc d HB V).
  rewrite (infoset_fixed (sc ++ bindings t) (promote t) sc d).
  - rewrite promote_strip. reflexivity.
  - intros p u Hin. apply HB. apply in_app_or in Hin as [Hin|Hin]; apply in_or_app; [left; exact Hin|right].
    apply promote_bindings, Hin.
  - apply promote_visible, V.
Qed.

(* <a xmlns:p="U1"><b><c xmlns:p="U2"/><p:d/></b></a>: c's declaration is
   moved to b and captures d *)
Lemma promote_capture_refuted_l :
  exists t i j, infoset [] 0 t = Some i /\ infoset [] 0 (promote t) = Some j /\ itree_eqb false i j = false.
Proof.
  exists (PEl None 10 None [(11, 12)] [] None
            [PEl None 13 None [] [] None
               [PEl None 14 None [(11, 15)] [] None []; PEl (Some 11) 16 None [] [] None []]])%N.
  exists (IEl 0 10 [] None [IEl 0 13 [] None [IEl 0 14 [] None []; IEl 12 16 [] None []]])%N.
  exists (IEl 0 10 [] None [IEl 0 13 [] None [IEl 0 14 [] None []; IEl 15 16 [] None []]])%N.
  vm_compute. repeat split.
Qed.

(* ---- Binding.get_message with prefixes=True ---- *)

Lemma forallb_existsb_incl l ord :
  forallb (fun u => existsb (N.eqb u) ord) l = true -> incl l ord.
Proof.
  intros H u Hu. rewrite forallb_forall in H. specialize (H u Hu).
  apply existsb_exists in H as [x [Hx He]]. apply N.eqb_eq in He. subst. exact Hx.
Qed.

Lemma norm_env_infoset ord env :
  ord_covers ord env = true ->
  match env with
  | PEl _ _ _ nsp _ _ (_ :: b :: _) => norm_ok nsp nsp b
  | _ => true
  end = true ->
  infoset [] 0 (norm_env ord env) = infoset [] 0 env.
Proof.
  intros Hc G. destruct env as [p n e nsp a tx ks|p n e nsp c]; [|reflexivity].
  destruct ks as [|h [|b r]]; try reflexivity.
  cbn [norm_env map_body infoset map]. rewrite app_nil_r.
  rewrite normalize_preserves_gen; [reflexivity| |exact G].
  cbn [ord_covers] in Hc. apply forallb_existsb_incl, Hc.
Qed.

Lemma normalize_promote_preserves_infoset_l : forall ord env,
  ord_covers ord env = true -> env_guard ord env = true ->
  infoset [] 0 (prefix_pass ord env) = infoset [] 0 env.
Proof.
  intros ord env Hc G. unfold env_guard in G. apply andb_true_iff in G as [G1 G2].
  unfold prefix_pass. rewrite promote_preserves_infoset_l; [|exact G2].
  apply norm_env_infoset; assumption.
Qed.

(* the default order (first occurrence) covers, as does every permutation of it *)
Lemma existsb_in u l : In u l -> existsb (N.eqb u) l = true.
Proof. intro H. apply existsb_exists. exists u. split; [exact H|apply N.eqb_refl]. Qed.

Lemma ord_covers_perm ord env :
  (forall u, In u (default_ord env) -> In u ord) -> ord_covers ord env = true.
Proof.
  intro H. destruct env as [p n e nsp a tx ks|p n e nsp c]; [|reflexivity].
  destruct ks as [|h [|b r]]; try reflexivity.
  cbn [ord_covers default_ord] in *. apply forallb_forall. intros u Hu.
  apply existsb_in, H. unfold namespaces. apply nodupN_in.
  rewrite app_assoc. apply in_or_app. left. exact Hu.
Qed.

(* ---- the option lattice (one tree, i.e. one xstq value) ---- *)

Lemma request_meaning wfix ord env (p y : bool) :
  (if p then ord_covers ord env && env_guard ord env && out_ok wfix (prefix_pass ord env)
   else refit_guard [] true env && out_ok wfix (refit [] env)) = true ->
  option_map strip_ws (request_infoset p y wfix ord env) = option_map strip_ws (infoset [] 0 env).
Proof.
  intro G. unfold request_infoset, message.
  set (t := if p then prefix_pass ord env else refit [] env).
  assert (Ho : out_ok wfix t = true /\ infoset [] 0 t = infoset [] 0 env).
  { subst t. destruct p.
    - apply andb_true_iff in G as [G G3]. apply andb_true_iff in G as [G1 G2].
      split; [exact G3|]. apply normalize_promote_preserves_infoset_l; assumption.
    - apply andb_true_iff in G as [G1 G2]. split; [exact G2|].
      apply RefitProofs.refit_partial_l, G1. }
  destruct Ho as [Ho Hi]. unfold out_ok in Ho. apply andb_true_iff in Ho as [Hw Hr].
  rewrite <- Hi. rewrite <- (render_plain_faithful_l wfix t Hw Hr).
  destruct y; [apply pretty_plain_same_infoset_l, Hr|reflexivity].
Qed.

Lemma options_lattice_l : forall wfix ord env p1 y1 p2 y2,
  lattice_guard wfix ord env = true ->
  option_map strip_ws (request_infoset p1 y1 wfix ord env)
  = option_map strip_ws (request_infoset p2 y2 wfix ord env).
Proof.
  intros wfix ord env p1 y1 p2 y2 G. unfold lattice_guard in G.
  apply andb_true_iff in G as [G G5]. apply andb_true_iff in G as [G G4].
  apply andb_true_iff in G as [G G3]. apply andb_true_iff in G as [G1 G2].
  rewrite (request_meaning wfix ord env p1 y1), (request_meaning wfix ord env p2 y2); [reflexivity| |].
  - destruct p2; [rewrite G1, G2, G3|rewrite G4, G5]; reflexivity.
  - destruct p1; [rewrite G1, G2, G3|rewrite G4, G5]; reflexivity.
Qed.

Lemma sort_namespaces_irrelevant_l : forall o1 o2 wfix ord env,
  o_prefixes o1 = o_prefixes o2 -> o_prettyxml o1 = o_prettyxml o2 ->
  request o1 wfix ord env = request o2 wfix ord env.
Proof. intros o1 o2 wfix ord env H1 H2. unfold request. rewrite H1, H2. reflexivity. Qed.
