(* C05 -- character data on the wire.  Element.str() (prettyxml=True) and
   Element.plain() write an element's text through ONE helper
   (Element.__escaped_text: Text.escape, then every carriage return as the
   character reference &#13;), Attribute.__unicode__ writes a value through
   Text.escape and then TAB / LF / CR as character references.  What the
   receiving parser reads back is prescribed by XML 1.0: 2.11 (literal CR LF
   and CR become LF before anything else), 3.3.3 (literal white space in an
   attribute value becomes a space), 4.1 / 4.6 (character and predefined entity
   references stand for their character and are exempt from both).

   The wire form is modelled as a list of tokens, not of characters: how the
   five predefined entities and &#N; are spelled and scanned is C04's subject.
   Definitions only. *)
From SV Require Import Lib.Base.

Inductive wtok :=
| WChar (c : N)      (* the character itself *)
| WEnt (c : N)       (* a predefined entity reference standing for c: &amp; &lt; &gt; &quot; &apos; *)
| WRef (c : N).      (* a numeric character reference &#c; *)

Definition c_tab : N := 9.
Definition c_lf : N := 10.
Definition c_cr : N := 13.
Definition c_sp : N := 32.
Definition c_quot : N := 34.
Definition c_amp : N := 38.
Definition c_apos : N := 39.
Definition c_lt : N := 60.
Definition c_gt : N := 62.

(* sax.enc.Encoder.special *)
Definition is_special (c : N) : bool :=
  N.eqb c c_amp || N.eqb c c_lt || N.eqb c c_gt || N.eqb c c_quot || N.eqb c c_apos.

(* Text.escape, character by character (strings in which "&" starts something that
   already looks like an entity reference are outside this model: C04) *)
Definition escape_char (c : N) : wtok := if is_special c then WEnt c else WChar c.
Definition escape (s : str) : list wtok := map escape_char s.

(* Element.__escaped_text: escape(), then "\r" -> "&#13;" *)
Definition cr_ref (t : wtok) : wtok :=
  match t with WChar c => if N.eqb c c_cr then WRef c else t | _ => t end.
Definition escaped_text (s : str) : list wtok := map cr_ref (escape s).

(* Element.str(indent) / Element.plain(): both call the same helper *)
Definition wire_text (pretty : bool) (s : str) : list wtok := escaped_text s.

(* Attribute.__unicode__: escape(), then "\t" "\n" "\r" as references *)
Definition ws_ref (t : wtok) : wtok :=
  match t with
  | WChar c => if N.eqb c c_tab || N.eqb c c_lf || N.eqb c c_cr then WRef c else t
  | _ => t
  end.
Definition wire_attr (s : str) : list wtok := map ws_ref (escape s).

(* ---- SPEC: what an XML 1.0 processor reports ---- *)

(* 2.11 end-of-line handling on the literal characters, then 4.1: references
   stand for their character *)
Fixpoint read_text (l : list wtok) : str :=
  match l with
  | [] => []
  | WChar c :: r =>
      if N.eqb c c_cr then
        match r with
        | WChar d :: r' => if N.eqb d c_lf then c_lf :: read_text r' else c_lf :: read_text r
        | _ => c_lf :: read_text r
        end
      else c :: read_text r
  | WEnt c :: r => c :: read_text r
  | WRef c :: r => c :: read_text r
  end.

(* 3.3.3 attribute-value normalisation (CDATA attributes) after 2.11 *)
Definition attr_ws (c : N) : N := if N.eqb c c_tab || N.eqb c c_lf then c_sp else c.
Fixpoint read_attr (l : list wtok) : str :=
  match l with
  | [] => []
  | WChar c :: r =>
      if N.eqb c c_cr then
        match r with
        | WChar d :: r' => if N.eqb d c_lf then c_sp :: read_attr r' else c_sp :: read_attr r
        | _ => c_sp :: read_attr r
        end
      else attr_ws c :: read_attr r
  | WEnt c :: r => c :: read_attr r
  | WRef c :: r => c :: read_attr r
  end.

(* ---- what the harness evaluates ---- *)
Definition wtok_eqb (a b : wtok) : bool :=
  match a, b with
  | WChar x, WChar y | WEnt x, WEnt y | WRef x, WRef y => N.eqb x y
  | _, _ => false
  end.

(* the text s of an element, the tokens str() wrote, the tokens plain() wrote
   (None: the output could not be scanned) *)
Definition tcase := (str * option (list wtok) * option (list wtok))%type.

Definition text_wire_agrees (c : tcase) : bool :=
  let '(s, p, q) := c in
  opt_eqb (list_eqb wtok_eqb) p (Some (wire_text true s)) &&
  opt_eqb (list_eqb wtok_eqb) q (Some (wire_text false s)).

Definition text_wire_spec_ok (c : tcase) : bool :=
  let '(s, p, q) := c in
  match p, q with
  | Some p, Some q => str_eqb (read_text p) s && str_eqb (read_text q) s
  | _, _ => false
  end.

Definition acase := (str * option (list wtok))%type.
Definition attr_wire_agrees (c : acase) : bool :=
  opt_eqb (list_eqb wtok_eqb) (snd c) (Some (wire_attr (fst c))).
Definition attr_wire_spec_ok (c : acase) : bool :=
  match snd c with Some p => str_eqb (read_attr p) (fst c) | None => false end.
