From SV Require Import Lib.Base C05.Text.

Lemma read_text_cons_nocr : forall t r,
  (forall c, t = WChar c -> N.eqb c c_cr = false) ->
  read_text (t :: r) = match t with WChar c | WEnt c | WRef c => c end :: read_text r.
Proof.
  intros [c|c|c] r H; cbn [read_text]; try reflexivity.
  rewrite (H c eq_refl). reflexivity.
Qed.

Lemma text_roundtrip_l : forall s, read_text (escaped_text s) = s.
Proof.
  induction s as [|c s IH]; [reflexivity|].
  unfold escaped_text, escape in *. cbn [map].
  rewrite read_text_cons_nocr.
  - rewrite IH. f_equal. unfold escape_char.
    destruct (is_special c); cbn [cr_ref]; [reflexivity|].
    destruct (N.eqb c c_cr); reflexivity.
  - intros d Hd. unfold escape_char in Hd.
    destruct (is_special c); cbn [cr_ref] in Hd; [discriminate|].
    destruct (N.eqb c c_cr) eqn:E; [discriminate|]. inversion Hd; subst. exact E.
Qed.

Lemma wire_text_roundtrip_l : forall pretty s, read_text (wire_text pretty s) = s.
Proof. intros pretty s. apply text_roundtrip_l. Qed.

Lemma pretty_plain_same_text_l : forall s,
  read_text (wire_text true s) = read_text (wire_text false s).
Proof. intros s. rewrite !wire_text_roundtrip_l. reflexivity. Qed.

Lemma read_attr_cons_nows : forall t r,
  (forall c, t = WChar c -> N.eqb c c_cr = false /\ attr_ws c = c) ->
  read_attr (t :: r) = match t with WChar c | WEnt c | WRef c => c end :: read_attr r.
Proof.
  intros [c|c|c] r H; cbn [read_attr]; try reflexivity.
  destruct (H c eq_refl) as [H1 H2]. rewrite H1, H2. reflexivity.
Qed.

Lemma attr_roundtrip_l : forall s, read_attr (wire_attr s) = s.
Proof.
  induction s as [|c s IH]; [reflexivity|].
  unfold wire_attr, escape in *. cbn [map].
  rewrite read_attr_cons_nows.
  - rewrite IH. f_equal. unfold escape_char.
    destruct (is_special c); cbn [ws_ref]; [reflexivity|].
    destruct (N.eqb c c_tab || N.eqb c c_lf || N.eqb c c_cr); reflexivity.
  - intros d Hd. unfold escape_char in Hd.
    destruct (is_special c); cbn [ws_ref] in Hd; [discriminate|].
    destruct (N.eqb c c_tab || N.eqb c c_lf || N.eqb c c_cr) eqn:E; [discriminate|].
    inversion Hd; subst.
    apply orb_false_iff in E as [E E3]. apply orb_false_iff in E as [E1 E2].
    split; [exact E3|]. unfold attr_ws. rewrite E1, E2. reflexivity.
Qed.

(* without the carriage-return reference (Text.escape alone) the text does not survive *)
Lemma escape_alone_loses_cr_l : exists s, read_text (escape s) <> s.
Proof. exists [c_cr]. cbn. discriminate. Qed.

Lemma escape_alone_attr_loses_ws_l : exists s, read_attr (escape s) <> s.
Proof. exists [c_tab]. cbn. discriminate. Qed.
