(* C05 -- Wire-format options never change what a request means.
   Property theorems only: each is closed by `exact` of a lemma proved in the
   *Proofs files and followed by Print Assumptions.

   Reading guide.  `pel` is the envelope tree suds holds before serialising it
   (element prefix, xmlns= value `expns`, mapping table `nsprefixes`, attributes
   with values split at the first colon).  `infoset sc d t` is what the tree
   denotes by Namespaces-in-XML in a context binding prefixes `sc` with default
   namespace `d` (None: some prefix of an element, an attribute or a QName-valued
   attribute is undeclared).  `dtree`/`infoset_d` is the same for the printed
   form (start tags with the xmlns declarations nsdeclarations() emits). *)
From SV Require Import Lib.Base C05.Model C05.RenderProofs C05.RefitProofs C05.NormProofs C05.PromoteProofs.
From SV Require Import C05.Text C05.TextProofs C05.History.

(* ------------------------------------------------------------------ *)
(* printing                                                            *)
(* ------------------------------------------------------------------ *)

(* plain(): the declarations nsdeclarations() chooses to print (and to omit)
   make the document denote exactly the tree's infoset.  wf_maps = mapping
   tables are dicts; `wfix || no_raw t` = a wrapped raw element is printed by
   plain() too (ElementWrapper.plain exists) or there is none. *)
Theorem render_plain_faithful : forall wfix t,
  wf_maps t = true -> wfix || no_raw t = true ->
  infoset_d [] 0 (render false wfix None [] t) = infoset [] 0 t.
Proof. exact render_plain_faithful_l. Qed.
Print Assumptions render_plain_faithful.

(* str() and plain() denote the same infoset up to whitespace-only text of
   elements that have element children *)
Theorem pretty_plain_same_infoset : forall wfix t,
  wfix || no_raw t = true ->
  option_map strip_ws (infoset_d [] 0 (render true wfix None [] t))
  = option_map strip_ws (infoset_d [] 0 (render false wfix None [] t)).
Proof. exact pretty_plain_same_infoset_l. Qed.
Print Assumptions pretty_plain_same_infoset.

(* ... and the guard is needed: with an ElementWrapper that overrides only
   str() (the tree before commit cf69e7b) a raw element is lost under plain() *)
Theorem wrapper_plain_refuted :
  exists t, option_map strip_ws (infoset_d [] 0 (render true false None [] t))
            <> option_map strip_ws (infoset_d [] 0 (render false false None [] t)).
Proof. exact wrapper_plain_refuted_l. Qed.
Print Assumptions wrapper_plain_refuted.

(* ------------------------------------------------------------------ *)
(* prefixes=True: normalizePrefixes, then promotePrefixes              *)
(* ------------------------------------------------------------------ *)

(* For EVERY order `ord` in which the set of namespaces may be iterated (any
   list containing them): normalising a branch in the context sc0 of its
   ancestors keeps its infoset.  norm_ok: every prefix in use is declared; a
   prefix the normaliser skips (exactly xsi / xs / xml bound to their usual
   URI) is bound the same way OUTSIDE the branch (the envelope declares xsi);
   colon-containing values of attributes that are not QName-typed do not start
   with a bound, rewritable prefix; raw elements are self-contained. *)
Theorem normalize_preserves_infoset : forall sc0 aexp ord t d,
  (forall u, In u (namespaces sc0 aexp t) -> In u ord) ->
  norm_ok sc0 sc0 t = true ->
  infoset sc0 d (normalize sc0 ord t) = infoset sc0 d t.
Proof. exact normalize_preserves_infoset_l. Qed.
Print Assumptions normalize_preserves_infoset.

(* pushing declarations towards the root keeps the infoset when no prefix has
   two meanings in the tree and its context (no_capture) *)
Theorem promote_preserves_infoset : forall t sc d,
  no_capture sc t = true -> infoset sc d (promote t) = infoset sc d t.
Proof. exact promote_preserves_infoset_l. Qed.
Print Assumptions promote_preserves_infoset.

(* the full statement (no guard) is false: a declaration moved up captures a
   later sibling's use of the same prefix *)
Theorem promote_capture_refuted :
  exists t i j, infoset [] 0 t = Some i /\ infoset [] 0 (promote t) = Some j /\ itree_eqb false i j = false.
Proof. exact promote_capture_refuted_l. Qed.
Print Assumptions promote_capture_refuted.

(* Binding.get_message, prefixes=True, on an envelope of any shape *)
Theorem normalize_promote_preserves_infoset : forall ord env,
  ord_covers ord env = true -> env_guard ord env = true ->
  infoset [] 0 (prefix_pass ord env) = infoset [] 0 env.
Proof. exact normalize_promote_preserves_infoset_l. Qed.
Print Assumptions normalize_promote_preserves_infoset.

(* every iteration order of the namespace set satisfies ord_covers *)
Theorem every_order_covers : forall ord env,
  (forall u, In u (default_ord env) -> In u ord) -> ord_covers ord env = true.
Proof. exact ord_covers_perm. Qed.
Print Assumptions every_order_covers.

(* ------------------------------------------------------------------ *)
(* prefixes=False: refitPrefixes (mapping tables kept, commit e2eee6a) *)
(* ------------------------------------------------------------------ *)

(* a namespace-well-formed tree stays namespace-well-formed *)
Theorem refit_wellformed : forall t,
  nswf [] 0 t = true -> nswf [] 0 (refit [] t) = true.
Proof. exact refit_wellformed_l. Qed.
Print Assumptions refit_wellformed.

(* "refit keeps the infoset" is FALSE in general (next theorem); it holds when
   below an element that loses its prefix there is no unprefixed element
   without xmlns= of its own, no unprefixed QName value and no raw element *)
Theorem refit_partial : forall t,
  refit_guard [] true t = true -> infoset [] 0 (refit [] t) = infoset [] 0 t.
Proof. exact refit_partial_l. Qed.
Print Assumptions refit_partial.

Theorem refit_refuted_captured :
  exists t i j, nswf [] 0 t = true /\ infoset [] 0 t = Some i /\
                infoset [] 0 (refit [] t) = Some j /\ itree_eqb false i j = false.
Proof. exact refit_refuted_captured_l. Qed.
Print Assumptions refit_refuted_captured.

(* ------------------------------------------------------------------ *)
(* the lattice                                                         *)
(* ------------------------------------------------------------------ *)

(* prefixes x prettyxml, every set order: one infoset up to indentation *)
Theorem options_lattice : forall wfix ord env p1 y1 p2 y2,
  lattice_guard wfix ord env = true ->
  option_map strip_ws (request_infoset p1 y1 wfix ord env)
  = option_map strip_ws (request_infoset p2 y2 wfix ord env).
Proof. exact options_lattice_l. Qed.
Print Assumptions options_lattice.

(* sortNamespaces is no input of the request (the harness checks on the source
   that nothing on the request path reads it, and compares the bytes) *)
Theorem sort_namespaces_irrelevant : forall o1 o2 wfix ord env,
  o_prefixes o1 = o_prefixes o2 -> o_prettyxml o1 = o_prettyxml o2 ->
  request o1 wfix ord env = request o2 wfix ord env.
Proof. exact sort_namespaces_irrelevant_l. Qed.
Print Assumptions sort_namespaces_irrelevant.

(* Typer.genprefix returns a prefix that is not bound in scope: declaring it
   on the node cannot capture anything *)
Theorem genprefix_fresh : forall sc p,
  genprefix sc = Some p -> lookup p sc = None /\ exists k, p = gp k /\ (1 <= k <= 1023)%nat.
Proof. exact genprefix_fresh_l. Qed.
Print Assumptions genprefix_fresh.

(* ------------------------------------------------------------------ *)
(* character data: the text/attribute values of the tree reach the      *)
(* receiving parser unchanged under prettyxml=True and =False           *)
(* (`text : option N` of pel/itree are these strings, interned)         *)
(* ------------------------------------------------------------------ *)

(* what str() (pretty) and plain() write for a text is read back as that text by
   an XML 1.0 processor (2.11 line ends, 4.1 references), CR / CRLF included *)
Theorem wire_text_roundtrip : forall pretty s, read_text (wire_text pretty s) = s.
Proof. exact wire_text_roundtrip_l. Qed.
Print Assumptions wire_text_roundtrip.

Theorem pretty_plain_same_text : forall s,
  read_text (wire_text true s) = read_text (wire_text false s).
Proof. exact pretty_plain_same_text_l. Qed.
Print Assumptions pretty_plain_same_text.

(* attribute values (serialised by one function under every setting): TAB, LF, CR
   survive attribute-value normalisation (3.3.3) *)
Theorem wire_attr_roundtrip : forall s, read_attr (wire_attr s) = s.
Proof. exact attr_roundtrip_l. Qed.
Print Assumptions wire_attr_roundtrip.

(* the carriage-return / white-space references are needed: Text.escape() alone
   (what a serialiser bypassing the shared helper writes) loses them *)
Theorem escape_alone_loses_cr : exists s, read_text (escape s) <> s.
Proof. exact escape_alone_loses_cr_l. Qed.
Print Assumptions escape_alone_loses_cr.

Theorem escape_alone_attr_loses_ws : exists s, read_attr (escape s) <> s.
Proof. exact escape_alone_attr_loses_ws_l. Qed.
Print Assumptions escape_alone_attr_loses_ws.

Example wire_text_nonvacuous :
  wire_text true [97; 13; 10; 38; 13; 98]%N =
    [WChar 97; WRef 13; WChar 10; WEnt 38; WRef 13; WChar 98]%N /\
  read_text [WChar 97; WChar 13; WChar 10; WChar 13; WChar 98]%N = [97; 10; 10; 98]%N /\
  wire_attr [9; 34; 10]%N = [WRef 9; WEnt 34; WRef 10]%N.
Proof. repeat split. Qed.

(* ------------------------------------------------------------------ *)
(* a client over time: the request under a setting does not depend on   *)
(* the settings served before (no option is frozen at first use)        *)
(* ------------------------------------------------------------------ *)
Theorem history_irrelevant : forall wfix env_q env_u h o d,
  last (client_run wfix env_q env_u (h ++ [o])) d = client_send wfix env_q env_u o.
Proof. exact history_irrelevant_l. Qed.
Print Assumptions history_irrelevant.

Theorem same_setting_same_request : forall wfix env_q env_u h1 h2 o d,
  last (client_run wfix env_q env_u (h1 ++ [o])) d = last (client_run wfix env_q env_u (h2 ++ [o])) d.
Proof. exact same_setting_same_request_l. Qed.
Print Assumptions same_setting_same_request.

(* a marshaller memoised at first use would break it *)
Theorem memoised_marshaller_refuted : exists wfix env_q env_u h o d,
  last (client_run_memo wfix env_q env_u (h ++ [o])) d <> client_send wfix env_q env_u o.
Proof. exact memoised_marshaller_refuted_l. Qed.
Print Assumptions memoised_marshaller_refuted.

(* ------------------------------------------------------------------ *)
(* non-vacuity: a typical envelope satisfies every guard               *)
(* ------------------------------------------------------------------ *)
(* <E:Envelope xmlns:E=ENV xmlns:xsi=XSI><E:Header><h:hd xmlns:h=H a="v"/></E:Header>
     <E:Body><t:op xmlns:t=T><t:e xmlns:t=T xmlns:xsi=XSI xsi:nil="true"/>
        <t:f xmlns:t=T xmlns:xsi=XSI xmlns:ns1=T2 xsi:type="ns1:D">x</t:f></t:op></E:Body></E:Envelope> *)
Definition ex_env : pel :=
  (PEl (Some 10) 11 None [(10, 12); (1, 4)] [] None
     [PEl (Some 10) 13 None [(10, 12)] [] None
        [PEl (Some 20) 21 None [(20, 22)] [(None, 23, AText 24)] None []];
      PEl (Some 10) 14 None [(10, 12)] [] None
        [PEl (Some 15) 16 None [(15, 17)] [] None
           [PEl (Some 15) 18 None [(15, 17); (1, 4)] [(Some 1, 25, AText 26)] None [];
            PEl (Some 15) 19 None [(15, 17); (1, 4); (1000001, 27)]
                [(Some 1, 8, AQ 1000001 28)] (Some 29) []]]])%N.

Example guards_nonvacuous :
  let ord := default_ord ex_env in
  ord_covers ord ex_env = true /\ env_guard ord ex_env = true /\
  lattice_guard true ord ex_env = true /\ lattice_guard true (rev ord) ex_env = true /\
  nswf [] 0 ex_env = true /\
  oitree_eqb true (request_infoset true false true ord ex_env)
                  (request_infoset true false true (rev ord) ex_env) = true /\
  oitree_eqb true (request_infoset true false true ord ex_env)
                  (request_infoset false false true ord ex_env) = true.
Proof. vm_compute. repeat split. Qed.

(* two SIBLING elements whose xsi:type values use the same local prefix ns1 for
   two different namespaces (Typer.genprefix picks the prefix per node): the
   envelope is inside the guards of normalize_promote_preserves_infoset, each
   value is rewritten in its own element's scope and keeps its namespace
   <E:Envelope ..><E:Header/><E:Body><t:op xmlns:t=T>
      <t:a xmlns:xsi=XSI xmlns:ns1=U1 xsi:type="ns1:D1"/>
      <t:b xmlns:xsi=XSI xmlns:ns1=U2 xsi:type="ns1:D2"/></t:op></E:Body></E:Envelope> *)
Definition ex_siblings : pel :=
  (PEl (Some 10) 11 None [(10, 12); (1, 4)] [] None
     [PEl (Some 10) 13 None [(10, 12)] [] None [];
      PEl (Some 10) 14 None [(10, 12)] [] None
        [PEl (Some 15) 16 None [(15, 17)] [] None
           [PEl (Some 15) 18 None [(15, 17); (1, 4); (1000001, 27)] [(Some 1, 8, AQ 1000001 28)] None [];
            PEl (Some 15) 19 None [(15, 17); (1, 4); (1000001, 30)] [(Some 1, 8, AQ 1000001 31)] None []]]])%N.

Example sibling_types_nonvacuous :
  let ord := default_ord ex_siblings in
  ord_covers ord ex_siblings = true /\ env_guard ord ex_siblings = true /\
  env_guard (rev ord) ex_siblings = true /\
  oitree_eqb true (infoset [] 0 (prefix_pass ord ex_siblings)) (infoset [] 0 ex_siblings) = true /\
  oitree_eqb true (request_infoset true false true ord ex_siblings)
                  (request_infoset false false true ord ex_siblings) = true /\
  match infoset [] 0 (prefix_pass ord ex_siblings) with
  | Some (IEl _ _ _ _ [_; IEl _ _ _ _ [IEl _ _ _ _ [IEl _ _ [(_, _, IQ u1 _)] _ _; IEl _ _ [(_, _, IQ u2 _)] _ _]]]) =>
      u1 = 27%N /\ u2 = 30%N
  | _ => False
  end.
Proof. vm_compute. repeat split. Qed.
