(* C05: what str()/plain() print denotes the infoset of the tree they print. *)
From SV Require Import Lib.Base C05.Model.

Lemma oN_eqb_eq a b : oN_eqb a b = true <-> a = b.
Proof.
  destruct a, b; cbn; split; intro H; try congruence; try discriminate.
  - apply N.eqb_eq in H. congruence.
  - inversion H. apply N.eqb_refl.
Qed.

Lemma oN_eqb_refl a : oN_eqb a a = true.
Proof. apply oN_eqb_eq. reflexivity. Qed.

Lemma lookup_app p a b :
  lookup p (a ++ b) = match lookup p a with Some u => Some u | None => lookup p b end.
Proof.
  induction a as [|[q u] a IH]; cbn; [reflexivity|].
  destruct (N.eqb q p); [reflexivity|apply IH].
Qed.

Lemma lookup_in p u l : lookup p l = Some u -> In (p, u) l.
Proof.
  induction l as [|[q v] l IH]; cbn; [discriminate|].
  destruct (N.eqb_spec q p); intro H.
  - inversion H; subst. left. reflexivity.
  - right. apply IH, H.
Qed.

Lemma lookup_filter_none p f l : lookup p l = None -> lookup p (filter f l) = None.
Proof.
  induction l as [|[q v] l IH]; cbn; [reflexivity|].
  destruct (N.eqb_spec q p); [discriminate|]. intro H.
  destruct (f (q, v)); cbn; [|apply IH, H].
  destruct (N.eqb_spec q p); [contradiction|apply IH, H].
Qed.

Lemma lookup_filter_nodup p u f l :
  nodup_keys l = true -> lookup p l = Some u ->
  lookup p (filter f l) = if f (p, u) then Some u else None.
Proof.
  induction l as [|[q v] l IH]; cbn; [discriminate|].
  intros Hn. apply andb_true_iff in Hn as [Hq Hn].
  destruct (N.eqb_spec q p) as [->|Hne]; intro H.
  - inversion H; subst.
    assert (Hl : lookup p l = None).
    { destruct (lookup p l); [discriminate|reflexivity]. }
    destruct (f (p, u)); cbn.
    + rewrite N.eqb_refl. reflexivity.
    + apply lookup_filter_none, Hl.
  - destruct (f (q, v)); cbn.
    + destruct (N.eqb_spec q p); [contradiction|]. apply IH; assumption.
    + apply IH; assumption.
Qed.

Lemma name_ns_ext s1 s2 d p :
  (forall q, lookup q s1 = lookup q s2) -> name_ns s1 d p = name_ns s2 d p.
Proof. intro H. destruct p; cbn; [apply H|reflexivity]. Qed.

Lemma attr_info_ext s1 s2 d a :
  (forall q, lookup q s1 = lookup q s2) -> attr_info s1 d a = attr_info s2 d a.
Proof.
  intro H. destruct a as [[p n] v]. unfold attr_info.
  rewrite (name_ns_ext s1 s2 0 p H).
  destruct (name_ns s2 0 p); [|reflexivity].
  destruct (is_qattr n0 n); [|reflexivity].
  destruct v; [reflexivity|]. unfold resolve. rewrite H. reflexivity.
Qed.

Lemma is_qattr_name ns n : is_qattr ns n = true -> qname_like n = true.
Proof.
  unfold is_qattr, qname_like. intro H. apply orb_true_iff in H as [H|H];
    apply andb_true_iff in H as [_ H]; rewrite H; [reflexivity|apply orb_true_r].
Qed.

Lemma pretty_text_false tx ks : pretty_text false tx ks = tx.
Proof. destruct tx, ks; reflexivity. Qed.

Lemma forallb_Forall {A} (f : A -> bool) l : forallb f l = true -> Forall (fun x => f x = true) l.
Proof.
  induction l; cbn; intro H; constructor; apply andb_true_iff in H as [H1 H2]; auto.
Qed.

(* the declarations printed for a node make its scope equivalent to the tree's *)
Lemma decls_scope psc scd scp nsp :
  nodup_keys nsp = true ->
  (forall p u, lookup p psc = Some u -> lookup p scd = Some u) ->
  (forall p, lookup p scd = lookup p scp) ->
  forall p, lookup p (filter (fun pu => negb (oN_eqb (resolve psc (fst pu)) (Some (snd pu)))) nsp ++ scd)
            = lookup p (nsp ++ scp).
Proof.
  intros Hn Hs He p. rewrite !lookup_app.
  destruct (lookup p nsp) as [u|] eqn:E.
  - rewrite (lookup_filter_nodup p u _ nsp Hn E). cbn. unfold resolve.
    destruct (oN_eqb (lookup p psc) (Some u)) eqn:F; cbn; [|reflexivity].
    apply oN_eqb_eq in F. apply Hs, F.
  - rewrite (lookup_filter_none p _ nsp E). apply He.
Qed.

Lemma render_faithful_gen wfix : forall t pe psc scd scp d,
  wf_maps t = true -> wfix || no_raw t = true ->
  (forall u, pe = Some u -> d = u) ->
  (forall p u, lookup p psc = Some u -> lookup p scd = Some u) ->
  (forall p, lookup p scd = lookup p scp) ->
  infoset_d scd d (render false wfix pe psc t) = infoset scp d t.
Proof.
  induction t as [p n e nsp a tx ks IH|p n e nsp c IH] using pel_ind2;
    intros pe psc scd scp d Hwf Hraw Hd Hs He.
  - cbn [render infoset infoset_d nsdecls fst snd].
    cbn in Hwf. apply andb_true_iff in Hwf as [Hn Hk].
    assert (Hraw' : forallb (fun k => wfix || no_raw k) ks = true).
    { destruct wfix; cbn in *; [clear; induction ks; cbn; auto|exact Hraw]. }
    pose proof (decls_scope psc scd scp nsp Hn Hs He) as Hsc.
    set (dc := filter _ nsp) in *.
    assert (Hdd : (match (if oN_eqb e pe then None else e) with Some u => u | None => d end)
                  = (match e with Some u => u | None => d end)).
    { destruct (oN_eqb e pe) eqn:E.
      - apply oN_eqb_eq in E. subst pe. destruct e as [u|]; [apply Hd; reflexivity|reflexivity].
      - reflexivity. }
    rewrite Hdd. set (d' := match e with Some u => u | None => d end).
    rewrite pretty_text_false.
    rewrite (name_ns_ext _ _ d' p Hsc).
    rewrite (map_ext _ _ (fun x => attr_info_ext _ _ d' x Hsc)).
    rewrite map_map.
    assert (Hkids : map (fun x => infoset_d (dc ++ scd) d' (render false wfix e (nsp ++ psc) x)) ks
                    = map (infoset (nsp ++ scp) d') ks).
    { apply forallb_Forall in Hk. apply forallb_Forall in Hraw'.
      rewrite Forall_forall in IH, Hk, Hraw'.
      apply map_ext_in. intros k Hin.
      apply IH; auto.
      - intros u Hu. subst e. reflexivity.
      - intros q u Hq. rewrite Hsc. rewrite lookup_app in Hq. rewrite lookup_app.
        destruct (lookup q nsp); [exact Hq|]. rewrite <- He. apply Hs, Hq. }
    rewrite Hkids. reflexivity.
  - cbn [render infoset]. cbn in Hwf. apply andb_true_iff in Hwf as [_ Hc].
    destruct wfix; cbn in Hraw; [|discriminate]. cbn.
    apply IH; try assumption; try reflexivity.
    + intros u Hu. discriminate.
    + intros q u Hq. discriminate.
Qed.

Lemma render_plain_faithful_l : forall wfix t,
  wf_maps t = true -> wfix || no_raw t = true ->
  infoset_d [] 0 (render false wfix None [] t) = infoset [] 0 t.
Proof.
  intros. apply render_faithful_gen; auto; intros; discriminate.
Qed.

(* ------------------------------------------------------------------ *)
(* pretty vs plain                                                     *)
(* ------------------------------------------------------------------ *)

Lemma sequence_length {A} (l : list (option A)) r : sequence l = Some r -> length r = length l.
Proof.
  revert r. induction l as [|[a|] l IH]; cbn; intros r H; try discriminate.
  - inversion H. reflexivity.
  - destruct (sequence l); [|discriminate]. inversion H. cbn. f_equal. apply IH. reflexivity.
Qed.

Lemma sequence_strip (f g : pel -> option itree) ks :
  Forall (fun k => option_map strip_ws (f k) = option_map strip_ws (g k)) ks ->
  option_map (map strip_ws) (sequence (map f ks)) = option_map (map strip_ws) (sequence (map g ks)).
Proof.
  induction 1 as [|k ks Hk _ IH]; cbn; [reflexivity|].
  destruct (f k) as [x|], (g k) as [y|]; cbn in Hk; try discriminate; [|reflexivity].
  inversion Hk as [Hxy].
  destruct (sequence (map f ks)), (sequence (map g ks)); cbn in *; try discriminate; [|reflexivity].
  inversion IH. congruence.
Qed.

Lemma pretty_plain_gen wfix : forall t pe psc sc d,
  wfix || no_raw t = true ->
  option_map strip_ws (infoset_d sc d (render true wfix pe psc t))
  = option_map strip_ws (infoset_d sc d (render false wfix pe psc t)).
Proof.
  induction t as [p n e nsp a tx ks IH|p n e nsp c IH] using pel_ind2; intros pe psc sc d Hraw.
  - cbn [render infoset_d].
    set (dc := snd (nsdecls pe psc e nsp)). set (dd := fst (nsdecls pe psc e nsp)).
    set (sc' := dc ++ sc). set (d' := match dd with Some u => u | None => d end).
    rewrite !map_map.
    assert (Hraw' : Forall (fun k => wfix || no_raw k = true) ks).
    { destruct wfix; cbn in *; [clear; induction ks; constructor; auto|].
      apply forallb_Forall in Hraw. exact Hraw. }
    assert (HK : option_map (map strip_ws)
                   (sequence (map (fun x => infoset_d sc' d' (render true wfix e (nsp ++ psc) x)) ks))
                 = option_map (map strip_ws)
                   (sequence (map (fun x => infoset_d sc' d' (render false wfix e (nsp ++ psc) x)) ks))).
    { apply sequence_strip. rewrite Forall_forall in *. intros k Hin. apply IH; auto. }
    rewrite pretty_text_false.
    destruct (name_ns sc' d' p) as [ns|]; [|reflexivity].
    destruct (sequence (map (attr_info sc' d') a)) as [ia|]; [|reflexivity].
    destruct (sequence (map (fun x => infoset_d sc' d' (render true wfix e (nsp ++ psc) x)) ks)) as [l1|] eqn:E1;
    destruct (sequence (map (fun x => infoset_d sc' d' (render false wfix e (nsp ++ psc) x)) ks)) as [l2|] eqn:E2;
      cbn in HK; try discriminate; [|reflexivity].
    cbn. f_equal. inversion HK as [HK']. rewrite HK'. f_equal.
    apply sequence_length in E1. apply sequence_length in E2. rewrite map_length in *.
    destruct ks as [|k ks]; cbn in *.
    + destruct l1; [|discriminate]. destruct l2; [|discriminate]. destruct tx; reflexivity.
    + destruct l1; [discriminate|]. destruct l2; [discriminate|]. destruct tx as [x|]; [|reflexivity].
      reflexivity.
  - cbn [render]. destruct wfix; cbn in Hraw; [|discriminate]. cbn.
    apply IH. reflexivity.
Qed.

Lemma pretty_plain_same_infoset_l : forall wfix t,
  wfix || no_raw t = true ->
  option_map strip_ws (infoset_d [] 0 (render true wfix None [] t))
  = option_map strip_ws (infoset_d [] 0 (render false wfix None [] t)).
Proof. intros. apply pretty_plain_gen. assumption. Qed.

(* without ElementWrapper.plain the statement is false: <a><WRAPPER of <r/>></a> *)
Lemma wrapper_plain_refuted_l :
  exists t, option_map strip_ws (infoset_d [] 0 (render true false None [] t))
            <> option_map strip_ws (infoset_d [] 0 (render false false None [] t)).
Proof.
  exists (PEl None 10 None [] [] None
            [PRaw None 11 None [] (PEl (Some 12) 11 None [(12, 13)] [] (Some 14) [])]%N).
  vm_compute. discriminate.
Qed.
