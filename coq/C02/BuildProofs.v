(* C02 — lemmas about the parser model (Handler): character chunking, and the
   table facts read from the code. *)
From SV Require Import Lib.Base Fam.Schema Gen.C02Tables C02.Model C02.Spec C02.Guard.

(* element children of a content list *)
Fixpoint elems_of (l : list ritem) : list ritem :=
  match l with
  | [] => []
  | RChars _ :: r => elems_of r
  | RElem q a c :: r => RElem q a c :: elems_of r
  end.

Definition build_list (l : list ritem) : list elem := flat_map build l.

Lemma build_unfold q ats content :
  build (RElem q ats content) =
  let kids := build_list content in
  let '(p, nm) := split_colon q in
  let '(x, d, a) := scan_attrs ats None [] [] in
  [EL p nm x d a (text_of (chunks_of content) (match kids with [] => false | _ => true end)) kids].
Proof.
  cbn [build]. unfold build_list.
  assert (H : forall l, (fix go (l : list ritem) : list elem :=
                           match l with [] => [] | x :: l' => build x ++ go l' end) l = flat_map build l).
  { induction l as [|x l IH]; [reflexivity|]. cbn [flat_map]. rewrite <- IH. reflexivity. }
  rewrite H. reflexivity.
Qed.

Lemma build_list_elems l : build_list l = build_list (elems_of l).
Proof.
  induction l as [|x l IH]; [reflexivity|].
  destruct x as [s|q a c].
  - cbn [elems_of]. unfold build_list in *. cbn [flat_map build]. exact IH.
  - cbn [elems_of]. unfold build_list in *. cbn [flat_map]. rewrite IH. reflexivity.
Qed.

Lemma text_of_concat c1 c2 hk :
  concat c1 = concat c2 -> (c1 = [] <-> c2 = []) -> text_of c1 hk = text_of c2 hk.
Proof.
  intros Hc Hn. destruct c1 as [|a c1], c2 as [|b c2]; try reflexivity.
  - exfalso. destruct Hn as [Hn _]. specialize (Hn eq_refl). discriminate.
  - exfalso. destruct Hn as [_ Hn]. specialize (Hn eq_refl). discriminate.
  - unfold text_of. rewrite Hc. reflexivity.
Qed.

(* However the parser splits character data into chunks (entity and character
   references, CDATA sections, comments in between, buffer boundaries), the
   element that is built is the same. *)
Lemma chars_chunking_l : forall q ats l1 l2,
  elems_of l1 = elems_of l2 ->
  concat (chunks_of l1) = concat (chunks_of l2) ->
  (chunks_of l1 = [] <-> chunks_of l2 = []) ->
  build (RElem q ats l1) = build (RElem q ats l2).
Proof.
  intros q ats l1 l2 He Hc Hn. rewrite !build_unfold. cbv zeta.
  rewrite (build_list_elems l1), (build_list_elems l2), He.
  destruct (split_colon q) as [p nm]. destruct (scan_attrs ats None [] []) as [[x d] a].
  rewrite (text_of_concat _ _ _ Hc Hn). reflexivity.
Qed.

(* the text of a built element is the concatenation of its chunks, trimmed
   exactly when the element has children *)
Lemma build_text_l : forall q ats content e,
  build (RElem q ats content) = [e] ->
  e_text e = match chunks_of content with
             | [] => None
             | _ => Some (if match e_kids e with [] => false | _ => true end
                          then strip (concat (chunks_of content)) else concat (chunks_of content))
             end.
Proof.
  intros q ats content e. rewrite build_unfold. cbv zeta.
  destruct (split_colon q) as [p nm]. destruct (scan_attrs ats None [] []) as [[x d] a].
  intro H. inversion H; subst. cbn [e_text e_kids]. unfold text_of.
  destruct (chunks_of content); reflexivity.
Qed.

(* ---- the table read from suds.xsd.sxbuiltin.Factory.tags ---- *)
Lemma builtin_tags_match_statement_l : forall k, (k < 46)%N -> tag_of_kind k = spec_tag k.
Proof.
  assert (H : forallb (fun n => N.eqb (tag_of_kind (N.of_nat n)) (spec_tag (N.of_nat n))) (seq 0 46) = true)
    by (vm_compute; reflexivity).
  intros k Hk. rewrite forallb_forall in H.
  specialize (H (N.to_nat k)). rewrite N2Nat.id in H. apply N.eqb_eq, H.
  apply in_seq. lia.
Qed.

Lemma builtin_names_in_table : forall s k, sfind s builtin_names = Some k -> (k < 46)%N.
Proof.
  assert (H : forallb (fun p => N.ltb (snd p) 46) builtin_names = true) by (vm_compute; reflexivity).
  intros s k. rewrite forallb_forall in H.
  assert (G : forall l, sfind s l = Some k -> exists s', In (s', k) l).
  { induction l as [|[s' v] l IH]; cbn; [discriminate|].
    destruct (str_eqb s s'); intro E.
    - inversion E; subst. exists s'. now left.
    - destruct (IH E) as [s'' Hin]. exists s''. now right. }
  intro E. destruct (G _ E) as [s' Hin]. specialize (H _ Hin). cbn in H. apply N.ltb_lt in H. exact H.
Qed.

Lemma xsi_is_skipped : is_skip_uri uri_xsi = true.
Proof. vm_compute. reflexivity. Qed.

Lemma meta_skipped : forallb is_skip_uri meta_uris = true.
Proof. vm_compute. reflexivity. Qed.

Lemma xsd_is_w3 : starts_with s_w3 uri_xsd = true.
Proof. vm_compute. reflexivity. Qed.
