(* C02 — Replies decode to the values the schema says they carry.
   Property theorems only (model: C02/Model.v; reference: C02/Spec.v; guards:
   C02/Guard.v; proofs: C02/BuildProofs.v, DecodeProofs.v, PromoteProofs.v,
   ReplyProofs.v).

   Full statement (kept visible): for EVERY schema, operation and reply
   document, whatever its presentation, the invocation returns the value the
   reference decoder assigns to the document's namespace infoset, and two
   documents with the same infoset decode alike.  This is FALSE of the faithful
   model of the unchanged code; it is proved below under explicit boolean
   guards, each of which excludes one named departure that is witnessed by a
   `_refuted` theorem (and replayed on the implementation by the harness):
     flags 1  a nil occurrence first in a repeating member   [C02:nil-first-in-repeating-member]
     flags 2  whitespace in a childless complex element      [C02:whitespace-in-childless-element]
     consistent  a prefix re-bound inside the document       [C02:prefix-rebinding-capture]
     qname_ok    an unprefixed xsi:type under another default namespace
                                                             [C02:unprefixed-qname-default-namespace]
     flags 5  an entirely empty element of complex type      [C02:empty-complex-element-as-empty-string]
     flags 6  an empty element of a built-in type, no xsi:nil [C02:empty-nillable-leaf-as-none]
   xsi:nil spelled "1" is recognised since the repair of C02:xsi-nil-spelled-1 (nil_ok only
   excludes spellings that are not xsd:boolean, such as "TRUE"); attributes declared by the
   response wrapper's type count as outputs (composite reply object) in the reference too.
     simple_ok   simple-content types extend a built-in that decodes to str: the text of an
                 element of complex type is never translated (flags 9) [C02:simple-content-value-untyped]
   The binding styles document/literal wrapped, document/literal bare and rpc/literal are all
   covered by reply_decodes (style_ok); leaves are compared by VALUE through the XSD value maps
   of C06 in the harness predicates ("1" = "true", "+5" = "05", "01.50" = "1.5"). *)
From SV Require Import Lib.Base Fam.Schema Gen.C02Tables C02.Model C02.Spec C02.Guard C02.BuildProofs
  C02.DecodeProofs C02.PromoteProofs C02.ReplyProofs.

(* 1. node level, by induction on the document: unbounded depth, width, list
   lengths.  Whatever the prefixes, default namespaces and declarations in
   scope (env), the unmarshaller returns the reference value of the element's
   namespace infoset. *)
Theorem decode_value : forall S names uris kinds globals simple,
  schema_ok S = true -> names_ok names = true -> kinds_ok kinds = true -> globals_ok S globals = true ->
  simple_ok simple = true ->
  forall e env dt nillable cnil x v,
    rtype_ok S dt ->
    erase env e = Some x ->
    doc_ok env e = true ->
    flags_node S names uris kinds simple dt nillable x = [] ->
    ref_node S names uris kinds simple dt nillable x = Some v ->
    decode S names uris kinds globals false true env (Some dt) cnil e = DOk v.
Proof.
  intros S names uris kinds globals simple H1 H2 H3 H4 H5 e.
  exact (decode_ref_l S names uris kinds globals simple H1 H2 H3 H4 H5 e).
Qed.
Print Assumptions decode_value.

(* 2. whole replies, for EVERY binding style (document/literal wrapped, document/
   literal bare, rpc/literal): envelope and body location for SOAP 1.1 and 1.2,
   promotePrefixes, reply content selection, and one output or many mapped to a
   single value (a list when it repeats) or a composite reply object *)
Theorem reply_decodes : forall S names uris kinds globals simple,
  schema_ok S = true -> names_ok names = true -> kinds_ok kinds = true -> globals_ok S globals = true ->
  simple_ok simple = true ->
  forall wq st raw root x v,
    style_ok S st = true ->
    build raw = [root] ->
    erase [] root = Some x ->
    consistent root = true -> no_xml_decl root = true ->
    doc_ok [] (promote_node root) = true ->
    bodies_ok x = true ->
    flags_reply S names uris kinds simple st x = [] ->
    ref_reply S names uris kinds simple wq st x = Some v ->
    reply S names uris kinds globals false true true st raw = DOk v.
Proof. exact reply_decodes_l. Qed.
Print Assumptions reply_decodes.

(* 2b. the style-independent core: what Binding.get_reply does with the returned
   types rts and the selected nodes meets the reference on the outputs ms *)
Theorem outputs_decode : forall S names uris kinds globals simple,
  schema_ok S = true -> names_ok names = true -> kinds_ok kinds = true -> globals_ok S globals = true ->
  simple_ok simple = true ->
  forall env rts ms hasattrs nodes inodes v,
    rnames_ok rts [] = true -> rts_rel rts ms hasattrs ->
    omap (erase env) nodes = Some inodes -> forallb (doc_ok env) nodes = true ->
    flags_outputs S names uris kinds simple ms inodes = [] ->
    ref_outputs S names uris kinds simple ms hasattrs inodes = Some v ->
    outputs S names uris kinds globals false true env rts nodes = DOk v.
Proof. exact outputs_ref. Qed.
Print Assumptions outputs_decode.

(* 3. two replies with the same infoset decode to equal results — for ALL
   presentations inside the guards, for every binding style *)
Theorem decode_presentation_independent : forall S names uris kinds globals simple,
  schema_ok S = true -> names_ok names = true -> kinds_ok kinds = true -> globals_ok S globals = true ->
  simple_ok simple = true ->
  forall wq st raw1 raw2 root1 root2 x v,
    style_ok S st = true ->
    build raw1 = [root1] -> build raw2 = [root2] ->
    erase [] root1 = Some x -> erase [] root2 = Some x ->
    consistent root1 = true -> no_xml_decl root1 = true -> doc_ok [] (promote_node root1) = true ->
    consistent root2 = true -> no_xml_decl root2 = true -> doc_ok [] (promote_node root2) = true ->
    bodies_ok x = true ->
    flags_reply S names uris kinds simple st x = [] ->
    ref_reply S names uris kinds simple wq st x = Some v ->
    reply S names uris kinds globals false true true st raw1 =
    reply S names uris kinds globals false true true st raw2.
Proof.
  intros S names uris kinds globals simple H1 H2 H3 H4 H5 wq st raw1 raw2 root1 root2 x v
         Hs B1 B2 E1 E2 C1 X1 D1 C2 X2 D2 Hb Hf Hr.
  rewrite (reply_decodes_l S names uris kinds globals simple H1 H2 H3 H4 H5 wq st raw1 root1 x v); auto.
  rewrite (reply_decodes_l S names uris kinds globals simple H1 H2 H3 H4 H5 wq st raw2 root2 x v); auto.
Qed.
Print Assumptions decode_presentation_independent.

(* 4. promotePrefixes keeps the infoset when prefixes are bound consistently *)
Theorem promote_preserves_infoset_partial : forall root x,
  consistent root = true -> no_xml_decl root = true ->
  erase [] root = Some x -> erase [] (promote_node root) = Some x.
Proof. exact promote_preserves_infoset_l. Qed.
Print Assumptions promote_preserves_infoset_partial.

(* 5. any split of character data by the parser (entity / character
   references, CDATA sections, comments in between) builds the same element *)
Theorem chars_chunking : forall q ats l1 l2,
  elems_of l1 = elems_of l2 ->
  concat (chunks_of l1) = concat (chunks_of l2) ->
  (chunks_of l1 = [] <-> chunks_of l2 = []) ->
  build (RElem q ats l1) = build (RElem q ats l2).
Proof. exact chars_chunking_l. Qed.
Print Assumptions chars_chunking.

(* 6. the Python type each XSD built-in decodes to (table regenerated from
   suds.xsd.sxbuiltin.Factory on every run) is the one the statement lists *)
Theorem builtin_tags_match_statement : forall k, (k < 46)%N -> tag_of_kind k = spec_tag k.
Proof. exact builtin_tags_match_statement_l. Qed.
Print Assumptions builtin_tags_match_statement.

(* ------------------------------------------------------------------ *)
(* a small interface for the witnesses                                 *)
(* ------------------------------------------------------------------ *)
Local Open Scope N_scope.
Definition u1 : str := [117;49]%N.
Definition u2 : str := [117;50]%N.
(* names: l c x k T D W r rResponse P cur p g1 g2 x1 opResponse; namespaces u1 u2 *)
Definition ex_names : list (str * N) :=
  [([108]%N, 20); ([99]%N, 21); ([120]%N, 22); ([107]%N, 30); ([84]%N, 10); ([68]%N, 11); ([87]%N, 12); ([114]%N, 40); ([114;82;101;115;112;111;110;115;101]%N, 41); ([80]%N, 13); ([99;117;114]%N, 31); ([112]%N, 23); ([103;49]%N, 42); ([103;50]%N, 43); ([120;49]%N, 44); ([111;112;82;101;115;112;111;110;115;101]%N, 45)].
Definition ex_uris : list (str * N) := [(u1, 1); (u2, 2); (uri_xsi, 100); (uri_env11, 101)].
Definition ex_kinds : list (N * N) := [(20, b_int); (22, b_string); (30, b_string); (31, b_string); (42, b_int); (44, b_int)].
Definition d_l : edecl := mkE 20 1 true TBuiltin true true true None.
Definition d_c : edecl := mkE 21 1 true (TNamed 1 10) true false true None.
Definition ex_T : ctype := mkC 10 1 None [PC KSeq false [PE d_l; PE d_c]] [mkA 30 false None].
Definition ex_D : ctype := mkC 11 2 (Some (1, 10)) [PC KSeq false [PE (mkE 22 2 true TBuiltin true false false None)]] [].
Definition ex_W : ctype := mkC 12 1 None [PC KSeq false [PE d_l; PE d_c]] [].
(* P: simple content (extends a built-in) with an attribute cur *)
Definition ex_P : ctype := mkC 13 1 None [] [mkA 31 false None].
Definition ex_schema : schema := [ex_T; ex_D; ex_W; ex_P].
Definition ex_simple : list (qn * N) := [((1, 13), b_string)].
Definition ex_simple_dec : list (qn * N) := [((1, 13), b_decimal)].
Definition ex_globals : list (qn * qn) := [((1, 41), (1, 12))].
Definition xsi_decl : str * str := ([120;115;105]%N, uri_xsi).

Example guards_of_the_interface :
  schema_ok ex_schema = true /\ names_ok ex_names = true /\ kinds_ok ex_kinds = true /\
  globals_ok ex_schema ex_globals = true /\ simple_ok ex_simple = true /\ simple_ok ex_simple_dec = false.
Proof. repeat split; vm_compute; reflexivity. Qed.

(* ---- non-vacuity: a SOAP 1.1 reply with a list (nil item last), a derived
   type selected by xsi:type, an attribute, chunked text; every hypothesis of
   reply_decodes holds and the value is the expected composite ---- *)
Definition ex_raw : ritem := (RElem [115;58;69;110;118;101;108;111;112;101]%N [([120;109;108;110;115;58;115]%N, uri_env11); ([120;109;108;110;115;58;120;115;105]%N, uri_xsi); ([120;109;108;110;115;58;97]%N, u1); ([120;109;108;110;115;58;98]%N, u2)] [(RElem [115;58;66;111;100;121]%N [] [(RElem [97;58;114;82;101;115;112;111;110;115;101]%N [] [(RChars [10;32;32]%N); (RElem [97;58;108]%N [] [(RChars [53]%N)]); (RElem [97;58;108]%N [([120;115;105;58;110;105;108]%N, [116;114;117;101]%N)] []); (RElem [97;58;99]%N [([120;115;105;58;116;121;112;101]%N, [98;58;68]%N); ([107]%N, [118]%N)] [(RElem [98;58;120]%N [] [(RChars [104]%N); (RChars [105]%N)])]); (RChars [10]%N)])])]).
Definition ex_value : pyval :=
  PObj None [([108]%N, PList [PLeaf tag_int [53]%N; PNone]);
             ([99]%N, PObj (Some (2, 11)) [(ch_us :: [107]%N, PLeaf tag_str [118]%N); ([120]%N, PLeaf tag_str [104;105]%N)])].

Example reply_decodes_nonvacuous :
  exists root x,
    build ex_raw = [root] /\ erase [] root = Some x /\
    style_ok ex_schema (SWrapped ex_W) = true /\
    consistent root = true /\ no_xml_decl root = true /\ doc_ok [] (promote_node root) = true /\
    bodies_ok x = true /\ flags_reply ex_schema ex_names ex_uris ex_kinds ex_simple (SWrapped ex_W) x = [] /\
    ref_reply ex_schema ex_names ex_uris ex_kinds ex_simple (1, 41) (SWrapped ex_W) x = Some ex_value /\
    reply ex_schema ex_names ex_uris ex_kinds ex_globals false true true (SWrapped ex_W) ex_raw = DOk ex_value.
Proof.
  eexists. eexists. split; [vm_compute; reflexivity|]. split; [vm_compute; reflexivity|].
  repeat split; vm_compute; reflexivity.
Qed.

(* ------------------------------------------------------------------ *)
(* the guards are needed: the unchanged code outside them              *)
(* ------------------------------------------------------------------ *)
(* <a xmlns:p="u1"><b><c xmlns:p="u2"/><p:d/></b></a>: the re-declaration on c is
   moved to b and captures the later sibling d *)
Definition capture_doc : elem :=
  EL None [97]%N None [([112]%N, u1)] [] None
     [EL None [98]%N None [] [] None
         [EL None [99]%N None [([112]%N, u2)] [] None [];
          EL (Some [112]%N) [100]%N None [] [] None []]].

Theorem promote_capture_refuted : exists root x,
  no_xml_decl root = true /\ erase [] root = Some x /\ erase [] (promote_node root) <> Some x.
Proof.
  exists capture_doc. eexists. split; [vm_compute; reflexivity|]. split; [vm_compute; reflexivity|].
  vm_compute. discriminate.
Qed.
Print Assumptions promote_capture_refuted.

(* <r xmlns="u1"><l xsi:nil="true"/><l>5</l></r> : [None, 5] expected, [5] returned *)
Definition nil_first_doc : elem :=
  EL None [114]%N (Some u1) [xsi_decl] [] None
     [EL None [108]%N None [] [(Some [120;115;105]%N, s_nil, s_true)] None [];
      EL None [108]%N None [] [] (Some [53]%N) []].

Theorem nil_first_refuted : exists e x v,
  erase [] e = Some x /\ doc_ok [] e = true /\
  ref_node ex_schema ex_names ex_uris ex_kinds ex_simple (RC ex_T) false x = Some v /\
  decode ex_schema ex_names ex_uris ex_kinds ex_globals false true [] (Some (RC ex_T)) false e <> DOk v /\
  flags_node ex_schema ex_names ex_uris ex_kinds ex_simple (RC ex_T) false x = [1].
Proof.
  exists nil_first_doc. eexists. eexists. split; [vm_compute; reflexivity|].
  split; [vm_compute; reflexivity|]. split; [vm_compute; reflexivity|].
  split; [vm_compute; discriminate|vm_compute; reflexivity].
Qed.
Print Assumptions nil_first_refuted.

(* <r xmlns="u1" k="v"> </r> : an object with _k expected, a property object
   with value=" " returned *)
Definition ws_childless_doc : elem :=
  EL None [114]%N (Some u1) [] [(None, [107]%N, [118]%N)] (Some [32]%N) [].

Theorem whitespace_childless_refuted : exists e x v,
  erase [] e = Some x /\ doc_ok [] e = true /\
  ref_node ex_schema ex_names ex_uris ex_kinds ex_simple (RC ex_T) false x = Some v /\
  decode ex_schema ex_names ex_uris ex_kinds ex_globals false true [] (Some (RC ex_T)) false e <> DOk v /\
  flags_node ex_schema ex_names ex_uris ex_kinds ex_simple (RC ex_T) false x = [2].
Proof.
  exists ws_childless_doc. eexists. eexists. split; [vm_compute; reflexivity|].
  split; [vm_compute; reflexivity|]. split; [vm_compute; reflexivity|].
  split; [vm_compute; discriminate|vm_compute; reflexivity].
Qed.
Print Assumptions whitespace_childless_refuted.

(* <p:r xmlns:p="u1" xmlns="u2" xsi:type="D" k="v"/> : D is {u2}D, the code looks for {u1}D,
   finds nothing and silently keeps the declared type *)
Definition unprefixed_qname_doc : elem :=
  EL (Some [112]%N) [114]%N (Some u2) [([112]%N, u1); xsi_decl] [(Some [120;115;105]%N, s_type, [68]%N); (None, [107]%N, [118]%N)] None [].

Theorem unprefixed_qname_refuted : exists e x v,
  erase [] e = Some x /\
  ref_node ex_schema ex_names ex_uris ex_kinds ex_simple (RC ex_T) false x = Some v /\
  flags_node ex_schema ex_names ex_uris ex_kinds ex_simple (RC ex_T) false x = [] /\
  decode ex_schema ex_names ex_uris ex_kinds ex_globals false true [] (Some (RC ex_T)) false e <> DOk v /\
  doc_ok [] e = false.
Proof.
  exists unprefixed_qname_doc. eexists. eexists. split; [vm_compute; reflexivity|].
  split; [vm_compute; reflexivity|]. split; [vm_compute; reflexivity|].
  split; [vm_compute; discriminate|vm_compute; reflexivity].
Qed.
Print Assumptions unprefixed_qname_refuted.

(* both xsd:boolean spellings of xsi:nil decode to None, also for a top-level
   node of complex type (cnil = false), as decode_value says (repaired defect
   C02:xsi-nil-spelled-1) *)
Definition nil_doc (v : str) : elem :=
  EL None [99]%N (Some u1) [xsi_decl] [(Some [120;115;105]%N, s_nil, v)] None [].

Example nil_both_spellings_none :
  doc_ok [] (nil_doc s_one) = true /\ doc_ok [] (nil_doc s_true) = true /\
  decode ex_schema ex_names ex_uris ex_kinds ex_globals false true [] (Some (RC ex_T)) false (nil_doc s_one)
    = DOk PNone /\
  decode ex_schema ex_names ex_uris ex_kinds ex_globals false true [] (Some (RC ex_T)) false (nil_doc s_true)
    = DOk PNone.
Proof. repeat split; vm_compute; reflexivity. Qed.

(* <c xmlns="u1"/> : an empty object of type T expected, '' returned (None when
   the declaration is nillable) *)
Definition empty_complex_doc : elem := EL None [99]%N (Some u1) [] [] None [].

Theorem empty_complex_refuted : exists e x v,
  erase [] e = Some x /\ doc_ok [] e = true /\
  ref_node ex_schema ex_names ex_uris ex_kinds ex_simple (RC ex_T) true x = Some v /\
  v = PObj (Some (1, 10)) [] /\
  decode ex_schema ex_names ex_uris ex_kinds ex_globals false true [] (Some (RC ex_T)) false e
    = DOk (PLeaf tag_str []) /\
  decode ex_schema ex_names ex_uris ex_kinds ex_globals false true [] (Some (RC ex_T)) true e = DOk PNone /\
  flags_node ex_schema ex_names ex_uris ex_kinds ex_simple (RC ex_T) true x = [5].
Proof.
  exists empty_complex_doc. eexists. eexists. split; [vm_compute; reflexivity|].
  split; [vm_compute; reflexivity|]. split; [vm_compute; reflexivity|].
  repeat split; vm_compute; reflexivity.
Qed.
Print Assumptions empty_complex_refuted.

(* <x xmlns="u2"></x> of type xsd:string : '' expected, None returned
   (Typed.nillable is true for every built-in type) *)
Definition empty_leaf_doc : elem := EL None [120]%N (Some u2) [] [] None [].

Theorem empty_leaf_refuted : exists e x,
  erase [] e = Some x /\ doc_ok [] e = true /\
  ref_node ex_schema ex_names ex_uris ex_kinds ex_simple (RB b_string) false x = Some (PLeaf tag_str []) /\
  decode ex_schema ex_names ex_uris ex_kinds ex_globals false true [] (Some (RB b_string)) true e = DOk PNone /\
  flags_node ex_schema ex_names ex_uris ex_kinds ex_simple (RB b_string) false x = [6].
Proof.
  exists empty_leaf_doc. eexists. split; [vm_compute; reflexivity|].
  repeat split; vm_compute; reflexivity.
Qed.
Print Assumptions empty_leaf_refuted.

(* ---- non-vacuity for the other binding styles ---- *)
(* document/literal bare, two output parts g1 (xsd:int, written "+05") and g2 (T): composite *)
Definition g1 : edecl := mkE 42 1 true TBuiltin false false false None.
Definition g2 : edecl := mkE 43 1 true (TNamed 1 10) false false false None.
Definition ex_bare_raw : ritem := (RElem [115;58;69;110;118;101;108;111;112;101]%N [([120;109;108;110;115;58;115]%N, uri_env11); ([120;109;108;110;115;58;97]%N, u1)] [(RElem [115;58;66;111;100;121]%N [] [(RChars [10]%N); (RElem [97;58;103;49]%N [] [(RChars [43]%N); (RChars [48;53]%N)]); (RElem [97;58;103;50]%N [([107]%N, [118]%N)] []); (RChars [10]%N)])]).
Definition ex_bare_value : pyval :=
  PObj None [([103;49]%N, PLeaf tag_int [43;48;53]%N); ([103;50]%N, PObj (Some (1, 10)) [(ch_us :: [107]%N, PLeaf tag_str [118]%N)])].

Example reply_decodes_bare_nonvacuous :
  exists root x,
    build ex_bare_raw = [root] /\ erase [] root = Some x /\
    style_ok ex_schema (SBare [g1; g2]) = true /\
    consistent root = true /\ no_xml_decl root = true /\ doc_ok [] (promote_node root) = true /\
    bodies_ok x = true /\ flags_reply ex_schema ex_names ex_uris ex_kinds ex_simple (SBare [g1; g2]) x = [] /\
    ref_reply ex_schema ex_names ex_uris ex_kinds ex_simple (0, 0) (SBare [g1; g2]) x = Some ex_bare_value /\
    reply ex_schema ex_names ex_uris ex_kinds ex_globals false true true (SBare [g1; g2]) ex_bare_raw
      = DOk ex_bare_value /\
    (* the harness compares leaves by value: "+05" is the integer 5 *)
    pyval_eqb ex_bare_value
      (PObj None [([103;50]%N, PObj (Some (1, 10)) [(ch_us :: [107]%N, PLeaf tag_str [118]%N)]); ([103;49]%N, PLeaf tag_int [53]%N)]) = true.
Proof.
  eexists. eexists. split; [vm_compute; reflexivity|]. split; [vm_compute; reflexivity|].
  repeat split; vm_compute; reflexivity.
Qed.

(* rpc/literal, one output part x1 (xsd:int), an unqualified accessor inside the
   response wrapper {u1}opResponse: the single value *)
Definition part_x1 : edecl := mkE 44 0 false TBuiltin true false false None.
Definition ex_rpc_raw : ritem := (RElem [115;58;69;110;118;101;108;111;112;101]%N [([120;109;108;110;115;58;115]%N, uri_env11); ([120;109;108;110;115;58;97]%N, u1)] [(RElem [115;58;66;111;100;121]%N [] [(RElem [97;58;111;112;82;101;115;112;111;110;115;101]%N [] [(RElem [120;49]%N [] [(RChars [53]%N)])])])]).

Example reply_decodes_rpc_nonvacuous :
  exists root x,
    build ex_rpc_raw = [root] /\ erase [] root = Some x /\
    style_ok ex_schema (SRpc [part_x1]) = true /\
    consistent root = true /\ no_xml_decl root = true /\ doc_ok [] (promote_node root) = true /\
    bodies_ok x = true /\ flags_reply ex_schema ex_names ex_uris ex_kinds ex_simple (SRpc [part_x1]) x = [] /\
    ref_reply ex_schema ex_names ex_uris ex_kinds ex_simple (1, 45) (SRpc [part_x1]) x = Some (PLeaf tag_int [53]%N) /\
    reply ex_schema ex_names ex_uris ex_kinds ex_globals false true true (SRpc [part_x1]) ex_rpc_raw
      = DOk (PLeaf tag_int [53]%N).
Proof.
  eexists. eexists. split; [vm_compute; reflexivity|]. split; [vm_compute; reflexivity|].
  repeat split; vm_compute; reflexivity.
Qed.

(* ---- simple content ---- *)
(* <p xmlns="u1" cur="EUR">12.5</p> and <p xmlns="u1">12.5</p> of type P: a property object
   with value + _cur, respectively the plain value; inside the guards (string base) *)
Definition simple_doc (ats : list attr) : elem := EL None [112]%N (Some u1) [] ats (Some [49;50;46;53]%N) [].

Example simple_content_nonvacuous :
  doc_ok [] (simple_doc [(None, [99;117;114]%N, [69;85;82]%N)]) = true /\
  ref_node ex_schema ex_names ex_uris ex_kinds ex_simple (RC ex_P) false
           (IN (Some u1) [112]%N [(None, [99;117;114]%N, IText [69;85;82]%N)] [49;50;46;53]%N [])
    = Some (PProp [112]%N [(s_value, PLeaf tag_str [49;50;46;53]%N); (ch_us :: [99;117;114]%N, PLeaf tag_str [69;85;82]%N)]) /\
  decode ex_schema ex_names ex_uris ex_kinds ex_globals false true [] (Some (RC ex_P)) false
         (simple_doc [(None, [99;117;114]%N, [69;85;82]%N)])
    = DOk (PProp [112]%N [(s_value, PLeaf tag_str [49;50;46;53]%N); (ch_us :: [99;117;114]%N, PLeaf tag_str [69;85;82]%N)]) /\
  decode ex_schema ex_names ex_uris ex_kinds ex_globals false true [] (Some (RC ex_P)) false (simple_doc [])
    = DOk (PLeaf tag_str [49;50;46;53]%N).
Proof. repeat split; vm_compute; reflexivity. Qed.

(* the same type extending xsd:decimal: a Decimal is expected, the text comes
   back as a str (the unmarshaller never translates the text of an element whose
   type is a complex type) *)
Theorem simple_content_untyped_refuted : exists e x,
  erase [] e = Some x /\ doc_ok [] e = true /\
  flags_node ex_schema ex_names ex_uris ex_kinds ex_simple_dec (RC ex_P) false x = [9] /\
  ref_node ex_schema ex_names ex_uris ex_kinds ex_simple_dec (RC ex_P) false x = Some (PLeaf tag_decimal [49;50;46;53]%N) /\
  decode ex_schema ex_names ex_uris ex_kinds ex_globals false true [] (Some (RC ex_P)) false e
    = DOk (PLeaf tag_str [49;50;46;53]%N).
Proof.
  exists (simple_doc []). eexists. split; [vm_compute; reflexivity|].
  repeat split; vm_compute; reflexivity.
Qed.
Print Assumptions simple_content_untyped_refuted.
