(* C02 — whole replies: Binding.get_reply (envelope/body location for SOAP 1.1
   and 1.2, promotePrefixes, unwrapping, single / list / composite result) meets
   ref_reply; presentation independence follows. *)
From SV Require Import Lib.Base Fam.Schema Gen.C02Tables C02.Model C02.Spec C02.Guard C02.BuildProofs
  C02.DecodeProofs C02.PromoteProofs.

Local Opaque uri_xsi uri_xml uri_env11 uri_env12 skip_uris builtin_names builtin_tags reserved_words.

Lemma env_ns_distinct : str_eqb uri_env11 uri_env12 = false.
Proof. vm_compute. reflexivity. Qed.

Lemma ostr_eqb_some a v : ostr_eqb a (Some v) = uri_is a v.
Proof. destruct a; reflexivity. Qed.

Lemma el_match_erase env e x name uri :
  erase env e = Some x -> el_match env e name uri = str_eqb (i_nm x) name && uri_is (i_u x) uri.
Proof.
  destruct e as [p nm xx d ats txt ks]. rewrite erase_is_body. unfold erase_body, el_match, elem_ns.
  cbn [e_nm e_pfx e_expns e_decls].
  destruct p as [q|].
  - destruct (resolve_prefix q ((xx, d) :: env)) as [u|]; [|discriminate].
    destruct (omap _ ats); [|discriminate]. destruct (omap _ ks); [|discriminate].
    intro H. inversion H. reflexivity.
  - destruct (omap _ ats); [|discriminate]. destruct (omap _ ks); [|discriminate].
    intro H. inversion H. reflexivity.
Qed.

Lemma find_erase env name uri : forall ks iks, omap (erase env) ks = Some iks ->
  match find (fun k => el_match env k name uri) ks with
  | Some k => exists ik, erase env k = Some ik /\
                         find (fun k => str_eqb (i_nm k) name && uri_is (i_u k) uri) iks = Some ik
  | None => find (fun k => str_eqb (i_nm k) name && uri_is (i_u k) uri) iks = None
  end.
Proof.
  induction ks as [|k r IH]; intros iks H; cbn in H.
  - inversion H. reflexivity.
  - destruct (erase env k) as [ik|] eqn:Ek; [|discriminate].
    destruct (omap (erase env) r) as [ir|] eqn:Er; [|discriminate]. inversion H; subst.
    cbn [find]. rewrite (el_match_erase _ _ _ name uri Ek).
    destruct (str_eqb (i_nm ik) name && uri_is (i_u ik) uri).
    + exists ik. split; [exact Ek|reflexivity].
    + apply IH. reflexivity.
Qed.

Lemma erase_kids env e x : erase env e = Some x ->
  omap (erase (frame_of e :: env)) (e_kids e) = Some (i_kids x).
Proof.
  destruct e as [p nm xx d ats txt ks]. rewrite erase_is_body. unfold erase_body, frame_of.
  cbn [e_expns e_decls e_kids].
  destruct (match p with Some q => _ | None => _ end); [|discriminate].
  destruct (omap _ ats); [|discriminate]. destruct (omap _ ks) as [iks|]; [|discriminate].
  intro H. inversion H. reflexivity.
Qed.

Lemma doc_ok_kids env e : doc_ok env e = true ->
  forallb (doc_ok (frame_of e :: env)) (e_kids e) = true.
Proof.
  destruct e as [p nm xx d ats txt ks]. rewrite doc_ok_unfold. unfold frame_of. cbn [e_expns e_decls e_kids].
  intro H. apply andb_true_iff in H as [_ H]. exact H.
Qed.

Section Reply.
Variables (S : schema) (names : list (str * N)) (uris : list (str * N)) (kinds : list (N * N))
          (globals : list (qn * qn)) (simple : list (qn * N)).
Hypothesis Hschema : schema_ok S = true.
Hypothesis Hnames : names_ok names = true.
Hypothesis Hkinds : kinds_ok kinds = true.
Hypothesis Hglobals : globals_ok S globals = true.
Hypothesis Hsimple : simple_ok simple = true.

Notation dec := (decode S names uris kinds globals false true).
Notation refn := (ref_node S names uris kinds simple).
Notation flg := (flags_node S names uris kinds simple).
Notation ptop := (process_top S names uris kinds globals false true).
Notation rtop := (ref_top S names uris kinds simple).

Definition conv (f : fchild) : rentry := match f with FE d _ _ => RE d | FAny _ => RAny end.

Lemma returned_types_elems wt : flat_attrs S wt = [] ->
  returned_types S wt = map conv (flat_elems S wt).
Proof.
  unfold returned_types, flat_attrs, flat_elems. fold conv. generalize (chain_of S wt).
  induction l as [|c l IH]; intro H; cbn in *; [reflexivity|].
  apply app_eq_nil in H as [H1 H2]. rewrite H1. cbn. rewrite app_nil_r, map_app. f_equal. now apply IH.
Qed.

Lemma members_conv : forall l ms, members l = Some ms -> map conv l = map RE ms.
Proof.
  induction l as [|f l IH]; intros ms H; cbn in H.
  - inversion H. reflexivity.
  - destruct f as [d a c|a]; [|discriminate].
    destruct (members l) as [ds|]; [|discriminate]. inversion H; subst. cbn. f_equal. now apply IH.
Qed.

Lemma members_find u nm : forall l ms d, members l = Some ms ->
  find (fun d => decl_matches names uris d u nm) ms = Some d ->
  exists a c, find (fun f => match f with FE d _ _ => decl_matches names uris d u nm | _ => false end) l
              = Some (FE d a c).
Proof.
  induction l as [|f l IH]; intros ms d H Hf; cbn in H.
  - inversion H; subst. discriminate.
  - destruct f as [d' a c|a]; [|discriminate].
    destruct (members l) as [ds|] eqn:Em; [|discriminate]. inversion H; subst. cbn in Hf. cbn [find].
    destruct (decl_matches names uris d' u nm).
    + inversion Hf; subst. eauto.
    + eapply IH; eauto.
Qed.

(* one top-level node *)
Lemma process_top_ref env d n inn v :
  erase env n = Some inn -> doc_ok env n = true ->
  (forall t, resolve_tref S kinds (e_name d) (e_type d) = Some t -> flg t (e_nil d) inn = []) ->
  rtop d inn = Some v -> ptop env d n = DOk v.
Proof.
  intros He Hd Hf Hr. unfold ref_top in Hr. unfold process_top.
  destruct (decl_matches names uris d (i_u inn) (i_nm inn)); [|discriminate].
  destruct (resolve_tref S kinds (e_name d) (e_type d)) as [t|] eqn:Et; [|discriminate].
  apply (decode_ref_l S names uris kinds globals simple Hschema Hnames Hkinds Hglobals Hsimple n env t (e_nil d) _ inn v);
    auto.
  eapply resolve_tref_ok; eauto.
Qed.

(* names of the outputs are distinct: the LAST entry with a name (what the
   dictionary of replycomposite keeps) is the only one *)
Lemma rfind_entry_unique : forall rts seen d acc,
  rnames_ok rts seen = true -> In (RE d) rts ->
  rfind_entry (e_name d) rts acc = Some (RE d).
Proof.
  assert (G2 : forall n l seen', rnames_ok l seen' = true -> In n seen' ->
                                 existsb (N.eqb n) (map re_name l) = false).
  { intros n. induction l as [|z l IHl]; intros seen' Hz Hs; [reflexivity|].
    assert (Hz' : negb (existsb (N.eqb (re_name z)) seen') && rnames_ok l (re_name z :: seen') = true)
      by (destruct z; [exact Hz|exact Hz|discriminate Hz]).
    apply andb_true_iff in Hz' as [Hz1 Hz2]. cbn. apply orb_false_iff. split.
    - apply negb_true_iff in Hz1. destruct (N.eqb n (re_name z)) eqn:E; [|reflexivity].
      apply N.eqb_eq in E. exfalso.
      assert (existsb (N.eqb (re_name z)) seen' = true)
        by (apply existsb_exists; exists (re_name z); split; [rewrite <- E; exact Hs|apply N.eqb_refl]).
      congruence.
    - apply (IHl (re_name z :: seen') Hz2). now right. }
  assert (G : forall n l acc', existsb (N.eqb n) (map re_name l) = false -> rfind_entry n l acc' = acc').
  { intros n. induction l as [|z l IHl]; intros acc' Hz; [reflexivity|]. cbn in Hz.
    apply orb_false_iff in Hz as [Hz1 Hz2]. cbn [rfind_entry].
    rewrite N.eqb_sym, Hz1. now apply IHl. }
  induction rts as [|m rts IH]; intros seen d acc Hok Hin; [destruct Hin|].
  assert (Hok' : negb (existsb (N.eqb (re_name m)) seen) && rnames_ok rts (re_name m :: seen) = true)
    by (destruct m; [exact Hok|exact Hok|discriminate Hok]).
  apply andb_true_iff in Hok' as [H1 H2]. cbn [rfind_entry].
  destruct Hin as [->|Hin].
  - cbn [re_name]. rewrite N.eqb_refl. apply G. apply (G2 _ rts (e_name d :: seen) H2). now left.
  - apply (IH (re_name m :: seen)); assumption.
Qed.

Lemma members_in : forall l ms d, members l = Some ms -> In d ms -> exists a c, In (FE d a c) l.
Proof.
  induction l as [|f l IH]; intros ms d H Hin; cbn in H.
  - inversion H; subst. destruct Hin.
  - destruct f as [d' a c|a]; [|discriminate].
    destruct (members l) as [ds|] eqn:Em; [|discriminate]. inversion H; subst.
    destruct Hin as [->|Hin]; [exists a, c; now left|].
    destruct (IH _ _ eq_refl Hin) as [a' [c' Hi]]. exists a', c'. now right.
Qed.

Lemma members_length : forall l ms, members l = Some ms -> length l = length ms.
Proof.
  induction l as [|f l IH]; intros ms H; cbn in H.
  - inversion H. reflexivity.
  - destruct f as [d' a c|a]; [|discriminate].
    destruct (members l) as [ds|] eqn:Em; [|discriminate]. inversion H; subst. cbn. f_equal. now apply IH.
Qed.

Lemma returned_types_in wt d a c : In (FE d a c) (flat_elems S wt) -> In (RE d) (returned_types S wt).
Proof.
  unfold flat_elems, returned_types. intro H. apply in_flat_map in H as [ct [Hc Hin]].
  apply in_flat_map. exists ct. split; [exact Hc|]. apply in_or_app. left.
  apply in_map_iff. exists (FE d a c). split; [reflexivity|exact Hin].
Qed.

Lemma returned_types_attr wt a : In a (flat_attrs S wt) -> In (RA a) (returned_types S wt).
Proof.
  unfold flat_attrs, returned_types. intro H. apply in_flat_map in H as [ct [Hc Hin]].
  apply in_flat_map. exists ct. split; [exact Hc|]. apply in_or_app. right. now apply in_map.
Qed.

Lemma members_fnames : forall l ms seen, members l = Some ms -> fnames_ok l seen = true ->
  fnames_ok (map (fun d => FE d false false) ms) seen = true.
Proof.
  induction l as [|f l IH]; intros ms seen H Hok; cbn in H.
  - inversion H. reflexivity.
  - destruct f as [d a c|a]; [|discriminate].
    destruct (members l) as [ds|] eqn:Em; [|discriminate]. inversion H; subst.
    cbn in Hok. apply andb_true_iff in Hok as [H1 H2]. cbn. rewrite H1. cbn. now apply IH.
Qed.

Lemma composite_ref env rts ms : rnames_ok rts [] = true -> (forall d, In d ms -> In (RE d) rts) ->
  forall nodes inodes data fields,
    omap (erase env) nodes = Some inodes ->
    forallb (doc_ok env) nodes = true ->
    (forall inn d t, In inn inodes -> find (fun d => decl_matches names uris d (i_u inn) (i_nm inn)) ms = Some d ->
                     resolve_tref S kinds (e_name d) (e_type d) = Some t -> flg t (e_nil d) inn = []) ->
    ref_composite S names uris kinds simple ms inodes data = Some fields ->
    composite S names uris kinds globals false true env rts nodes data = DOk (PObj None fields).
Proof.
  intros Hms Hsub. induction nodes as [|n r IH]; intros inodes data fields He Hd Hf Hr; cbn in He.
  - inversion He; subst. cbn in Hr. inversion Hr. reflexivity.
  - destruct (erase env n) as [inn|] eqn:En; [|discriminate].
    destruct (omap (erase env) r) as [ir|] eqn:Er; [|discriminate]. inversion He; subst.
    cbn in Hd. apply andb_true_iff in Hd as [Hdn Hdr]. cbn in Hr.
    destruct (find (fun d => decl_matches names uris d (i_u inn) (i_nm inn)) ms) as [d|] eqn:Efd; [|discriminate].
    destruct (rtop d inn) as [v|] eqn:Ert; [|discriminate].
    destruct (spec_store (i_nm inn) (e_multi d) v data) as [acc'|] eqn:Est; [|discriminate].
    pose proof (find_some _ _ Efd) as [Hin Hm].
    assert (Hnm : e_name d = nid names (e_nm n)).
    { unfold decl_matches in Hm. apply andb_true_iff in Hm as [Hm _]. apply andb_true_iff in Hm as [Hm _].
      apply N.eqb_eq in Hm. now rewrite <- (erase_nm _ _ _ En). }
    cbn [composite]. rewrite <- Hnm. rewrite (rfind_entry_unique rts [] d None Hms (Hsub _ Hin)).
    rewrite (process_top_ref env d n inn v En Hdn); [| |exact Ert].
    2:{ intros t Ht. apply (Hf inn d t); [now left|exact Efd|exact Ht]. }
    cbn [dbind]. rewrite <- (erase_nm _ _ _ En).
    assert (Hst : match sfind (i_nm inn) data with
                  | None | Some PNone => sset (i_nm inn) (if e_multi d then PList [v] else v) data
                  | Some (PList l) => sset (i_nm inn) (PList (l ++ [v])) data
                  | Some w => sset (i_nm inn) (PList [w; v]) data
                  end = acc').
    { unfold spec_store in Est. destruct (sfind (i_nm inn) data) as [w|].
      - destruct w; try discriminate. destruct (e_multi d); [|discriminate]. now inversion Est.
      - now inversion Est. }
    rewrite Hst. apply (IH ir acc' fields eq_refl Hdr); [|exact Hr].
    intros inn' d' t' Hin'. apply Hf. now right.
Qed.

Lemma find_none_other u (kids : list inode) uri :
  forallb (fun k => negb (str_eqb (i_nm k) s_Body) || ostr_eqb (i_u k) u) kids = true ->
  uri_is u uri = false ->
  find (fun k => str_eqb (i_nm k) s_Body && uri_is (i_u k) uri) kids = None.
Proof.
  intros H Hu. induction kids as [|k r IH]; [reflexivity|]. cbn in H.
  apply andb_true_iff in H as [H1 H2]. cbn [find].
  destruct (str_eqb (i_nm k) s_Body) eqn:En; cbn [negb orb andb] in *; [|now apply IH].
  apply ostr_eqb_true in H1. rewrite H1, Hu. now apply IH.
Qed.

(* what returned_types yields against the outputs the reference counts *)
Definition rts_rel (rts : list rentry) (ms : list edecl) (hasattrs : bool) : Prop :=
  if hasattrs then (forall d, In d ms -> In (RE d) rts) /\ (exists a, In (RA a) rts)
  else rts = map RE ms.

Lemma outputs_ref env rts ms hasattrs nodes inodes v :
  rnames_ok rts [] = true -> rts_rel rts ms hasattrs ->
  omap (erase env) nodes = Some inodes -> forallb (doc_ok env) nodes = true ->
  flags_outputs S names uris kinds simple ms inodes = [] ->
  ref_outputs S names uris kinds simple ms hasattrs inodes = Some v ->
  outputs S names uris kinds globals false true env rts nodes = DOk v.
Proof.
  intros Hrn Hrel Heks Hdks Hf Hr.
  assert (Hflag : forall inn d t, In inn inodes ->
                    find (fun d => decl_matches names uris d (i_u inn) (i_nm inn)) ms = Some d ->
                    resolve_tref S kinds (e_name d) (e_type d) = Some t -> flg t (e_nil d) inn = []).
  { intros inn d t Hin Hfd Ht. unfold flags_outputs in Hf. revert Hf Hin.
    generalize inodes. intro nl. induction nl as [|z nl IHl]; intros Hz Hi; [destruct Hi|].
    cbn in Hz. apply app_eq_nil in Hz as [Hz1 Hz2]. destruct Hi as [Hi|Hi].
    - subst z. now rewrite Hfd, Ht in Hz1.
    - now apply IHl. }
  assert (Hsub : forall d0, In d0 ms -> In (RE d0) rts).
  { unfold rts_rel in Hrel. destruct hasattrs; [exact (proj1 Hrel)|]. subst rts. intros d0 H0. now apply in_map. }
  assert (Hcompo : forall fields r1 r2 rest, rts = r1 :: r2 :: rest ->
             ref_composite S names uris kinds simple ms inodes [] = Some fields ->
             outputs S names uris kinds globals false true env rts nodes = DOk (PObj None fields)).
  { intros fields r1 r2 rest Ert Erc.
    pose proof (composite_ref env rts ms Hrn Hsub _ _ [] fields Heks Hdks Hflag Erc) as Hcomp.
    rewrite Ert in *. unfold outputs. destruct r1; exact Hcomp. }
  unfold ref_outputs in Hr. destruct hasattrs.
  - (* the wrapper's type has attributes: always the composite object *)
    destruct ms as [|d ms1]; [discriminate|].
    assert (Hr' : match ref_composite S names uris kinds simple (d :: ms1) inodes [] with
                  | Some fields => Some (PObj None fields)
                  | None => None
                  end = Some v) by (destruct ms1; exact Hr).
    destruct (ref_composite S names uris kinds simple (d :: ms1) inodes []) as [fields|] eqn:Erc; [|discriminate].
    inversion Hr'; subst v. destruct Hrel as [_ [a HinA]].
    destruct rts as [|r1 [|r2 rest]] eqn:Ert.
    + destruct HinA.
    + exfalso. destruct (Hsub d (or_introl eq_refl)) as [E1|[]]. destruct HinA as [E2|[]].
      rewrite E1 in E2. discriminate.
    + now apply (Hcompo fields r1 r2 rest).
  - unfold rts_rel in Hrel. destruct ms as [|d [|d2 ms2]].
    + subst rts. inversion Hr. reflexivity.
    + subst rts. unfold outputs. cbn [map]. destruct (e_multi d) eqn:Emul.
      * destruct (omap (rtop d) inodes) as [vl|] eqn:Eom; [|discriminate]. inversion Hr; subst v.
        assert (G : forall nds inds vl0, omap (erase env) nds = Some inds ->
                      forallb (doc_ok env) nds = true ->
                      (forall inn, In inn inds -> In inn inodes) ->
                      omap (rtop d) inds = Some vl0 ->
                      dmap (ptop env d) nds = DOk vl0).
        { induction nds as [|n r IHn]; intros inds l0 Hen Hdn Hsb Hon; cbn in Hen.
          - inversion Hen; subst. cbn in Hon. inversion Hon. reflexivity.
          - destruct (erase env n) as [inn|] eqn:En; [|discriminate].
            destruct (omap (erase env) r) as [ir|] eqn:Er; [|discriminate]. inversion Hen; subst.
            cbn in Hdn. apply andb_true_iff in Hdn as [Hdn1 Hdn2]. cbn in Hon.
            destruct (rtop d inn) as [v1|] eqn:Ev1; [|discriminate].
            destruct (omap (rtop d) ir) as [vs|] eqn:Evs; [|discriminate]. inversion Hon; subst.
            cbn [dmap]. rewrite (process_top_ref env d n inn v1 En Hdn1); [| |exact Ev1].
            2:{ intros t Ht. apply (Hflag inn d t); [apply Hsb; now left| |exact Ht].
                cbn [find]. unfold ref_top in Ev1.
                destruct (decl_matches names uris d (i_u inn) (i_nm inn)); [reflexivity|discriminate]. }
            cbn [dbind]. rewrite (IHn ir vs eq_refl Hdn2); [reflexivity| |exact Evs].
            intros z Hz. apply Hsb. now right. }
        rewrite (G _ _ _ Heks Hdks (fun _ H => H) Eom). reflexivity.
      * destruct inodes as [|inn [|inn2 irest]].
        -- assert (Hn0 : nodes = []) by (apply omap_length in Heks; destruct nodes; [reflexivity|discriminate]).
           subst nodes. inversion Hr. reflexivity.
        -- destruct nodes as [|n rest]; [discriminate|]. cbn in Heks. revert Heks.
           destruct (erase env n) as [inn'|] eqn:En; [|discriminate].
           destruct (omap (erase env) rest); [|discriminate]. intro Heks. inversion Heks; subst inn'.
           cbn in Hdks. apply andb_true_iff in Hdks as [Hdn _].
           apply (process_top_ref env d n inn v En Hdn); [|exact Hr].
           intros t Ht. apply (Hflag inn d t); [now left| |exact Ht].
           cbn [find]. unfold ref_top in Hr.
           destruct (decl_matches names uris d (i_u inn) (i_nm inn)); [reflexivity|discriminate].
        -- discriminate.
    + destruct (ref_composite S names uris kinds simple (d :: d2 :: ms2) inodes []) as [fields|] eqn:Erc;
        [|discriminate].
      inversion Hr; subst v. subst rts. now apply (Hcompo fields (RE d) (RE d2) (map RE ms2)).
Qed.

Lemma reply_decodes_l : forall wq st raw root x v,
  style_ok S st = true ->
  build raw = [root] ->
  erase [] root = Some x ->
  consistent root = true -> no_xml_decl root = true ->
  doc_ok [] (promote_node root) = true ->
  bodies_ok x = true ->
  flags_reply S names uris kinds simple st x = [] ->
  ref_reply S names uris kinds simple wq st x = Some v ->
  reply S names uris kinds globals false true true st raw = DOk v.
Proof.
  intros wq st raw root x v Hst Hb He Hc Hx Hd Hbo Hf Hr.
  unfold reply. rewrite Hb. unfold get_reply.
  pose proof (promote_preserves_infoset_l root x Hc Hx He) as Hep.
  destruct x as [u nm ias text iks]. unfold ref_reply in Hr.
  rewrite !(el_match_erase [] root _ _ _ He). cbn [i_nm i_u].
  destruct (str_eqb nm s_Envelope && (uri_is u uri_env11 || uri_is u uri_env12)) eqn:Eenv; [|discriminate].
  cbn [negb] in Hr.
  rewrite <- andb_orb_distrib_r, Eenv. cbn [negb].
  set (envl := promote_node root) in *.
  pose proof (erase_kids _ _ _ Hep) as Hek. cbn [i_kids] in Hek.
  pose proof (doc_ok_kids _ _ Hd) as Hdk.
  apply andb_true_iff in Eenv as [_ Eu].
  unfold flags_reply in Hf.
  unfold bodies_ok in Hbo. cbn [i_kids i_u] in Hbo.
  (* locate the Body *)
  assert (Hbody : exists body ibody,
             (match get_kid [frame_of envl] (e_kids envl) s_Body uri_env11 with
              | Some b => Some b
              | None => get_kid [frame_of envl] (e_kids envl) s_Body uri_env12
              end) = Some body /\
             erase [frame_of envl] body = Some ibody /\
             find (fun k => str_eqb (i_nm k) s_Body && ostr_eqb (i_u k) u) iks = Some ibody /\
             In body (e_kids envl)).
  { unfold get_kid.
    destruct (find (fun k => str_eqb (i_nm k) s_Body && ostr_eqb (i_u k) u) iks) as [ib|] eqn:Efb; [|discriminate].
    apply orb_true_iff in Eu as [Eu|Eu]; apply uri_is_true in Eu; subst u.
    - pose proof (find_erase [frame_of envl] s_Body uri_env11 _ _ Hek) as Hfe.
      destruct (find (fun k => el_match [frame_of envl] k s_Body uri_env11) (e_kids envl)) as [b|] eqn:Eb.
      + destruct Hfe as [ik [Hik Hfind]]. exists b, ik. split; [reflexivity|]. split; [exact Hik|].
        split; [|now apply find_some in Eb as [? _]].
        rewrite <- Hfind. rewrite <- Efb. apply f_equal2; [|reflexivity]. reflexivity.
      + exfalso. assert (E : find (fun k => str_eqb (i_nm k) s_Body && ostr_eqb (i_u k) (Some uri_env11)) iks
                             = find (fun k => str_eqb (i_nm k) s_Body && uri_is (i_u k) uri_env11) iks)
          by reflexivity.
        rewrite E, Hfe in Efb. discriminate.
    - pose proof (find_erase [frame_of envl] s_Body uri_env11 _ _ Hek) as Hfe1.
      assert (Hn1 : find (fun k => str_eqb (i_nm k) s_Body && uri_is (i_u k) uri_env11) iks = None).
      { apply (find_none_other (Some uri_env12)); [exact Hbo|].
        cbn. rewrite str_eqb_sym. apply env_ns_distinct. }
      destruct (find (fun k => el_match [frame_of envl] k s_Body uri_env11) (e_kids envl)) as [b|] eqn:Eb.
      { destruct Hfe1 as [ik [_ Hfind]]. rewrite Hn1 in Hfind. discriminate. }
      pose proof (find_erase [frame_of envl] s_Body uri_env12 _ _ Hek) as Hfe.
      destruct (find (fun k => el_match [frame_of envl] k s_Body uri_env12) (e_kids envl)) as [b|] eqn:Eb2.
      + destruct Hfe as [ik [Hik Hfind]]. exists b, ik. split; [reflexivity|]. split; [exact Hik|].
        split; [|now apply find_some in Eb2 as [? _]].
        rewrite <- Hfind. rewrite <- Efb. reflexivity.
      + exfalso. assert (E : find (fun k => str_eqb (i_nm k) s_Body && ostr_eqb (i_u k) (Some uri_env12)) iks
                             = find (fun k => str_eqb (i_nm k) s_Body && uri_is (i_u k) uri_env12) iks)
          by reflexivity.
        rewrite E, Hfe in Efb. discriminate. }
  destruct Hbody as [body [ibody [Hgk [Heb [Hfb Hinb]]]]].
  rewrite Hgk. rewrite Hfb in Hr, Hf.
  assert (Hdb : doc_ok [frame_of envl] body = true) by (rewrite forallb_forall in Hdk; now apply Hdk).
  pose proof (erase_kids _ _ _ Heb) as Hekb.
  pose proof (doc_ok_kids _ _ Hdb) as Hdkb.
  destruct st as [wt|parts|parts].
  - (* document/literal wrapped *)
    unfold style_ok in Hst. apply andb_true_iff in Hst as [Hwt Hrn].
    destruct (i_kids ibody) as [|w wr] eqn:Eib; [discriminate|].
    destruct (e_kids body) as [|kw kr] eqn:Ekb; [discriminate|].
    cbn in Hekb. revert Hekb.
    destruct (erase (frame_of body :: [frame_of envl]) kw) as [w'|] eqn:Ekw; [|discriminate].
    destruct (omap (erase (frame_of body :: [frame_of envl])) kr); [|discriminate].
    intro Hekb. inversion Hekb; subst w'. clear Hekb.
    cbn in Hdkb. apply andb_true_iff in Hdkb as [Hdw _].
    pose proof (erase_kids _ _ _ Ekw) as Heks.
    pose proof (doc_ok_kids _ _ Hdw) as Hdks.
    destruct (negb (qn_eqb (uid uris (i_u w), nid names (i_nm w)) wq)); [discriminate|].
    destruct (negb (all_space (i_text w))); [discriminate|].
    destruct (members (flat_elems S wt)) as [ms|] eqn:Ems; [|discriminate].
    apply (outputs_ref _ (returned_types S wt) ms (match flat_attrs S wt with [] => false | _ => true end)
                       _ (i_kids w) v Hrn); auto.
    unfold rts_rel. destruct (flat_attrs S wt) as [|a0 ar] eqn:Eat.
    + rewrite (returned_types_elems _ Eat). now apply members_conv.
    + split.
      * intros d0 Hin0. destruct (members_in _ _ _ Ems Hin0) as [a [c Hi]]. eapply returned_types_in; eauto.
      * exists a0. apply returned_types_attr. rewrite Eat. now left.
  - (* document/literal bare *)
    unfold style_ok in Hst.
    destruct (negb (all_space (i_text ibody))); [discriminate|].
    apply (outputs_ref _ (map RE parts) parts false _ (i_kids ibody) v Hst); auto. reflexivity.
  - (* rpc/literal *)
    unfold style_ok in Hst.
    destruct (i_kids ibody) as [|w wr] eqn:Eib; [discriminate|].
    destruct (e_kids body) as [|kw kr] eqn:Ekb; [discriminate|].
    cbn in Hekb. revert Hekb.
    destruct (erase (frame_of body :: [frame_of envl]) kw) as [w'|] eqn:Ekw; [|discriminate].
    destruct (omap (erase (frame_of body :: [frame_of envl])) kr); [|discriminate].
    intro Hekb. inversion Hekb; subst w'. clear Hekb.
    cbn in Hdkb. apply andb_true_iff in Hdkb as [Hdw _].
    pose proof (erase_kids _ _ _ Ekw) as Heks.
    pose proof (doc_ok_kids _ _ Hdw) as Hdks.
    destruct (negb (qn_eqb (uid uris (i_u w), nid names (i_nm w)) wq)); [discriminate|].
    destruct (negb (all_space (i_text w))); [discriminate|].
    apply (outputs_ref _ (map RE parts) parts false _ (i_kids w) v Hst); auto. reflexivity.
Qed.

End Reply.
