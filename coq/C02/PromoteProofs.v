(* C02 — Element.promotePrefixes preserves the namespace infoset of every
   document whose prefixes are bound consistently (each prefix to one
   namespace); without that guard it does not (Props.v: promote_capture_refuted). *)
From SV Require Import Lib.Base Fam.Schema Gen.C02Tables C02.Model C02.Spec C02.Guard C02.BuildProofs
  C02.DecodeProofs.

Local Opaque uri_xsi uri_xml uri_env11 uri_env12 skip_uris builtin_names builtin_tags reserved_words.

(* ------------------------------------------------------------------ *)
(* the infoset only depends on what the prefixes in use resolve to     *)
(* ------------------------------------------------------------------ *)
Definition env_le (e1 e2 : list frame) : Prop :=
  default_ns e1 = default_ns e2 /\
  forall q u, resolve_prefix q e1 = Some u -> resolve_prefix q e2 = Some u.

Lemma env_le_refl e : env_le e e.
Proof. split; auto. Qed.

Lemma env_le_cons x d e1 e2 : env_le e1 e2 -> env_le ((x, d) :: e1) ((x, d) :: e2).
Proof.
  intros [Hd Hr]. split.
  - cbn. destruct x; [reflexivity|exact Hd].
  - intros q u. cbn. destruct (sfind q d); [auto|]. destruct (str_eqb q s_xml); auto.
Qed.

Definition erase_body (env' : list frame) (p : option str) (nm : str) (ats : list attr)
           (txt : option str) (ks : list elem) : option inode :=
  match (match p with
         | Some q => match resolve_prefix q env' with Some u => Some (Some u) | None => None end
         | None => Some (default_ns env')
         end), omap (erase_attr env') ats, omap (erase env') ks with
  | Some u, Some ias, Some iks =>
      let t := match txt with Some t => t | None => [] end in
      Some (IN u nm ias (match iks with [] => t | _ => if all_space t then [] else t end) iks)
  | _, _, _ => None
  end.

Lemma erase_is_body env p nm x d ats txt ks :
  erase env (EL p nm x d ats txt ks) = erase_body ((x, d) :: env) p nm ats txt ks.
Proof. apply erase_unfold. Qed.

Lemma erase_attr_mono e1 e2 a ia : env_le e1 e2 -> erase_attr e1 a = Some ia -> erase_attr e2 a = Some ia.
Proof.
  intros [Hd Hr]. destruct a as [[pq an] av]. unfold erase_attr. cbn [fst snd].
  destruct pq as [q|]; [|auto].
  destruct (resolve_prefix q e1) as [u|] eqn:E; [|discriminate]. rewrite (Hr _ _ E).
  destruct (str_eqb u uri_xsi && str_eqb an s_type); [|auto].
  destruct (split_colon av) as [[tq|] tl].
  - destruct (resolve_prefix tq e1) as [tu|] eqn:E2; [|discriminate]. now rewrite (Hr _ _ E2).
  - now rewrite Hd.
Qed.

Lemma omap_mono {A B} (f g : A -> option B) l r :
  Forall (fun x => forall y, f x = Some y -> g x = Some y) l -> omap f l = Some r -> omap g l = Some r.
Proof.
  revert r. induction l as [|x l IH]; intros r HF H; cbn in *; [exact H|].
  inversion HF as [|? ? Hx Hl]; subst.
  destruct (f x) as [y|] eqn:E; [|discriminate]. rewrite (Hx _ eq_refl).
  destruct (omap f l) as [ys|]; [|discriminate]. now rewrite (IH _ Hl eq_refl).
Qed.

Lemma erase_body_mono_gen e1 e2 p nm ats txt ks x :
  env_le e1 e2 ->
  Forall (fun k => forall y, erase e1 k = Some y -> erase e2 k = Some y) ks ->
  erase_body e1 p nm ats txt ks = Some x -> erase_body e2 p nm ats txt ks = Some x.
Proof.
  intros Hle HF. unfold erase_body. destruct Hle as [Hd Hr].
  destruct (match p with Some q => _ | None => _ end) as [u|] eqn:Ep; [|discriminate].
  assert (Ep2 : match p with
                | Some q => match resolve_prefix q e2 with Some u => Some (Some u) | None => None end
                | None => Some (default_ns e2)
                end = Some u).
  { destruct p as [q|].
    - destruct (resolve_prefix q e1) as [w|] eqn:E; [|discriminate]. now rewrite (Hr _ _ E).
    - now rewrite <- Hd. }
  rewrite Ep2.
  destruct (omap (erase_attr e1) ats) as [ias|] eqn:Ea; [|discriminate].
  rewrite (omap_mono (erase_attr e1) (erase_attr e2) ats ias); [|
    apply Forall_forall; intros a _ y; apply erase_attr_mono; split; assumption | exact Ea].
  destruct (omap (erase e1) ks) as [iks|] eqn:Ek; [|discriminate].
  now rewrite (omap_mono _ _ _ _ HF Ek).
Qed.

Lemma erase_mono : forall e e1 e2 x, env_le e1 e2 -> erase e1 e = Some x -> erase e2 e = Some x.
Proof.
  apply (elem_ind' (fun e => forall e1 e2 x, env_le e1 e2 -> erase e1 e = Some x -> erase e2 e = Some x)).
  intros p n xx d a t ks HF e1 e2 x Hle. rewrite !erase_is_body.
  apply erase_body_mono_gen; [now apply env_le_cons|].
  apply Forall_forall. intros k Hk y. rewrite Forall_forall in HF. apply (HF k Hk). now apply env_le_cons.
Qed.

Lemma erase_body_mono e1 e2 p nm ats txt ks x :
  env_le e1 e2 -> erase_body e1 p nm ats txt ks = Some x -> erase_body e2 p nm ats txt ks = Some x.
Proof.
  intros Hle. apply erase_body_mono_gen; [exact Hle|].
  apply Forall_forall. intros k _ y. now apply erase_mono.
Qed.

(* ------------------------------------------------------------------ *)
(* promotePrefixes as a function                                       *)
(* ------------------------------------------------------------------ *)
Definition promote_kids (p : option str) :=
  fix go (ks : list elem) (d : list (str * str)) : list elem * list (str * str) :=
    match ks with
    | [] => ([], d)
    | k :: r =>
        match promote_node k with
        | EL kp kn kx kd ka kt kks =>
            let '(keep, d2) := push_up p kd d in
            let '(r', d3) := go r d2 in
            (EL kp kn kx keep ka kt kks :: r', d3)
        end
    end.

Lemma promote_unfold p n x d a t ks :
  promote_node (EL p n x d a t ks) =
  let '(ks', d') := promote_kids p ks d in EL p n x d' a t ks'.
Proof. reflexivity. Qed.

Lemma sfind_app_l {A} q (l1 l2 : list (str * A)) :
  sfind q l1 <> None -> sfind q (l1 ++ l2) = sfind q l1.
Proof.
  induction l1 as [|[k v] l1 IH]; cbn; [congruence|].
  destruct (str_eqb q k); auto.
Qed.

Lemma sfind_app_def {A} q (l1 l2 : list (str * A)) :
  sfind q (l1 ++ l2) <> None <-> sfind q l1 <> None \/ sfind q l2 <> None.
Proof.
  induction l1 as [|[k v] l1 IH]; cbn.
  - split; [auto|]. intros [H|H]; [congruence|exact H].
  - destruct (str_eqb q k); [|exact IH]. split; [left|]; discriminate.
Qed.

Lemma sfind_some_in {A} q (l : list (str * A)) v : sfind q l = Some v -> exists q', In (q', v) l /\ q = q'.
Proof.
  induction l as [|[k w] l IH]; cbn; [discriminate|].
  destruct (str_eqb q k) eqn:E; intro H.
  - inversion H; subst. apply str_eqb_true in E. exists k. split; [now left|exact E].
  - destruct (IH H) as [q' [Hin Hq]]. exists q'. split; [now right|exact Hq].
Qed.

(* push_up: the parent's declarations only grow (by declarations of the
   child); every prefix the child declared is still declared by the child or
   by the parent *)
Lemma push_up_facts pp : forall own pd keep pd',
  push_up pp own pd = (keep, pd') ->
  (exists ext, pd' = pd ++ ext /\ incl ext own) /\
  incl keep own /\
  (forall q, sfind q own <> None -> sfind q keep <> None \/ sfind q pd' <> None).
Proof.
  induction own as [|[p u] r IH]; intros pd keep pd' H; cbn in H.
  - injection H as <- <-. split; [exists []; split; [now rewrite app_nil_r|intros ? []]|].
    split; [intros ? []|]. intros q Hq. cbn in Hq. congruence.
  - destruct (sfind p pd) as [pu|] eqn:Ep.
    + destruct (push_up pp r pd) as [keep0 pd0] eqn:Er.
      destruct (IH _ _ _ Er) as [[ext [Hext Hinc]] [Hk Hq]].
      assert (Hpd : pd0 = pd') by (destruct (str_eqb pu u); now inversion H).
      assert (Hkp : keep = keep0 \/ keep = (p, u) :: keep0) by (destruct (str_eqb pu u); inversion H; auto).
      rewrite Hpd in Hext, Hq. clear H Hpd Er.
      split; [exists ext; split; [exact Hext|intros z Hz; right; now apply Hinc]|].
      split.
      * destruct Hkp as [-> | ->].
        -- intros z Hz. right. now apply Hk.
        -- intros z [Hz|Hz]; [now left|right; now apply Hk].
      * intros q Hqo. cbn in Hqo. destruct (str_eqb q p) eqn:Eqp.
        -- apply str_eqb_true in Eqp. rewrite Eqp. right. rewrite Hext, sfind_app_l; rewrite Ep; discriminate.
        -- destruct (Hq q Hqo) as [H1|H1]; [|now right]. left.
           destruct Hkp as [-> | ->]; [exact H1|]. cbn. now rewrite Eqp.
    + match type of H with (if ?c then _ else _) = _ => destruct c end.
      * destruct (IH _ _ _ H) as [[ext [Hext Hinc]] [Hk Hq]].
        split; [exists ((p, u) :: ext); split; [now rewrite Hext, <- app_assoc|]|].
        { intros z [Hz|Hz]; [now left|right; now apply Hinc]. }
        split; [intros z Hz; right; now apply Hk|].
        intros q Hqo. cbn in Hqo. destruct (str_eqb q p) eqn:Eqp.
        -- apply str_eqb_true in Eqp. rewrite Eqp. right. rewrite Hext. apply sfind_app_def. left.
           apply sfind_app_def. right. cbn. rewrite str_eqb_refl. discriminate.
        -- exact (Hq q Hqo).
      * destruct (push_up pp r pd) as [keep0 pd0] eqn:Er.
        destruct (IH _ _ _ Er) as [[ext [Hext Hinc]] [Hk Hq]]. injection H as <- <-.
        split; [exists ext; split; [exact Hext|intros z Hz; right; now apply Hinc]|].
        split; [intros z [Hz|Hz]; [now left|right; now apply Hk]|].
        intros q Hqo. cbn in Hqo. cbn. destruct (str_eqb q p); [left; discriminate|exact (Hq q Hqo)].
Qed.

(* promotePrefixes only moves or drops declarations *)
Lemma all_decls_unfold p n x d a t ks :
  all_decls (EL p n x d a t ks) = d ++ flat_map all_decls ks.
Proof.
  reflexivity.
Qed.

Definition Q (e : elem) : Prop := incl (all_decls (promote_node e)) (all_decls e).

Lemma promote_kids_decls p : forall ks d ks' d',
  Forall Q ks -> promote_kids p ks d = (ks', d') ->
  incl (d' ++ flat_map all_decls ks') (d ++ flat_map all_decls ks).
Proof.
  induction ks as [|k r IH]; intros d ks' d' HQ H; cbn in H.
  - inversion H; subst. apply incl_refl.
  - inversion HQ as [|? ? Hk Hr]; subst. unfold Q in Hk.
    destruct (promote_node k) as [kp kn kx kd ka kt kks] eqn:Ek.
    destruct (push_up p kd d) as [keep d2] eqn:Ep.
    destruct (promote_kids p r d2) as [r' d3] eqn:Er. inversion H; subst.
    specialize (IH _ _ _ Hr Er).
    destruct (push_up_facts _ _ _ _ _ Ep) as [[ext [Hext Hinc]] [Hkeep _]].
    rewrite all_decls_unfold in Hk.
    cbn [flat_map]. rewrite all_decls_unfold.
    intros z Hz. apply in_app_or in Hz as [Hz|Hz].
    + assert (Hz' : In z (d2 ++ flat_map all_decls r)) by (apply IH; apply in_or_app; now left).
      apply in_app_or in Hz' as [Hz'|Hz'].
      * subst d2. apply in_app_or in Hz' as [Hz'|Hz']; [apply in_or_app; now left|].
        apply in_or_app. right. apply in_or_app. left. apply Hk. apply in_or_app. left. now apply Hinc.
      * apply in_or_app. right. apply in_or_app. now right.
    + apply in_app_or in Hz as [Hz|Hz].
      * apply in_or_app. right. apply in_or_app. left. apply Hk.
        apply in_app_or in Hz as [Hz|Hz]; apply in_or_app; [left; now apply Hkeep|now right].
      * assert (Hz' : In z (d2 ++ flat_map all_decls r)) by (apply IH; apply in_or_app; now right).
        apply in_app_or in Hz' as [Hz'|Hz'].
        -- subst d2. apply in_app_or in Hz' as [Hz'|Hz']; [apply in_or_app; now left|].
           apply in_or_app. right. apply in_or_app. left. apply Hk. apply in_or_app. left. now apply Hinc.
        -- apply in_or_app. right. apply in_or_app. now right.
Qed.

Lemma promote_decls : forall e, Q e.
Proof.
  apply elem_ind'. intros p n x d a t ks HF. unfold Q. rewrite promote_unfold.
  destruct (promote_kids p ks d) as [ks' d'] eqn:E. rewrite !all_decls_unfold.
  eapply promote_kids_decls; eauto.
Qed.

(* ------------------------------------------------------------------ *)
(* consistent bindings                                                 *)
(* ------------------------------------------------------------------ *)
Section Consistent.
Variable M : list (str * str).
Hypothesis Mfun : forall q u u', In (q, u) M -> In (q, u') M -> u = u'.
Hypothesis Mxml : forall u, ~ In (s_xml, u) M.

Definition env_in (env : list frame) : Prop := Forall (fun fr => incl (snd fr) M) env.

Lemma resolve_in : forall env q u, env_in env -> resolve_prefix q env = Some u ->
  In (q, u) M \/ (q = s_xml /\ u = uri_xml).
Proof.
  induction env as [|[x d] env IH]; intros q u Hin H; cbn in H; [discriminate|].
  inversion Hin as [|? ? Hd He]; subst. cbn in Hd.
  destruct (sfind q d) as [w|] eqn:E.
  - inversion H; subst. left. apply sfind_some_in in E as [q' [Hi Hq]]. subst q'. now apply Hd.
  - destruct (str_eqb q s_xml) eqn:Ex.
    + inversion H; subst. right. apply str_eqb_true in Ex. now split.
    + now apply IH.
Qed.

Definition dom_le (e1 e2 : list frame) : Prop :=
  default_ns e1 = default_ns e2 /\
  forall q, resolve_prefix q e1 <> None -> resolve_prefix q e2 <> None.

Lemma dom_le_env_le e1 e2 : env_in e1 -> env_in e2 -> dom_le e1 e2 -> env_le e1 e2.
Proof.
  intros H1 H2 [Hd Hq]. split; [exact Hd|]. intros q u E.
  destruct (resolve_prefix q e2) as [u'|] eqn:E2.
  - f_equal. destruct (resolve_in _ _ _ H1 E) as [A|[A1 A2]], (resolve_in _ _ _ H2 E2) as [B|[B1 B2]].
    + symmetry. eapply Mfun; eauto.
    + subst. exfalso. eapply Mxml; eauto.
    + subst. exfalso. eapply Mxml; eauto.
    + now subst.
  - exfalso. apply (Hq q); [rewrite E; discriminate|exact E2].
Qed.

Lemma resolve_cons_def q x d env :
  resolve_prefix q ((x, d) :: env) <> None <->
  sfind q d <> None \/ str_eqb q s_xml = true \/ resolve_prefix q env <> None.
Proof.
  cbn. destruct (sfind q d); [split; [left|]; discriminate|].
  destruct (str_eqb q s_xml); [split; [right; left; reflexivity|discriminate]|].
  split; [auto|]. intros [H|[H|H]]; [congruence|discriminate|exact H].
Qed.

Definition R (e : elem) : Prop :=
  forall e1 e2 x, incl (all_decls e) M -> env_in e1 -> env_in e2 -> dom_le e1 e2 ->
                  erase e1 e = Some x -> erase e2 (promote_node e) = Some x.

Lemma promote_kids_erase p xx d e1 e2 : env_in e1 -> env_in e2 -> dom_le e1 e2 -> incl d M ->
  forall ks dcur ks' dfin iks,
    Forall R ks -> incl (flat_map all_decls ks) M -> incl dcur M ->
    (forall q, sfind q d <> None -> sfind q dcur <> None) ->
    promote_kids p ks dcur = (ks', dfin) ->
    omap (erase ((xx, d) :: e1)) ks = Some iks ->
    (exists ext, dfin = dcur ++ ext /\ incl ext M) /\
    forall more, incl more M -> omap (erase ((xx, dfin ++ more) :: e2)) ks' = Some iks.
Proof.
  intros H1 H2 Hle HdM.
  induction ks as [|k r IH]; intros dcur ks' dfin iks HR HM Hcur Hdom Hp He; cbn in Hp, He.
  - inversion Hp; subst. inversion He; subst. split; [exists []; split; [now rewrite app_nil_r|intros ? []]|].
    reflexivity.
  - inversion HR as [|? ? Rk Rr]; subst.
    destruct (promote_node k) as [kp kn kx kd ka kt kks] eqn:Ek.
    destruct (push_up p kd dcur) as [keep d2] eqn:Epu.
    destruct (promote_kids p r d2) as [r' d3] eqn:Er. inversion Hp; subst.
    destruct (erase ((xx, d) :: e1) k) as [ik|] eqn:Eek; [|discriminate].
    destruct (omap (erase ((xx, d) :: e1)) r) as [ir|] eqn:Eer; [|discriminate].
    inversion He; subst.
    cbn [flat_map] in HM.
    assert (HkM : incl (all_decls k) M) by (intros z Hz; apply HM; apply in_or_app; now left).
    assert (HrM : incl (flat_map all_decls r) M) by (intros z Hz; apply HM; apply in_or_app; now right).
    destruct (push_up_facts _ _ _ _ _ Epu) as [[ext [Hext Hinc]] [Hkeep Hq]].
    pose proof (promote_decls k) as Qk. unfold Q in Qk. rewrite Ek, all_decls_unfold in Qk.
    assert (HkdM : incl kd M) by (intros z Hz; apply HkM, Qk; apply in_or_app; now left).
    assert (Hd2M : incl d2 M).
    { subst d2. intros z Hz. apply in_app_or in Hz as [Hz|Hz]; [now apply Hcur|]. apply HkdM. now apply Hinc. }
    assert (Hdom2 : forall q, sfind q d <> None -> sfind q d2 <> None).
    { intros q Hqd. subst d2. apply sfind_app_def. left. now apply Hdom. }
    destruct (IH d2 r' dfin ir Rr HrM Hd2M Hdom2 Er eq_refl) as [[ext2 [Hext2 Hinc2]] Hrest].
    split.
    { exists (ext ++ ext2). split; [subst; now rewrite app_assoc|].
      intros z Hz. apply in_app_or in Hz as [Hz|Hz]; [apply HkdM; now apply Hinc|now apply Hinc2]. }
    intros more Hmore. cbn [omap]. rewrite (Hrest more Hmore).
    (* the promoted child, with its remaining declarations *)
    assert (Henv1 : env_in ((xx, d) :: e1)) by (constructor; [exact HdM|exact H1]).
    assert (Hk1 : erase ((xx, d) :: e1) (EL kp kn kx kd ka kt kks) = Some ik).
    { rewrite <- Ek. apply (Rk _ _ _ HkM Henv1 Henv1); [split; auto|exact Eek]. }
    rewrite erase_is_body in Hk1. rewrite erase_is_body.
    assert (Hle2 : env_le ((kx, kd) :: (xx, d) :: e1) ((kx, keep) :: (xx, dfin ++ more) :: e2));
      [|now rewrite (erase_body_mono _ _ _ _ _ _ _ _ Hle2 Hk1)].
    apply dom_le_env_le.
    + constructor; [exact HkdM|exact Henv1].
    + constructor; [intros z Hz; apply HkdM; now apply Hkeep|].
      constructor; [|exact H2]. cbn.
      intros z Hz. apply in_app_or in Hz as [Hz|Hz]; [|now apply Hmore].
      subst dfin. apply in_app_or in Hz as [Hz|Hz]; [now apply Hd2M|now apply Hinc2].
    + destruct Hle as [Hdef Hres]. split.
      * cbn. destruct kx; [reflexivity|]. destruct xx; [reflexivity|exact Hdef].
      * intros q Hqd. apply resolve_cons_def in Hqd as [Hqd|[Hqd|Hqd]].
        -- destruct (Hq q Hqd) as [A|A].
           ++ apply resolve_cons_def. now left.
           ++ apply resolve_cons_def. right. right. apply resolve_cons_def. left.
              apply sfind_app_def. left. subst dfin. apply sfind_app_def. now left.
        -- apply resolve_cons_def. right. now left.
        -- apply resolve_cons_def. right. right.
           apply resolve_cons_def in Hqd as [Hqd|[Hqd|Hqd]]; apply resolve_cons_def.
           ++ left. apply sfind_app_def. left. subst dfin. apply sfind_app_def. left. now apply Hdom2.
           ++ right. now left.
           ++ right. right. now apply Hres.
Qed.

Lemma promote_erase_l : forall e, R e.
Proof.
  apply elem_ind'. intros p n xx d a t ks HF e1 e2 x HM H1 H2 Hle He.
  rewrite promote_unfold. destruct (promote_kids p ks d) as [ks' d'] eqn:Ep.
  rewrite all_decls_unfold in HM.
  assert (HdM : incl d M) by (intros z Hz; apply HM; apply in_or_app; now left).
  assert (HkM : incl (flat_map all_decls ks) M) by (intros z Hz; apply HM; apply in_or_app; now right).
  rewrite erase_is_body in He. rewrite erase_is_body. unfold erase_body in He.
  destruct (match p with Some q => _ | None => _ end) as [u|] eqn:Epf; [|discriminate].
  destruct (omap (erase_attr ((xx, d) :: e1)) a) as [ias|] eqn:Ea; [|discriminate].
  destruct (omap (erase ((xx, d) :: e1)) ks) as [iks|] eqn:Ek; [|discriminate].
  destruct (promote_kids_erase p xx d e1 e2 H1 H2 Hle HdM ks d ks' d' iks HF HkM HdM (fun q H => H) Ep Ek)
    as [[ext [Hext Hinc]] Hkids].
  specialize (Hkids [] (fun z (Hz : In z []) => match Hz with end)). rewrite app_nil_r in Hkids.
  assert (Hle' : env_le ((xx, d) :: e1) ((xx, d') :: e2)).
  { apply dom_le_env_le.
    - constructor; [exact HdM|exact H1].
    - constructor; [|exact H2]. cbn. subst d'. intros z Hz.
      apply in_app_or in Hz as [Hz|Hz]; [now apply HdM|now apply Hinc].
    - destruct Hle as [Hdef Hres]. split.
      + cbn. destruct xx; [reflexivity|exact Hdef].
      + intros q Hq. apply resolve_cons_def in Hq as [Hq|[Hq|Hq]]; apply resolve_cons_def.
        * left. subst d'. apply sfind_app_def. now left.
        * right. now left.
        * right. right. now apply Hres. }
  unfold erase_body. destruct Hle' as [Hd' Hr'].
  assert (Epf2 : match p with
                 | Some q => match resolve_prefix q ((xx, d') :: e2) with Some u => Some (Some u) | None => None end
                 | None => Some (default_ns ((xx, d') :: e2))
                 end = Some u).
  { destruct p as [q|].
    - destruct (resolve_prefix q ((xx, d) :: e1)) as [w|] eqn:E; [|discriminate]. now rewrite (Hr' _ _ E).
    - now rewrite <- Hd'. }
  rewrite Epf2.
  rewrite (omap_mono (erase_attr ((xx, d) :: e1)) (erase_attr ((xx, d') :: e2)) a ias); [|
    apply Forall_forall; intros z _ y; apply erase_attr_mono; split; assumption | exact Ea].
  rewrite Hkids. exact He.
Qed.

End Consistent.

(* the boolean guard gives the map *)
Lemma functional_b_spec l : functional_b l = true ->
  forall q u u', In (q, u) l -> In (q, u') l -> u = u'.
Proof.
  unfold functional_b. intros H q u u' H1 H2. rewrite forallb_forall in H.
  specialize (H _ H1). rewrite forallb_forall in H. specialize (H _ H2). cbn in H.
  rewrite str_eqb_refl in H. cbn in H. now apply str_eqb_true in H.
Qed.

Lemma promote_preserves_infoset_l : forall root x,
  consistent root = true -> no_xml_decl root = true ->
  erase [] root = Some x -> erase [] (promote_node root) = Some x.
Proof.
  intros root x Hc Hx He.
  apply (promote_erase_l (all_decls root) (functional_b_spec _ Hc)) with (e1 := []).
  - intros u Hin. unfold no_xml_decl in Hx. rewrite forallb_forall in Hx. specialize (Hx _ Hin).
    cbn [fst] in Hx. rewrite str_eqb_refl in Hx. discriminate.
  - apply incl_refl.
  - constructor.
  - constructor.
  - split; auto.
  - exact He.
Qed.
